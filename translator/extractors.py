"""extractors: each returns Lean source lines for Generated.lean"""
import ast, os

def _src(repo, rel):
    return ast.parse(open(os.path.join(repo, rel)).read())

def _find_func(tree, cls, name):
    for n in ast.walk(tree):
        if isinstance(n, ast.ClassDef) and n.name == cls:
            for m in n.body:
                if isinstance(m, ast.FunctionDef) and m.name == name:
                    return m
    for n in ast.walk(tree):
        if isinstance(n, ast.FunctionDef) and n.name == name and cls is None:
            return n
    return None

def _rat_of_float_literal(s):
    from fractions import Fraction
    return Fraction(s)

def valid_cpd_atol(repo):
    """atol literal of DiscreteFactor.is_valid_cpd (C05)"""
    t = _src(repo, "pgmpy/factors/discrete/DiscreteFactor.py")
    fn = _find_func(t, "DiscreteFactor", "is_valid_cpd")
    atol = None
    if fn is not None:
        for n in ast.walk(fn):
            if isinstance(n, ast.keyword) and n.arg == "atol" and isinstance(n.value, ast.Constant):
                atol = repr(n.value.value)
    if atol is None:
        return ["/-- atol literal not found in is_valid_cpd -/", "def validCpdAtol : Option (Nat × Nat) := none", ""]
    fr = _rat_of_float_literal(atol)
    return [f"/-- `atol={atol}` in DiscreteFactor.is_valid_cpd -/",
            f"def validCpdAtol : Option (Nat × Nat) := some ({fr.numerator}, {fr.denominator})", ""]

def eq_atol(repo):
    t = _src(repo, "pgmpy/factors/discrete/DiscreteFactor.py")
    fn = _find_func(t, "DiscreteFactor", "__eq__")
    val = None
    if fn is not None and fn.args.defaults:
        d = fn.args.defaults[-1]
        if isinstance(d, ast.Constant):
            val = repr(d.value)
    if val is None:
        return ["def eqAtol : Option (Nat × Nat) := none", ""]
    fr = _rat_of_float_literal(val)
    return [f"/-- default `atol={val}` of DiscreteFactor.__eq__ -/",
            f"def eqAtol : Option (Nat × Nat) := some ({fr.numerator}, {fr.denominator})", ""]

def ci_lambda_table(repo):
    """lambda_ argument that each named wrapper in CITests.py hands to power_divergence (C19)"""
    t = _src(repo, "pgmpy/estimators/CITests.py")
    table = []
    for fn in t.body:
        if isinstance(fn, ast.FunctionDef) and fn.name in ("chi_square", "g_sq", "log_likelihood", "modified_log_likelihood"):
            lam = None
            for n in ast.walk(fn):
                if isinstance(n, ast.Call) and getattr(n.func, "id", None) == "power_divergence":
                    for k in n.keywords:
                        if k.arg == "lambda_" and isinstance(k.value, ast.Constant):
                            lam = k.value.value
            table.append((fn.name, lam))
    table.sort()
    items = ", ".join(f'("{a}", "{b}")' for a, b in table)
    return ["/-- wrapper name ↦ lambda_ literal passed to power_divergence in CITests.py -/",
            f"def ciLambdaTable : List (String × String) := [{items}]", ""]


def _kw_int_in_func(repo, rel, cls, func, callee, kw):
    """integer literal of keyword `kw` in the call `callee(...)` inside cls.func"""
    t = _src(repo, rel)
    fn = _find_func(t, cls, func)
    if fn is None:
        return None
    for n in ast.walk(fn):
        if isinstance(n, ast.Call):
            name = getattr(n.func, "attr", None) or getattr(n.func, "id", None)
            if name == callee:
                for k in n.keywords:
                    if k.arg == kw and isinstance(k.value, ast.Constant) and isinstance(k.value.value, int):
                        return k.value.value
    return None

def _opt_nat(name, doc, val):
    return [f"/-- {doc} -/", f"def {name} : Option Nat := " + ("none" if val is None else f"some {val}"), ""]

def net_decimals(repo):
    """number of decimals NETWriter keeps when it prints a table (C09: the 5e-5 round-trip bound)"""
    v = _kw_int_in_func(repo, "pgmpy/readwrite/NET.py", "NETWriter", "net_cpd", "to_numpy", "decimals")
    return _opt_nat("netDecimals", "`decimals=` in NETWriter.net_cpd", v)

def lg_round_decimals(repo):
    """decimals to which to_joint_gaussian rounds mean and covariance (C20 tolerance model)"""
    t = _src(repo, "pgmpy/models/LinearGaussianBayesianNetwork.py")
    fn = _find_func(t, "LinearGaussianBayesianNetwork", "to_joint_gaussian")
    vals = set()
    if fn is not None:
        for n in ast.walk(fn):
            if isinstance(n, ast.Call) and getattr(n.func, "attr", None) == "round":
                for k in n.keywords:
                    if k.arg == "decimals" and isinstance(k.value, ast.Constant):
                        vals.add(k.value.value)
    v = vals.pop() if len(vals) == 1 else None
    return _opt_nat("lgRoundDecimals", "`.round(decimals=…)` in LinearGaussianBayesianNetwork.to_joint_gaussian", v)

def _defaults(repo, rel, cls, func):
    t = _src(repo, rel)
    fn = _find_func(t, cls, func)
    out = {}
    if fn is None:
        return out
    args = fn.args.args
    defs = fn.args.defaults
    for a, d in zip(args[len(args) - len(defs):], defs):
        if isinstance(d, ast.Constant):
            out[a.arg] = d.value
    return out

def hc_defaults(repo):
    """default epsilon / max_iter / tabu_length of HillClimbSearch.estimate (C11: the loop the Lean model runs)"""
    from fractions import Fraction
    d = _defaults(repo, "pgmpy/estimators/HillClimbSearch.py", "HillClimbSearch", "estimate")
    items = []
    for k in ("epsilon", "max_iter", "tabu_length"):
        if k in d and isinstance(d[k], (int, float)):
            fr = Fraction(repr(d[k]))
            items.append(f'("{k}", {fr.numerator}, {fr.denominator})')
    return ["/-- defaults of HillClimbSearch.estimate as (name, numerator, denominator) -/",
            "def hcDefaults : List (String × Nat × Nat) := [" + ", ".join(items) + "]", ""]

def score_defaults(repo):
    """default LRU size of ScoreCache and default equivalent sample size of BDeuScore / BDsScore (C10)"""
    a = _defaults(repo, "pgmpy/estimators/ScoreCache.py", "LRUCache", "__init__").get("max_size")
    b = _defaults(repo, "pgmpy/estimators/ScoreCache.py", "ScoreCache", "__init__").get("max_size")
    e1 = _defaults(repo, "pgmpy/estimators/StructureScore.py", "BDeuScore", "__init__").get("equivalent_sample_size")
    e2 = _defaults(repo, "pgmpy/estimators/StructureScore.py", "BDsScore", "__init__").get("equivalent_sample_size")
    items = [("LRUCache.max_size", a), ("ScoreCache.max_size", b), ("BDeuScore.ess", e1), ("BDsScore.ess", e2)]
    body = ", ".join(f'("{n}", {v})' for n, v in items if isinstance(v, int))
    return ["/-- integer defaults of the score cache and the Bayesian-Dirichlet scores -/",
            "def scoreDefaults : List (String × Nat) := [" + body + "]", ""]

ALL = [valid_cpd_atol, eq_atol, ci_lambda_table, net_decimals, lg_round_decimals, hc_defaults, score_defaults]
