"""extractors: each returns Lean source lines for Generated.lean"""
import ast, os

def _src(repo, rel):
    return ast.parse(open(os.path.join(repo, rel)).read())

def _find_func(tree, cls, name):
    for n in ast.walk(tree):
        if isinstance(n, ast.ClassDef) and n.name == cls:
            for m in n.body:
                if isinstance(m, ast.FunctionDef) and m.name == name:
                    return m
    for n in ast.walk(tree):
        if isinstance(n, ast.FunctionDef) and n.name == name and cls is None:
            return n
    return None

def _rat_of_float_literal(s):
    from fractions import Fraction
    return Fraction(s)

def valid_cpd_atol(repo):
    """atol literal of DiscreteFactor.is_valid_cpd (C05)"""
    t = _src(repo, "pgmpy/factors/discrete/DiscreteFactor.py")
    fn = _find_func(t, "DiscreteFactor", "is_valid_cpd")
    atol = None
    if fn is not None:
        for n in ast.walk(fn):
            if isinstance(n, ast.keyword) and n.arg == "atol" and isinstance(n.value, ast.Constant):
                atol = repr(n.value.value)
    if atol is None:
        return ["/-- atol literal not found in is_valid_cpd -/", "def validCpdAtol : Option (Nat × Nat) := none", ""]
    fr = _rat_of_float_literal(atol)
    return [f"/-- `atol={atol}` in DiscreteFactor.is_valid_cpd -/",
            f"def validCpdAtol : Option (Nat × Nat) := some ({fr.numerator}, {fr.denominator})", ""]

def eq_atol(repo):
    t = _src(repo, "pgmpy/factors/discrete/DiscreteFactor.py")
    fn = _find_func(t, "DiscreteFactor", "__eq__")
    val = None
    if fn is not None and fn.args.defaults:
        d = fn.args.defaults[-1]
        if isinstance(d, ast.Constant):
            val = repr(d.value)
    if val is None:
        return ["def eqAtol : Option (Nat × Nat) := none", ""]
    fr = _rat_of_float_literal(val)
    return [f"/-- default `atol={val}` of DiscreteFactor.__eq__ -/",
            f"def eqAtol : Option (Nat × Nat) := some ({fr.numerator}, {fr.denominator})", ""]

def ci_lambda_table(repo):
    """lambda_ argument that each named wrapper in CITests.py hands to power_divergence (C19)"""
    t = _src(repo, "pgmpy/estimators/CITests.py")
    table = []
    for fn in t.body:
        if isinstance(fn, ast.FunctionDef) and fn.name in ("chi_square", "g_sq", "log_likelihood", "modified_log_likelihood"):
            lam = None
            for n in ast.walk(fn):
                if isinstance(n, ast.Call) and getattr(n.func, "id", None) == "power_divergence":
                    for k in n.keywords:
                        if k.arg == "lambda_" and isinstance(k.value, ast.Constant):
                            lam = k.value.value
            table.append((fn.name, lam))
    table.sort()
    items = ", ".join(f'("{a}", "{b}")' for a, b in table)
    return ["/-- wrapper name ↦ lambda_ literal passed to power_divergence in CITests.py -/",
            f"def ciLambdaTable : List (String × String) := [{items}]", ""]

ALL = [valid_cpd_atol, eq_atol, ci_lambda_table]
