"""harness/subrun.py — helper executed in a SEPARATE interpreter (its own PYTHONHASHSEED): reads a list of sampling jobs from
stdin (JSON), runs each on the real pgmpy and prints one digest per job.  Used by the C07 `hashseed_repro` stream: a fixed
seed must give the same sample frame whatever the process hash seed is."""
import hashlib
import json
import sys


def digest(df):
    cols = sorted(df.columns, key=str)
    h = hashlib.sha1()
    h.update(repr([str(c) for c in cols]).encode())
    for c in cols:
        vals = df[c].astype(object).values
        h.update(repr([("nan" if (x is None or x != x) else (repr(float(x)) if isinstance(x, (int, float)) else str(x))) for x in vals]).encode())
    return h.hexdigest()


def main():
    from harness import core, gen
    core.quiet_imports()
    from pgmpy.sampling import BayesianModelSampling, GibbsSampling
    from pgmpy.factors.discrete import State
    jobs = json.load(sys.stdin)
    out = []
    for job in jobs:
        try:
            case = job["case"]
            bn = gen.bn_to_pgmpy(case)
            pn = [gen.lab(x) for x in case["nodes"]]
            labels = case["labels"]
            ev = [State(pn[v], gen.lab(labels[v][s])) for v, s in job.get("ev", [])]
            api, seed, size = job["api"], job["seed"], job["size"]
            if api == "forward":
                df = BayesianModelSampling(bn).forward_sample(size=size, seed=seed, show_progress=False, include_latents=job.get("latents", False))
            elif api == "rejection":
                df = BayesianModelSampling(bn).rejection_sample(evidence=ev, size=size, seed=seed, show_progress=False)
            elif api == "lw":
                df = BayesianModelSampling(bn).likelihood_weighted_sample(evidence=ev, size=size, seed=seed, show_progress=False)
            elif api == "simulate":
                df = bn.simulate(n_samples=size, seed=seed, show_progress=False, include_latents=job.get("latents", False))
            elif api == "simulate_missing":
                mc = job.get("missing_columns")
                df = bn.simulate(n_samples=size, seed=seed, show_progress=False, include_missing=True, missing_prob=job["missing_prob"],
                                 missing_columns=None if mc is None else [pn[w] for w in mc if job.get("latents") or w not in (case.get("latents") or [])],
                                 include_latents=job.get("latents", False))
            elif api == "simulate_evidence":
                df = bn.simulate(n_samples=size, seed=seed, show_progress=False, evidence={s_.var: s_.state for s_ in ev},
                                 include_latents=job.get("latents", False))
            elif api == "gibbs":
                g = GibbsSampling(bn)
                df = g.sample(start_state=[State(pn[v], 0) for v in range(len(pn))], size=size, seed=seed)
            else:
                out.append("unknown-api")
                continue
            out.append(digest(df))
        except Exception as e:  # noqa
            out.append(f"raised {type(e).__name__}: {e}"[:300])
    print("DIGESTS " + json.dumps(out))


if __name__ == "__main__":
    main()
