"""harness/findings.py — predicates that recognise *known findings* (known_findings.json).

Each predicate takes (stream, case, detail) of a failing case and says whether the failure is
that recorded finding.  A failure no predicate claims is a VIOLATION.
"""
