"""harness/findings.py — predicates that recognise *known findings* (known_findings.json).

Each predicate takes (stream, case, detail) of a failing case and says whether the failure is
that recorded finding.  A failure no predicate claims is a VIOLATION.
"""
from fractions import Fraction


def _desc(edges, srcs):
    seen, st = set(srcs), list(srcs)
    while st:
        u = st.pop()
        for a, b in edges:
            if a == u and b not in seen:
                seen.add(b)
                st.append(b)
    return seen - set(srcs)


def c13_multi_do_descendant_parent(stream, case, detail):
    """CausalInference.query with several do-variables where a parent (outside the do-set) of one
    do-variable is a descendant of another: the parents-as-adjustment-set formula is not valid there."""
    if stream != "query" or "X" not in case:
        return False
    # claimed only when the implementation's answer IS the parents-as-adjustment-set formula (computed by the stream from the model joint)
    if not (isinstance(detail, dict) and detail.get("adjustment_set") is None and detail.get("equals_parent_adjustment") is True):
        return False
    X = [x for x, _ in case["X"]]
    if len(X) < 2:
        return False
    edges = [tuple(e) for e in case["edges"]]
    for x in X:
        others = [o for o in X if o != x]
        d = _desc(edges, others)
        for p, c in edges:
            if c == x and p not in X and p in d:
                return True
    return False


# ----------------------------------------------------------------------------- C18
def _sg_closure(assertions, buggy):
    """semi-graphoid closure over frozenset triples; `buggy` reproduces the contraction test of
    Independencies.closure as it stands (Y < YZ and Z < YZ and disjoint instead of YZ == Y|Z)"""
    def canon(x, y, z):
        return (frozenset([x, y]), z)
    def sym(t):
        x, y, z = t
        return [(x, y, z), (y, x, z)]
    cur = set()
    new = {(frozenset(x), frozenset(y), frozenset(z)) for x, y, z in assertions}
    seen = {canon(*t) for t in new}
    allv = list(new)
    while new:
        pairs = [(a, b) for a in new for b in allv] + [(a, b) for a in allv for b in new]
        out = set()
        for t in new:
            for (x, y, z) in sym(t):
                if len(y) > 1:
                    for e in y:
                        out.add((x, y - {e}, z))
                        out.add((x, y - {e}, z | {e}))
        for a, b in pairs:
            for (x1, w, yz) in sym(a):
                for (x2, y, z) in sym(b):
                    if x1 != x2:
                        continue
                    ok = (y < yz and z < yz and y.isdisjoint(z)) if buggy else (yz == (y | z) and y.isdisjoint(z))
                    if ok:
                        out.add((x1, w | y, z))
        new = set()
        for t in out:
            if t[0] and t[1] and canon(*t) not in seen:
                seen.add(canon(*t))
                new.add(t)
                allv.append(t)
    return seen


def c18_closure_contraction(stream, case, detail):
    """Independencies.closure: the contraction rule fires with extra conditioning variables and never when Z is empty.
    Claimed only when (1) the faulty rule gives a different closure than the semi-graphoid axioms for these assertions,
    (2) the implementation's closure is exactly what the faulty rule produces and (3) for entails / is_equivalent
    reports, the implementation's verdict is the one that follows from that faulty closure."""
    if not stream.startswith("closure") or not isinstance(detail, dict) or "got" not in detail:
        return False
    got = {(frozenset([frozenset(a), frozenset(b)]), frozenset(c)) for a, b, c in detail["got"]}
    emu = _sg_closure(case["assertions"], buggy=True)
    if got != emu:
        return False
    msg = str(detail.get("msg", ""))

    def canon(t):
        return (frozenset([frozenset(t[0]), frozenset(t[1])]), frozenset(t[2]))
    if msg.startswith("entails:") or msg.startswith("is_equivalent:"):
        other = case.get("other", [])
        ent_bug = all(canon(t) in emu for t in other)
        impl = "impl True" in msg
        if msg.startswith("entails:"):
            return impl == ent_bug and ent_bug != all(canon(t) in _sg_closure(case["assertions"], buggy=False) for t in other)
        back_bug = all(canon(t) in _sg_closure(other, buggy=True) for t in case["assertions"])
        back_ok = all(canon(t) in _sg_closure(other, buggy=False) for t in case["assertions"])
        ent_ok = all(canon(t) in _sg_closure(case["assertions"], buggy=False) for t in other)
        return impl == (ent_bug and back_bug) and (ent_bug and back_bug) != (ent_ok and back_ok)
    return emu != _sg_closure(case["assertions"], buggy=False)


def c18_minimal_imap(stream, case, detail):
    """JointProbabilityDistribution.minimal_imap adds the union of all 'working' subsets (or nothing): the result is in general
    not an I-map.  The whole function is affected (its unit test pins the wrong graphs)."""
    return stream == "imap" and isinstance(detail, dict) and detail.get("msg", "").startswith("minimal_imap(") \
        and detail.get("equals_union_of_working_subsets") is True     # the graph IS the one that loop builds (computed by the stream)


# ----------------------------------------------------------------------------- C17
def _c17_parts(case):
    k = case["k"]
    intra, inter = case["intra"], case["inter"]
    no_intra = any(not any(v in e for e in intra) for v in range(k))
    cross = any(u != v for u, v in inter)
    iface = {u for u, _ in inter}
    ev_iface = any(v in iface for v, _, _ in case.get("ev", []))
    times = {t for _, t in case.get("q", [])}
    return no_intra, cross, ev_iface, len(times) > 1


def _c17_pinned(detail):
    """the failing outcome is exactly what the frozen copy of the pinned interface algorithm (harness/pinned) produces on the same
    model, query and evidence — computed by the stream"""
    return isinstance(detail, dict) and detail.get("same_as_pinned") is True


def c17_cross_slice_edge(stream, case, detail):
    """inter-slice edge between two different variables (X_t -> Y_t+1): the interface algorithm equates 'has a child in the
    next slice' with 'has a parent in the previous slice'; raises or returns wrong numbers"""
    return stream == "query" and _c17_parts(case)[1] and _c17_pinned(detail)


def c17_no_intra_edge(stream, case, detail):
    """a slice variable without intra-slice edge: the start / 1.5-slice clique trees are disconnected.
    (The constructor itself was repaired: 'CPD defined on variable not in the model' is NOT this finding.)"""
    if "CPD defined on variable not in the model" in (detail.get("msg", "") if isinstance(detail, dict) else str(detail)):
        return False
    return stream == "query" and _c17_parts(case)[0] and _c17_pinned(detail)


def c17_evidence_on_interface(stream, case, detail):
    """evidence on a variable that has an outgoing inter-slice edge (an interface variable)"""
    return stream == "query" and _c17_parts(case)[2] and _c17_pinned(detail)


def c17_multi_slice_query(stream, case, detail):
    """query variables in two or more different time slices (filtering and smoothing)"""
    return stream == "query" and _c17_parts(case)[3] and _c17_pinned(detail)


# ----------------------------------------------------------------------------- C19
def c19_pearsonr_no_intercept(stream, case, detail):
    """pearsonr(X, Y, Z) regresses X and Y on Z without an intercept: with a non-empty Z the result is not the Pearson
    test on (intercept) regression residuals and changes when any variable is shifted"""
    return stream == "pearsonr" and case.get("nz", 0) > 0 and isinstance(detail, dict) and detail.get("kind") in ("reference", "affine") \
        and detail.get("equals_no_intercept") is True      # the numbers ARE the no-intercept regression's (computed by the stream)


# ----------------------------------------------------------------------------- C10
def _bds_as_implemented(cols, ess):
    """BDsScore.local_score as it stands: alpha = ess / q_observed but beta = ess / (q_all * r), plus a term
    -(q_all - q_observed) * lgamma(alpha) for the unobserved configurations"""
    import math
    q_all = len(cols)
    r = len(cols[0])
    obs = [c for c in cols if sum(c) > 0]
    q_obs = len(obs)
    if q_obs == 0:
        return None
    alpha = ess / q_obs
    beta = ess / (q_all * r)
    tot = 0.0
    for c in obs:
        tot += sum(math.lgamma(n + beta) - math.lgamma(beta) for n in c)
        tot -= math.lgamma(sum(c) + alpha) - math.lgamma(alpha)
    tot -= (q_all - q_obs) * math.lgamma(alpha)
    return tot


def c10_bds_unobserved_config(stream, case, detail):
    """BDsScore with a parent configuration that never occurs in the data: beta is computed from all q configurations instead
    of the observed ones (and the alpha / beta adjustment terms follow), so the score differs from Scutari's closed form.
    Claimed only when the implementation's number IS the number that formula gives (local and network scores)."""
    import math
    if case.get("kind") != "bds" and case.get("method") != "bds":
        return False
    if stream in ("local", "network") and isinstance(detail, dict) and "impl" in detail:
        try:
            ess = float(Fraction(case["ess"]))
            tot = 0.0
            for cols in detail["locals"]:
                v = _bds_as_implemented(cols, ess)
                if v is None:
                    return False
                tot += v
            if detail.get("nedges") is not None:
                n = detail["nnodes"]
                tot += -(detail["nedges"] + n * (n - 1) / 2.0) * math.log(2.0)
            return abs(detail["impl"] - tot) <= 1e-6 * max(1.0, abs(tot)) and any(any(sum(c) == 0 for c in cols) for cols in detail["locals"])
        except Exception:
            return False
    return False


# ----------------------------------------------------------------------------- C14
def c14_to_factor_graph(stream, case, detail):
    """MarkovNetwork.to_factor_graph builds string factor nodes ('phi_A_B'); the resulting FactorGraph fails its own
    check_model (and the name construction raises TypeError for non-string variables)"""
    if stream != "mn" or case.get("target") != "fg":
        return False
    if isinstance(detail, dict):
        # claimed only when the string factor nodes are the ONLY thing wrong with the converted graph (computed by the stream)
        return "to_factor_graph(): target fails its own check_model" in detail.get("msg", "") and detail.get("only_string_factor_nodes") is True
    return isinstance(detail, str) and "expected str instance" in detail and "TypeError" in detail
