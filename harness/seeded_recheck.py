"""harness/seeded_recheck.py — development tool (not a registered check): re-run the quick correspondence tier against every seeded
breaking change in seeded/*/ and print which ones are reported.

  python harness/seeded_recheck.py [C10 C13 ...] [--jobs 3]

For each property a scratch worktree of /repo (at its HEAD) is created under /tmp, each patch is applied there in turn, the check
is run with VERIF_REPO pointing at the worktree, and the worktree is removed at the end.  /repo itself is never touched.
"""
import glob
import json
import os
import subprocess
import sys
from concurrent.futures import ThreadPoolExecutor

VERIF = os.path.dirname(os.path.dirname(os.path.abspath(__file__)))


def sh(cmd, **kw):
    return subprocess.run(cmd, shell=True, capture_output=True, text=True, **kw)


def one_property(prop):
    wt = f"/tmp/seeded_recheck_{prop}"
    sh(f"git -C /repo worktree remove --force {wt}")
    r = sh(f"git -C /repo worktree add --detach {wt} HEAD")
    if r.returncode:
        return [(prop, "-", "worktree failed: " + r.stderr.strip()[:200])]
    out = []
    try:
        for d in sorted(glob.glob(os.path.join(VERIF, "seeded", prop + "-*"))):
            mid = os.path.basename(d)
            sh(f"git -C {wt} checkout -q -- .")
            a = sh(f"git -C {wt} apply {d}/patch.diff")
            if a.returncode:
                out.append((prop, mid, "PATCH-DOES-NOT-APPLY " + a.stderr.strip()[:160]))
                continue
            meta = json.load(open(os.path.join(d, "meta.json")))
            props = meta.get("caught_by") or [prop]
            verdicts = []
            for q in props:
                c = sh(f"cd {VERIF} && VERIF_REPO={wt} ./check {q} --no-proof", env={**os.environ, "VERIF_SEED": os.environ.get("VERIF_SEED", "0")})
                vio = [l for l in c.stdout.splitlines() if l.startswith("VIOLATION")]
                last = [l for l in c.stdout.splitlines() if l.startswith("[")][-1:] or [""]
                verdicts.append(f"{q}:{'REPORTED' if (c.returncode == 1 and vio) else 'MISSED(exit %d)' % c.returncode} {last[0][-70:]}")
            out.append((prop, mid, " ; ".join(verdicts)))
    finally:
        sh(f"git -C /repo worktree remove --force {wt}")
        for f in glob.glob(os.path.join(VERIF, "evidence", "*.scratch.json")):
            pass
    return out


def main():
    args = [a for a in sys.argv[1:] if not a.startswith("--")]
    jobs = 3
    if "--jobs" in sys.argv:
        jobs = int(sys.argv[sys.argv.index("--jobs") + 1])
        args = [a for a in args if a != str(jobs)]
    props = args or sorted({os.path.basename(d).split("-")[0] for d in glob.glob(os.path.join(VERIF, "seeded", "C*-*"))})
    missed = 0
    with ThreadPoolExecutor(jobs) as ex:
        for rows in ex.map(one_property, props):
            for p, m, v in rows:
                print(f"{m:8s} {v}", flush=True)
                if "REPORTED" not in v:
                    missed += 1
    print(f"{missed} seeded change(s) not reported")
    return 1 if missed else 0


if __name__ == "__main__":
    sys.exit(main())
