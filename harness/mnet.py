"""harness/mnet.py — Markov-network / factor-graph cases shared by C02, C14."""
from __future__ import annotations

from harness import gen
from harness.core import rs


def gen_mn_case(rng, nmin=2, nmax=5, connected=True, dup=None, label_kind=None, name_kind=None, maxcard=3, special=None):
    """special='one': one variable has a single state; special='ten': one variable has 10-12 states"""
    n = rng.randint(nmin, nmax)
    names = gen.node_names(rng, n, name_kind or rng.choice(["str", "word", "int", "int0"]))
    card = [rng.choice([2, 2, 3][:maxcard]) if maxcard >= 2 else 2 for _ in range(n)]
    card = [min(c, maxcard) for c in card]
    if special == "one":
        card[rng.randrange(n)] = 1
    elif special == "ten":
        card[rng.randrange(n)] = rng.choice([10, 11, 12])
    labels = [gen.state_labels(rng, c, label_kind or rng.choice(["int", "str", "permint"])) for c in card]
    fs = []
    if connected:
        for i in range(1, n):
            j = rng.randrange(i)
            fs.append({"scope": [j, i] if rng.random() < .5 else [i, j],
                       "vals": [rs(x) for x in gen.rand_vals(rng, card[i] * card[j], rng.choice(["generic", "generic", "zeros"]))]})
    else:
        for i in range(n):
            if rng.random() < .5 and i > 0:
                j = rng.randrange(i)
                fs.append({"scope": [j, i], "vals": [rs(x) for x in gen.rand_vals(rng, card[i] * card[j], "generic")]})
    covered = {v for f in fs for v in f["scope"]}
    for v in range(n):
        if v not in covered or rng.random() < .25:
            fs.append({"scope": [v], "vals": [rs(x) for x in gen.rand_vals(rng, card[v], "generic")]})   # unary factors
    for _ in range(rng.randint(0, 2)):
        fs.append(gen.rand_factor(rng, list(range(n)), card, k=rng.randint(2, min(3, n)), style="generic"))
    dup = rng.random() < .35 if dup is None else dup
    if dup:
        fs.append(dict(rng.choice(fs)))        # an equal factor must count twice
    # avoid an identically-zero product
    rng.shuffle(fs)
    return {"nodes": names, "card": card, "labels": labels, "factors": fs, "dup": dup}


def gen_cycle_case(rng, nmin=5, nmax=8, grid=False):
    """long chordless cycles (and the 3x3 grid): triangulation needs cascaded fill-in edges"""
    if grid:
        n = 9
        ring = [(r * 3 + c, r * 3 + c + 1) for r in range(3) for c in range(2)] + [(r * 3 + c, r * 3 + c + 3) for r in range(2) for c in range(3)]
    else:
        n = rng.randint(nmin, nmax)
        ring = [(i, (i + 1) % n) for i in range(n)]
        if rng.random() < .3:
            a = rng.randrange(n)
            ring.append((a, (a + rng.randint(2, n - 2)) % n))      # one chord
    perm = list(range(n))
    rng.shuffle(perm)
    names = gen.node_names(rng, n, rng.choice(["str", "word", "int", "int0"]))
    big = rng.randrange(n)
    card = [3 if (i == big and not grid and rng.random() < .6) else 2 for i in range(n)]
    labels = [gen.state_labels(rng, c, rng.choice(["int", "str", "permint"])) for c in card]
    fs = []
    for u, v in ring:
        u, v = perm[u], perm[v]
        if rng.random() < .5:
            u, v = v, u
        fs.append({"scope": [u, v], "vals": [rs(x) for x in gen.rand_vals(rng, card[u] * card[v], "generic")]})
    for v in range(n):
        if rng.random() < .2:
            fs.append({"scope": [v], "vals": [rs(x) for x in gen.rand_vals(rng, card[v], "generic")]})
    rng.shuffle(fs)
    return {"nodes": names, "card": card, "labels": labels, "factors": fs, "dup": False, "cycle": True}


def gen_cliquey_case(rng, nmin=6, nmax=8):
    """many maximal cliques that share one or two variables (a random partial 2-tree): the clique tree has several valid and many
    invalid spanning trees, so the running-intersection property is a real constraint"""
    n = rng.randint(nmin, nmax)
    names = gen.node_names(rng, n, rng.choice(["str", "word", "int", "int0"]))
    perm = list(range(n))
    rng.shuffle(perm)
    edges = {(0, 1), (1, 2), (0, 2)}
    for v in range(3, n):
        a, b = rng.choice(sorted(edges))
        if rng.random() < .7:
            edges |= {(a, v), (b, v)}           # new triangle on an existing edge
        else:
            edges.add((rng.choice([a, b]), v))   # pendant edge
    card = [2] * n
    labels = [gen.state_labels(rng, 2, rng.choice(["int", "str", "permint"])) for _ in range(n)]
    fs = []
    for a, b in sorted(edges):
        a, b = perm[a], perm[b]
        if rng.random() < .5:
            a, b = b, a
        fs.append({"scope": [a, b], "vals": [rs(x) for x in gen.rand_vals(rng, 4, "generic")]})
    for v in range(n):
        if rng.random() < .15:
            fs.append({"scope": [v], "vals": [rs(x) for x in gen.rand_vals(rng, 2, "generic")]})
    rng.shuffle(fs)        # also the order in which edges are inserted
    return {"nodes": names, "card": card, "labels": labels, "factors": fs, "dup": False, "cliquey": True}


def edges_of(case):
    E = set()
    for f in case["factors"]:
        sc = f["scope"]
        for a in range(len(sc)):
            for b in range(a + 1, len(sc)):
                E.add((min(sc[a], sc[b]), max(sc[a], sc[b])))
    return sorted(E)


def is_connected(case):
    n = len(case["nodes"])
    adj = {i: set() for i in range(n)}
    for u, v in edges_of(case):
        adj[u].add(v)
        adj[v].add(u)
    seen, st = {0}, [0]
    while st:
        u = st.pop()
        for w in adj[u]:
            if w not in seen:
                seen.add(w)
                st.append(w)
    return len(seen) == n


def to_markov(case):
    from pgmpy.models import MarkovNetwork
    pn = [gen.lab(x) for x in case["nodes"]]
    mn = MarkovNetwork()
    mn.add_nodes_from(pn)
    for u, v in edges_of(case):
        mn.add_edge(pn[u], pn[v])
    mn.add_factors(*[gen.factor_to_pgmpy(case["nodes"], case["card"], case["labels"], f) for f in case["factors"]])
    return mn


def to_factor_graph(case):
    from pgmpy.models import FactorGraph
    pn = [gen.lab(x) for x in case["nodes"]]
    fg = FactorGraph()
    fg.add_nodes_from(pn)
    phis = [gen.factor_to_pgmpy(case["nodes"], case["card"], case["labels"], f) for f in case["factors"]]
    for phi in phis:
        fg.add_node(phi)
        for v in phi.variables:
            fg.add_edge(v, phi)
    fg.add_factors(*phis)
    return fg


def model_factors(case):
    return [gen.factor_model(case["card"], f) for f in case["factors"]]


def has_equal_factors(case):
    """two factors that pgmpy's value-based __eq__ would identify (same scope set and same named values)"""
    seen = set()
    for f in case["factors"]:
        key = (tuple(sorted(zip(f["scope"], range(len(f["scope"]))))), tuple(f["vals"]))
        sc = f["scope"]
        # canonical: sort axes
        from harness import core
        from fractions import Fraction
        card = [case["card"][v] for v in sc]
        order = sorted(range(len(sc)), key=lambda i: sc[i])
        vals = []
        ncard = [card[i] for i in order]
        for asg in core.all_assignments([sc[i] for i in order], ncard):
            vals.append(f["vals"][core.ravel(card, [asg[v] for v in sc])])
        k = (tuple(sorted(sc)), tuple(vals))
        if k in seen:
            return True
        seen.add(k)
    return False


def gen_jtx_case(rng, label_kind=None):
    """an EXPLICIT junction tree (hand-made, as a user would write it), with the running intersection property by construction:
    every new clique = a non-empty subset S of an existing clique + fresh variables; with probability 1/2 the separator S itself is a
    node of the tree between the two (HUGIN / Shafer-Shenoy style), also a single-variable hub shared by several children.
    One factor per tree node (random axis order); the joint is the product of all of them."""
    nmax = rng.randint(3, 7)
    names = gen.node_names(rng, nmax, rng.choice(["str", "word", "int"]))
    card = [rng.choice([2, 2, 3]) for _ in range(nmax)]
    labels = [gen.state_labels(rng, c, label_kind or rng.choice(["int", "str", "permint"])) for c in card]
    k0 = rng.randint(1, min(3, nmax - 1))
    cliques = [list(range(k0))]
    edges = []
    nxt = k0
    while nxt < nmax:
        p = rng.randrange(len(cliques))
        P = cliques[p]
        S = sorted(rng.sample(P, rng.randint(1, min(2, len(P)))))
        new = list(range(nxt, min(nmax, nxt + rng.choice([1, 1, 2]))))
        nxt += len(new)
        C = S + new
        if len(S) < len(P) and rng.random() < .5:
            if S in cliques:
                si = cliques.index(S)
            else:
                cliques.append(S)
                si = len(cliques) - 1
                edges.append([p, si])
            cliques.append(C)
            edges.append([si, len(cliques) - 1])
        else:
            cliques.append(C)
            edges.append([p, len(cliques) - 1])
    fs = []
    for c in cliques:
        sc = list(c)
        rng.shuffle(sc)
        size = 1
        for v in sc:
            size *= card[v]
        fs.append({"scope": sc, "vals": [rs(x) for x in gen.rand_vals(rng, size, rng.choice(["generic", "generic", "zeros"]))]})
    return {"nodes": names, "card": card, "labels": labels, "factors": fs, "dup": False, "jt_cliques": cliques, "jt_edges": edges}


def to_explicit_jt(case):
    from pgmpy.models import JunctionTree
    pn = [gen.lab(x) for x in case["nodes"]]
    jt = JunctionTree()
    nodes = [tuple(pn[v] for v in c) for c in case["jt_cliques"]]
    jt.add_nodes_from(nodes)
    for a, b in case["jt_edges"]:
        jt.add_edge(nodes[a], nodes[b])
    jt.add_factors(*[gen.factor_to_pgmpy(case["nodes"], case["card"], case["labels"], f) for f in case["factors"]])
    return jt
