"""harness/worker.py — one correspondence worker process (fixed PYTHONHASHSEED).

Runs the corpus cases first, then each stream's generated / enumerated cases, on the real
implementation and on the Lean model, and writes a JSON summary.
"""
from __future__ import annotations

import argparse
import importlib
import json
import os
import random
import sys
import time
import traceback

VERIF = os.path.dirname(os.path.dirname(os.path.abspath(__file__)))
sys.path.insert(0, VERIF)

from harness import core  # noqa: E402


class Stream:
    def __init__(self, name, gen=None, run=None, quick=100, thorough=1000, enum=None, nontrivial_rule=""):
        self.name = name
        self.gen = gen          # gen(rng, tier) -> case
        self.run = run          # run(case, drv) -> Result
        self.quick = quick
        self.thorough = thorough
        self.enum = enum        # enum(tier) -> iterable of cases (exhaustive streams)
        self.nontrivial_rule = nontrivial_rule


def get_streams(prop):
    mod = importlib.import_module(f"harness.props.{prop.lower()}")
    return {s.name: s for s in mod.STREAMS}, mod


class CaseTimeout(BaseException):
    """raised by the per-case timer; a BaseException so that the `except Exception` clauses of the streams (which turn library exceptions
    into failures) never mistake it for an exception raised by the library"""
    pass


def _alarm(signum, frame):
    raise CaseTimeout()


CASE_LIMIT_S = 60
HARD_GRACE_S = int(os.environ.get("VERIF_HARD_GRACE", "45"))
# heartbeat read by the watchdog thread of main(): (start time, limit, stream name, case) of the case being run
_BEAT = {"t": None, "limit": CASE_LIMIT_S, "stream": None, "case": None}


def safe_run(stream, case, drv):
    import signal
    limit = getattr(stream, "limit", CASE_LIMIT_S)
    _BEAT.update(t=time.time(), limit=limit, stream=stream.name, case=case)
    # the limit is on CPU time of this process (ITIMER_PROF), not on wall-clock time: a call that does not terminate burns CPU and
    # is caught, a worker that is merely starved on a loaded machine is not (wall-clock stalls are the watchdog's business and are
    # never a verdict)
    old = signal.signal(signal.SIGPROF, _alarm)
    signal.setitimer(signal.ITIMER_PROF, limit)
    try:
        return stream.run(case, drv)
    except CaseTimeout:
        # the driver may be mid-request: restart it so that later cases are not confused
        try:
            drv.p.kill()
        except Exception:
            pass
        drv.__init__()
        if isinstance(case, dict) and isinstance(case.get("n_jobs"), int) and case["n_jobs"] > 1:
            # a joblib process pool that stalls on a loaded machine is not a verdict about the library
            return core.skip(f"no result within {limit} s of CPU time with n_jobs={case['n_jobs']} (process pool): not counted")
        return core.fail(f"no result after {limit} s of CPU time (similar cases take milliseconds): the call did not terminate")
    except core.DriverError:
        raise
    except Exception as e:  # an unexpected exception inside a stream is a harness error, not a verdict
        return core.Result("error", f"{type(e).__name__}: {e}\n{traceback.format_exc()[-1200:]}", False, {})
    finally:
        _BEAT["t"] = None
        signal.setitimer(signal.ITIMER_PROF, 0)
        signal.signal(signal.SIGPROF, old)


def run_one(prop, stream_name, case):
    core.quiet_imports()
    streams, _ = get_streams(prop)
    drv = core.Driver()
    try:
        return safe_run(streams[stream_name], case, drv)
    finally:
        drv.close()


def main():
    ap = argparse.ArgumentParser()
    ap.add_argument("--prop", required=True)
    ap.add_argument("--tier", default="quick")
    ap.add_argument("--seed", type=int, default=0)
    ap.add_argument("--wid", type=int, default=0)
    ap.add_argument("--nworkers", type=int, default=1)
    ap.add_argument("--out", required=True)
    ap.add_argument("--budget", type=float, default=None, help="seconds per worker")
    ap.add_argument("--only", default=None, help="run only this stream")
    a = ap.parse_args()
    core.quiet_imports()
    import pgmpy
    repo = os.path.realpath(os.environ.get("VERIF_REPO", "/repo"))
    if not os.path.realpath(pgmpy.__file__).startswith(repo + os.sep):
        print(f"internal error: pgmpy imported from {pgmpy.__file__}, not from {repo}", file=sys.stderr)
        sys.exit(3)
    t0 = time.time()
    streams, mod = get_streams(a.prop)
    budget = a.budget or (getattr(mod, "BUDGET_QUICK", 75) if a.tier == "quick" else getattr(mod, "BUDGET_THOROUGH", 900))
    drv = core.Driver()
    out = {"evaluations": 0, "skipped": 0, "nontrivial_keys": [], "failures": [], "tags": {}, "streams": {},
           "samples": [], "errors": [], "known_counts": {}}
    from harness import findings as F
    kf = []
    try:
        kf = [e for e in json.load(open(os.path.join(VERIF, "known_findings.json"))).get("findings", [])
              if e.get("property") == a.prop and e.get("status", "known") == "known"]
    except Exception:
        kf = []

    def classify(f_):
        for e in kf:
            pred = getattr(F, e["predicate"], None)
            try:
                if pred is not None and pred(f_["stream"], f_["case"], f_.get("detail")):
                    return e["id"]
            except Exception:
                continue
        return None
    keys = set()

    def record(sname, case, r):
        st = out["streams"].setdefault(sname, {"cases": 0, "fail": 0, "skip": 0})
        if r.status == "error":
            out["errors"].append({"stream": sname, "case": case, "detail": r.detail})
            return
        if r.status == "skip":
            st["skip"] += 1
            out["skipped"] += 1
            return
        st["cases"] += 1
        out["evaluations"] += 1
        k = core.case_key([sname, case])
        if r.nontrivial:
            keys.add(k)
        for tk, tv in (r.tags or {}).items():
            d = out["tags"].setdefault(f"{sname}.{tk}", {})
            d[str(tv)] = d.get(str(tv), 0) + 1
        if r.status == "fail":
            st["fail"] += 1
            f_ = {"stream": sname, "case": case, "detail": r.detail, "key": k}
            fid = classify(f_)
            if fid is None:
                if len(out["failures"]) < 60:
                    out["failures"].append(f_)
            else:
                out["known_counts"][fid] = out["known_counts"].get(fid, 0) + 1
                if out["known_counts"][fid] <= 2:
                    f_["known"] = fid
                    out["failures"].append(f_)
        if len(out["samples"]) < 2 * len(streams) and st["cases"] <= 2:
            out["samples"].append({"stream": sname, "case": case, "status": r.status})

    def watchdog():
        # a call that blocks outside the interpreter (a dead joblib pool, a native dead-lock) is not interrupted by the CPU-time signal:
        # after a grace period write what has been collected, record the case as not terminating and leave
        while True:
            time.sleep(5)
            t = _BEAT["t"]
            if t is not None and time.time() - t > 4 * _BEAT["limit"] + HARD_GRACE_S:
                try:
                    # not a verdict: a call blocked outside the interpreter (dead worker pool, native dead-lock) can be caused by
                    # the machine (memory pressure, killed child process); Python-level non-termination is caught by the CPU-time limit above
                    out["abandoned_at"] = {"stream": _BEAT["stream"], "case": _BEAT["case"],
                                           "detail": f"no result within {4 * _BEAT['limit'] + HARD_GRACE_S} s of wall-clock time and the call could not be "
                                                     "interrupted: the worker stopped here and reported what it had"}
                    out["nontrivial_keys"] = sorted(keys)
                    out["wall_s"] = round(time.time() - t0, 1)
                    out["abandoned"] = True
                    with open(a.out + ".tmp", "w") as f:
                        json.dump(out, f, default=str)
                    os.replace(a.out + ".tmp", a.out)
                finally:
                    os._exit(0)

    import threading
    threading.Thread(target=watchdog, daemon=True).start()

    # corpus first (every worker: the hash seed matters)
    cdir = os.path.join(VERIF, "corpus", a.prop)
    if os.path.isdir(cdir):
        for fn in sorted(os.listdir(cdir)):
            if not fn.endswith(".json"):
                continue
            c = json.load(open(os.path.join(cdir, fn)))
            if c["stream"] in streams and (a.only is None or a.only == c["stream"]):
                record(c["stream"], c["case"], safe_run(streams[c["stream"]], c["case"], drv))

    names = [n for n in streams if a.only is None or n == a.only]
    per_stream = budget / max(1, len(names))
    for sname in names:
        s = streams[sname]
        ts = time.time()
        if s.enum is not None:
            for i, case in enumerate(s.enum(a.tier)):
                if i % a.nworkers != a.wid:
                    continue
                record(sname, case, safe_run(s, case, drv))
                if time.time() - ts > per_stream * 3:
                    out["errors"].append({"stream": sname, "detail": "enumeration cut by time budget", "case": None})
                    break
        else:
            rng = random.Random(f"{a.seed}/{sname}/{a.wid}")
            quota = s.quick if a.tier == "quick" else s.thorough * int(os.environ.get("VERIF_THOROUGH_X", "6"))
            quota = max(1, quota // a.nworkers)
            done = 0
            attempts = 0
            while done < quota and attempts < quota * 4 and time.time() - ts < per_stream:
                attempts += 1
                try:
                    case = s.gen(rng, a.tier)
                except Exception as e:
                    out["errors"].append({"stream": sname, "detail": "generator: " + repr(e) + traceback.format_exc()[-600:], "case": None})
                    break
                if case is None:
                    continue
                r = safe_run(s, case, drv)
                record(sname, case, r)
                if r.status in ("ok", "fail"):
                    done += 1
    drv.close()
    out["nontrivial_keys"] = sorted(keys)
    out["wall_s"] = round(time.time() - t0, 1)
    out["errors"] = out["errors"][:20]
    with open(a.out, "w") as f:
        json.dump(out, f, default=str)
    # harness errors are reported on stderr; they make the worker fail (exit 3) so that they are
    # never mistaken for a verdict
    if out["errors"]:
        for e in out["errors"][:5]:
            print("HARNESS-ERROR", json.dumps(e, default=str)[:1500], file=sys.stderr)


if __name__ == "__main__":
    main()
