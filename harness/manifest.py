"""harness/manifest.py — regenerate MANIFEST.json from the property modules (python -m harness.manifest)."""
import importlib, json, os, sys
VERIF = os.path.dirname(os.path.dirname(os.path.abspath(__file__)))
sys.path.insert(0, VERIF)
ALL = [f"C{i:02d}" for i in range(1, 21)]

def main():
    checks, na = [], []
    for p in ALL:
        path = os.path.join(VERIF, "harness", "props", p.lower() + ".py")
        if not os.path.exists(path):
            na.append({"property_id": p, "reason": "check not built yet in this round (design in DESIGN.md section 4); not claimed"})
            continue
        m = importlib.import_module(f"harness.props.{p.lower()}")
        checks.append({
            "property_id": p,
            "quick_cmd": f"./check {p} --tier quick",
            "thorough_cmd": f"./check {p} --tier thorough",
            "evidence_file": f"evidence/{p}.json",
            "replay_cmd_template": f"./check {p} --replay {{path}}",
            "engine": "lean4-model+correspondence",
            "level_claimed": {"category": "proof", "text": m.LEVEL_TEXT, "design_ref": f"DESIGN.md section 4, {p}"},
            "level_note": m.LEVEL_NOTE,
            "technique": m.TECHNIQUE,
        })
    man = {
        "version": 1,
        "setup_cmd": "cd lean && lake build PgmVerif driver",
        "hooks": {"guard": "PGMPY_VERIF", "enable": "no source hooks are needed: the harness observes through public APIs; checks export PGMPY_VERIF=1 for uniformity",
                  "baseline_off_cmd": "cd /repo && /venv/bin/python -m pytest -ra -q -p no:cacheprovider --timeout=900 --continue-on-collection-errors",
                  "source_commits": [], "add_only": True},
        "engines": [{"name": "lean4-model+correspondence", "path": "lean/ harness/ translator/",
                     "serves_properties": [c["property_id"] for c in checks],
                     "kind_free_text": "Lean 4 executable model + kernel-checked theorems (lean/PgmVerif), tied to /repo on every run by a differential correspondence harness (harness/) driving the native Lean driver and by AST extraction of source literals into Generated.lean (translator/)"}],
        "checks": checks,
        "not_applicable": na,
        "notes": "Every check: regenerate Generated.lean from /repo, lake build the property's theorem module, audit #print axioms, run the correspondence workers (several PYTHONHASHSEEDs) against /repo's working tree, classify failures against known_findings.json, write evidence. Exit 2 = internal error (no verdict).",
    }
    with open(os.path.join(VERIF, "MANIFEST.json"), "w") as f:
        json.dump(man, f, indent=1)
    try:
        import jsonschema
        jsonschema.validate(man, json.load(open("/root/.vp/MANIFEST.schema.json")))
        print("MANIFEST ok:", [c["property_id"] for c in checks])
    except ImportError:       # this interpreter has no jsonschema: validate with `python3-vt` (tooling venv) instead
        print("MANIFEST written (not schema-validated here: no jsonschema in this interpreter):", [c["property_id"] for c in checks])

if __name__ == "__main__":
    main()
