# harness/pinned/dbn_inference_pinned.py — VERBATIM copy of /repo/pgmpy/inference/dbn_inference.py at /repo commit dc4c346
# (identical to the pinned snapshot fe1f674; no fix: commit touches that file).
#
# Purpose: the four C17 known findings live in this algorithm.  A failing DBN query is classified as one of those findings only
# when THIS frozen copy, run on the same model / query / evidence with the rest of the current library, produces the same
# outcome (same numbers or the same exception).  Any change to the real dbn_inference.py that alters an answer therefore
# loses the cover of the recorded findings and is reported as a VIOLATION.  Never edit this file to follow /repo.
from collections import defaultdict
from itertools import chain, combinations, tee

from pgmpy.factors import factor_product
from pgmpy.factors.discrete import DiscreteFactor
from pgmpy.inference import BeliefPropagation, Inference


class DBNInference(Inference):
    """
    Class for performing inference using Belief Propagation method
    for the input Dynamic Bayesian Network.

    For the exact inference implementation, the interface algorithm
    is used which is adapted from [1].

    Parameters
    ----------
    model: Dynamic Bayesian Network
        Model for which inference is to performed

    Examples
    --------
    >>> from pgmpy.factors.discrete import TabularCPD
    >>> from pgmpy.models import DynamicBayesianNetwork as DBN
    >>> from pgmpy.inference import DBNInference
    >>> dbnet = DBN()
    >>> dbnet.add_edges_from([(('Z', 0), ('X', 0)), (('X', 0), ('Y', 0)),
    ...                       (('Z', 0), ('Z', 1))])
    >>> z_start_cpd = TabularCPD(('Z', 0), 2, [[0.5], [0.5]])
    >>> x_i_cpd = TabularCPD(('X', 0), 2, [[0.6, 0.9],
    ...                                    [0.4, 0.1]],
    ...                      evidence=[('Z', 0)],
    ...                      evidence_card=[2])
    >>> y_i_cpd = TabularCPD(('Y', 0), 2, [[0.2, 0.3],
    ...                                    [0.8, 0.7]],
    ...                      evidence=[('X', 0)],
    ...                      evidence_card=[2])
    >>> z_trans_cpd = TabularCPD(('Z', 1), 2, [[0.4, 0.7],
    ...                                        [0.6, 0.3]],
    ...                      evidence=[('Z', 0)],
    ...                      evidence_card=[2])
    >>> dbnet.add_cpds(z_start_cpd, z_trans_cpd, x_i_cpd, y_i_cpd)
    >>> dbnet.initialize_initial_state()
    >>> dbn_inf = DBNInference(dbnet)
    >>> dbn_inf.start_junction_tree.nodes()
    NodeView(((('X', 0), ('Y', 0)), (('X', 0), ('Z', 0))))
    >>> dbn_inf.one_and_half_junction_tree.nodes()
    NodeView(((('Z', 1), ('Z', 0)), (('Y', 1), ('X', 1)), (('Z', 1), ('X', 1))))

    References
    ----------
    [1] Dynamic Bayesian Networks: Representation, Inference and Learning
        by Kevin Patrick Murphy
        http://www.cs.ubc.ca/~murphyk/Thesis/thesis.pdf
    """

    def __init__(self, model):
        super(DBNInference, self).__init__(model)
        self._initialize_structures()

        self.interface_nodes_0 = model.get_interface_nodes(time_slice=0)
        self.interface_nodes_1 = model.get_interface_nodes(time_slice=1)

        start_markov_model = self.start_bayesian_model.to_markov_model()
        one_and_half_markov_model = self.one_and_half_model.to_markov_model()

        combinations_slice_0 = tee(combinations(set(self.interface_nodes_0), 2), 2)
        combinations_slice_1 = combinations(set(self.interface_nodes_1), 2)

        start_markov_model.add_edges_from(combinations_slice_0[0])
        one_and_half_markov_model.add_edges_from(
            chain(combinations_slice_0[1], combinations_slice_1)
        )

        self.one_and_half_junction_tree = one_and_half_markov_model.to_junction_tree()
        self.start_junction_tree = start_markov_model.to_junction_tree()

        self.start_interface_clique = self._get_clique(
            self.start_junction_tree, self.interface_nodes_0
        )
        self.in_clique = self._get_clique(
            self.one_and_half_junction_tree, self.interface_nodes_0
        )
        self.out_clique = self._get_clique(
            self.one_and_half_junction_tree, self.interface_nodes_1
        )

    def _shift_nodes(self, nodes, time_slice):
        """
        Shifting the nodes to a certain required timeslice.

        Parameters
        ----------
        nodes: list, array-like
            List of node names.
            nodes that are to be shifted to some other time slice.

        time_slice: int
            time slice where to shift the nodes.
        """
        return [(node[0], time_slice) for node in nodes]

    def _get_clique(self, junction_tree, nodes):
        """
        Extracting the cliques from the junction tree which are a subset of
        the given nodes.

        Parameters
        ----------
        junction_tree: Junction tree
            from which the nodes are to be extracted.

        nodes: iterable container
            A container of nodes (list, dict, set, etc.).
        """

        return [
            clique for clique in junction_tree.nodes() if set(nodes).issubset(clique)
        ][0]

    def _get_evidence(self, evidence_dict, time_slice, shift):
        """
        Getting the evidence belonging to a particular timeslice.

        Parameters
        ----------
        evidence: dict
            a dict key, value pair as {var: state_of_var_observed}
            None if no evidence

        time: int
            the evidence corresponding to the time slice

        shift: int
            shifting the evidence corresponding to the given time slice.
        """
        if evidence_dict:
            return {
                (node[0], shift): evidence_dict[node]
                for node in evidence_dict
                if node[1] == time_slice
            }

    def _marginalize_factor(self, nodes, factor):
        """
        Marginalizing the factor selectively for a set of variables.

        Parameters
        ----------
        nodes: list, array-like
            A container of nodes (list, dict, set, etc.).

        factor: factor
            factor which is to be marginalized.
        """
        marginalizing_nodes = list(set(factor.scope()).difference(nodes))
        return factor.marginalize(marginalizing_nodes, inplace=False)

    def _update_belief(self, belief_prop, clique, clique_potential, message=None):
        """
        Method for updating the belief.

        Parameters
        ----------
        belief_prop: Belief Propagation
            Belief Propagation which needs to be updated.

        in_clique: clique
            The factor which needs to be updated corresponding to the input clique.

        out_clique_potential: factor
            Multiplying factor which will be multiplied to the factor corresponding to the clique.
        """
        old_factor = belief_prop.junction_tree.get_factors(clique)
        belief_prop.junction_tree.remove_factors(old_factor)
        if message:
            if message.scope() and clique_potential.scope():
                new_factor = old_factor * message
                new_factor = new_factor / clique_potential
            else:
                new_factor = old_factor
        else:
            new_factor = old_factor * clique_potential
        belief_prop.junction_tree.add_factors(new_factor)
        belief_prop.calibrate()

    def _get_factor(self, belief_prop, evidence):
        """
        Extracts the required factor from the junction tree.

        Parameters
        ----------
        belief_prop: Belief Propagation
            Belief Propagation which needs to be updated.

        evidence: dict
            a dict key, value pair as {var: state_of_var_observed}
        """
        final_factor = factor_product(*belief_prop.junction_tree.get_factors())
        if evidence:
            for var in evidence:
                if var in final_factor.scope():
                    final_factor.reduce([(var, evidence[var])])
        return final_factor

    def _shift_factor(self, factor, shift):
        """
        Shifting the factor to a certain required time slice.

        Parameters
        ----------
        factor: DiscreteFactor
           The factor which needs to be shifted.

        shift: int
           The new timeslice to which the factor should belong to.
        """
        new_scope = self._shift_nodes(factor.scope(), shift)
        return DiscreteFactor(new_scope, factor.cardinality, factor.values)

    def forward_inference(self, variables, evidence=None, args=None):
        """
        Forward inference method using belief propagation.

        Parameters
        ----------
        variables: list
            list of variables for which you want to compute the probability

        evidence: dict
            a dict key, value pair as {var: state_of_var_observed}
            None if no evidence

        Examples
        --------
        >>> from pgmpy.factors.discrete import TabularCPD
        >>> from pgmpy.models import DynamicBayesianNetwork as DBN
        >>> from pgmpy.inference import DBNInference
        >>> dbnet = DBN()
        >>> dbnet.add_edges_from([(('Z', 0), ('X', 0)), (('X', 0), ('Y', 0)),
        ...                       (('Z', 0), ('Z', 1))])
        >>> z_start_cpd = TabularCPD(('Z', 0), 2, [[0.5], [0.5]])
        >>> x_i_cpd = TabularCPD(('X', 0), 2, [[0.6, 0.9],
        ...                                    [0.4, 0.1]],
        ...                      evidence=[('Z', 0)],
        ...                      evidence_card=[2])
        >>> y_i_cpd = TabularCPD(('Y', 0), 2, [[0.2, 0.3],
        ...                                    [0.8, 0.7]],
        ...                      evidence=[('X', 0)],
        ...                      evidence_card=[2])
        >>> z_trans_cpd = TabularCPD(('Z', 1), 2, [[0.4, 0.7],
        ...                                        [0.6, 0.3]],
        ...                      evidence=[('Z', 0)],
        ...                      evidence_card=[2])
        >>> dbnet.add_cpds(z_start_cpd, z_trans_cpd, x_i_cpd, y_i_cpd)
        >>> dbnet.initialize_initial_state()
        >>> dbn_inf = DBNInference(dbnet)
        >>> dbn_inf.forward_inference([('X', 2)], {('Y', 0):1, ('Y', 1):0, ('Y', 2):1})[('X', 2)].values
        array([0.76738736, 0.23261264])
        """
        variable_dict = defaultdict(list)
        for var in variables:
            variable_dict[var[1]].append(var)

        time_range = max(variable_dict)
        if evidence:
            evid_time_range = max([time_slice for var, time_slice in evidence.keys()])
            time_range = max(time_range, evid_time_range)

        start_bp = BeliefPropagation(self.start_junction_tree)
        mid_bp = BeliefPropagation(self.one_and_half_junction_tree)
        evidence_0 = self._get_evidence(evidence, 0, 0)
        interface_nodes_dict = {}
        potential_dict = {}

        if evidence:
            interface_nodes_dict = {
                k: v for k, v in evidence_0.items() if k in self.interface_nodes_0
            }
        initial_factor = self._get_factor(start_bp, evidence_0)
        marginalized_factor = self._marginalize_factor(
            self.interface_nodes_0, initial_factor
        )
        potential_dict[0] = marginalized_factor
        self._update_belief(mid_bp, self.in_clique, marginalized_factor)

        if variable_dict[0]:
            factor_values = start_bp.query(
                variable_dict[0], evidence=evidence_0, joint=False
            )
        else:
            factor_values = {}

        for time_slice in range(1, time_range + 1):
            evidence_time = self._get_evidence(evidence, time_slice, 1)
            if interface_nodes_dict:
                evidence_time.update(interface_nodes_dict)

            if variable_dict[time_slice]:
                variable_time = self._shift_nodes(variable_dict[time_slice], 1)
                new_values = mid_bp.query(
                    variable_time, evidence=evidence_time, joint=False
                )
                changed_values = {}
                for key in new_values.keys():
                    new_key = (key[0], time_slice)
                    new_factor = DiscreteFactor(
                        [new_key], new_values[key].cardinality, new_values[key].values
                    )
                    changed_values[new_key] = new_factor
                factor_values.update(changed_values)

            clique_phi = self._get_factor(mid_bp, evidence_time)
            out_clique_phi = self._marginalize_factor(
                self.interface_nodes_1, clique_phi
            )
            new_factor = self._shift_factor(out_clique_phi, 0)
            potential_dict[time_slice] = new_factor
            mid_bp = BeliefPropagation(self.one_and_half_junction_tree)
            self._update_belief(mid_bp, self.in_clique, new_factor)

            if evidence_time:
                interface_nodes_dict = {
                    (k[0], 0): v
                    for k, v in evidence_time.items()
                    if k in self.interface_nodes_1
                }
            else:
                interface_nodes_dict = {}

        if args == "potential":
            return potential_dict

        return factor_values

    def backward_inference(self, variables, evidence=None):
        """
        Backward inference method using belief propagation.

        Parameters
        ----------
        variables: list
            list of variables for which you want to compute the probability
        evidence: dict
            a dict key, value pair as {var: state_of_var_observed}
            None if no evidence

        Examples
        --------
        >>> from pgmpy.factors.discrete import TabularCPD
        >>> from pgmpy.models import DynamicBayesianNetwork as DBN
        >>> from pgmpy.inference import DBNInference
        >>> dbnet = DBN()
        >>> dbnet.add_edges_from([(('Z', 0), ('X', 0)), (('X', 0), ('Y', 0)),
        ...                       (('Z', 0), ('Z', 1))])
        >>> z_start_cpd = TabularCPD(('Z', 0), 2, [[0.5], [0.5]])
        >>> x_i_cpd = TabularCPD(('X', 0), 2, [[0.6, 0.9],
        ...                                    [0.4, 0.1]],
        ...                      evidence=[('Z', 0)],
        ...                      evidence_card=[2])
        >>> y_i_cpd = TabularCPD(('Y', 0), 2, [[0.2, 0.3],
        ...                                    [0.8, 0.7]],
        ...                      evidence=[('X', 0)],
        ...                      evidence_card=[2])
        >>> z_trans_cpd = TabularCPD(('Z', 1), 2, [[0.4, 0.7],
        ...                                        [0.6, 0.3]],
        ...                      evidence=[('Z', 0)],
        ...                      evidence_card=[2])
        >>> dbnet.add_cpds(z_start_cpd, z_trans_cpd, x_i_cpd, y_i_cpd)
        >>> dbnet.initialize_initial_state()
        >>> dbn_inf = DBNInference(dbnet)
        >>> dbn_inf.backward_inference([('X', 0)], {('Y', 0):0, ('Y', 1):1, ('Y', 2):1})[('X', 0)].values
        array([0.66594382, 0.33405618])
        """
        variable_dict = defaultdict(list)
        for var in variables:
            variable_dict[var[1]].append(var)
        time_range = max(variable_dict)
        interface_nodes_dict = {}
        if evidence:
            evid_time_range = max([time_slice for var, time_slice in evidence.keys()])
            time_range = max(time_range, evid_time_range)
        end_bp = BeliefPropagation(self.start_junction_tree)
        potential_dict = self.forward_inference(variables, evidence, "potential")
        update_factor = self._shift_factor(potential_dict[time_range], 1)
        factor_values = {}

        for time_slice in range(time_range, 0, -1):
            evidence_time = self._get_evidence(evidence, time_slice, 1)
            evidence_prev_time = self._get_evidence(evidence, time_slice - 1, 0)
            if evidence_prev_time:
                interface_nodes_dict = {
                    k: v
                    for k, v in evidence_prev_time.items()
                    if k in self.interface_nodes_0
                }
            if evidence_time:
                evidence_time.update(interface_nodes_dict)
            mid_bp = BeliefPropagation(self.one_and_half_junction_tree)
            self._update_belief(mid_bp, self.in_clique, potential_dict[time_slice - 1])
            forward_factor = self._shift_factor(potential_dict[time_slice], 1)
            self._update_belief(mid_bp, self.out_clique, forward_factor, update_factor)

            if variable_dict[time_slice]:
                variable_time = self._shift_nodes(variable_dict[time_slice], 1)
                new_values = mid_bp.query(
                    variable_time, evidence=evidence_time, joint=False
                )
                changed_values = {}
                for key in new_values.keys():
                    new_key = (key[0], time_slice)
                    new_factor = DiscreteFactor(
                        [new_key], new_values[key].cardinality, new_values[key].values
                    )
                    changed_values[new_key] = new_factor
                factor_values.update(changed_values)

            clique_phi = self._get_factor(mid_bp, evidence_time)
            in_clique_phi = self._marginalize_factor(self.interface_nodes_0, clique_phi)
            update_factor = self._shift_factor(in_clique_phi, 1)

        out_clique_phi = self._shift_factor(update_factor, 0)
        self._update_belief(
            end_bp, self.start_interface_clique, potential_dict[0], out_clique_phi
        )
        evidence_0 = self._get_evidence(evidence, 0, 0)
        if variable_dict[0]:
            factor_values.update(
                end_bp.query(variable_dict[0], evidence_0, joint=False)
            )
        return factor_values

    def query(self, variables, evidence=None, args="exact"):
        """
        Query method for Dynamic Bayesian Network using Interface Algorithm.

        Parameters
        ----------
        variables: list
            list of variables for which you want to compute the probability

        evidence: dict
            a dict key, value pair as {var: state_of_var_observed}
            None if no evidence

        Examples
        --------
        >>> from pgmpy.factors.discrete import TabularCPD
        >>> from pgmpy.models import DynamicBayesianNetwork as DBN
        >>> from pgmpy.inference import DBNInference
        >>> dbnet = DBN()
        >>> dbnet.add_edges_from([(('Z', 0), ('X', 0)), (('X', 0), ('Y', 0)),
        ...                       (('Z', 0), ('Z', 1))])
        >>> z_start_cpd = TabularCPD(('Z', 0), 2, [[0.5], [0.5]])
        >>> x_i_cpd = TabularCPD(('X', 0), 2, [[0.6, 0.9],
        ...                                    [0.4, 0.1]],
        ...                      evidence=[('Z', 0)],
        ...                      evidence_card=[2])
        >>> y_i_cpd = TabularCPD(('Y', 0), 2, [[0.2, 0.3],
        ...                                    [0.8, 0.7]],
        ...                      evidence=[('X', 0)],
        ...                      evidence_card=[2])
        >>> z_trans_cpd = TabularCPD(('Z', 1), 2, [[0.4, 0.7],
        ...                                        [0.6, 0.3]],
        ...                      evidence=[('Z', 0)],
        ...                      evidence_card=[2])
        >>> dbnet.add_cpds(z_start_cpd, z_trans_cpd, x_i_cpd, y_i_cpd)
        >>> dbnet.initialize_initial_state()
        >>> dbn_inf = DBNInference(dbnet)
        >>> dbn_inf.query([('X', 0)], {('Y', 0):0, ('Y', 1):1, ('Y', 2):1})[('X', 0)].values
        array([0.66594382, 0.33405618])
        """
        if args == "exact":
            return self.backward_inference(variables, evidence)
