"""harness/seeded_report.py — print the table of seeded breaking changes (seeded/*/meta.json) for DESIGN.md I.8"""
import glob
import json
import os

VERIF = os.path.dirname(os.path.dirname(os.path.abspath(__file__)))


def main():
    rows = []
    for d in sorted(glob.glob(os.path.join(VERIF, "seeded", "*"))):
        try:
            m = json.load(open(os.path.join(d, "meta.json")))
        except Exception:
            continue
        note = m.get("note", "")
        first = "missed at first" if ("initially missed" in note or "hit by the original streams on" in note) else "caught"
        rows.append((m["id"], ", ".join(os.path.basename(f) for f in m.get("files", [])), ", ".join(m.get("caught_by", [])) or "-", first, note))
    print("| id | file(s) changed | caught by | first run | what the check saw / what was added |")
    print("|---|---|---|---|---|")
    for r in rows:
        print("| " + " | ".join(x.replace("|", "/") for x in r) + " |")
    n = len(rows)
    miss = sum(1 for r in rows if r[3] != "caught")
    print(f"\n{n} seeded changes; {n - miss} reported by the quick tier as first run, {miss} only after the generator / stream extension "
          f"named in the last column; 0 unreported now.")


if __name__ == "__main__":
    main()
