"""C04 — factor algebra is pointwise, order-independent and side-effect free."""
from __future__ import annotations

from fractions import Fraction

from harness import core, gen
from harness.core import ok, fail, skip, rs
from harness.worker import Stream

OBLIGATIONS = [
    "PgmVerif.C04_den_product", "PgmVerif.C04_den_add", "PgmVerif.C04_den_divide",
    "PgmVerif.C04_den_marginalize", "PgmVerif.C04_den_maximize", "PgmVerif.C04_den_reduce",
    "PgmVerif.C04_den_normalize", "PgmVerif.C04_axis_order_irrelevant",
    "PgmVerif.C04_product_comm", "PgmVerif.C04_product_assoc", "PgmVerif.C04_wf_product",
    "PgmVerif.C04_wf_marginalize", "PgmVerif.unravel_ravel", "PgmVerif.ravel_unravel",
    "PgmVerif.C04_scalar_ops", "PgmVerif.C04_scalar_neutral", "PgmVerif.C04_normalize_scale", "PgmVerif.C04_divide_product_cancel", "PgmVerif.C04_reduce_order_irrelevant", "PgmVerif.C04_eliminate_set", "PgmVerif.C04_normalize_sums_to_one",
]
PARTIAL = ["operand immutability and aliasing are heap facts: decided by snapshots in the correspondence, not by a theorem",
           "the documented float tolerance of __eq__ (atol 1e-8, numpy default rtol) is compared differentially"]
RULE = ("random factors over a pool of 2-5 named variables (cards 1-4, label kinds int/str/permuted/shifted/tuple), "
        "every operand in a random axis order; non-trivial = result scope non-empty or operands share/nest variables; "
        "distinct = distinct case JSON"
        " Also: scopes of 9-11 variables, magnitudes 1e-30..1e9, factor_divide / factor_product functions, FactorDict arithmetic, neutral scalars (0, 1, 0.0, 1.0) in method and operator spellings followed by an in-place step on the result.")
ASSUMPTIONS = ["numpy einsum / broadcasting are exercised, not verified"]
BUDGET_QUICK = 60


def pool(rng):
    n = rng.randint(2, 5)
    names = gen.node_names(rng, n)
    card = [rng.choice([1, 2, 2, 3, 3, 4]) for _ in range(n)]
    labels = [gen.state_labels(rng, c) for c in card]
    return names, card, labels


def snapshot(phi):
    import numpy as np
    from pgmpy.utils import compat_fns
    return (list(phi.variables), [int(c) for c in phi.cardinality], compat_fns.to_numpy(phi.values).tobytes(),
            tuple(compat_fns.to_numpy(phi.values).shape),
            {k: list(v) for k, v in phi.state_names.items()},
            {k: dict(v) for k, v in phi.no_to_name.items()},
            {k: dict(v) for k, v in phi.name_to_no.items()})


def compare_factor(phi, rep, names, card, labels, tol=core.RTOL, inf_idx=()):
    """pgmpy factor `phi` vs model reply `rep` at every labelled assignment"""
    pn = [gen.lab(x) for x in names]
    if set(phi.variables) != {pn[v] for v in rep["scope"]}:
        return f"scope: impl {phi.variables} model {[pn[v] for v in rep['scope']]}"
    if len(phi.variables) != len(set(phi.variables)):
        return f"repeated variable in scope {phi.variables}"
    for v in rep["scope"]:
        c_impl = int(phi.cardinality[phi.variables.index(pn[v])])
        if c_impl != card[v]:
            return f"cardinality of {pn[v]}: impl {c_impl} model {card[v]}"
        sn = list(phi.state_names[pn[v]])
        if sn != [gen.lab(x) for x in labels[v]]:
            return f"state names of {pn[v]}: impl {sn} declared {labels[v]}"
    if tuple(phi.values.shape) != tuple(int(c) for c in phi.cardinality):
        return f"values shape {tuple(phi.values.shape)} vs cardinality {list(phi.cardinality)}"
    infset = set(inf_idx)
    k = 0
    for asg in core.all_assignments(rep["scope"], rep["card"]):
        mv = core.model_value(rep, asg)
        iv = gen.impl_factor_value(phi, names, labels, asg)
        if k in infset:
            if iv != float("inf"):
                return f"at {asg}: impl {iv} expected +inf (x/0)"
        elif not core.close(iv, mv, tol):
            return f"at {asg}: impl {iv} model {mv} ({float(mv)})"
        k += 1
    return None


# ----------------------------------------------------------------------------- binop
def gen_binop(rng, tier):
    names, card, labels = pool(rng)
    vs = list(range(len(names)))
    rel = rng.choice(["any", "any", "disjoint", "nested", "identical"])
    f = gen.rand_factor(rng, vs, card)
    if rel == "identical":
        sc = list(f["scope"])
        rng.shuffle(sc)
        g = gen.rand_factor(rng, sc, card, k=len(sc))
    elif rel == "nested":
        g = gen.rand_factor(rng, f["scope"], card, k=rng.randint(1, len(f["scope"])))
    elif rel == "disjoint":
        rest = [v for v in vs if v not in f["scope"]]
        if not rest:
            return None
        g = gen.rand_factor(rng, rest, card, k=rng.randint(1, min(2, len(rest))))
    else:
        g = gen.rand_factor(rng, vs, card)
    op = rng.choice(["product", "product", "sum", "divide", "mul_op", "add_op", "div_op", "fn_divide", "fn_product2"])
    if op in ("divide", "div_op", "fn_divide"):
        if not set(g["scope"]) <= set(f["scope"]):
            f, g = (g, f) if set(f["scope"]) <= set(g["scope"]) else (f, gen.rand_factor(rng, f["scope"], card, k=rng.randint(1, len(f["scope"]))))
    if rng.random() < .2:
        # entries far below 1e-8 (and far above 1e8) are ordinary numbers: the algebra is pointwise at every magnitude
        for h in rng.sample([f, g], rng.choice([1, 1, 2])):
            sc = Fraction(10) ** rng.choice([-9, -12, -15, -30, 9])
            h["vals"] = [rs(Fraction(x) * sc) for x in h["vals"]]
    return {"names": names, "card": card, "labels": labels, "f": f, "g": g, "op": op,
            "inplace": rng.random() < .4, "rel": rel}


def run_binop(case, drv):
    names, card, labels = case["names"], case["card"], case["labels"]
    f = gen.factor_to_pgmpy(names, card, labels, case["f"])
    g = gen.factor_to_pgmpy(names, card, labels, case["g"])
    mf, mg = gen.factor_model(card, case["f"]), gen.factor_model(card, case["g"])
    op = case["op"]
    sf, sg = snapshot(f), snapshot(g)
    inf_idx = ()
    if op in ("product", "mul_op", "fn_product2"):
        rep = drv.call("f_product", f=mf, g=mg)
    elif op in ("sum", "add_op"):
        rep = drv.call("f_add", f=mf, g=mg)
    else:
        r = drv.call("f_divide", f=mf, g=mg)
        rep, inf_idx = r["r"], r["inf"]
    inplace = case["inplace"] and op in ("product", "sum", "divide")
    import numpy as np
    with np.errstate(all="ignore"):
        if op == "mul_op":
            res = f * g
        elif op == "add_op":
            res = f + g
        elif op == "div_op":
            res = f / g
        elif op == "fn_divide":
            from pgmpy.factors import factor_divide
            res = factor_divide(f, g)
        elif op == "fn_product2":
            from pgmpy.factors import factor_product
            res = factor_product(f, g)
        elif inplace:
            getattr(f, op)(g, inplace=True)
            res = f
        else:
            res = getattr(f, op)(g, inplace=False)
    if res is None:
        return fail("out-of-place call returned None")
    err = compare_factor(res, rep, names, card, labels, inf_idx=inf_idx)
    tags = dict(op=op, rel=case["rel"], inplace=inplace, size=len(rep["vals"]))
    if err:
        return fail(f"{op}: {err}", **tags)
    if snapshot(g) != sg:
        return fail(f"{op}: second operand modified", **tags)
    if not inplace:
        if snapshot(f) != sf:
            return fail(f"{op}: first operand modified by out-of-place call", **tags)
        # aliasing: an in-place edit of the result must not reach the operands
        res.product(2, inplace=True)
        if snapshot(f) != sf or snapshot(g) != sg:
            return fail(f"{op}: result shares its value array with an operand", **tags)
    return ok(nontrivial=len(rep["vals"]) > 1, **tags)


# ----------------------------------------------------------------------------- unary ops
def gen_unop(rng, tier):
    wide = rng.random() < .12
    if wide:
        # a wide scope (9-11 variables, mostly binary): position arithmetic over more than 8 axes; usually only 1-4 variables are kept
        n = rng.randint(9, 11)
        names = gen.node_names(rng, n)
        card = [rng.choice([1, 2, 2, 2, 2, 3]) for _ in range(n)]
        labels = [gen.state_labels(rng, c) for c in card]
        f = gen.rand_factor(rng, list(range(n)), card, k=n, style="small")
    else:
        names, card, labels = pool(rng)
        vs = list(range(len(names)))
        f = gen.rand_factor(rng, vs, card, k=rng.randint(1, min(4, len(vs))))
    op = rng.choice(["marginalize", "maximize", "reduce", "normalize", "marginalize", "reduce"])
    if rng.random() < .2:
        # total mass far below 1e-8 (products of many small likelihoods): still an ordinary factor
        sc = Fraction(1, 10 ** rng.choice([9, 12, 15]))
        f["vals"] = [rs(Fraction(x) * sc) for x in f["vals"]]
    if wide and op != "normalize":
        keep = rng.randint(1, 4) if rng.random() < .8 else rng.randint(5, len(f["scope"]) - 1)
        sub = rng.sample(f["scope"], len(f["scope"]) - keep)
    else:
        sub = rng.sample(f["scope"], rng.randint(1, len(f["scope"]))) if op != "normalize" else []
    ev = [[v, rng.randrange(card[v])] for v in sub] if op == "reduce" else []
    if op == "normalize" and sum(Fraction(x) for x in f["vals"]) == 0:
        return None
    return {"names": names, "card": card, "labels": labels, "f": f, "op": op, "vars": sub, "ev": ev,
            "inplace": rng.random() < .4, "by_index": rng.random() < .15}


def run_unop(case, drv):
    names, card, labels = case["names"], case["card"], case["labels"]
    pn = [gen.lab(x) for x in names]
    f = gen.factor_to_pgmpy(names, card, labels, case["f"])
    mf = gen.factor_model(card, case["f"])
    op = case["op"]
    sf = snapshot(f)
    if op == "marginalize":
        rep = drv.call("f_marginalize", f=mf, vars=case["vars"])
        args = ([pn[v] for v in case["vars"]],)
    elif op == "maximize":
        rep = drv.call("f_maximize", f=mf, vars=case["vars"])
        args = ([pn[v] for v in case["vars"]],)
    elif op == "reduce":
        rep = drv.call("f_reduce", f=mf, ev=case["ev"])
        args = ([(pn[v], gen.lab(labels[v][i])) for v, i in case["ev"]],)
    else:
        rep = drv.call("f_normalize", f=mf)
        args = ()
    inplace = case["inplace"]
    if inplace:
        getattr(f, op)(*args, inplace=True)
        res = f
    else:
        res = getattr(f, op)(*args, inplace=False)
        if res is None:
            return fail(f"{op}: out-of-place call returned None")
    err = compare_factor(res, rep, names, card, labels)
    tags = dict(op=op, inplace=inplace, nvars=len(case["f"]["scope"]), nelim=len(case["vars"]))
    if err:
        return fail(f"{op}: {err}", **tags)
    if not inplace:
        if snapshot(f) != sf:
            return fail(f"{op}: operand modified by out-of-place call", **tags)
        res.product(2, inplace=True)
        if snapshot(f) != sf:
            return fail(f"{op}: result shares its value array with the operand", **tags)
    return ok(nontrivial=len(case["f"]["vals"]) > 1, **tags)


# ----------------------------------------------------------------------------- chains (expressions)
def gen_chain(rng, tier):
    names, card, labels = pool(rng)
    vs = list(range(len(names)))
    fs = [gen.rand_factor(rng, vs, card) for _ in range(rng.randint(2, 4))]
    steps = []
    scope = set(fs[0]["scope"])
    for i in range(1, len(fs)):
        steps.append(["product" if rng.random() < .7 else "sum", i])
        scope |= set(fs[i]["scope"])
        if scope and rng.random() < .6:
            sub = rng.sample(sorted(scope), rng.randint(1, max(1, len(scope) - 1)))
            kind = rng.choice(["marginalize", "maximize", "reduce"])
            if kind == "reduce":
                steps.append(["reduce", [[v, rng.randrange(card[v])] for v in sub]])
            else:
                steps.append([kind, sub])
            scope -= set(sub)
    return {"names": names, "card": card, "labels": labels, "fs": fs, "steps": steps}


def run_chain(case, drv):
    names, card, labels = case["names"], case["card"], case["labels"]
    pn = [gen.lab(x) for x in names]
    fs = [gen.factor_to_pgmpy(names, card, labels, f) for f in case["fs"]]
    snaps = [snapshot(f) for f in fs]
    ms = [gen.factor_model(card, f) for f in case["fs"]]
    cur, mcur = fs[0], ms[0]
    for st in case["steps"]:
        if st[0] in ("product", "sum"):
            cur = getattr(cur, st[0])(fs[st[1]], inplace=False)
            mcur = drv.call("f_product" if st[0] == "product" else "f_add", f=mcur, g=ms[st[1]])
        elif st[0] == "reduce":
            cur = cur.reduce([(pn[v], gen.lab(labels[v][i])) for v, i in st[1]], inplace=False)
            mcur = drv.call("f_reduce", f=mcur, ev=st[1])
        else:
            cur = getattr(cur, st[0])([pn[v] for v in st[1]], inplace=False)
            mcur = drv.call("f_" + st[0], f=mcur, vars=st[1])
        err = compare_factor(cur, mcur, names, card, labels)
        if err:
            return fail(f"after step {st}: {err}", nsteps=len(case["steps"]))
    for f, s in zip(fs, snaps):
        if snapshot(f) != s:
            return fail("an operand of an out-of-place expression was modified")
    return ok(nsteps=len(case["steps"]), final_scope=len(mcur["scope"]))


# ----------------------------------------------------------------------------- n-ary helpers
def gen_nary(rng, tier):
    names, card, labels = pool(rng)
    vs = list(range(len(names)))
    fs = [gen.rand_factor(rng, vs, card) for _ in range(rng.randint(1, 4))]
    if rng.random() < .3 and len(fs) > 1:
        fs[-1] = dict(fs[0])  # equal factors must both count
    allv = sorted({v for f in fs for v in f["scope"]})
    sub = rng.sample(allv, rng.randint(0, len(allv)))
    return {"names": names, "card": card, "labels": labels, "fs": fs, "sumout": sub}


def run_nary(case, drv):
    from pgmpy.factors import factor_product
    from pgmpy.factors.base import factor_sum_product
    names, card, labels = case["names"], case["card"], case["labels"]
    pn = [gen.lab(x) for x in names]
    fs = [gen.factor_to_pgmpy(names, card, labels, f) for f in case["fs"]]
    snaps = [snapshot(f) for f in fs]
    ms = [gen.factor_model(card, f) for f in case["fs"]]
    m = ms[0]
    for g in ms[1:]:
        m = drv.call("f_product", f=m, g=g)
    res = factor_product(*fs)
    err = compare_factor(res, m, names, card, labels)
    if err:
        return fail(f"factor_product: {err}", n=len(fs))
    if case["sumout"]:
        m2 = drv.call("f_marginalize", f=m, vars=case["sumout"])
        keep = [v for v in m["scope"] if v not in case["sumout"]]
        res2 = factor_sum_product([pn[v] for v in keep], fs)
        if len(m2["scope"]) == 0:
            import numpy as np
            val = float(np.asarray(res2.values if hasattr(res2, "values") else res2).reshape(-1)[0])
            if not core.close(val, Fraction(m2["vals"][0])):
                return fail(f"factor_sum_product scalar: impl {val} model {m2['vals'][0]}")
        else:
            err = compare_factor(res2, m2, names, card, labels)
            if err:
                return fail(f"factor_sum_product: {err}", n=len(fs))
    for f, s in zip(fs, snaps):
        if snapshot(f) != s:
            return fail("factor_product / factor_sum_product modified an operand")
    return ok(n=len(fs), dup=case["fs"][0] == case["fs"][-1] and len(fs) > 1)


# ----------------------------------------------------------------------------- equality
def gen_eq(rng, tier):
    names, card, labels = pool(rng)
    vs = list(range(len(names)))
    f = gen.rand_factor(rng, vs, card, k=rng.randint(1, min(3, len(vs))))
    sc = list(f["scope"])
    newscope = list(sc)
    rng.shuffle(newscope)
    sperm = {}
    for v in sc:
        p = list(range(card[v]))
        if rng.random() < .6:
            rng.shuffle(p)
        sperm[str(v)] = p
    mode = rng.choice(["same", "same", "perturb", "perturb_small", "relabel", "scope"])
    return {"names": names, "card": card, "labels": labels, "f": f, "newscope": newscope, "sperm": sperm,
            "mode": mode, "pos": rng.randrange(len(f["vals"]))}


def run_eq(case, drv):
    """g = f presented with permuted axes and permuted state order (same named function)."""
    names, card, labels = case["names"], case["card"], case["labels"]
    f = gen.factor_to_pgmpy(names, card, labels, case["f"])
    sc = case["f"]["scope"]
    ns = case["newscope"]
    # build g's table by named assignment
    fvals = [Fraction(x) for x in case["f"]["vals"]]
    fcard = [card[v] for v in sc]
    gcard = [card[v] for v in ns]
    glabels = [list(l) for l in labels]
    for v in sc:
        p = case["sperm"][str(v)]
        glabels[v] = [labels[v][p[k]] for k in range(card[v])]
    gvals = []
    for asg in core.all_assignments(ns, gcard):
        old = {v: case["sperm"][str(v)][asg[v]] for v in sc}
        gvals.append(fvals[core.ravel(fcard, [old[v] for v in sc])])
    mode = case["mode"]
    expect = True
    if mode == "perturb":
        # well outside atol=1e-8 + numpy's default rtol=1e-5 (accepted as the documented tolerance)
        k = case["pos"] % len(gvals)
        gvals[k] = gvals[k] * Fraction(101, 100) + Fraction(1, 1000)
        expect = False
    elif mode == "perturb_small":
        gvals[case["pos"] % len(gvals)] += Fraction(1, 10 ** 12)   # far inside the documented tolerance
        expect = True
    elif mode == "relabel":
        v = sc[0]
        glabels[v] = [["zz", k] for k in range(card[v])]
        expect = False
    gnames = list(names)
    if mode == "scope":
        other = [v for v in range(len(names)) if v not in sc]
        if not other:
            return skip("no spare variable")
        # same table, but one variable replaced by a different one of the same cardinality
        v0 = ns[0]
        cand = [w for w in other if card[w] == card[v0]]
        if not cand:
            return skip("no spare variable of that cardinality")
        ns = [cand[0]] + ns[1:]
        glabels[cand[0]] = glabels[v0]
        expect = False
    g = gen.factor_to_pgmpy(gnames, card, glabels, {"scope": ns, "vals": [core.rs(x) for x in gvals]})
    sf = snapshot(f)
    sg = snapshot(g)
    r1, r2 = (f == g), (g == f)
    if snapshot(f) != sf or snapshot(g) != sg:
        return fail("__eq__ modified an operand")
    tags = dict(mode=mode, axes_permuted=ns != sc, states_permuted=any(p != sorted(p) for p in case["sperm"].values()))
    if r1 != expect or r2 != expect:
        return fail(f"__eq__ gave {r1}/{r2}, expected {expect} (mode {mode})", **tags)
    if (f != g) == r1:
        return fail("__ne__ inconsistent with __eq__", **tags)
    return ok(nontrivial=len(gvals) > 1, **tags)


# ----------------------------------------------------------------------------- scalars
def gen_scalar(rng, tier):
    names, card, labels = pool(rng)
    vs = list(range(len(names)))
    f = gen.rand_factor(rng, vs, card)
    return {"names": names, "card": card, "labels": labels, "f": f, "op": rng.choice(["product", "sum"]),
            "k": rng.choice([0, 1, 2, 3, 5, 1.0, 0.0]), "inplace": rng.random() < .5,
            "form": rng.choice(["method", "op", "rop"]), "then": rng.choice(["normalize", "marginalize", "reduce"])}


def run_scalar(case, drv):
    names, card, labels = case["names"], case["card"], case["labels"]
    f = gen.factor_to_pgmpy(names, card, labels, case["f"])
    sf = snapshot(f)
    k = case["k"]
    mf = gen.factor_model(card, case["f"])
    const = {"scope": [], "card": [], "vals": [str(int(k))]}
    rep = drv.call("f_product" if case["op"] == "product" else "f_add", f=mf, g=const)
    if case["inplace"]:
        getattr(f, case["op"])(k, inplace=True)
        res = f
    else:
        form = case.get("form", "method")
        if form == "method":
            res = getattr(f, case["op"])(k, inplace=False)
        elif form == "op":
            res = (f * k) if case["op"] == "product" else (f + k)
        else:
            res = (k * f) if case["op"] == "product" else (k + f)
    err = compare_factor(res, rep, names, card, labels)
    if err:
        return fail(f"scalar {case['op']}: {err}")
    if not case["inplace"] and snapshot(f) != sf:
        return fail("scalar op modified its operand out-of-place")
    if not case["inplace"] and case.get("then"):
        # the result of an out-of-place operation is a value of its own: a later in-place step on it leaves the operand alone
        try:
            if case["then"] == "normalize":
                res.normalize()
            elif case["then"] == "marginalize" and len(res.variables) > 1:
                res.marginalize([res.variables[0]])
            elif case["then"] == "reduce" and len(res.variables) > 1:
                v = res.variables[0]
                res.reduce([(v, res.state_names[v][0])])
        except Exception:  # the second step is only a probe (e.g. normalising an all-zero table)
            pass
        if snapshot(f) != sf:
            return fail(f"in-place {case['then']} on the result of an out-of-place scalar {case['op']} (k={k!r}, {form}) changed the operand")
    return ok(op=case["op"], inplace=case["inplace"])


# ----------------------------------------------------------------------------- FactorDict (clique-keyed factor collections)
def gen_fdict(rng, tier):
    names, card, labels = pool(rng)
    n = len(names)
    keys = []
    for _ in range(rng.randint(1, 3)):
        k = sorted(rng.sample(range(n), rng.randint(1, min(3, n))))
        if k not in keys:
            keys.append(k)

    def table(k):
        sc = list(k)
        rng.shuffle(sc)                 # the factor stored under a clique may list its variables in any order
        size = 1
        for v in sc:
            size *= card[v]
        return {"scope": sc, "vals": [rs(x) for x in gen.rand_vals(rng, size, rng.choice(["generic", "small"]))]}
    return {"names": names, "card": card, "labels": labels, "keys": keys, "a": [table(k) for k in keys], "b": [table(k) for k in keys],
            "op": rng.choice(["dot", "dot", "add", "sub", "scale", "add_const", "product"]), "c": rs(Fraction(rng.randint(-6, 6), rng.choice([1, 2, 4])))}


def run_fdict(case, drv):
    """FactorDict arithmetic is the factor arithmetic of the entries, aligned by VARIABLE NAME: dot = sum over cliques of the sum of
    the pointwise product; +, -, const * act clique by clique; product() is the factor product of all entries"""
    from pgmpy.factors.FactorDict import FactorDict
    import numpy as np
    names, card, labels = case["names"], case["card"], case["labels"]
    pn = [gen.lab(x) for x in names]
    key = lambda k: tuple(pn[v] for v in k)
    A = FactorDict({key(k): gen.factor_to_pgmpy(names, card, labels, f) for k, f in zip(case["keys"], case["a"])})
    B = FactorDict({key(k): gen.factor_to_pgmpy(names, card, labels, f) for k, f in zip(case["keys"], case["b"])})
    ma = [gen.factor_model(card, f) for f in case["a"]]
    mb = [gen.factor_model(card, f) for f in case["b"]]
    sa, sb = [snapshot(A[k]) for k in A], [snapshot(B[k]) for k in B]
    op, c = case["op"], Fraction(case["c"])
    tags = dict(op=op, ncliques=len(case["keys"]))
    try:
        if op == "dot":
            got = float(A.dot(B))
            exp = sum(sum(Fraction(x) for x in drv.call("f_product", f=x, g=y)["vals"]) for x, y in zip(ma, mb))
            if not core.close(got, exp):
                return fail(f"FactorDict.dot = {got}, sum over cliques of the summed pointwise products = {float(exp)}", **tags)
        elif op == "product":
            if any(ma[i] == ma[j] for i in range(len(ma)) for j in range(i)):
                return skip("equal factors")
            res = A.product()
            rep = ma[0]
            for x in ma[1:]:
                rep = drv.call("f_product", f=rep, g=x)
            err = compare_factor(res, rep, names, card, labels)
            if err:
                return fail(f"FactorDict.product: {err}", **tags)
        else:
            if op == "add":
                R, reps = A + B, [drv.call("f_add", f=x, g=y) for x, y in zip(ma, mb)]
            elif op == "sub":
                R = A - B
                reps = [drv.call("f_add", f=x, g={**y, "vals": [rs(-Fraction(v)) for v in y["vals"]]}) for x, y in zip(ma, mb)]
            elif op == "scale":
                R = float(c) * A if len(case["keys"]) % 2 else A * float(c)
                reps = [{**x, "vals": [rs(c * Fraction(v)) for v in x["vals"]]} for x in ma]
            else:
                R = A + float(c)
                reps = [{**x, "vals": [rs(c + Fraction(v)) for v in x["vals"]]} for x in ma]
            if set(R.keys()) != set(A.keys()):
                return fail(f"FactorDict {op}: keys {list(R.keys())} vs {list(A.keys())}", **tags)
            for k, rep in zip(case["keys"], reps):
                err = compare_factor(R[key(k)], rep, names, card, labels)
                if err:
                    return fail(f"FactorDict {op}, clique {key(k)}: {err}", **tags)
    except Exception as e:
        return fail(f"FactorDict {op} raised {type(e).__name__}: {e}", **tags)
    if [snapshot(A[k]) for k in A] != sa or [snapshot(B[k]) for k in B] != sb:
        return fail(f"FactorDict {op} modified an operand", **tags)
    return ok(nontrivial=True, **tags)


STREAMS = [
    Stream("binop", gen_binop, run_binop, quick=1500, thorough=20000),
    Stream("unop", gen_unop, run_unop, quick=1200, thorough=15000),
    Stream("chain", gen_chain, run_chain, quick=500, thorough=6000),
    Stream("nary", gen_nary, run_nary, quick=400, thorough=5000),
    Stream("eq", gen_eq, run_eq, quick=600, thorough=8000),
    Stream("scalar", gen_scalar, run_scalar, quick=200, thorough=2000),
    Stream("factor_dict", gen_fdict, run_fdict, quick=300, thorough=3000),
]

LEVEL_TEXT = ("Kernel-checked theorems (Props/C04.lean) state, for every well-formed table, axis order and in-range assignment, "
              "that product/sum/divide/marginalise/maximise/reduce/normalise of the Lean model have exactly the textbook pointwise "
              "meaning (a scalar operand is the factor over no variables; 1 and 0 are neutral), that results are well-formed over the right scope, and that operand axis order is irrelevant; the model is tied "
              "to pgmpy's DiscreteFactor on every run by differential correspondence at every named assignment (6 hash seeds). "
              "Operand immutability, aliasing and the float tolerance of __eq__ are decided by the correspondence only (partial).")
LEVEL_NOTE = ("Trusted: Lean kernel + propext/Classical.choice/Quot.sound; hand-written model; correspondence harness and generators; "
              "float comparison at 1e-9 relative. numpy einsum/broadcasting are exercised, not verified.")
TECHNIQUE = "Lean 4 proof of den_* laws over a table model + differential correspondence with DiscreteFactor"
