"""C17 — dynamic-network inference equals inference on the unrolled network."""
from __future__ import annotations

import math

from fractions import Fraction

from harness import core, gen
from harness.core import ok, fail, skip, rs
from harness.worker import Stream

OBLIGATIONS = [
    "PgmVerif.C17_shift_den", "PgmVerif.C17_unroll_slices", "PgmVerif.C17_shift_add", "PgmVerif.C17_unroll_prefix", "PgmVerif.C17_unroll_wf",
    "PgmVerif.C17_slicewise_elimination_exact",
]
PARTIAL = ["eliminating the unrolled network slice by slice is proved exact for every T (C17_slicewise_elimination_exact, an instance of the VE "
           "theorem of C01); that the forward / backward interface recursion with its 1.5-slice junction trees computes those sums is decided by the correspondence only "
           "(implementation vs brute-force posterior of the unrolled network of the Lean model)"]
RULE = ("templates with 1-3 binary/ternary variables per slice, random intra-slice DAG, inter-slice edges (persistence and cross), query "
        "times 0..3, evidence in several slices incl. interface variables; non-trivial = at least one inter-slice edge and T >= 1; "
        "distinct = case JSON"
        " Also: direct backward_inference calls, smoothing queries, 6-variable ring slices, rounded tables in template completion, evidence dict reused and checked unchanged.")
ASSUMPTIONS = ["default integer state names (the DBN classes do not carry state names)"]
BUDGET_QUICK = 100
LEVEL_TEXT = ("Kernel-checked: unrolling is slice-wise renaming — the CPD of (v,t) in the unrolled network denotes the template's slice-1 CPD "
              "at the shifted assignment, unrolled factors are well-formed, and the unrolled factor list is the slice-0 CPDs followed by one "
              "shifted copy of the slice-1 CPDs per later slice; variable elimination of that network in slice order (the order the interface "
              "algorithm follows) yields the evidence-reduced product summed over exactly the eliminated variables, for every number of slices. The specification of every query is the brute-force posterior of that "
              "unrolled network. DBNInference.query / forward_inference, get_constant_bn and initialize_initial_state are compared with it; "
              "the interface algorithm itself is not modelled (partial). Three template/evidence shapes on which the implementation is "
              "known to be wrong are recorded as known findings and classified by predicate.")
LEVEL_NOTE = "Trusted: Lean kernel + standard axioms; model; harness."
TECHNIQUE = "Lean 4 proof (unrolling = slice renaming, slice-wise elimination exact) + differential check of DBNInference against the brute-force posterior"

VN = ["A", "B", "C", "D", "E", "F"]


def gen_template(rng, good=None, allow_ring=False):
    ring = allow_ring and good is not False and rng.random() < .08
    if ring:
        # a slice whose moral graph has a long chordless cycle (Z->A, Z->B, A->C, B->D, C->E, D->E): the junction trees of the interface
        # algorithm need cascaded fill-in edges
        k = 6
        card = [rng.choice([2, 2, 2, 3]) for _ in range(k)]
        perm = list(range(k))
        rng.shuffle(perm)
        intra = [[perm[a], perm[b]] for a, b in [(0, 1), (0, 2), (1, 3), (2, 4), (3, 5), (4, 5)]]
        good = True
        inter = [[v, v] for v in rng.sample(range(k), rng.randint(1, 2))]
    else:
        k = rng.randint(1, 3)
        card = [rng.choice([2, 2, 3]) for _ in range(k)]
        _, intra = gen.rand_dag_edges(rng, k, rng.choice(["chain", "gnp", "tree", "collider"]) if k > 1 else "isolated")
        good = rng.random() < .6 if good is None else good
        inter = []
    if good and not ring:
        # the region where the interface algorithm is claimed to work: persistence edges only, every variable in an intra edge
        if k == 1:
            good = False
        else:
            touched = {u for e in intra for u in e}
            for v in range(k):
                if v not in touched:
                    intra = sorted(set(map(tuple, intra)) | {(min(v, (v + 1) % k), max(v, (v + 1) % k))})
            intra = [list(e) for e in intra]
            for v in rng.sample(range(k), rng.randint(1, k)):
                inter.append([v, v])
    if not good:
        for u in range(k):
            for v in range(k):
                if rng.random() < (.5 if u == v else .25):
                    inter.append([u, v])
        if not inter:
            inter.append([0, 0])
    intra = [list(e) for e in intra]
    # a variable without any edge has no slice-1 node in the library's representation: give it a persistence edge
    for v in range(k):
        if not any(v in e for e in intra) and not any(w == v for _, w in inter):
            inter.append([v, v])
    # CPDs
    def cpd(child_id, parents_ids, ccard, pcards):
        ncols = 1
        for c in pcards:
            ncols *= c
        cols = [gen.rand_dist(rng, ccard, "generic") for _ in range(ncols)]
        return {"scope": [child_id] + parents_ids, "card": [ccard] + pcards,
                "vals": [rs(cols[j][i]) for i in range(ccard) for j in range(ncols)]}
    cpd0, cpd1 = [], []
    for v in range(k):
        p0 = [u for u, w in intra if w == v]
        cpd0.append(cpd(v, p0, card[v], [card[u] for u in p0]))
        p1 = [k + u for u, w in intra if w == v] + [u for u, w in inter if w == v]
        cpd1.append(cpd(k + v, p1, card[v], [card[u % k] for u in p1]))
    # state names: None = the default 0..k-1; otherwise every CPD of the variable (both slices) declares these names and evidence
    # is given by name
    lk = rng.choice([None, None, "permint", "str"])
    labels = None if lk is None else [gen.state_labels(rng, c, lk) for c in card]
    return {"k": k, "card": card, "intra": intra, "inter": inter, "cpd0": cpd0, "cpd1": cpd1, "good": good, "labels": labels}


def ev_state(case, v, s):
    """the observed state as handed to the library: its declared name if the template declares names, else the number"""
    return s if case.get("labels") is None else gen.lab(case["labels"][v][s])


def build_dbn(tm):
    from pgmpy.models import DynamicBayesianNetwork as DBN
    from pgmpy.factors.discrete import TabularCPD
    k = tm["k"]
    dbn = DBN()
    dbn.add_nodes_from(VN[:k])
    for u, v in tm["intra"]:
        dbn.add_edge((VN[u], 0), (VN[v], 0))
    for u, v in tm["inter"]:
        dbn.add_edge((VN[u], 0), (VN[v], 1))

    def node(i):
        return (VN[i % k], i // k)
    cpds = []
    labels = tm.get("labels")
    for f in tm["cpd0"] + tm["cpd1"]:
        sc = f["scope"]
        ccard = f["card"][0]
        ncols = len(f["vals"]) // ccard
        table = [[float(Fraction(f["vals"][i * ncols + j])) for j in range(ncols)] for i in range(ccard)]
        kw = {}
        if labels is not None:
            kw["state_names"] = {node(i): [gen.lab(l) for l in labels[i % k]] for i in sc}
        cpds.append(TabularCPD(node(sc[0]), ccard, table, evidence=[node(p) for p in sc[1:]] or None,
                               evidence_card=f["card"][1:] or None, **kw))
    dbn.add_cpds(*cpds)
    return dbn


def gen_query(rng, tier):
    tm = gen_template(rng, allow_ring=True)
    k = tm["k"]
    T = rng.randint(0, 3)
    while T > 1 and math.prod(tm["card"]) ** (T + 1) > 20000:
        T -= 1
    allnodes = [(v, t) for v in range(k) for t in range(T + 1)]
    q = rng.sample(allnodes, rng.randint(1, min(2, len(allnodes))))
    if not any(t == T for _, t in q) and rng.random() < .6:
        q[0] = (q[0][0], T)          # (otherwise: smoothing - the query lies before the last observed slice)
    rest = [x for x in allnodes if x not in q]
    ev = rng.sample(rest, min(len(rest), rng.choice([0, 0, 1, 2, 3, 4])))
    tm["T"] = T
    tm["q"] = [list(x) for x in q]
    tm["ev"] = [[v, t, rng.randrange(tm["card"][v])] for v, t in ev]
    tm["mode"] = rng.choice(["query", "query", "forward"])
    tm["direct"] = rng.random() < .35      # mode "query": call backward_inference itself instead of the query() front end
    tm["reuse_ev"] = rng.random() < .3
    return tm


def _sig(x):
    import re
    return re.sub(r"0x[0-9a-f]+", "0x", x)


def dbn_outcome(case, cls):
    """("exc", type, message) or ("vals", {key: [floats]}) of one DBN query answered by inference class `cls` on a fresh model"""
    try:
        dbn = build_dbn(case)
        dbn.initialize_initial_state()
        inf = cls(dbn)
        variables = [(VN[v], t) for v, t in case["q"]]
        evidence = {(VN[v], t): ev_state(case, v, s) for v, t, s in case["ev"]} or None
        ev_before = dict(evidence) if evidence else evidence
        if case.get("reuse_ev") and evidence:
            # the caller's evidence dict has been used for a filtering call on the same engine before: it is an input, and still complete
            try:
                inf.forward_inference(variables, evidence)
            except Exception:
                pass
        if case["mode"] == "forward":
            res = inf.forward_inference(variables, evidence)
        elif case.get("direct"):
            res = inf.backward_inference(variables, evidence)
        else:
            res = inf.query(variables, evidence)
        if evidence != ev_before:
            return ("exc", "EvidenceModified", f"the caller's evidence dict was changed: {ev_before} -> {evidence}"), None, None
    except Exception as e:
        return ("exc", type(e).__name__, _sig(str(e))), None, None
    try:
        vals = {repr(key): [float(x) for x in f.values.reshape(-1)] for key, f in res.items()}
    except Exception as e:
        vals = {"unreadable": _sig(repr(e))}
    return ("vals", vals), res, evidence


def same_as_pinned(case, out):
    """does the frozen copy of the pinned interface algorithm (harness/pinned) give the same outcome?  Only then can a failure be
    one of the recorded C17 findings."""
    try:
        from harness.pinned.dbn_inference_pinned import DBNInference as Pinned
        ref = dbn_outcome(case, Pinned)[0]
    except Exception:
        return False
    if ref[0] != out[0]:
        return False
    if ref[0] == "exc":
        return ref == out
    a, b = ref[1], out[1]
    if set(a) != set(b):
        return False
    for key in a:
        if len(a[key]) != len(b[key]):
            return False
        for x, y in zip(a[key], b[key]):
            if not (x == y or abs(x - y) <= 1e-12 * max(1.0, abs(x), abs(y)) or (x != x and y != y)):
                return False
    return True


def run_query(case, drv):
    from pgmpy.inference import DBNInference
    k, T = case["k"], case["T"]
    q = [t * k + v for v, t in case["q"]]
    ev = [[t * k + v, s] for v, t, s in case["ev"]]
    tags = dict(k=k, T=T, nev=len(ev), good=case["good"], mode=case["mode"], named=case.get("labels") is not None)
    out, res, evidence = dbn_outcome(case, DBNInference)
    if out[0] == "exc":
        return fail({"msg": f"DBNInference raised {out[1]}: {out[2]}", "same_as_pinned": same_as_pinned(case, out)}, **tags)
    for (v, t), qi in zip(case["q"], q):
        m = drv.call("dbn_posterior", k=k, cpd0=case["cpd0"], cpd1=case["cpd1"], cards=case["card"], T=T, q=[qi],
                     ev=ev if case["mode"] == "query" else [e for e in ev if e[0] // k <= t])
        if Fraction(m["pe"]) == 0:
            return skip("zero-probability evidence")
        key = (VN[v], t)
        if key not in res:
            return fail({"msg": f"result has no entry for {key}: {list(res)}", "same_as_pinned": same_as_pinned(case, out)}, **tags)
        vals = [float(x) for x in res[key].values.reshape(-1)]
        exp = [Fraction(x) for x in m["post"]["vals"]]
        if len(vals) != len(exp) or any(not core.close(a, b, 1e-8) for a, b in zip(vals, exp)):
            return fail({"msg": f"{case['mode']} P({key} | {evidence}) = {vals}, unrolled network gives {[float(x) for x in exp]} "
                                f"(intra {case['intra']} inter {case['inter']})", "same_as_pinned": same_as_pinned(case, out)}, **tags)
    return ok(nontrivial=T >= 1 and bool(case["inter"]), **tags)


# ----------------------------------------------------------------------------- one engine, several queries
def gen_history(rng, tier):
    """one DBNInference object answers 2-4 queries; consecutive queries often share the query and evidence VARIABLES and differ
    only in the observed STATES. Generated inside the regime without known findings: persistence interface, every variable in an
    intra edge, evidence off the interface, one query variable per call."""
    for _ in range(40):
        tm = gen_template(rng, good=True)
        if tm["good"] and tm["k"] >= 2:
            break
    else:
        return None
    k = tm["k"]
    iface = {u for u, _ in tm["inter"]}
    T = rng.randint(1, 3)
    while T > 1 and math.prod(tm["card"]) ** (T + 1) > 7000:      # the specification enumerates the unrolled joint exactly
        T -= 1
    allnodes = [(v, t) for v in range(k) for t in range(T + 1)]
    free = [x for x in allnodes if x[0] not in iface]
    steps = []
    qv, evv = None, None
    for _ in range(rng.randint(2, 4)):
        if qv is None or rng.random() < .35:
            qv = rng.choice([x for x in allnodes if x[1] >= 1] or allnodes)
            cand = [x for x in free if x != qv]
            evv = rng.sample(cand, min(len(cand), rng.choice([1, 1, 2, 3, 4])))      # insertion order of the evidence dict is random
        steps.append({"q": [list(qv)], "ev": [[v, t, rng.randrange(tm["card"][v])] for v, t in evv],
                      "mode": rng.choice(["query", "query", "forward"]), "direct": rng.random() < .3})
    tm["T"] = T
    tm["steps"] = steps
    return tm


def make_rare(tm):
    """give every non-interface variable a state 0 of probability 1e-5 in every column (both slices)"""
    k = tm["k"]
    iface = {u for u, _ in tm["inter"]}
    for key in ("cpd0", "cpd1"):
        for f in tm[key]:
            v = f["scope"][0] % k
            if v in iface:
                continue
            c = f["card"][0]
            ncols = len(f["vals"]) // c
            vals = [Fraction(x) for x in f["vals"]]
            for j in range(ncols):
                col = [vals[i * ncols + j] for i in range(c)]
                rest = sum(col[1:])
                eps = Fraction(1 + (7 * j + 3 * v) % 9, 100000)        # rare, but informative about the parents
                new = [eps] + [x * (1 - eps) / rest for x in col[1:]]
                for i in range(c):
                    vals[i * ncols + j] = new[i]
            f["vals"] = [rs(x) for x in vals]


def gen_rare_history(rng, tier):
    """smoothing under a sequence of very unlikely observations: the unnormalised interface potentials become tiny (1e-10 and
    less) long before the last slice"""
    for _ in range(60):
        tm = gen_template(rng, good=True)
        if tm["good"] and tm["k"] >= 2 and len({u for u, _ in tm["inter"]}) < tm["k"]:
            break
    else:
        return None
    k = tm["k"]
    make_rare(tm)
    iface = sorted({u for u, _ in tm["inter"]})
    sensors = [v for v in range(k) if v not in iface]
    T = 3 if math.prod(tm["card"]) ** 4 <= 7000 else 2
    ev = [[v, t, 0] for t in range(1, T + 1) for v in sensors]
    steps = []
    for _ in range(rng.randint(1, 3)):
        steps.append({"q": [[rng.choice(iface), rng.randrange(0, T)]], "ev": ev, "mode": "query"})
    tm["T"] = T
    tm["steps"] = steps
    tm["rare"] = True
    return tm


def run_history(case, drv):
    from pgmpy.inference import DBNInference
    k, T = case["k"], case["T"]
    tags = dict(k=k, T=T, nsteps=len(case["steps"]))
    try:
        dbn = build_dbn(case)
        dbn.initialize_initial_state()
        inf = DBNInference(dbn)
    except Exception as e:
        return fail(f"DBNInference raised {type(e).__name__}: {e}", **tags)
    for i, st in enumerate(case["steps"]):
        (v, t), = st["q"]
        variables = [(VN[v], t)]
        evidence = {(VN[a], b): ev_state(case, a, s) for a, b, s in st["ev"]} or None
        ev = [[b * k + a, s] for a, b, s in st["ev"]]
        m = drv.call("dbn_posterior", k=k, cpd0=case["cpd0"], cpd1=case["cpd1"], cards=case["card"], T=T, q=[t * k + v],
                     ev=ev if st["mode"] == "query" else [e for e in ev if e[0] // k <= t])
        if Fraction(m["pe"]) == 0:
            continue
        try:
            res = (inf.forward_inference(variables, evidence) if st["mode"] == "forward" else
                   inf.backward_inference(variables, evidence) if st.get("direct") else inf.query(variables, evidence))
        except Exception as e:
            return fail(f"step {i}: DBNInference.{st['mode']} raised {type(e).__name__}: {e}", **tags)
        key = (VN[v], t)
        if key not in res:
            return fail(f"step {i}: result has no entry for {key}: {list(res)}", **tags)
        vals = [float(x) for x in res[key].values.reshape(-1)]
        exp = [Fraction(x) for x in m["post"]["vals"]]
        if len(vals) != len(exp) or any(not core.close(a, b, 1e-8) for a, b in zip(vals, exp)):
            return fail(f"step {i} of {len(case['steps'])} on one engine: {st['mode']} P({key} | {evidence}) = {vals}, unrolled network gives "
                        f"{[float(x) for x in exp]}", **tags)
    return ok(nontrivial=len(case["steps"]) >= 2, **tags)


# ----------------------------------------------------------------------------- constant BN / initial state
def gen_const(rng, tier):
    tm = gen_template(rng)
    tm["drop"] = rng.random() < .5
    if rng.random() < .4:
        # tables as people type them (0.33 / 0.33 / 0.33): every column sums to 1 only within the validation tolerance, and
        # different columns have different sums.  The template functions copy tables; they do not repair them.
        for f in tm["cpd0"] + tm["cpd1"]:
            c0 = f["card"][0]
            ncols = len(f["vals"]) // c0
            sc = [1 + Fraction(rng.randint(-4, 4), 1000) for _ in range(ncols)]
            f["vals"] = [rs(Fraction(f["vals"][i * ncols + j]) * sc[j]) for i in range(c0) for j in range(ncols)]
        tm["rounded"] = True
    return tm


def run_const(case, drv):
    k = case["k"]
    tags = dict(k=k)
    try:
        dbn = build_dbn(case)
        bn = dbn.get_constant_bn()
    except Exception as e:
        return fail(f"get_constant_bn raised {type(e).__name__}: {e}", **tags)
    # CPDs of the constant BN = template CPDs (names 'X_t')
    for f in case["cpd0"] + case["cpd1"]:
        sc = f["scope"]
        nm = lambda i: f"{VN[i % k]}_{i // k}"
        try:
            c = bn.get_cpds(nm(sc[0]))
        except Exception as e:
            return fail(f"get_constant_bn: node {nm(sc[0])} missing ({e})", **tags)
        if c is None:
            return fail(f"get_constant_bn: no CPD for {nm(sc[0])}", **tags)
        if list(c.variables) != [nm(i) for i in sc]:
            return fail(f"get_constant_bn: CPD of {nm(sc[0])} has scope {c.variables}, template {[nm(i) for i in sc]}", **tags)
        vals = [float(x) for x in c.values.reshape(-1)]
        if any(not core.close(a, Fraction(b)) for a, b in zip(vals, f["vals"])):
            return fail(f"get_constant_bn changed the CPD of {nm(sc[0])}", **tags)
    exp_edges = {(f"{VN[u]}_0", f"{VN[v]}_0") for u, v in case["intra"]} | {(f"{VN[u]}_1", f"{VN[v]}_1") for u, v in case["intra"]} | \
        {(f"{VN[u]}_0", f"{VN[v]}_1") for u, v in case["inter"]}
    if set(bn.edges()) != exp_edges:
        return fail(f"get_constant_bn edges {sorted(bn.edges())} != template {sorted(exp_edges)}", **tags)
    # initial-state completion: give only one slice's CPD for a variable without inter-slice parents
    from pgmpy.models import DynamicBayesianNetwork as DBN
    cand = [v for v in range(k) if not any(w == v for _, w in case["inter"])]
    if cand and case["drop"]:
        v = cand[0]
        c2 = dict(case)
        c2["cpd1"] = [f for f in case["cpd1"] if f["scope"][0] != k + v]
        try:
            d2 = build_dbn(c2)
            d2.initialize_initial_state()
            got = d2.get_cpds((VN[v], 1))
        except Exception as e:
            return fail(f"initialize_initial_state raised {type(e).__name__}: {e} (variable {VN[v]} of cardinality {case['card'][v]})", **tags)
        src = [f for f in case["cpd0"] if f["scope"][0] == v][0]
        if got is None:
            return fail(f"initialize_initial_state did not create the slice-1 CPD of {VN[v]}", **tags)
        vals = [float(x) for x in got.values.reshape(-1)]
        if len(vals) != len(src["vals"]) or any(not core.close(a, Fraction(b)) for a, b in zip(vals, src["vals"])):
            return fail(f"initialize_initial_state altered the copied CPD of {VN[v]}: {vals} vs {src['vals']}", **tags)
    return ok(nontrivial=bool(case["inter"]), **tags)


STREAMS = [
    Stream("query", gen_query, run_query, quick=500, thorough=5000),
    Stream("history", gen_history, run_history, quick=250, thorough=2500),
    Stream("rare_evidence", gen_rare_history, run_history, quick=150, thorough=1500),
    Stream("constant_bn", gen_const, run_const, quick=300, thorough=3000),
]
