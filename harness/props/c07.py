"""C07 — samplers draw from the distribution they claim, reproducibly."""
from __future__ import annotations

import math
from fractions import Fraction

from harness import core, gen
from harness.core import ok, fail, skip, rs
from harness.worker import Stream
from harness.props import c01

OBLIGATIONS = [
    "PgmVerif.C07_gibbs_kernel_local", "PgmVerif.C07_gibbs_kernel_normalised", "PgmVerif.C07_lw_weight", "PgmVerif.C07_zero_mass", "PgmVerif.C07_forward_step",
    "PgmVerif.C07_forward_law", "PgmVerif.C07_rejection_law", "PgmVerif.C07_lw_law", "PgmVerif.C07_partial_law",
]
PARTIAL = ["numpy's generator (uniformity, choice honouring p), seed reproducibility and termination of the rejection loop are outside any "
           "proof: reproducibility is checked by running twice; laws are checked (a) exactly on networks whose non-root CPDs are "
           "deterministic, where every sampled row must satisfy child = f(parents), and (b) by a 7-sigma frequency bound against the exact "
           "joint / posterior of the model (false-alarm probability < 1e-9 per run)"]
RULE = ("BNs of 1-5 nodes with label kinds incl. permuted / shifted integers, zero entries and latent sets; deterministic-CPD networks for "
        "exact row checks; sample sizes 1-3000; evidence with positive probability; Gibbs kernels for every configuration; simulate() with "
        "do / evidence / virtual evidence; non-trivial = network has an edge; distinct = case JSON"
        " Also: Gibbs chains (start state, support, frequencies), missingness, likelihood vectors with maximum 1, fixed seed across process hash seeds (sub-processes), start_state list reused.")
ASSUMPTIONS = ["frequency bound: |f - p| <= 7 sqrt(p(1-p)/N) + 2/N per cell"]
BUDGET_QUICK = 110
LEVEL_TEXT = ("Kernel-checked: the Gibbs kernel computed from only the factors that mention the variable is the exact full conditional of the "
              "joint (factors not mentioning it cancel); the likelihood weight is the product of the evidence variables' CPD entries at the "
              "sampled row, and joint(row) = weight x product of the sampled variables' CPD entries; a row with a zero CPD entry has zero "
              "mass under forward sampling; the law of the whole forward sampler (per-variable draws composed in any topological order) has exactly "
              "the in-range rows as outcomes, each once, with mass joint(row) (C07_forward_law); accepted rejection samples are those outcomes "
              "that agree with the evidence, with their joint masses (C07_rejection_law); every likelihood-weighted outcome carries the "
              "evidence, weight = product of evidence CPD entries, proposal mass x weight = joint(row) (C07_lw_law). The implementation is tied by: "
              "exact row checks on deterministic networks (catches any wrong-column / name-number confusion), exact likelihood weights per "
              "row, exact Gibbs transition models for every configuration, evidence / do / size / column / label checks, repeatability "
              "under a fixed seed, and a 7-sigma frequency bound against the exact joint or posterior. numpy's RNG is trusted (partial).")
LEVEL_NOTE = "Trusted: Lean kernel + standard axioms; model; harness; numpy's random generator."
TECHNIQUE = "Lean 4 proof (forward / rejection / likelihood-weighting laws, Gibbs kernel = full conditional) + exact row / weight / kernel correspondence and bounded frequency checks"


def within(freq, p, n, k=7.0):
    p = float(p)
    return abs(freq - p) <= k * math.sqrt(max(p * (1 - p), 1e-12) / n) + 2.0 / n


def det_bn(rng):
    """BN whose non-root CPDs are deterministic (one 1 per column), roots generic"""
    case = gen.rand_bn(rng, nmin=2, nmax=5, maxcard=3, name_kind=rng.choice(["str", "word", "int", "int0"]), mincard=2, dup=False,
                       label_kind=rng.choice(["permint", "shiftint", "str", "int", "permint"]))
    for c in case["cpds"]:
        if c["parents"]:
            k = case["card"][c["child"]]
            ncols = len(c["table"][0])
            tab = [["0"] * ncols for _ in range(k)]
            for j in range(ncols):
                tab[rng.randrange(k)][j] = "1"
            c["table"] = tab
        else:
            k = case["card"][c["child"]]
            d = gen.rand_dist(rng, k, "generic")
            c["table"] = [[rs(x)] for x in d]
    return case


def label_to_index(case, v, val):
    ls = [gen.lab(l) for l in case["labels"][v]]
    try:
        val = val.item() if hasattr(val, "item") else val
    except Exception:
        pass
    return ls.index(val) if val in ls else None


def rows_to_idx(df, case, cols):
    pn = [gen.lab(x) for x in case["nodes"]]
    out = []
    for _, row in df.iterrows():
        r = {}
        for v in cols:
            i = label_to_index(case, v, row[pn[v]])
            if i is None:
                return None, f"value {row[pn[v]]!r} in column {pn[v]!r} is not a state name ({case['labels'][v]})"
            r[v] = i
        out.append(r)
    return out, None


# ----------------------------------------------------------------------------- forward sampling
def gen_forward(rng, tier):
    det = rng.random() < .5
    case = det_bn(rng) if det else gen.rand_bn(rng, nmin=1, nmax=4, maxcard=3, name_kind=rng.choice(["str", "word", "int", "int0"]),
                                               label_kind=rng.choice(["permint", "str", "int", "shiftint"]), mincard=1)
    n = len(case["nodes"])
    if not det and rng.random() < .6:
        # columns whose LAST state is impossible and whose float entries do not add up to exactly 1.0 (odd denominators): the
        # samplers repair such columns before drawing, and must not give the impossible state any mass
        for c in case["cpds"]:
            k = len(c["table"])
            if k < 2:
                continue
            ncols = len(c["table"][0])
            cols = []
            for _ in range(ncols):
                if rng.random() < .2:
                    w = [rng.randint(1, 23) for _ in range(k - 1)]
                    t = sum(w)
                    cols.append([Fraction(x, t) for x in w] + [Fraction(0)])
                else:
                    # binary floats normalised in floating point: their sum is 1 only up to an ulp (exact dyadic rationals for the model)
                    u = [rng.random() for _ in range(k - 1)]
                    t = sum(u)
                    cols.append([Fraction(x / t) for x in u] + [Fraction(0)])
            c["table"] = [[rs(cols[j][i]) for j in range(ncols)] for i in range(k)]
        case["zero_last"] = True
    case["det"] = det
    case["size"] = rng.choice([1, 2, 50, 400]) if det else rng.choice([1, 3, 3000])
    case["seed"] = rng.choice([0, rng.randrange(10 ** 6), rng.randrange(10 ** 6), rng.randrange(10 ** 6)])     # 0 is a legal seed
    case["latents"] = [v for v in range(n) if rng.random() < .25]
    case["include_latents"] = rng.random() < .5
    return case


def run_forward(case, drv):
    from pgmpy.sampling import BayesianModelSampling
    names, card = case["nodes"], case["card"]
    pn = [gen.lab(x) for x in names]
    n = len(names)
    bn = gen.bn_to_pgmpy(case)
    bn.latents = {pn[v] for v in case["latents"]}
    tags = dict(det=case["det"], size=case["size"], n=n)
    try:
        s = BayesianModelSampling(bn)
        if case["seed"] % 3 == 1:
            # the sampler object has already produced a large likelihood-weighted sample: nothing may carry over
            try:
                s.likelihood_weighted_sample(evidence=[], size=300, seed=5, show_progress=False)
            except Exception:
                pass
        df = s.forward_sample(size=case["size"], seed=case["seed"], include_latents=case["include_latents"], show_progress=False)
        df2 = BayesianModelSampling(bn).forward_sample(size=case["size"], seed=case["seed"], include_latents=case["include_latents"],
                                                       show_progress=False)
    except Exception as e:
        return fail(f"forward_sample raised {type(e).__name__}: {e}", **tags)
    if len(df) != case["size"]:
        return fail(f"forward_sample returned {len(df)} rows, requested {case['size']}", **tags)
    exp_cols = {pn[v] for v in range(n) if case["include_latents"] or v not in case["latents"]}
    if set(df.columns) != exp_cols:
        return fail(f"columns {sorted(map(str, df.columns))}, expected {sorted(map(str, exp_cols))} (latents {case['latents']}, include_latents "
                    f"{case['include_latents']})", **tags)
    if not df.reset_index(drop=True).equals(df2.reset_index(drop=True)):
        return fail("the same seed gave two different sample frames", **tags)
    cols = [v for v in range(n) if pn[v] in exp_cols]
    rows, err = rows_to_idx(df, case, cols)
    if err:
        return fail("forward_sample: " + err, **tags)
    fs = gen.bn_model_factors(case)
    cp = {c["child"]: c for c in case["cpds"]}
    # zero-probability entries never occur; deterministic children follow their function
    for r in rows:
        for v in cols:
            c = cp[v]
            if all(p in r for p in c["parents"]):
                pc = [card[p] for p in c["parents"]]
                j = core.ravel(pc, [r[p] for p in c["parents"]])
                if Fraction(c["table"][r[v]][j]) == 0:
                    return fail(f"sampled row {r} has {pn[v]} in a state of conditional probability 0 given its sampled parents "
                                f"(labels {case['labels']})", **tags)
    if case["size"] >= 400:
        # frequencies of the visible joint vs the exact marginal joint
        m = drv.call("bn_posterior", fs=fs, vars=list(range(n)), cards=card, q=cols, ev=[])["post"]
        N = len(rows)
        counts = {}
        for r in rows:
            k = tuple(r[v] for v in cols)
            counts[k] = counts.get(k, 0) + 1
        if len(m["vals"]) <= 200:
            for asg in core.all_assignments(m["scope"], m["card"]):
                p = core.model_value(m, asg)
                f = counts.get(tuple(asg[v] for v in cols), 0) / N
                if not within(f, p, N):
                    return fail(f"forward_sample frequency of {asg} is {f:.4f} over {N} rows, exact probability {float(p):.4f} "
                                f"(outside the 7-sigma bound)", **tags)
    return ok(nontrivial=bool(case["edges"]), **tags)


# ----------------------------------------------------------------------------- rejection / likelihood weighting
def gen_ev(rng, tier):
    case = gen.rand_bn(rng, nmin=2, nmax=4, maxcard=3, name_kind=rng.choice(["str", "word", "int", "int0"]),
                       label_kind=rng.choice(["permint", "str", "int", "shiftint"]), mincard=2)
    n = len(case["nodes"])
    ev = rng.sample(range(n), rng.randint(1, min(2, n - 1)))
    if rng.random() < .35:
        # a child with several parents of DIFFERENT cardinalities, evidence on the child only: every parent configuration occurs
        case = gen.rand_bn(rng, nmin=3, nmax=4, maxcard=4, name_kind=rng.choice(["str", "int0"]), shape="family", mincard=2, dup=False,
                           label_kind=rng.choice(["permint", "str", "int"]), positive=True)
        n = len(case["nodes"])
        child = max(range(n), key=lambda v: sum(1 for _, w in case["edges"] if w == v))
        ev = [child]
        if rng.random() < .5:
            # the child and every one of its parents observed (at independently drawn states)
            ev = [child] + sorted({u for u, w in case["edges"] if w == child})
    case["ev"] = [[v, rng.randrange(case["card"][v])] for v in ev]
    case["kind"] = rng.choice(["rejection", "lw", "lw"])
    case["size"] = rng.choice([1, 5, 2000])
    case["seed"] = rng.choice([0, rng.randrange(10 ** 6), rng.randrange(10 ** 6), rng.randrange(10 ** 6)])     # 0 is a legal seed
    return case


def run_ev(case, drv):
    from pgmpy.sampling import BayesianModelSampling
    from pgmpy.factors.discrete import State
    names, card, labels = case["nodes"], case["card"], case["labels"]
    pn = [gen.lab(x) for x in names]
    n = len(names)
    fs = gen.bn_model_factors(case)
    others = [v for v in range(n) if v not in [e[0] for e in case["ev"]]]
    m = drv.call("bn_posterior", fs=fs, vars=list(range(n)), cards=card, q=others, ev=case["ev"])
    pe = Fraction(m["pe"])
    if pe < Fraction(1, 50):
        return skip("evidence probability too small for rejection sampling")
    bn = gen.bn_to_pgmpy(case)
    evidence = [State(pn[v], gen.lab(labels[v][i])) for v, i in case["ev"]]
    tags = dict(kind=case["kind"], size=case["size"])
    try:
        s = BayesianModelSampling(bn)
        if case["seed"] % 3 == 0:
            # the sampler object has been used before, with other evidence states / another method: nothing may carry over
            try:
                other = [State(pn[v], gen.lab(labels[v][(i + 1) % card[v]])) for v, i in case["ev"]]
                s.likelihood_weighted_sample(evidence=other, size=200, seed=1, show_progress=False)
                s.forward_sample(size=300, seed=2, show_progress=False)
            except Exception:
                pass
        if case["kind"] == "rejection":
            df = s.rejection_sample(evidence=evidence, size=case["size"], seed=case["seed"], show_progress=False)
        else:
            df = s.likelihood_weighted_sample(evidence=evidence, size=case["size"], seed=case["seed"], show_progress=False)
    except Exception as e:
        return fail(f"{case['kind']} raised {type(e).__name__}: {e}", **tags)
    if len(df) != case["size"]:
        return fail(f"{case['kind']} returned {len(df)} rows, requested {case['size']}", **tags)
    rows, err = rows_to_idx(df, case, list(range(n)))
    if err:
        return fail(f"{case['kind']}: {err}", **tags)
    for r in rows:
        for v, i in case["ev"]:
            if r[v] != i:
                return fail(f"{case['kind']}: a row has {pn[v]} = {labels[v][r[v]]!r}, the evidence is {labels[v][i]!r}", **tags)
    cp = {c["child"]: c for c in case["cpds"]}

    def entry(v, r):
        c = cp[v]
        return Fraction(c["table"][r[v]][core.ravel([card[p] for p in c["parents"]], [r[p] for p in c["parents"]])])
    N = len(rows)
    if case["kind"] == "lw":
        ws = list(df["_weight"])
        for r, w in zip(rows, ws):
            exp = Fraction(1)
            for v, _ in case["ev"]:
                exp *= entry(v, r)
            if not core.close(w, exp):
                return fail(f"likelihood weight {w} for row {r}, product of the evidence CPD entries is {float(exp)} (labels {labels})", **tags)
            for v in others:
                if entry(v, r) == 0:
                    return fail(f"likelihood-weighted row {r} has a zero-probability state of {pn[v]}", **tags)
        if N >= 2000:
            # E[w] = P(e): 7-sigma bound with the weight's range [0, 1]
            mean = sum(ws) / N
            if abs(mean - float(pe)) > 7 * 0.5 / math.sqrt(N) + 2 / N:
                return fail(f"mean likelihood weight {mean:.4f}, P(evidence) = {float(pe):.4f}", **tags)
    else:
        for r in rows:
            for v in range(n):
                if entry(v, r) == 0:
                    return fail(f"rejection sample row {r} has a zero-probability state of {pn[v]}", **tags)
        if N >= 2000 and len(m["post"]["vals"]) <= 100:
            counts = {}
            for r in rows:
                k = tuple(r[v] for v in others)
                counts[k] = counts.get(k, 0) + 1
            for asg in core.all_assignments(m["post"]["scope"], m["post"]["card"]):
                p = core.model_value(m["post"], asg)
                f = counts.get(tuple(asg[v] for v in others), 0) / N
                if not within(f, p, N):
                    return fail(f"rejection_sample frequency of {asg} is {f:.4f}, exact posterior {float(p):.4f} (7-sigma bound)", **tags)
    return ok(nontrivial=bool(case["edges"]), **tags)


# ----------------------------------------------------------------------------- Gibbs kernels
def gen_gibbs(rng, tier):
    if rng.random() < .6:
        case = gen.rand_bn(rng, nmin=2, nmax=4, maxcard=3, name_kind=rng.choice(["str", "word", "int", "int0"]),
                           label_kind=rng.choice(["permint", "str", "int", "shiftint"]), mincard=2, positive=True)
        case["kind"] = "bn"
    else:
        from harness import mnet
        case = mnet.gen_mn_case(rng, nmin=2, nmax=4, dup=False, label_kind=rng.choice(["permint", "str", "int"]))
        case["kind"] = "mn"
    return case


def run_gibbs(case, drv):
    from pgmpy.sampling import GibbsSampling
    import itertools
    names, card = case["nodes"], case["card"]
    pn = [gen.lab(x) for x in names]
    n = len(names)
    if case["kind"] == "bn":
        model = gen.bn_to_pgmpy(case)
        fs = gen.bn_model_factors(case)
    else:
        from harness import mnet
        model = mnet.to_markov(case)
        fs = mnet.model_factors(case)
    joint = drv.call("bn_joint", fs=fs, vars=list(range(n)), cards=card)
    try:
        g = GibbsSampling(model)
    except Exception as e:
        return fail(f"GibbsSampling({case['kind']}) raised {type(e).__name__}: {e}", kind=case["kind"])
    order = [pn.index(v) for v in g.variables]
    for v in range(n):
        others = [w for w in order if w != v]
        tm = g.transition_models[pn[v]]
        for tup in itertools.product(*[range(card[w]) for w in others]):
            asg = dict(zip(others, tup))
            col = []
            for x in range(card[v]):
                a2 = dict(asg)
                a2[v] = x
                col.append(core.model_value(joint, a2))
            tot = sum(col)
            if tot == 0:
                continue
            got = [float(x) for x in tm[tup]]
            if len(got) != card[v] or any(not core.close(a, b / tot) for a, b in zip(got, col)):
                return fail(f"Gibbs kernel of {pn[v]} given {asg}: {got}, exact full conditional {[float(b / tot) for b in col]} "
                            f"(labels {case['labels']})", kind=case["kind"])
    return ok(nontrivial=n > 1, kind=case["kind"], n=n)


# ----------------------------------------------------------------------------- simulate()
def gen_sim(rng, tier):
    case = gen.rand_bn(rng, nmin=2, nmax=4, maxcard=3, name_kind="str", label_kind=rng.choice(["permint", "str", "int"]), mincard=2,
                       positive=True)
    n = len(case["nodes"])
    case["mode"] = rng.choice(["plain", "do", "evidence", "virtual", "virtual", "missing"])
    v = rng.randrange(n)
    case["var"] = [v, rng.randrange(case["card"][v])]
    case["like"] = [rs(Fraction(rng.randint(1, 9), 10)) for _ in range(case["card"][v])]
    if rng.random() < .4:
        # an un-normalised likelihood vector whose largest entry is exactly 1 (likelihoods are only defined up to scale)
        like = [Fraction(1)] + [rng.choice([Fraction(1), Fraction(1, 2), Fraction(1, 4), Fraction(0)]) for _ in range(case["card"][v] - 1)]
        if all(x == like[0] for x in like) or sum(1 for x in like if x) < 2:
            like[1] = Fraction(1, 2)
        rng.shuffle(like)
        case["like"] = [rs(x) for x in like]
    case["missing_prob"] = rs(rng.choice([Fraction(1, 10), Fraction(3, 10), Fraction(1, 2)]))
    case["missing_columns"] = rng.choice([None, None, rng.sample(range(n), rng.randint(1, n))])
    case["size"] = rng.choice([5, 2500])
    case["seed"] = rng.choice([0, rng.randrange(10 ** 6), rng.randrange(10 ** 6), rng.randrange(10 ** 6)])     # 0 is a legal seed
    return case


def run_sim(case, drv):
    from pgmpy.factors.discrete import TabularCPD
    names, card, labels = case["nodes"], case["card"], case["labels"]
    pn = [gen.lab(x) for x in names]
    n = len(names)
    v, s = case["var"]
    bn = gen.bn_to_pgmpy(case)
    fs = gen.bn_model_factors(case)
    kw = {}
    q = list(range(n)) if case["mode"] in ("plain", "virtual") else [w for w in range(n) if w != v]
    if case["mode"] == "do":
        kw["do"] = {pn[v]: gen.lab(labels[v][s])}
        m = drv.call("bn_posterior", fs=[f for f in fs if f["scope"][0] != v], vars=list(range(n)), cards=card, q=q, ev=[[v, s]])
    elif case["mode"] == "evidence":
        kw["evidence"] = {pn[v]: gen.lab(labels[v][s])}
        m = drv.call("bn_posterior", fs=fs, vars=list(range(n)), cards=card, q=q, ev=[[v, s]])
    elif case["mode"] == "virtual":
        kw["virtual_evidence"] = [TabularCPD(pn[v], card[v], [[float(Fraction(x))] for x in case["like"]],
                                             state_names={pn[v]: [gen.lab(l) for l in labels[v]]})]
        m = drv.call("bn_posterior", fs=fs + [{"scope": [v], "card": [card[v]], "vals": case["like"]}], vars=list(range(n)), cards=card,
                     q=q, ev=[])
    else:
        m = drv.call("bn_posterior", fs=fs, vars=list(range(n)), cards=card, q=q, ev=[])
    if Fraction(m["pe"]) < Fraction(1, 50):
        return skip("conditioning event too unlikely")
    tags = dict(mode=case["mode"], size=case["size"])
    try:
        df = bn.simulate(n_samples=case["size"], seed=case["seed"], show_progress=False, **kw)
        df2 = bn.simulate(n_samples=case["size"], seed=case["seed"], show_progress=False, **kw)
    except Exception as e:
        return fail(f"simulate({case['mode']}) raised {type(e).__name__}: {e}", **tags)
    if len(df) != case["size"]:
        return fail(f"simulate returned {len(df)} rows, requested {case['size']}", **tags)
    if set(df.columns) != set(pn):
        return fail(f"simulate columns {sorted(map(str, df.columns))}", **tags)
    if not df[sorted(df.columns, key=str)].reset_index(drop=True).astype(str).equals(df2[sorted(df2.columns, key=str)].reset_index(drop=True).astype(str)):
        return fail("simulate: the same seed gave two different sample frames", **tags)
    if case["mode"] == "missing":
        # the same seed with missing values: the observed cells are the complete sample's, holes only where requested, at about the rate
        import numpy as np
        mp = float(Fraction(case["missing_prob"]))
        mc = case["missing_columns"]
        try:
            dm = bn.simulate(n_samples=case["size"], seed=case["seed"], show_progress=False, include_missing=True, missing_prob=mp,
                             missing_columns=None if mc is None else [pn[w] for w in mc])
            dm2 = bn.simulate(n_samples=case["size"], seed=case["seed"], show_progress=False, include_missing=True, missing_prob=mp,
                              missing_columns=None if mc is None else [pn[w] for w in mc])
        except Exception as e:
            return fail(f"simulate(include_missing=True) raised {type(e).__name__}: {e}", **tags)
        if set(dm.columns) != set(pn) or len(dm) != case["size"]:
            return fail(f"simulate(include_missing=True) returned columns {sorted(map(str, dm.columns))}, {len(dm)} rows", **tags)
        holes = 0
        for w in range(n):
            a, b, b2 = df[pn[w]].astype(object).values, dm[pn[w]].astype(object).values, dm2[pn[w]].astype(object).values
            for i in range(len(a)):
                miss = b[i] is None or b[i] != b[i]
                if miss != (b2[i] is None or b2[i] != b2[i]):
                    return fail("simulate(include_missing=True): the same seed put the holes in different places", **tags)
                if miss:
                    holes += 1
                    if mc is not None and w not in mc:
                        return fail(f"simulate: missing value in column {pn[w]}, requested only in {[pn[x] for x in mc]}", **tags)
                elif not (b[i] == a[i] or str(b[i]) == str(a[i])):        # integer labels come back as floats next to NaN: 1.0 == 1
                    return fail(f"simulate(include_missing=True, seed={case['seed']}): observed cell ({i}, {pn[w]}) = {b[i]!r}, the complete "
                                f"sample of the same seed has {a[i]!r}", **tags)
        cells = case["size"] * (n if mc is None else len(mc))
        if cells >= 2000 and not within(holes / cells, Fraction(case["missing_prob"]), cells):
            return fail(f"simulate: {holes} of {cells} eligible cells are missing, missing_prob = {mp}", **tags)
    rows, err = rows_to_idx(df, case, list(range(n)))
    if err:
        return fail("simulate: " + err, **tags)
    if case["mode"] in ("do", "evidence"):
        if any(r[v] != s for r in rows):
            return fail(f"simulate({case['mode']}): a row disagrees with the fixed value of {pn[v]}", **tags)
    N = len(rows)
    if N >= 2000 and len(m["post"]["vals"]) <= 100:
        counts = {}
        for r in rows:
            k = tuple(r[w] for w in q)
            counts[k] = counts.get(k, 0) + 1
        for asg in core.all_assignments(m["post"]["scope"], m["post"]["card"]):
            p = core.model_value(m["post"], asg)
            f = counts.get(tuple(asg[w] for w in q), 0) / N
            if not within(f, p, N):
                return fail(f"simulate({case['mode']}) frequency of {asg} is {f:.4f}, exact probability {float(p):.4f} (7-sigma bound)", **tags)
    return ok(nontrivial=bool(case["edges"]), **tags)


# ----------------------------------------------------------------------------- forward sampling around supplied partial samples
def gen_partial(rng, tier):
    case = gen.rand_bn(rng, nmin=2, nmax=4, maxcard=3, name_kind=rng.choice(["str", "word"]), label_kind="int", mincard=2)
    n = len(case["nodes"])
    case["pv"] = rng.randrange(n)
    case["size"] = rng.choice([4, 12, 40])
    case["pvals"] = [rng.randrange(case["card"][case["pv"]]) for _ in range(case["size"])]
    case["index"] = rng.choice(["range", "perm", "filtered", "labels"])
    case["perm"] = rng.sample(range(case["size"]), case["size"])
    case["seed"] = rng.choice([0, rng.randrange(10 ** 6), rng.randrange(10 ** 6)])
    case["via"] = rng.choice(["forward", "forward", "simulate"])
    return case


def run_partial(case, drv):
    import pandas as pd
    from pgmpy.sampling import BayesianModelSampling
    names, card = case["nodes"], case["card"]
    pn = [gen.lab(x) for x in names]
    n, N, pv = len(names), case["size"], case["pv"]
    bn = gen.bn_to_pgmpy(case)
    # the partial samples are an ordinary frame: its index is whatever the user's earlier shuffling / filtering left behind
    idx = {"range": list(range(N)), "perm": case["perm"], "filtered": [2 * i + 1 for i in range(N)],
           "labels": [f"r{i}" for i in case["perm"]]}[case["index"]]
    part = pd.DataFrame({pn[pv]: list(case["pvals"])}, index=idx)
    tags = dict(index=case["index"], via=case["via"], size=N)
    try:
        if case["via"] == "forward":
            df = BayesianModelSampling(bn).forward_sample(size=N, seed=case["seed"], show_progress=False, partial_samples=part)
        else:
            df = bn.simulate(n_samples=N, seed=case["seed"], show_progress=False, partial_samples=part)
    except Exception as e:
        return fail(f"{case['via']} with partial samples ({case['index']} index) raised {type(e).__name__}: {e}", **tags)
    if len(df) != N:
        return fail(f"{case['via']} with partial samples returned {len(df)} rows, requested {N}", **tags)
    rows, err = rows_to_idx(df, case, list(range(n)))
    if err:
        return fail(f"{case['via']} with partial samples ({case['index']} index): {err}", **tags)
    got = [r[pv] for r in rows]
    if got != list(case["pvals"]):
        return fail(f"{case['via']} with partial samples ({case['index']} index): column {pn[pv]} came back as {got}, supplied "
                    f"{case['pvals']}", **tags)
    cp = {c["child"]: c for c in case["cpds"]}
    for r in rows:
        for v in range(n):
            if v == pv:
                continue
            c = cp[v]
            if Fraction(c["table"][r[v]][core.ravel([card[p] for p in c["parents"]], [r[p] for p in c["parents"]])]) == 0:
                return fail(f"row {r}: {pn[v]} has a zero-probability state given its parents", **tags)
    return ok(nontrivial=bool(case["edges"]), **tags)


# ----------------------------------------------------------------------------- impossible states of roots
def gen_zero_state(rng, tier):
    k = rng.randint(3, 7)
    u = [rng.random() for _ in range(k - 1)]
    t = sum(u)
    col = [Fraction(x / t) for x in u] + [Fraction(0)]           # floats normalised in floating point, last state impossible
    pos = rng.choice([k - 1, k - 1, 0, rng.randrange(k)])        # where the impossible state sits
    col[pos], col[k - 1] = col[k - 1], col[pos]
    return {"k": k, "col": [rs(x) for x in col], "zero": pos, "seed": rng.randrange(10 ** 6), "size": rng.choice([1, 5, 50]),
            "how": rng.choice(["forward", "forward", "lw", "simulate"])}


def run_zero_state(case, drv):
    """a root whose column does not add up to 1.0 exactly in floats is repaired before drawing: the repair must leave the impossible
    state impossible and the call must succeed"""
    from pgmpy.models import BayesianNetwork
    from pgmpy.factors.discrete import TabularCPD
    from pgmpy.sampling import BayesianModelSampling
    k = case["k"]
    bn = BayesianNetwork()
    bn.add_node("r")
    bn.add_cpds(TabularCPD("r", k, [[float(Fraction(x))] for x in case["col"]]))
    tags = dict(k=k, how=case["how"])
    try:
        if case["how"] == "forward":
            df = BayesianModelSampling(bn).forward_sample(size=case["size"], seed=case["seed"], show_progress=False)
        elif case["how"] == "lw":
            df = BayesianModelSampling(bn).likelihood_weighted_sample(evidence=[], size=case["size"], seed=case["seed"], show_progress=False)
        else:
            df = bn.simulate(n_samples=case["size"], seed=case["seed"], show_progress=False)
    except Exception as e:
        return fail(f"{case['how']} on a valid one-node network raised {type(e).__name__}: {e}", **tags)
    if len(df) != case["size"]:
        return fail(f"{len(df)} rows, requested {case['size']}", **tags)
    vals = [int(x) for x in df["r"]]
    if any(v == case["zero"] for v in vals):
        return fail(f"state {case['zero']} has probability 0 but was sampled", **tags)
    if any(not (0 <= v < k) for v in vals):
        return fail(f"sampled values {sorted(set(vals))} are not states of the variable", **tags)
    return ok(nontrivial=True, **tags)


# ----------------------------------------------------------------------------- the Gibbs chain itself
def gen_gibbs_chain(rng, tier):
    if rng.random() < .6:
        case = gen.rand_bn(rng, nmin=2, nmax=3, maxcard=3, name_kind="str", label_kind=rng.choice(["int", "permint", "str"]), mincard=2,
                           positive=rng.random() < .6)
        case["kind"] = "bn"
        if rng.random() < .6:
            # tempered CPDs (every column mixed half-and-half with the uniform column): a fast-mixing chain, frequencies are compared
            for c in case["cpds"]:
                k = len(c["table"])
                c["table"] = [[rs((Fraction(x) + Fraction(1, k)) / 2) for x in row] for row in c["table"]]
            case["tempered"] = True
    else:
        from harness import mnet
        case = mnet.gen_mn_case(rng, nmin=2, nmax=3, dup=False, label_kind="int")
        case["kind"] = "mn"
    case["size"] = 12000 if case.get("tempered") else rng.choice([300, 12000])
    case["seed"] = rng.choice([0, 1, rng.randrange(10 ** 6)])
    case["api"] = rng.choice(["sample", "sample", "generate_sample"])
    case["shuffle"] = rng.randrange(10 ** 6)
    return case


def run_gibbs_chain(case, drv):
    """GibbsSampling.sample / generate_sample: starts at the given state, is reproducible for a seed, never leaves the support of the
    joint, and (fast-mixing positive models only) visits the joint states with the exact joint's frequencies"""
    from pgmpy.sampling import GibbsSampling
    from pgmpy.factors.discrete import State
    import random
    names, card = case["nodes"], case["card"]
    pn = [gen.lab(x) for x in names]
    n = len(names)
    if case["kind"] == "bn":
        model = gen.bn_to_pgmpy(case)
        fs = gen.bn_model_factors(case)
    else:
        from harness import mnet
        model = mnet.to_markov(case)
        fs = mnet.model_factors(case)
    joint = drv.call("bn_joint", fs=fs, vars=list(range(n)), cards=card)
    table = {tuple(a[v] for v in range(n)): core.model_value(joint, a) for a in core.all_assignments(list(range(n)), card)}
    z = sum(table.values())
    if z == 0:
        return skip("zero joint")
    start = max(sorted(table), key=lambda k: table[k])          # a state of positive probability
    st = [State(pn[v], start[v]) for v in range(n)]
    if case["shuffle"] % 3:
        random.Random(case["shuffle"]).shuffle(st)               # the start state may list the variables in any order ...
    else:
        order_ = list(GibbsSampling(model).variables)            # ... the sampler's own order included
        st = sorted(st, key=lambda s_: order_.index(s_.var))
    st_before = list(st)
    N = case["size"]
    tags = dict(kind=case["kind"], api=case["api"], size=N, n=n)

    def run(seed):
        # the SAME list object is handed to both runs: it is an input, not the chain's working state
        g = GibbsSampling(model)
        if case["api"] == "sample":
            df = g.sample(start_state=st, size=N, seed=seed)
            return [tuple(int(df[str(pn[v])].iloc[i]) for v in range(n)) for i in range(len(df))]
        rows = []
        for state in g.generate_sample(start_state=st, size=N, seed=seed):
            d = {s_.var: int(s_.state) for s_ in state}
            rows.append(tuple(d[pn[v]] for v in range(n)))
        return rows
    try:
        rows = run(case["seed"])
        rows2 = run(case["seed"])
    except Exception as e:
        return fail(f"GibbsSampling.{case['api']} raised {type(e).__name__}: {e}", **tags)
    if st != st_before:
        return fail(f"{case['api']} modified the caller's start_state list: {st_before} -> {st}", **tags)
    if len(rows) != N:
        return fail(f"{case['api']}(size={N}) produced {len(rows)} states", **tags)
    if rows != rows2:
        return fail(f"{case['api']}(seed={case['seed']}) is not reproducible", **tags)
    if case["api"] == "sample" and rows[0] != start:
        return fail(f"sample(start_state={start}) begins at {rows[0]}", **tags)
    for i, r_ in enumerate(rows):
        if any(not (0 <= r_[v] < card[v]) for v in range(n)):
            return fail(f"state {r_} outside the cardinalities {card}", **tags)
        if table[r_] == 0:
            return fail(f"the chain started at {start} (probability {float(table[start] / z)}) reaches {r_} at step {i}, which has probability 0 "
                        f"in the model: a Gibbs step cannot leave the support", **tags)
    # frequencies: only where every full conditional is >= 0.15 (fast mixing) and the chain is long
    minc = 1.0
    for k_, p_ in table.items():
        for v in range(n):
            tot = sum(table[k_[:v] + (x,) + k_[v + 1:]] for x in range(card[v]))
            if tot:
                minc = min(minc, float(p_ / tot))
    if N >= 12000 and minc >= 0.15:
        from collections import Counter
        cnt = Counter(rows[N // 10:])
        M = N - N // 10
        for k_, p_ in table.items():
            p = float(p_ / z)
            if abs(cnt.get(k_, 0) / M - p) > 8 * (p * (1 - p) / M * 8) ** .5 + 0.004:
                return fail(f"Gibbs chain visits {k_} with frequency {cnt.get(k_, 0) / M:.4f}, exact joint probability {p:.4f} "
                            f"({M} steps after burn-in, smallest full conditional {minc:.2f})", **tags)
        return ok(nontrivial=True, freq=True, **tags)
    return ok(nontrivial=n > 1, freq=False, **tags)


# ----------------------------------------------------------------------------- a fixed seed across process hash seeds
def gen_repro(rng, tier):
    jobs = []
    for _ in range(6 if tier == "quick" else 10):
        case = gen.rand_bn(rng, nmin=3, nmax=6, maxcard=3, name_kind=rng.choice(["str", "word"]), label_kind=rng.choice(["str", "int", "permint"]),
                           mincard=2, positive=True)
        n = len(case["nodes"])
        api = rng.choice(["forward", "rejection", "lw", "simulate", "simulate_missing", "simulate_missing", "simulate_evidence", "gibbs"])
        job = {"case": case, "api": api, "seed": rng.choice([0, 7, rng.randrange(10 ** 6)]), "size": rng.choice([3, 40])}
        if api in ("rejection", "lw", "simulate_evidence"):
            v = rng.randrange(n)
            job["ev"] = [[v, rng.randrange(case["card"][v])]]
        if api == "forward" and rng.random() < .5:
            hidden = rng.sample(range(n), 1)
            case["latents"] = hidden
            job["latents"] = rng.random() < .5
        if api.startswith("simulate") and n >= 4 and rng.random() < .6:
            # two or more declared latent variables (string names: their set order depends on the hash seed)
            case["latents"] = rng.sample(range(n), 2)
            job["latents"] = rng.random() < .5
        if api == "simulate_missing":
            job["missing_prob"] = rng.choice([0.1, 0.3, 0.5])
            job["missing_columns"] = rng.choice([None, rng.sample(range(n), rng.randint(1, n))])
        jobs.append(job)
    return {"jobs": jobs, "hashseeds": rng.sample(range(0, 40), 2)}


def run_repro(case, drv):
    """every job is run in two fresh interpreters with different PYTHONHASHSEED: the digests of the sample frames (columns sorted by
    name) must agree"""
    import json
    import os
    import subprocess
    import sys
    outs = []
    for hs in case["hashseeds"]:
        env = dict(os.environ, PYTHONHASHSEED=str(hs), OMP_NUM_THREADS="1")
        try:
            p = subprocess.run([sys.executable, "-m", "harness.subrun"], input=json.dumps(case["jobs"]), capture_output=True, text=True, env=env,
                               timeout=45, cwd=os.path.dirname(os.path.dirname(os.path.dirname(os.path.abspath(__file__)))))
        except subprocess.TimeoutExpired:
            return skip("helper interpreter too slow (loaded machine)")
        line = [l for l in p.stdout.splitlines() if l.startswith("DIGESTS ")]
        if not line:
            return skip("helper interpreter produced no digests: " + p.stderr[-200:])
        outs.append(json.loads(line[-1][8:]))
    a, b = outs
    for job, x, y in zip(case["jobs"], a, b):
        if x.startswith("raised") or y.startswith("raised"):
            if x != y:
                return fail(f"{job['api']}(seed={job['seed']}): PYTHONHASHSEED={case['hashseeds'][0]} gives {x}, PYTHONHASHSEED={case['hashseeds'][1]} gives {y}", api=job["api"])
            continue
        if x != y:
            return fail(f"{job['api']}(seed={job['seed']}, size={job['size']}) on nodes {job['case']['nodes']}: the sample frame differs between "
                        f"PYTHONHASHSEED={case['hashseeds'][0]} and {case['hashseeds'][1]} (digests {x[:10]} / {y[:10]})", api=job["api"])
    return ok(nontrivial=True, njobs=len(case["jobs"]))


STREAMS = [
    Stream("forward", gen_forward, run_forward, quick=360, thorough=3600),
    Stream("evidence", gen_ev, run_ev, quick=300, thorough=3000),
    Stream("gibbs", gen_gibbs, run_gibbs, quick=300, thorough=3000),
    Stream("simulate", gen_sim, run_sim, quick=180, thorough=1800),
    Stream("partial", gen_partial, run_partial, quick=150, thorough=1500),
    Stream("gibbs_chain", gen_gibbs_chain, run_gibbs_chain, quick=90, thorough=900),
    Stream("hashseed_repro", gen_repro, run_repro, quick=6, thorough=42),
    Stream("zero_state", gen_zero_state, run_zero_state, quick=1800, thorough=18000),
]
for _s in STREAMS:
    _s.limit = 20 if _s.name != "hashseed_repro" else 100         # a rejection loop that cannot hit the evidence never returns: report instead of hanging
