"""C09 — writing a model to a file and reading it back returns the same model."""
from __future__ import annotations

import os
import tempfile
from fractions import Fraction

from harness import core, gen
from harness.core import ok, fail, skip, rs
from harness.worker import Stream

OBLIGATIONS = [
    "PgmVerif.C09_colmajor_roundtrip", "PgmVerif.C09_colmajor_entry", "PgmVerif.C09_uai_index_bijection", "PgmVerif.C09_round4_bound", "PgmVerif.C09_round4_idempotent",
    "PgmVerif.C09_net_decimals_tie",
]
PARTIAL = ["everything lexical (pyparsing grammars, regular-expression block splitting, str(float), numpy array printing, XML) is outside the "
           "Lean model: it is exercised only by the write -> read correspondence"]
RULE = ("BNs with 1-6 variables whose names are identifiers, a share of them containing format keywords (variable, probability, network, "
        "table, default, node, potential, data, property), identifier state names, cards 1-5 (one huge table per run in thorough), 0-3 "
        "parents in random declared order, entries across magnitudes 1e-12..1 with exact 0/1; formats BIF, XMLBIF, UAI (BN and Markov), "
        "NET; reader/writer classes and save/load; 6 hash seeds; non-trivial = some CPD has >= 2 parents or a tiny entry; distinct = case JSON"
        " Also: the written model must be unchanged; state names that are words of the formats.")
ASSUMPTIONS = ["NET is compared at the documented 4 decimals (5e-5 absolute); the other formats at 1e-12 relative"]
BUDGET_QUICK = 110
LEVEL_TEXT = ("Kernel-checked table-layout contracts: column-major flattening of a CPD table (BIF rows per parent configuration, XMLBIF "
              "order='F') and its inverse reshape round-trip for every shape and put entry (i, j) at position j*rows + i; the UAI writer's "
              "variable numbering (position in a duplicate-free sorted list) is a bijection inverted by positional naming; rounding to 4 "
              "decimals moves a value by at most 5e-5. The lexical layer is not modelled: write -> read through the reader/writer classes "
              "and save/load is compared at every named assignment with the identity, under 6 hash seeds (partial by construction).")
LEVEL_NOTE = "Trusted: Lean kernel + standard axioms; harness; all lexing/printing/parsing is only exercised."
TECHNIQUE = "Lean 4 proof of table-layout round-trips + write/read differential round-trip at every named assignment"

KEYWORDS = ["variable", "probability", "network", "table", "default", "node", "potential", "data", "property", "type", "discrete"]


def ident(rng, used, kw=False):
    while True:
        base = rng.choice(["Rain", "Wet", "alarm", "x", "Temp", "Cloud", "q", "Burglary", "s", "Light", "m_1", "v2"])
        if kw:
            k = rng.choice(KEYWORDS)
            base = rng.choice([k + "_" + base, base + k, "my" + k, k + "1", k.capitalize() + base])
        nm = base + rng.choice(["", "", "_a", "2", "X"])
        if nm not in used and nm not in KEYWORDS:
            used.add(nm)
            return nm


def tiny_dist(rng, k):
    style = rng.choice(["generic", "generic", "tiny", "det", "mixed"])
    if k == 1:
        return [Fraction(1)]
    if style == "det":
        i = rng.randrange(k)
        return [Fraction(int(j == i)) for j in range(k)]
    if style == "tiny":
        eps = Fraction(1, 10 ** rng.choice([6, 9, 12]))
        d = [eps] * k
        d[rng.randrange(k)] = 1 - eps * (k - 1)
        return d
    if style == "mixed":
        w = [Fraction(rng.choice([1, 10, 1000, 10 ** 6, 10 ** 9])) for _ in range(k)]
        return [x / sum(w) for x in w]
    return gen.rand_dist(rng, k, "generic")


def gen_io(rng, tier):
    n = rng.randint(1, 6)
    used = set()
    names = [ident(rng, used, kw=rng.random() < .35) for _ in range(n)]
    shape, edges = gen.rand_dag_edges(rng, n)
    par = {v: [] for v in range(n)}
    for u, v in edges:
        if len(par[v]) < 3:
            par[v].append(u)
    card = [rng.choice([1, 2, 2, 3, 3, 4, 5]) for _ in range(n)]
    if rng.random() < .2:
        card[rng.randrange(n)] = rng.choice([10, 11, 12, 20])      # two-digit cardinalities sort differently as strings
    huge = tier == "thorough" and rng.random() < .03
    labels = []
    for v in range(n):
        u2 = set()
        labels.append([ident(rng, u2, kw=rng.random() < .2) for _ in range(card[v])])
        if rng.random() < .12 and card[v] >= 1:
            # a state whose name IS a word of the file formats (a thermostat has a state "default", a report a state "table")
            w = rng.choice(["default", "table", "default", "table", "probability", "variable"])
            if w not in labels[-1]:
                labels[-1][rng.randrange(card[v])] = w
    cpds = []
    for v in range(n):
        ps = list(par[v])
        rng.shuffle(ps)
        ncols = 1
        for p in ps:
            ncols *= card[p]
        cols = [tiny_dist(rng, card[v]) for _ in range(ncols)]
        cpds.append({"child": v, "parents": ps, "table": [[rs(cols[j][i]) for j in range(ncols)] for i in range(card[v])]})
    edges = sorted([p, c["child"]] for c in cpds for p in c["parents"])
    return {"nodes": names, "edges": edges, "card": card, "labels": labels, "cpds": cpds, "fmt": rng.choice(["bif", "xmlbif", "uai", "net"]),
            "via": rng.choice(["class", "class", "file", "saveload", "save_reader", "writer_load"]), "shape": shape}


def gen_big(rng, tier):
    """a table larger than numpy's print threshold with an axis > 6"""
    names = ["Child_node", "P1", "P2"]
    card = [2, rng.choice([30, 40]), rng.choice([20, 30])]
    labels = [[f"s{i}" for i in range(c)] for c in card]
    ncols = card[1] * card[2]
    cols = [gen.rand_dist(rng, 2, "generic") for _ in range(ncols)]
    cpds = [{"child": 0, "parents": [1, 2], "table": [[rs(cols[j][i]) for j in range(ncols)] for i in range(2)]},
            {"child": 1, "parents": [], "table": [[rs(Fraction(1, card[1]))] for _ in range(card[1])]},
            {"child": 2, "parents": [], "table": [[rs(Fraction(1, card[2]))] for _ in range(card[2])]}]
    return {"nodes": names, "edges": [[1, 0], [2, 0]], "card": card, "labels": labels, "cpds": cpds, "fmt": rng.choice(["bif", "xmlbif", "uai", "net"]),
            "via": "class", "shape": "big"}


def roundtrip(bn, fmt, via):
    from pgmpy.readwrite import BIFReader, BIFWriter, XMLBIFReader, XMLBIFWriter, UAIReader, UAIWriter, NETReader, NETWriter
    from pgmpy.models import BayesianNetwork
    d = tempfile.mkdtemp(prefix="verif_io_")
    try:
        path = os.path.join(d, "model." + fmt)
        if via == "saveload" and fmt in ("bif", "xmlbif", "uai"):
            bn.save(path, filetype=fmt)
            kw = {"n_jobs": 1} if fmt == "bif" else {}
            return BayesianNetwork.load(path, filetype=fmt, **kw)
        if via in ("save_reader", "writer_load") and fmt in ("bif", "xmlbif", "uai"):
            # the convenience methods (format taken from the file extension) must produce / accept what the reader and writer
            # classes accept / produce
            readers = {"bif": lambda p_: BIFReader(p_, n_jobs=1), "xmlbif": XMLBIFReader, "uai": UAIReader}
            if via == "save_reader":
                bn.save(path)
                return readers[fmt](path).get_model()
            if fmt == "bif":
                BIFWriter(bn).write_bif(path)
            elif fmt == "xmlbif":
                XMLBIFWriter(bn).write_xmlbif(path)
            else:
                UAIWriter(bn).write_uai(path)
            kw = {"n_jobs": 1} if fmt == "bif" else {}
            return BayesianNetwork.load(path, **kw)
        if fmt == "bif":
            if via == "class":
                return BIFReader(string=str(BIFWriter(bn)), n_jobs=1).get_model()
            BIFWriter(bn).write_bif(path)
            return BIFReader(path, n_jobs=1).get_model()
        if fmt == "xmlbif":
            if via == "class":
                s = XMLBIFWriter(bn).__str__()
                return XMLBIFReader(string=s).get_model()
            XMLBIFWriter(bn).write_xmlbif(path)
            return XMLBIFReader(path).get_model()
        if fmt == "uai":
            if via == "class":
                return UAIReader(string=str(UAIWriter(bn))).get_model()
            UAIWriter(bn).write_uai(path)
            return UAIReader(path).get_model()
        if fmt == "net":
            NETWriter(bn).write_net(path)
            return NETReader(path).get_model()
    finally:
        import shutil
        shutil.rmtree(d, ignore_errors=True)


def run_io(case, drv):
    names, card, labels = case["nodes"], case["card"], case["labels"]
    n = len(names)
    fmt, via = case["fmt"], case["via"]
    bn = gen.bn_to_pgmpy(case)
    tags = dict(fmt=fmt, via=via, n=n, kw=any(k in nm for nm in names for k in KEYWORDS))
    import numpy as np
    before = [(str(c.variable), [str(x) for x in c.variables], np.array(c.values, dtype=float).copy(), {str(k): list(v) for k, v in c.state_names.items()})
              for c in bn.get_cpds()]
    try:
        back = roundtrip(bn, fmt, via)
    except Exception as e:
        return fail(f"{fmt} write->read ({via}) raised {type(e).__name__}: {str(e)[:300]} (variables {names})", **tags)
    # writing is an export: the model object that was written is exactly what it was (a later export of the same object depends on it)
    after = [(str(c.variable), [str(x) for x in c.variables], np.array(c.values, dtype=float), {str(k): list(v) for k, v in c.state_names.items()})
             for c in bn.get_cpds()]
    if len(after) != len(before) or sorted(map(str, bn.nodes())) != sorted(names) or \
            {(str(a), str(b)) for a, b in bn.edges()} != {(names[u], names[v]) for u, v in case["edges"]}:
        return fail(f"{fmt} ({via}): writing changed the structure of the model that was written", **tags)
    for b_, a_ in zip(before, after):
        if b_[0] != a_[0] or b_[1] != a_[1] or b_[3] != a_[3] or b_[2].shape != a_[2].shape or not np.array_equal(b_[2], a_[2]):
            return fail(f"{fmt} ({via}): writing modified the CPD of {b_[0]} of the model that was written "
                        f"(max change {float(np.max(np.abs(b_[2] - a_[2]))) if b_[2].shape == a_[2].shape else 'shape'})", **tags)
    # name mapping
    if fmt == "uai":
        order = sorted(range(n), key=lambda v: (str(card[v]), names[v]))
        new = {v: f"var_{i}" for i, v in enumerate(order)}
        newlab = {v: list(range(card[v])) for v in range(n)}
    else:
        new = {v: names[v] for v in range(n)}
        newlab = {v: list(labels[v]) for v in range(n)}
    if set(back.nodes()) != set(new.values()):
        return fail(f"{fmt}: variables after the round trip {sorted(back.nodes())}, expected {sorted(new.values())}", **tags)
    if set(back.edges()) != {(new[u], new[v]) for u, v in case["edges"]}:
        return fail(f"{fmt}: edges after the round trip {sorted(back.edges())}, expected {sorted((new[u], new[v]) for u, v in case['edges'])}", **tags)
    tol_abs = 5e-5 if fmt == "net" else 0.0
    for c in case["cpds"]:
        v = c["child"]
        cpd = back.get_cpds(new[v])
        if cpd is None:
            return fail(f"{fmt}: no CPD for {new[v]} after the round trip", **tags)
        if set(cpd.variables[1:]) != {new[p] for p in c["parents"]}:
            return fail(f"{fmt}: CPD of {new[v]} has parents {cpd.variables[1:]}, expected {[new[p] for p in c['parents']]}", **tags)
        for x in [v] + c["parents"]:
            got = [str(s) for s in cpd.state_names[new[x]]]
            if got != [str(s) for s in newlab[x]]:
                return fail(f"{fmt}: state names of {new[x]} are {got}, expected {newlab[x]}", **tags)
        pc = [card[p] for p in c["parents"]]
        for i in range(card[v]):
            for j in range(len(c["table"][0])):
                pidx = core.unravel(pc, j)
                idx = [cpd.name_to_no[new[v]][type(cpd.state_names[new[v]][0])(newlab[v][i]) if fmt != "uai" else newlab[v][i]]]
                # index by the reader's own name maps
                full = {new[v]: i}
                for p, k in zip(c["parents"], pidx):
                    full[new[p]] = k
                key = []
                for var in cpd.variables:
                    xi = [q for q in range(n) if new[q] == var][0]
                    want = newlab[xi][full[var]]
                    ntn = cpd.name_to_no[var]
                    if want in ntn:
                        key.append(ntn[want])
                    elif str(want) in ntn:
                        key.append(ntn[str(want)])
                    else:
                        return fail(f"{fmt}: state {want!r} of {var} not found after the round trip ({list(ntn)})", **tags)
                gotv = float(cpd.values[tuple(key)])
                exp = Fraction(c["table"][i][j])
                if abs(gotv - float(exp)) > tol_abs + 1e-12 * max(1.0, abs(float(exp))) and not (tol_abs == 0 and core.close(gotv, exp, 1e-12)):
                    return fail(f"{fmt}: P({new[v]}={newlab[v][i]} | parent configuration {j}) = {gotv!r} after the round trip, "
                                f"was {float(exp)!r}", **tags)
    nontrivial = any(len(c["parents"]) >= 2 for c in case["cpds"]) or any(Fraction(x) != 0 and Fraction(x) < Fraction(1, 10 ** 5) for c in case["cpds"] for r in c["table"] for x in r)
    return ok(nontrivial=nontrivial, **tags)


# ----------------------------------------------------------------------------- UAI Markov networks
def gen_uai_mn(rng, tier):
    from harness import mnet
    case = mnet.gen_mn_case(rng, nmin=2, nmax=4, dup=None, label_kind="int", name_kind="str",
                            special=rng.choice([None, None, "ten", "one"]))
    used = set()
    case["nodes"] = [ident(rng, used) for _ in case["nodes"]]
    return case


def run_uai_mn(case, drv):
    from harness import mnet
    from pgmpy.readwrite import UAIReader, UAIWriter
    from pgmpy.factors import factor_product
    names, card = case["nodes"], case["card"]
    n = len(names)
    mn = mnet.to_markov(case)
    try:
        back = UAIReader(string=str(UAIWriter(mn))).get_model()
    except Exception as e:
        return fail(f"UAI Markov write->read raised {type(e).__name__}: {str(e)[:300]}")
    # variables in order of first appearance in the factors, sorted by (card, name) as the writer does
    dom = {}
    for f in case["factors"]:
        for v in f["scope"]:
            dom.setdefault(v, str(card[v]))
    order = sorted(dom, key=lambda v: (dom[v], names[v]))
    new = {v: f"var_{i}" for i, v in enumerate(order)}
    fs = mnet.model_factors(case)
    jt = drv.call("bn_joint", fs=fs, vars=list(range(n)), cards=card)
    prod = factor_product(*back.get_factors()) if len(back.get_factors()) > 1 else back.get_factors()[0]
    if set(prod.variables) != set(new.values()):
        return fail(f"UAI Markov: variables {sorted(prod.variables)} expected {sorted(new.values())}")
    for asg in core.all_assignments(jt["scope"], jt["card"]):
        mv = core.model_value(jt, asg)
        iv = float(prod.get_value(**{new[v]: asg[v] for v in asg}))
        if not core.close(iv, mv, 1e-12):
            return fail(f"UAI Markov round trip: value at {asg} is {iv}, was {float(mv)}")
    return ok(nontrivial=True, n=n)


STREAMS = [
    Stream("roundtrip", gen_io, run_io, quick=900, thorough=9000),
    Stream("big_table", gen_big, run_io, quick=8, thorough=40),
    Stream("uai_markov", gen_uai_mn, run_uai_mn, quick=200, thorough=2000),
]
