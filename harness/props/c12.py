"""C12 — constraint-based discovery is exact given exact independence information."""
from __future__ import annotations

import itertools

from harness import core, gen
from harness.core import ok, fail, skip
from harness.worker import Stream

OBLIGATIONS = [
    "PgmVerif.C12_extension_sound", "PgmVerif.C12_cpdag_directed_sound", "PgmVerif.C12_class_members", "PgmVerif.isAcyclicG_sound",
    "PgmVerif.C12_adjacent_never_separated", "PgmVerif.C12_parents_separate", "PgmVerif.C12_nonadjacent_separable",
    "PgmVerif.C12_toDag_acyclic", "PgmVerif.C12_toDag_keeps_directed", "PgmVerif.C12_toDag_only_orients", "PgmVerif.C12_toDag_orients_all", "PgmVerif.C12_meek_rules_sound",
]
PARTIAL = ["the graph-theoretic core of skeleton exactness is proved for every DAG (a true edge is never separable; the parents of one end point "
           "separate every non-adjacent pair); that the level-wise loops of the three variants enumerate those parent sets is not modelled; "
           "soundness of the orientation rules R1-R3 is proved for every member of the class (C12_meek_rules_sound); their completeness (every "
           "compelled edge gets oriented), that skeleton_to_pdag applies exactly these rules, and completeness of the "
           "Dor-Tarsi sink removal are decided exhaustively: all DAGs on <= 4 nodes (quick) / 5 nodes (thorough) as ground truth, both "
           "sequential variants, against the enumerated Markov class of the Lean spec"]
RULE = ("ground truth = every labelled DAG on 2-4 nodes (all 5-node DAGs in thorough, random 6-node DAGs) x variants orig/stable (parallel "
        "sampled) with a d-separation oracle and with the full independence list; PDAG.to_dag on the CPDAG of every such DAG and on random "
        "extendable PDAGs; 6 hash seeds; non-trivial = ground truth has a v-structure or a compelled edge; distinct = case JSON"
        " Also: integer variable names incl. 0 (callable oracle, to_dag), direct skeleton_to_pdag, independence lists filled in two stages, PDAG reused after to_dag.")
ASSUMPTIONS = ["max_cond_vars >= number of nodes (>= max degree)"]
BUDGET_QUICK = 120
LEVEL_TEXT = ("Kernel-checked on the specification side: a graph accepted by the model's extension predicate is acyclic, has the PDAG's "
              "skeleton, keeps all its directed edges and has exactly its v-structures; every edge the spec CPDAG directs has that direction in "
              "every member of the enumerated Markov class, and the class contains the ground-truth DAG. For EVERY acyclic graph the "
              "d-separation traversal of the model (proved equal to the textbook definition in C08) reports adjacent nodes as dependent given "
              "every conditioning set, and reports u, v as independent given pa(u) whenever v is a non-adjacent non-descendant of u - so a "
              "separating set exists for exactly the non-adjacent pairs, which is what makes the PC skeleton phase exact; the model of "
              "PDAG.to_dag returns an acyclic edge set for every partially directed graph on which it succeeds (C12_toDag_acyclic, by an "
              "invariant over the removal loop); the orientation rules R1-R3 hold in every acyclic member of the class, so an edge "
              "they orient is compelled (C12_meek_rules_sound). The implementation is decided by "
              "exhaustive differential runs against that spec: skeleton, separating sets (each must d-separate its pair in the Lean "
              "d-separation spec), CPDAG (directed and undirected parts) and DAG output of every PC variant for every ground-truth DAG up to "
              "4/5 nodes under 6 hash seeds, and PDAG.to_dag on all their CPDAGs and random extendable PDAGs (partial: no proof of the "
              "level-wise search, the Meek rules or Dor-Tarsi completeness).")
LEVEL_NOTE = "Trusted: Lean kernel + standard axioms; spec by enumeration; harness."
TECHNIQUE = "Lean 4 proof (skeleton characterisation by d-separation, extension predicate soundness, Markov class by enumeration) + exhaustive differential check of PC / to_dag"

NAMES = ["A", "B", "C", "D", "E", "F"]


def names_for(n, salt):
    """variable names: letters, or the integers 0..n-1 in a rotated order (0 is an ordinary name), or 1..n"""
    k = salt % 4
    if k == 1:
        r = salt % n if n else 0
        return [(i + r) % n for i in range(n)]
    if k == 2:
        return [i + 1 for i in range(n)]
    return NAMES[:n]
_D = {}


def dags(n):
    if n not in _D:
        _D[n] = gen.all_dags(n)
    return _D[n]


def enum_pc(tier):
    k = 0
    for n in (2, 3, 4):
        for edges in dags(n):
            for variant in ("orig", "stable"):
                h = (k * 2654435761 % (2 ** 32)) >> 7
                yield {"n": n, "edges": [list(e) for e in edges], "variant": variant, "oracle": ["callable", "list"][h % 4 == 0],
                       "perm": h % 24, "mcv": ["n", "maxdeg", "maxdeg+1"][(h // 24) % 3]}
                k += 1
    if tier == "thorough":
        for edges in dags(5):
            h = (k * 2654435761 % (2 ** 32)) >> 7
            yield {"n": 5, "edges": [list(e) for e in edges], "variant": ["orig", "stable", "parallel"][h % 3], "oracle": "callable",
                   "perm": h % 120}
            k += 1


def enum_pc_dense5(tier):
    """5-node ground truths with 6 or 8 edges, node order = labelling order: the orientation rules that need several propagation
    stages (Meek R2 / R3 chains) only matter here; every second one in the quick tier"""
    k = 0
    for edges in dags(5):
        if len(edges) not in (6, 8):
            continue
        k += 1
        if tier != "thorough" and k % 2:
            continue
        yield {"n": 5, "edges": [list(e) for e in edges], "variant": ["stable", "orig", "parallel"][k % 3], "oracle": "callable", "perm": 0,
               "mcv": "maxdeg" if k % 4 == 0 else "n"}


def gen_pc_random(rng, tier):
    n = rng.choice([5, 5, 6])
    # sparse and dense graphs: some orientation rules (Meek R3 and what it enables) only matter on dense 5-node DAGs
    _, edges = gen.rand_dag_edges(rng, n, "gnp", p=rng.choice([.3, .5, .8, .8, .9]))
    return {"n": n, "edges": [list(e) for e in edges], "variant": rng.choice(["orig", "stable", "parallel"]), "oracle": "callable",
            "perm": rng.randrange(120), "mcv": rng.choice(["n", "maxdeg", "maxdeg+1"])}


def run_pc(case, drv):
    from pgmpy.base import DAG
    from pgmpy.estimators import PC
    n, edges = case["n"], case["edges"]
    # node insertion order varies with `perm`
    order = list(itertools.permutations(range(n)))[case["perm"] % len(list(itertools.permutations(range(n))))] if n <= 5 else tuple(range(n))
    # (independence LISTS take string variables only - IndependenceAssertion is documented for strings; the callable oracle and the
    # PDAG functions take any hashable name)
    names = names_for(n, len(edges) + case.get("perm", 0)) if case["oracle"] != "list" else NAMES[:n]
    truth = DAG()
    truth.add_nodes_from([names[i] for i in order])
    truth.add_edges_from([(names[u], names[v]) for u, v in edges])
    mg = {"nodes": list(range(n)), "edges": edges}
    spec = drv.call("cpdag_spec", g=mg)
    deg = [sum(1 for e in edges if v in e) for v in range(n)]
    # the property quantifies over max_cond_vars >= maximum degree of the ground truth: the boundary value must already be enough
    mcv = {"n": n, "maxdeg": max(deg) if deg else 0, "maxdeg+1": (max(deg) if deg else 0) + 1}[case.get("mcv", "n")]
    tags = dict(n=n, variant=case["variant"], oracle=case["oracle"], mcv=case.get("mcv", "n"))

    def oracle(X, Y, Z, **kw):
        return not truth.is_dconnected(X, Y, observed=list(Z))
    try:
        if case["oracle"] == "list":
            # the full list of single-pair statements that hold in the ground truth
            from pgmpy.independencies import Independencies
            stm = []
            for a in range(n):
                for b in range(a + 1, n):
                    rest = [c for c in range(n) if c not in (a, b)]
                    for r in range(len(rest) + 1):
                        for Z in itertools.combinations(rest, r):
                            if not drv.call("g_dsep", g=mg, obs=list(Z), x=a, y=b):
                                # events are given as lists: a bare name that is falsy (the variable 0) would read as "not specified"
                                stm.append([[names[a]], [names[b]], [names[z] for z in Z]] if Z else [[names[a]], [names[b]]])
            if (len(edges) + n) % 2:
                # the list is filled in two stages, with a membership test in between (as when statements are collected one by one)
                half = len(stm) // 2
                ind = Independencies(*stm[:half])
                if stm:
                    _ = stm[-1] in ind.get_assertions() or ind.contains(__import__("pgmpy.independencies", fromlist=["IndependenceAssertion"]).IndependenceAssertion(*stm[-1]))
                ind.add_assertions(*stm[half:])
            else:
                ind = Independencies(*stm)
            if set(ind.get_all_variables()) != set(names):
                return skip("a variable occurs in no independence statement (the API derives the variable set from the list)")
            est = PC(independencies=ind)
            kw = dict(ci_test="independence_match")
        else:
            import pandas as pd
            est = PC(data=pd.DataFrame({names[i]: [0, 1] for i in order}))
            kw = dict(ci_test=oracle)
        if (len(edges) + n) % 3 == 0:
            # the estimator object has run another variant with a smaller conditioning-set limit before: no state may carry over
            other = {"orig": "stable", "stable": "parallel", "parallel": "orig"}.get(case["variant"], "stable")
            try:
                est.estimate(variant=other, max_cond_vars=0, return_type="dag", show_progress=False, n_jobs=1, **kw)
            except Exception:
                pass
        skel, seps = est.estimate(variant=case["variant"], max_cond_vars=mcv, return_type="skeleton", show_progress=False, n_jobs=1, **kw)
        pdag = est.estimate(variant=case["variant"], max_cond_vars=mcv, return_type="pdag", show_progress=False, n_jobs=1, **kw)
        dag = est.estimate(variant=case["variant"], max_cond_vars=mcv, return_type="dag", show_progress=False, n_jobs=1, **kw)
    except Exception as e:
        return fail(f"PC.estimate raised {type(e).__name__}: {e}", **tags)
    idx = {nm: i for i, nm in enumerate(names)}
    sk = {tuple(sorted((idx[u], idx[v]))) for u, v in skel.edges()}
    if sk != {tuple(e) for e in spec["skeleton"]}:
        return fail(f"skeleton {sorted(sk)} != true skeleton {spec['skeleton']} for DAG {edges}", **tags)
    for pair, s in seps.items():
        u, v = tuple(pair)
        if tuple(sorted((idx[u], idx[v]))) in sk:
            continue
        if drv.call("g_dsep", g=mg, obs=[idx[z] for z in s], x=idx[u], y=idx[v]):
            return fail(f"separating set {set(s)} stored for ({u},{v}) does not d-separate them in {edges}", **tags)
    und_pairs = {(a, b) for a in range(n) for b in range(n) if a < b and (a, b) not in sk}
    for a, b in und_pairs:
        if frozenset((names[a], names[b])) not in seps:
            return fail(f"no separating set recorded for non-adjacent ({names[a]},{names[b]})", **tags)
    got_dir = {(idx[u], idx[v]) for u, v in pdag.directed_edges}
    got_und = {tuple(sorted((idx[u], idx[v]))) for u, v in pdag.undirected_edges}
    exp_dir = {tuple(e) for e in spec["directed"]}
    exp_und = {tuple(sorted(e)) for e in spec["undirected"]}
    if got_dir != exp_dir or got_und != exp_und:
        return fail(f"CPDAG for ground truth {edges}: directed {sorted(got_dir)} undirected {sorted(got_und)}; "
                    f"Markov class gives directed {sorted(exp_dir)} undirected {sorted(exp_und)}", **tags)
    # the public static entry point, called directly with the skeleton and separating sets returned above, gives the same pattern and
    # leaves its arguments alone
    try:
        sk_before = {frozenset(e) for e in skel.edges()}
        seps_before = {k: set(v) for k, v in seps.items()}
        pd2 = PC.skeleton_to_pdag(skel, seps)
    except Exception as e:
        return fail(f"PC.skeleton_to_pdag raised {type(e).__name__}: {e}", **tags)
    d2 = {(idx[u], idx[v]) for u, v in pd2.directed_edges}
    u2 = {tuple(sorted((idx[u], idx[v]))) for u, v in pd2.undirected_edges}
    if d2 != exp_dir or u2 != exp_und:
        return fail(f"PC.skeleton_to_pdag(skeleton, separating sets) for ground truth {edges}: directed {sorted(d2)} undirected {sorted(u2)}; "
                    f"Markov class gives directed {sorted(exp_dir)} undirected {sorted(exp_und)}", **tags)
    if {frozenset(e) for e in skel.edges()} != sk_before or {k: set(v) for k, v in seps.items()} != seps_before:
        return fail("PC.skeleton_to_pdag modified the skeleton or the separating sets it was given", **tags)
    de = [[idx[u], idx[v]] for u, v in dag.edges()]
    if set(dag.nodes()) != set(names):
        return fail(f"DAG result has nodes {sorted(dag.nodes())}", **tags)
    if not drv.call("iequiv", g=mg, h={"nodes": list(range(n)), "edges": de}) or not gen.is_acyclic(n, [tuple(e) for e in de]):
        return fail(f"DAG result {sorted(de)} is not a member of the Markov class of {edges}", **tags)
    return ok(nontrivial=bool(spec["directed"]), compelled=min(len(spec["directed"]), 4), **tags)


# ----------------------------------------------------------------------------- PDAG.to_dag
def gen_todag(rng, tier):
    n = rng.randint(3, 6)
    _, edges = gen.rand_dag_edges(rng, n, "gnp", p=rng.choice([.4, .6]))
    mode = rng.choice(["cpdag", "cpdag", "partial"])
    return {"n": n, "edges": [list(e) for e in edges], "mode": mode, "r": rng.random(), "shuffle": rng.randrange(10 ** 6)}


def enum_todag(tier):
    for n in (3, 4):
        for edges in dags(n):
            yield {"n": n, "edges": [list(e) for e in edges], "mode": "cpdag", "r": 0.0, "shuffle": len(edges)}


def run_todag(case, drv):
    import random
    from pgmpy.base import PDAG
    n, edges = case["n"], case["edges"]
    names = names_for(n, case["shuffle"] + n)
    rng = random.Random(case["shuffle"])
    spec = drv.call("cpdag_spec", g={"nodes": list(range(n)), "edges": edges})
    if case["mode"] == "cpdag":
        directed, undirected = [list(e) for e in spec["directed"]], [list(e) for e in spec["undirected"]]
    else:
        # undirect a random subset of the DAG's edges; keep only extendable PDAGs (checked by the model below)
        directed, undirected = [], []
        for e in edges:
            (undirected if rng.random() < case["r"] else directed).append(list(e))
    p = {"nodes": list(range(n)), "directed": directed, "undirected": undirected}
    de = list(directed)
    ue = [e if rng.random() < .5 else [e[1], e[0]] for e in undirected]
    rng.shuffle(de)
    rng.shuffle(ue)
    chk0 = drv.call("pd_check", p=p, d={"nodes": list(range(n)), "edges": edges})
    if not chk0["extendable"]:
        return skip("PDAG has no consistent extension")
    try:
        pd_ = PDAG(directed_ebunch=[(names[u], names[v]) for u, v in de], undirected_ebunch=[(names[u], names[v]) for u, v in ue])
        pd_.add_nodes_from(names)
        before = (set(pd_.nodes()), set(pd_.directed_edges), {frozenset(e) for e in pd_.undirected_edges}, set(map(tuple, pd_.edges())))
        dag = pd_.to_dag()
        after = (set(pd_.nodes()), set(pd_.directed_edges), {frozenset(e) for e in pd_.undirected_edges}, set(map(tuple, pd_.edges())))
        if before != after:
            return fail(f"to_dag changed the PDAG it was called on: nodes {sorted(map(str, before[0]))} -> {sorted(map(str, after[0]))}, "
                        f"{len(before[3])} -> {len(after[3])} edges", mode=case["mode"])
        dag2 = pd_.to_dag()
        if set(dag2.nodes()) != set(dag.nodes()) or set(dag2.edges()) != set(dag.edges()):
            return fail(f"a second to_dag() on the same PDAG gives {sorted(dag2.edges())}, the first gave {sorted(dag.edges())}", mode=case["mode"])
    except Exception as e:
        return fail(f"to_dag raised {type(e).__name__}: {e}", mode=case["mode"])
    got = [[names.index(u), names.index(v)] for u, v in dag.edges()]
    chk = drv.call("pd_check", p=p, d={"nodes": list(range(n)), "edges": got})
    if not chk["extension"]:
        return fail(f"to_dag on the extendable PDAG directed={directed} undirected={undirected} returned {sorted(got)}, which is not a "
                    f"consistent extension (acyclic={chk['acyclic']}; must keep directed edges, skeleton and create no new v-structure)",
                    mode=case["mode"], n=n)
    if chk["model_todag"] is None:
        return fail("MODEL: Dor-Tarsi sink removal of the model found no removable node on an extendable PDAG", mode=case["mode"])
    return ok(nontrivial=bool(undirected), mode=case["mode"], n=n)


STREAMS = [
    Stream("pc_exhaustive", enum=enum_pc, run=run_pc),
    Stream("pc_dense5", enum=enum_pc_dense5, run=run_pc),
    Stream("pc_random", gen_pc_random, run_pc, quick=400, thorough=4000),
    Stream("todag_exhaustive", enum=enum_todag, run=run_todag),
    Stream("todag_random", gen_todag, run_todag, quick=500, thorough=5000),
]
