"""C15 — models stay structurally consistent under any edit history."""
from __future__ import annotations

from fractions import Fraction

from harness import core, gen
from harness.core import ok, fail, skip, rs
from harness.worker import Stream

OBLIGATIONS = [
    "PgmVerif.C15_step_inv", "PgmVerif.C15_bn_acyclic", "PgmVerif.C15_reject_unchanged", "PgmVerif.C15_do_edges",
    "PgmVerif.acyclic_add_edge", "PgmVerif.hasPath_complete",
    "PgmVerif.C15_step_book", "PgmVerif.C15_bookkeeping",
    "PgmVerif.shaped_marg", "PgmVerif.C15_step_cpds", "PgmVerif.C15_cpd_bookkeeping",
    "PgmVerif.C15_remove_forgets", "PgmVerif.C15_do_parentless", "PgmVerif.C15_reachable_consistent",
]
PARTIAL = ["copy independence is a heap fact: decided by continuing the history on both objects and comparing each with its own model state",
           "DynamicBayesianNetwork / JunctionTree / MarkovNetwork histories are checked against the invariant predicates on the implementation "
           "(acyclic / forest / rejected-op-unchanged), not against a Lean step function",
           "validity of CPDs after remove_node / do is compared differentially (column-normalised over the remaining graph parents)"]
RULE = ("random histories of 6-25 (quick) / up to 80 (thorough) operations over a pool of 6 variables, valid:invalid about 3:1, with copy "
        "operations that fork the history; non-trivial = history contains an accepted add_edge and a rejected operation or a copy; "
        "distinct = case JSON"
        " Also: weighted batch insertions, remove_nodes_from and do with iterator arguments, in-place factor edits against earlier copies.")
ASSUMPTIONS = ["networkx has_path / DiGraph edits are modelled by the edge-list state machine"]
BUDGET_QUICK = 75
LEVEL_TEXT = ("Kernel-checked: the state machine model of BayesianNetwork editing (add_node, add_edge with the has_path guard, remove_node, "
              "add_cpds, remove_cpds, do) preserves 'edges inside nodes and no directed cycle' for every operation, hence for every finite "
              "history from the empty model (induction over the op list); a rejected operation returns the state unchanged; do() removes "
              "exactly the incoming edges. The lemma 'adding u->v to an acyclic graph with no path v~>u stays acyclic' and completeness of the "
              "has_path saturation are proved. The implementation is run in lock-step with the model on random histories (nodes, edges, "
              "latents, CPD tables, accept/reject, acyclicity after every step); copies continue on both branches. DBN / JunctionTree / "
              "MarkovNetwork are checked against invariant predicates only (partial).")
LEVEL_NOTE = "Trusted: Lean kernel + standard axioms; model of the editing API; harness."
TECHNIQUE = "Lean 4 invariant proof over an editing state machine + lock-step differential histories"

NVARS = 6


def shadow_has_path(edges, a, b):
    seen, st = {a}, [a]
    while st:
        u = st.pop()
        if u == b:
            return True
        for (p, c) in edges:
            if p == u and c not in seen:
                seen.add(c)
                st.append(c)
    return False


def gen_bn_history(rng, tier):
    names = gen.node_names(rng, NVARS, rng.choice(["str", "word", "int", "int0"]))
    card = [rng.choice([2, 2, 3]) for _ in range(NVARS)]
    labels = [list(range(c)) for c in card]     # get_random_cpds always uses the default integer state names
    L = rng.randint(6, 25 if tier == "quick" else 80)
    worlds = [{"nodes": set(), "edges": set(), "cpds": {}}]
    ops = []
    for _ in range(L):
        w = rng.randrange(len(worlds))
        W = worlds[w]
        k = rng.choice(["addNode", "addEdge", "addEdge", "addEdge", "removeNode", "addCpd", "addCpd", "addCpd", "removeCpd",
                        "do", "copy", "check", "randcpds", "nodesW", "edgesW"])
        op = {"k": k, "w": w}
        if k == "nodesW":
            # add_nodes_from(nodes, weights=..., latent=...): the weights list may have the wrong length (then the call is rejected)
            vs = rng.sample(range(NVARS), rng.randint(1, 3))
            op["vs"] = vs
            op["latent"] = [rng.random() < .3 for _ in vs]
            op["nw"] = len(vs) if rng.random() < .5 else rng.choice([len(vs) - 1 or len(vs) + 1, len(vs) + 1])   # an empty list means "no weights"
            if op["nw"] == len(vs):
                W["nodes"] |= set(vs)
        elif k == "edgesW":
            es = []
            E2, N2 = set(W["edges"]), set(W["nodes"])
            for _ in range(rng.randint(1, 3)):
                u, v = rng.randrange(NVARS), rng.randrange(NVARS)
                if u != v and (u, v) not in E2 and not shadow_has_path(E2, v, u):
                    es.append([u, v])
                    E2.add((u, v))
                    N2 |= {u, v}
            if not es:
                continue
            op["es"] = es
            op["nw"] = len(es) if rng.random() < .5 else rng.choice([len(es) - 1 or len(es) + 1, len(es) + 1])
            if op["nw"] == len(es):
                W["edges"], W["nodes"] = E2, N2
        elif k == "addNode":
            op["v"] = rng.randrange(NVARS)
            op["latent"] = rng.random() < .3
            W["nodes"].add(op["v"])
        elif k == "addEdge":
            u, v = rng.randrange(NVARS), rng.randrange(NVARS)
            if rng.random() < .25 and W["edges"]:
                a, b = rng.choice(sorted(W["edges"]))
                u, v = b, a              # try to close a cycle
            op["u"], op["v"] = u, v
            if u != v and not (u in W["nodes"] and v in W["nodes"] and shadow_has_path(W["edges"], v, u)):
                W["nodes"] |= {u, v}
                W["edges"].add((u, v))
        elif k == "removeNode":
            v = rng.randrange(NVARS)
            op["v"] = v
            if v in W["nodes"]:
                W["nodes"].discard(v)
                W["edges"] = {(a, b) for a, b in W["edges"] if a != v and b != v}
                W["cpds"].pop(v, None)
                for c in W["cpds"]:
                    W["cpds"][c] = [p for p in W["cpds"][c] if p != v]
        elif k == "addCpd":
            if not W["nodes"]:
                continue
            v = rng.choice(sorted(W["nodes"]))
            ps = sorted(a for a, b in W["edges"] if b == v)
            bad = rng.random() < .15
            if bad:
                extra = [x for x in range(NVARS) if x not in W["nodes"]]
                if extra:
                    ps = ps + [rng.choice(extra)]
            elif rng.random() < .15:
                # a CPD conditioned on a node that is not (yet) a graph parent: add_cpds accepts any scope inside the node set
                extra = [x for x in sorted(W["nodes"]) if x != v and x not in ps]
                if extra:
                    ps = ps + [rng.choice(extra)]
            rng.shuffle(ps)
            ncols = 1
            for p in ps:
                ncols *= card[p]
            if ncols > 40:
                continue
            cols = [[Fraction(rng.randint(1, 9)) for _ in range(card[v])] for _ in range(ncols)]
            cols = [[x / sum(c) for x in c] for c in cols]
            op["child"], op["parents"] = v, ps
            op["table"] = [[rs(cols[j][i]) for j in range(ncols)] for i in range(card[v])]
            if set(ps) <= W["nodes"]:
                W["cpds"][v] = list(ps)
        elif k == "removeCpd":
            v = rng.randrange(NVARS)
            op["v"] = v
            W["cpds"].pop(v, None)
        elif k == "do":
            cand = sorted(W["nodes"]) or [0]
            vs = rng.sample(cand, rng.randint(1, min(2, len(cand))))
            if rng.random() < .1:
                vs.append(rng.randrange(NVARS))
            op["vs"] = vs
            if set(vs) <= W["nodes"]:
                W["edges"] = {(a, b) for a, b in W["edges"] if b not in vs}
                for v in vs:
                    if v in W["cpds"]:
                        W["cpds"][v] = []
        elif k == "copy":
            if len(worlds) >= 3:
                continue
            worlds.append({"nodes": set(W["nodes"]), "edges": set(W["edges"]), "cpds": {c: list(p) for c, p in W["cpds"].items()}})
        ops.append(op)
    return {"names": names, "card": card, "labels": labels, "ops": ops}


def impl_snapshot(bn):
    from harness.props.c04 import snapshot
    return (set(bn.nodes()), set(bn.edges()), set(bn.latents), sorted((str(c.variable), repr(snapshot(c))) for c in bn.cpds))


def compare_world(bn, st, names, card, labels):
    import networkx as nx
    pn = [gen.lab(x) for x in names]
    if set(bn.nodes()) != {pn[v] for v in st["nodes"]}:
        return f"nodes: impl {sorted(map(str, bn.nodes()))} model {[pn[v] for v in st['nodes']]}"
    if set(bn.edges()) != {(pn[u], pn[v]) for u, v in st["edges"]}:
        return f"edges: impl {sorted(map(str, bn.edges()))} model {[(pn[u], pn[v]) for u, v in st['edges']]}"
    if set(bn.latents) != {pn[v] for v in st["latents"]}:
        return f"latents: impl {bn.latents} model {[pn[v] for v in st['latents']]}"
    if not nx.is_directed_acyclic_graph(bn):
        return "model contains a directed cycle"
    mc = {f["scope"][0]: f for f in st["cpds"]}
    ic = {c.variable: c for c in bn.cpds}
    if set(ic) != {pn[v] for v in mc}:
        return f"CPDs present for {sorted(map(str, ic))}, model {[pn[v] for v in mc]}"
    from harness.props.c04 import compare_factor
    for v, f in mc.items():
        err = compare_factor(ic[pn[v]], f, names, card, labels, tol=1e-9)
        if err:
            return f"CPD of {pn[v]}: {err}"
        if ic[pn[v]].variables[0] != pn[v]:
            return f"CPD of {pn[v]}: child is not the first axis"
    return None


def run_bn_history(case, drv):
    from pgmpy.models import BayesianNetwork
    from pgmpy.factors.discrete import TabularCPD
    import numpy as np
    names, card, labels = case["names"], case["card"], case["labels"]
    pn = [gen.lab(x) for x in names]
    worlds = [(BayesianNetwork(), {"nodes": [], "edges": [], "latents": [], "cpds": []})]
    n_ok = n_err = n_copy = 0
    for step_i, op in enumerate(case["ops"]):
        k, w = op["k"], op["w"]
        if w >= len(worlds):
            continue
        bn, st = worlds[w]
        before = [impl_snapshot(b) for b, _ in worlds]
        mop = None
        try:
            if k == "addNode":
                mop = {"k": "addNode", "v": op["v"], "latent": op["latent"]}
                bn.add_node(pn[op["v"]], latent=op["latent"])
            elif k == "addEdge":
                mop = {"k": "addEdge", "u": op["u"], "v": op["v"]}
                bn.add_edge(pn[op["u"]], pn[op["v"]])
            elif k in ("nodesW", "edgesW"):
                wts = [0.5 + i for i in range(op["nw"])]
                try:
                    if k == "nodesW":
                        bn.add_nodes_from([pn[v] for v in op["vs"]], weights=wts, latent=list(op["latent"]))
                        mops = [{"k": "addNode", "v": v, "latent": l} for v, l in zip(op["vs"], op["latent"])]
                    else:
                        bn.add_edges_from([(pn[u], pn[v]) for u, v in op["es"]], weights=wts)
                        mops = [{"k": "addEdge", "u": u, "v": v} for u, v in op["es"]]
                    accepted = True
                except Exception as e:  # noqa
                    accepted = False
                    exc = f"{type(e).__name__}: {e}"
                want = op["nw"] == len(op["vs"] if k == "nodesW" else op["es"])
                if accepted != want:
                    return fail(f"step {step_i} {k}: {len(op['vs'] if k == 'nodesW' else op['es'])} items with {op['nw']} weights were "
                                f"{'accepted' if accepted else 'rejected (' + exc + ')'}")
                if not accepted:
                    n_err += 1
                    if impl_snapshot(bn) != before[w]:
                        return fail(f"step {step_i} {k}: the call was rejected ({exc}) but it changed the model "
                                    f"(nodes {sorted(map(str, bn.nodes()))}, latents {sorted(map(str, bn.latents))})")
                else:
                    for mop_ in mops:
                        r = drv.call("bn_step", state=st, bnop=mop_)
                        if r["out"] != "ok":
                            return fail(f"step {step_i} {k}: MODEL rejects {mop_} of an accepted batch")
                        st = r["state"]
                    worlds[w] = (bn, st)
                    n_ok += 1
            elif k == "removeNode":
                mop = {"k": "removeNode", "v": op["v"]}
                form = (step_i + op["v"]) % 5
                if form == 0:
                    bn.remove_node(pn[op["v"]])
                else:
                    # the batch form, with the nodes given as list / tuple / generator / one-shot iterator
                    one = [pn[op["v"]]]
                    bn.remove_nodes_from([one, tuple(one), (x for x in one), iter(one)][form - 1])
            elif k == "addCpd":
                v, ps = op["child"], op["parents"]
                f = {"scope": [v] + ps, "card": [card[x] for x in [v] + ps], "vals": [x for row in op["table"] for x in row]}
                mop = {"k": "addCpd", "f": f}
                sn = {pn[x]: [gen.lab(l) for l in labels[x]] for x in [v] + ps}
                cpd = TabularCPD(pn[v], card[v], [[float(Fraction(x)) for x in row] for row in op["table"]],
                                 evidence=[pn[p] for p in ps] or None, evidence_card=[card[p] for p in ps] or None, state_names=sn)
                if (step_i + v) % 3 == 0 and card[v] > 1:
                    # two CPDs for the same variable in ONE call: the later one is the variable's CPD, exactly as with two calls
                    alt = TabularCPD(pn[v], card[v], [[float(Fraction(x)) for x in row] for row in reversed(op["table"])],
                                     evidence=[pn[p] for p in ps] or None, evidence_card=[card[p] for p in ps] or None, state_names=sn)
                    bn.add_cpds(alt, cpd)
                else:
                    bn.add_cpds(cpd)
            elif k == "removeCpd":
                mop = {"k": "removeCpd", "v": op["v"]}
                bn.remove_cpds(pn[op["v"]])
            elif k == "do":
                mop = {"k": "do", "vs": op["vs"]}
                dl = [pn[v] for v in op["vs"]]
                bn.do([dl, tuple(dl), (x for x in dl), iter(dl)][(step_i + len(dl)) % 4], inplace=True)
            elif k == "copy":
                cp = bn.copy()
                worlds.append((cp, {kk: [dict(x) if isinstance(x, dict) else x for x in vv] for kk, vv in st.items()}))
                n_copy += 1
                err = compare_world(cp, st, names, card, labels)
                if err:
                    return fail(f"step {step_i} copy(): the copy differs from the original: {err}")
            elif k == "check":
                try:
                    bn.check_model()
                except ValueError:
                    pass
            elif k == "randcpds":
                if len(bn.nodes()) >= 2 and step_i % 2 == 0:
                    # a cardinality dict that misses one variable is rejected; the refusal leaves the model as it was
                    order = list(bn.nodes())
                    miss = order[-1] if step_i % 4 == 0 else order[len(order) // 2]
                    try:
                        bn.get_random_cpds(n_states={v: card[pn.index(v)] for v in order if v != miss}, inplace=True)
                        return fail(f"step {step_i} get_random_cpds accepted a cardinality dict without {miss!r}")
                    except ValueError as e:
                        n_err += 1
                        if impl_snapshot(bn) != before[w]:
                            return fail(f"step {step_i} get_random_cpds: the call was rejected ({e}) but it changed the model's CPDs")
                if len(bn.nodes()) and all(v in bn.nodes() for v in bn.nodes()):
                    bn.get_random_cpds(n_states={v: card[pn.index(v)] for v in bn.nodes()}, inplace=True)
                    # values are random: adopt them into the model state after checking structure and validity
                    for c in bn.cpds:
                        if set(c.variables[1:]) != set(bn.get_parents(c.variable)) or not c.is_valid_cpd():
                            return fail(f"step {step_i} get_random_cpds produced an inconsistent CPD for {c.variable}")
                    st["cpds"] = []
                    for c in bn.cpds:
                        sc = [pn.index(x) for x in c.variables]
                        vals = [rs(Fraction(float(x))) for x in np.asarray(c.values).reshape(-1)]
                        st["cpds"].append({"scope": sc, "card": [card[x] for x in sc], "vals": vals})
            impl_out = "ok"
        except Exception as e:  # noqa
            impl_out = "err"
            impl_exc = f"{type(e).__name__}: {e}"
        if mop is not None:
            r = drv.call("bn_step", state=st, bnop=mop)
            if k == "removeNode" and impl_out == "err" and r["out"] == "ok":
                # a child's CPD that does not mention the node (CPD added before the edge): the library refuses; the
                # property only demands that the refusal leaves the model unchanged
                v = op["v"]
                if any(f["scope"][0] != v and v not in f["scope"] and [v, f["scope"][0]] in [list(e) for e in st["edges"]]
                       for f in st["cpds"]):
                    if impl_snapshot(bn) != before[w]:
                        return fail(f"step {step_i} removeNode: rejected operation ({impl_exc}) changed the model")
                    n_err += 1
                    continue
            if r["out"] != impl_out:
                return fail(f"step {step_i} {k} {op}: impl {'accepted' if impl_out == 'ok' else 'rejected (' + impl_exc + ')'}, model {r['out']}")
            if impl_out == "err":
                n_err += 1
                if impl_snapshot(bn) != before[w]:
                    return fail(f"step {step_i} {k}: rejected operation ({impl_exc}) changed the model")
            else:
                n_ok += 1
            worlds[w] = (bn, r["state"])
            st = r["state"]
        err = compare_world(bn, st, names, card, labels)
        if err:
            return fail(f"step {step_i} after {k} {({kk: vv for kk, vv in op.items() if kk != 'table'})}: {err}")
        # the other worlds (copies / originals) must not have moved
        for j, (b2, _) in enumerate(worlds[:len(before)]):
            if j != w and impl_snapshot(b2) != before[j]:
                return fail(f"step {step_i} {k} on model {w} changed model {j} (shared state between a copy and its original)")
    return ok(nontrivial=n_ok > 0 and (n_err > 0 or n_copy > 0), length=len(case["ops"]) // 5 * 5, copies=n_copy,
              rejected=min(n_err, 5))


# ----------------------------------------------------------------------------- DAG constructor
def gen_dagctor(rng, tier):
    n = rng.randint(2, 6)
    edges = [[rng.randrange(n), rng.randrange(n)] for _ in range(rng.randint(1, 8))]
    edges = [e for e in edges if e[0] != e[1]]
    return {"n": n, "edges": edges}


def run_dagctor(case, drv):
    from pgmpy.base import DAG
    from pgmpy.models import BayesianNetwork
    import networkx as nx
    acyc = gen.is_acyclic(case["n"], [tuple(e) for e in case["edges"]])
    for cls in (DAG, BayesianNetwork):
        try:
            g = cls([tuple(e) for e in case["edges"]])
            built = True
        except Exception:
            built = False
        if built and not nx.is_directed_acyclic_graph(g):
            return fail(f"{cls.__name__}(ebunch) accepted a cyclic edge list")
        if not built and acyc and cls is DAG:
            return fail(f"{cls.__name__}(ebunch) rejected an acyclic edge list")
    return ok(nontrivial=not acyc, acyclic=acyc)


# ----------------------------------------------------------------------------- DBN / JunctionTree / MarkovNetwork
def gen_other(rng, tier):
    kind = rng.choice(["dbn", "jt", "jt", "mn"])
    ops = []
    import itertools
    allc = [list(c) for k in (2, 3) for c in itertools.combinations("ABCDE", k)]
    pool = rng.sample(allc, rng.randint(3, 7))          # a small pool of overlapping cliques: edges among them soon close cycles
    if kind == "jt" and rng.random() < .5:
        ops.append(["nodes", pool])                      # add_nodes_from first: the tree stays a forest with several components
    for _ in range(rng.randint(5, 20)):
        if kind == "dbn":
            a, b = rng.choice("ABCD"), rng.choice("ABCD")
            ta = rng.choice([0, 0, 1, 2, 3])                 # an edge may be spelled in any slice: ((A, 2), (B, 2)) means the intra edge A -> B
            tb = rng.choice([ta, ta, ta, ta + 1, ta - 1, ta + 2])
            ops.append(rng.choice([["edge", [a, ta], [b, tb]], ["edge", [a, ta], [b, tb]], ["node", a], ["copy"], ["cpds_batch", a]]))
        elif kind == "jt":
            cl = [sorted(rng.sample("ABCDE", rng.randint(1, 3))) for _ in range(2)]
            if rng.random() < .75:
                cl = [sorted(c) for c in rng.sample(pool, 2)]
            if rng.random() < .2:
                # a weighted batch: add_edges_from(ebunch, weights=...) is add_edge for every pair, with every guard of add_edge
                batch = [[sorted(c) for c in rng.sample(pool, 2)] for _ in range(rng.randint(1, 3))]
                if rng.random() < .3:
                    batch.append([batch[0][0], batch[0][0]])
                ops.append(["edges_w", batch])
                continue
            ops.append(rng.choice([["edge", cl[0], cl[1]], ["edge", cl[0], cl[1]], ["edge", cl[0], cl[0]], ["node", cl[0]], ["copy"]]))
        else:
            a, b = rng.choice("ABCD"), rng.choice("ABCD")
            if rng.random() < .15:
                batch = [[rng.choice("ABCD"), rng.choice("ABCD")] for _ in range(rng.randint(1, 3))]
                ops.append(["edges_w", batch])
                continue
            ops.append(rng.choice([["edge", a, b], ["edge", a, b], ["node", a], ["factor", sorted({a, b})], ["copy"], ["poke"]]))
    return {"kind": kind, "ops": ops}


def run_other(case, drv):
    import networkx as nx
    from pgmpy.models import DynamicBayesianNetwork, JunctionTree, MarkovNetwork
    from pgmpy.factors.discrete import DiscreteFactor
    kind = case["kind"]
    m = {"dbn": DynamicBayesianNetwork, "jt": JunctionTree, "mn": MarkovNetwork}[kind]()
    copies = []

    def snap(g):
        fl = getattr(g, "factors", getattr(g, "cpds", []))
        return (set(map(str, g.nodes())), set(frozenset(map(str, e)) if kind != "dbn" else (str(e[0]), str(e[1])) for e in g.edges()),
                len(fl), sorted((tuple(map(str, f.scope())), tuple(float(x) for x in f.values.reshape(-1))) for f in fl))
    rejected = 0
    for i, op in enumerate(case["ops"]):
        before = snap(m)
        cb = [snap(c) for c in copies]
        try:
            if op[0] == "edge":
                if kind == "jt":
                    m.add_edge(tuple(op[1]), tuple(op[2]))
                elif kind == "dbn":
                    m.add_edge(tuple(op[1]), tuple(op[2]))
                else:
                    m.add_edge(op[1], op[2])
            elif op[0] == "edges_w":
                eb = [(tuple(a), tuple(b)) if kind == "jt" else (a, b) for a, b in op[1]]
                m.add_edges_from(eb, weights=[1.0 + j for j in range(len(eb))])
            elif op[0] == "cpds_batch":
                # one add_cpds call with a valid CPD followed by one for a variable that is not in the network: the call is rejected
                # as a whole (nothing is stored)
                from pgmpy.factors.discrete import TabularCPD
                node = (op[1], 0)
                if node in m.nodes():
                    ps = list(m.predecessors(node))
                    good = TabularCPD(node, 2, [[0.5] * (2 ** len(ps))] * 2, evidence=ps or None, evidence_card=[2] * len(ps) or None)
                    bad = TabularCPD(("Q_missing", 0), 2, [[0.5], [0.5]])
                    m.add_cpds(good, bad)
            elif op[0] == "nodes":
                m.add_nodes_from([tuple(sorted(c)) for c in op[1]])
            elif op[0] == "node":
                m.add_node(tuple(op[1]) if kind == "jt" else op[1])
            elif op[0] == "factor":
                m.add_factors(DiscreteFactor(op[1], [2] * len(op[1]), [1.0] * (2 ** len(op[1]))))
            elif op[0] == "poke":
                # an in-place edit of a factor of the ORIGINAL (values are public numpy arrays): earlier copies must not see it
                if getattr(m, "factors", None):
                    m.factors[0].values[...] = m.factors[0].values + 1.0
            elif op[0] == "copy":
                c = m.copy()
                if snap(c)[:2] != snap(m)[:2]:
                    return fail(f"{kind} step {i}: copy() differs from the original: {snap(c)[:2]} vs {snap(m)[:2]}")
                copies.append(c)
            res = "ok"
        except Exception as e:  # noqa
            res = "err"
            # (a batch is a sequence of single operations: the pairs before the offending one stay)
            if op[0] != "edges_w" and snap(m) != before:
                return fail(f"{kind} step {i} {op}: rejected operation ({type(e).__name__}: {e}) changed the model")
            rejected += 1
        if kind == "dbn" and not nx.is_directed_acyclic_graph(m):
            return fail(f"DynamicBayesianNetwork contains a directed cycle after {op}")
        if kind == "jt":
            if any(u == v for u, v in m.edges()) or (m.number_of_nodes() and not nx.is_forest(m)):
                return fail(f"JunctionTree contains a cycle after {op}")
        if kind == "mn" and op[0] == "edge" and res == "ok" and op[1] == op[2]:
            return fail("MarkovNetwork accepted a self loop")
        if kind == "mn" and any(u == v for u, v in m.edges()):
            return fail(f"MarkovNetwork contains a self loop after {op}")
        if kind == "jt" and any(not (set(u) & set(v)) for u, v in m.edges()):
            return fail(f"JunctionTree contains an edge between disjoint cliques after {op}")
        for c, b in zip(copies, cb):
            if snap(c) != b:
                return fail(f"{kind} step {i} {op}: editing the original changed an earlier copy")
    return ok(nontrivial=rejected > 0 or bool(copies), kind=kind)


STREAMS = [
    Stream("bn_history", gen_bn_history, run_bn_history, quick=500, thorough=5000),
    Stream("dag_ctor", gen_dagctor, run_dagctor, quick=200, thorough=2000),
    Stream("other_history", gen_other, run_other, quick=400, thorough=4000),
]
