"""C01 — exact posterior queries equal the conditional of the CPD-product joint."""
from __future__ import annotations

from fractions import Fraction

from harness import core, gen
from harness.core import ok, fail, skip, rs
from harness.worker import Stream
from harness.props.c04 import compare_factor

OBLIGATIONS = [
    "PgmVerif.C01_ve_any_order", "PgmVerif.C01_order_irrelevant", "PgmVerif.C01_elim_step",
    "PgmVerif.C01_sum_swap", "PgmVerif.C01_virtual_evidence", "PgmVerif.C01_barren_leaf",
    "PgmVerif.C01_likelihood_scale",
]
PARTIAL = ["removal of d-separated nodes before elimination (needs the global Markov property) is decided by correspondence: "
           "implementation with pruning vs specification without",
           "opt_einsum's greedy contraction path is trusted to be a contraction schedule; its result is compared"]
RULE = ("random BNs of 1-6 nodes from shape classes (isolated, chain, collider, diamond, family, disconnected, G(n,p), tree), cards 1-3, "
        "label kinds int/str/permuted, CPD columns generic/zeros/deterministic/duplicated; disjoint (Q,E) with P(e)>0 checked exactly; "
        "all elimination_order options x joint; non-trivial = network has an edge and (evidence or >1 node eliminated); distinct = case JSON"
        " Also: 9-10 variable networks, rare evidence (0 < P(e) << 1e-8), empty evidence dicts, evidence dict checked unchanged, per-case insertion order of nodes / edges / CPDs.")
ASSUMPTIONS = ["P(evidence) > 0 is established exactly by the Lean model before a case counts"]
BUDGET_QUICK = 75

LEVEL_TEXT = ("Kernel-checked theorem C01_ve_any_order: for every list of well-formed factors, every evidence and EVERY elimination order "
              "(any duplicate-free list of variables), the model of the classic elimination loop returns factors whose product is the "
              "evidence-reduced joint summed over the eliminated variables; order-independence, virtual evidence as an extra likelihood "
              "factor and barren-leaf removal are corollaries. The implementation (all order options incl. greedy/einsum, joint and "
              "per-variable modes, pruning, hard and virtual evidence by label) is tied to the brute-force posterior of the model by "
              "differential correspondence under 6 hash seeds. d-separation pruning is decided by correspondence only (partial).")
LEVEL_NOTE = ("Trusted: Lean kernel + standard axioms; hand-written model of _variable_elimination; harness; opt_einsum/numpy internals "
              "compared not verified; float tolerance 1e-9.")
TECHNIQUE = "Lean 4 proof (sum-product elimination = brute-force posterior, any order) + differential correspondence with VariableElimination"

ORDERS = ["greedy", "MinFill", "MinNeighbors", "MinWeight", "WeightedMinFill", None, "explicit", "explicit"]


def gen_query(rng, tier, virtual=False):
    if rng.random() < .06:
        # 9-10 binary variables: scopes and elimination cliques with more than 8 positions
        case = gen.rand_bn(rng, nmin=9, nmax=10, maxcard=2, name_kind="str" if virtual else rng.choice(["str", "word", "int", "int0"]))
    else:
        case = gen.rand_bn(rng, nmin=1, nmax=6 if tier == "quick" else 7, maxcard=3,
                           name_kind="str" if virtual else rng.choice(["str", "word", "int", "int0"]))
    n = len(case["nodes"])
    nq = rng.randint(1, min(3, n))
    q = rng.sample(range(n), nq)
    rest = [v for v in range(n) if v not in q]
    ne = rng.choice([0, 1, 1, 2, 2, 3])
    ev = rng.sample(rest, min(ne, len(rest)))
    case["q"] = q
    case["ev"] = [[v, rng.randrange(case["card"][v])] for v in ev]
    case["order"] = rng.choice(ORDERS)
    if case["order"] == "explicit":
        elim = [v for v in range(n) if v not in q and v not in ev]
        rng.shuffle(elim)
        case["explicit"] = elim
    case["joint"] = rng.random() < .6
    hidden = [v for v in range(n) if v not in q and v not in ev]
    if hidden and rng.random() < .25:
        case["latents"] = rng.sample(hidden, rng.randint(1, min(2, len(hidden))))     # declared latent, never queried / observed
    case["virt"] = []
    case["warm"] = rng.random() < .4
    if len(case["ev"]) >= 2 and rng.random() < .3:
        # rare evidence: every observed state has probability ~1e-5 in every column of its CPD, so 0 < P(evidence) << 1e-8
        for v, st_ in case["ev"]:
            cpd = next(c for c in case["cpds"] if c["child"] == v)
            k = len(cpd["table"])
            if k < 2:
                continue
            for j in range(len(cpd["table"][0])):
                p = Fraction(rng.randint(1, 9), 10 ** 5)
                rest = sum(Fraction(cpd["table"][i][j]) for i in range(k) if i != st_)
                for i in range(k):
                    if i == st_:
                        cpd["table"][i][j] = rs(p)
                    else:
                        cpd["table"][i][j] = rs((1 - p) * (Fraction(cpd["table"][i][j]) / rest if rest else Fraction(1, k - 1)))
        case["rare"] = True
    if virtual:
        cand = [v for v in range(n) if v not in ev]
        for v in rng.sample(cand, rng.randint(1, min(2, len(cand)))):
            case["virt"].append([v, [rs(Fraction(rng.randint(0, 10), 10)) for _ in range(case["card"][v])]])
    return case


def gen_dup(rng, tier):
    """plant numerically equal evidence-reduced factors: Y with parents S, X with parents S+[Y],
    P(X=x0 | S, Y=y0) = P(Y=y0 | S); evidence X=x0, Y=y0 (collapses value-keyed containers)"""
    case = gen.rand_bn(rng, nmin=2, nmax=5, maxcard=3, name_kind=rng.choice(["str", "word", "int", "int0"]), mincard=2, dup=False)
    n = len(case["nodes"])
    cp = {c["child"]: c for c in case["cpds"]}
    ys = [v for v in range(n) if 1 <= len(cp[v]["parents"]) <= 2]
    if not ys:
        return None
    y = rng.choice(ys)
    S = list(cp[y]["parents"])
    y0 = rng.randrange(case["card"][y])
    kx = rng.choice([2, 3])
    x0 = rng.randrange(kx)
    x = n
    case["nodes"].append("X_dup" if isinstance(case["nodes"][0], str) else 99)
    case["card"].append(kx)
    case["labels"].append(gen.state_labels(rng, kx, rng.choice(["int", "str"])))
    pars = S + [y]                       # y is the last (fastest) parent axis
    ncols_S = len(cp[y]["table"][0])
    ky = case["card"][y]
    cols = []
    for j in range(ncols_S):
        for yy in range(ky):
            if yy == y0:
                p0 = Fraction(cp[y]["table"][y0][j])
                rest = gen.rand_dist(rng, kx - 1)
                col = [None] * kx
                col[x0] = p0
                it = iter(rest)
                for i in range(kx):
                    if i != x0:
                        col[i] = (1 - p0) * next(it)
            else:
                col = gen.rand_dist(rng, kx)
            cols.append(col)
    table = [[rs(cols[j][i]) for j in range(len(cols))] for i in range(kx)]
    case["cpds"].append({"child": x, "parents": pars, "table": table})
    case["edges"] = sorted([p, c["child"]] for c in case["cpds"] for p in c["parents"])
    others = [v for v in range(n) if v not in (y,)]
    q = rng.sample(others, rng.randint(1, min(2, len(others))))
    case["q"] = q
    case["ev"] = [[x, x0], [y, y0]] if rng.random() < .5 else [[y, y0], [x, x0]]
    case["order"] = rng.choice(ORDERS)
    if case["order"] == "explicit":
        elim = [v for v in range(n + 1) if v not in q and v not in (x, y)]
        rng.shuffle(elim)
        case["explicit"] = elim
    case["joint"] = rng.random() < .6
    case["virt"] = []
    case["shape"] = "dup_evidence"
    return case


def gen_virtual(rng, tier):
    return gen_query(rng, tier, virtual=True)


def model_posterior(case, drv, q=None, ev=None, extra=()):
    fs = gen.bn_model_factors(case) + list(extra)
    n = len(case["nodes"])
    return drv.call("bn_posterior", fs=fs, vars=list(range(n)), cards=case["card"],
                    q=case["q"] if q is None else q, ev=case["ev"] if ev is None else ev)


def run_query(case, drv):
    from pgmpy.inference import VariableElimination
    from pgmpy.factors.discrete import TabularCPD
    names, card, labels = case["nodes"], case["card"], case["labels"]
    pn = [gen.lab(x) for x in names]
    extra = [{"scope": [v], "card": [card[v]], "vals": L} for v, L in case["virt"]]
    m = model_posterior(case, drv, extra=extra)
    if Fraction(m["pe"]) == 0:
        return skip("P(evidence) = 0")
    bn = gen.bn_to_pgmpy(case)
    ve = VariableElimination(bn)
    order = case["order"]
    if order == "explicit":
        order = [pn[v] for v in case["explicit"]]
    kw = {}
    if case["virt"]:
        kw["virtual_evidence"] = [TabularCPD(pn[v], card[v], [[float(Fraction(x))] for x in L],
                                             state_names={pn[v]: [gen.lab(l) for l in labels[v]]}) for v, L in case["virt"]]
        if case.get("warm"):
            # the engine has already answered a query with ANOTHER likelihood on the same variables (and one without any)
            try:
                other = [TabularCPD(pn[v], card[v], [[float(Fraction(x))] for x in (L[1:] + L[:1])],
                                    state_names={pn[v]: [gen.lab(l) for l in labels[v]]}) for v, L in case["virt"]]
                ve.query([pn[v] for v in case["q"]], evidence=None, virtual_evidence=other, joint=True, show_progress=False)
                ve.query([pn[v] for v in case["q"]], evidence=None, show_progress=False)
            except Exception:
                pass
    evidence = {pn[v]: gen.lab(labels[v][i]) for v, i in case["ev"]}
    tags = dict(order=str(case["order"]), joint=case["joint"], shape=case["shape"], n=len(names), nev=len(case["ev"]),
                virt=len(case["virt"]), latents=len(case.get("latents", [])), rare=bool(case.get("rare")))
    ev_before = dict(evidence)
    if len(case["ev"]) >= 2 and not case["virt"] and (len(case["ev"]) + len(case["q"])) % 2:
        # the engine has answered the same question for OTHER evidence before: the same variables written in the opposite key order,
        # with the state indices of this query handed round by one position (an answer belongs to its variable -> state pairs)
        try:
            vs_ = [v for v, _ in case["ev"]]
            idx_ = [i for _, i in case["ev"]]
            rot = idx_[1:] + idx_[:1]
            other_ = {pn[v]: gen.lab(labels[v][i % card[v]]) for v, i in reversed(list(zip(vs_, rot)))}
            ve.query([pn[v] for v in case["q"]], evidence=other_, elimination_order=order, joint=case["joint"], show_progress=False)
        except Exception:
            pass
    try:
        # (an empty dict is a legal way of saying "no evidence" and is handed over as such half of the time)
        res = ve.query([pn[v] for v in case["q"]], evidence=evidence if (evidence or len(case["q"]) % 2) else None, elimination_order=order,
                       joint=case["joint"], show_progress=False, **kw)
    except Exception as e:
        return fail(f"query(order={case['order']}) raised {type(e).__name__}: {e}", **tags)
    if evidence != ev_before:
        return fail(f"query modified the caller's evidence dict: {ev_before} -> {evidence}", **tags)
    if case["joint"]:
        err = compare_factor(res, m["post"], names, card, labels)
        if err:
            return fail(f"query(joint=True, order={case['order']}): {err}", **tags)
    else:
        if set(res.keys()) != {pn[v] for v in case["q"]}:
            return fail(f"query(joint=False) keys {list(res.keys())}", **tags)
        for v in case["q"]:
            mv = drv.call("f_marginalize", f=m["post"], vars=[w for w in case["q"] if w != v])
            err = compare_factor(res[pn[v]], mv, names, card, labels)
            if err:
                return fail(f"query(joint=False, order={case['order']}) for {pn[v]}: {err}", **tags)
    nontrivial = bool(case["edges"]) and (len(case["ev"]) > 0 or len(names) - len(case["q"]) > 1)
    return ok(nontrivial=nontrivial, **tags)


# ----------------------------------------------------------------------------- every elimination order of one query
def gen_all_orders(rng, tier):
    """dense networks (a factor built while eliminating one variable is reused by several later eliminations), few query
    variables, and EVERY permutation of the variables to eliminate (at most 120) plus all heuristics"""
    n = rng.randint(4, 5 if tier == "quick" else 6)
    case = gen.rand_bn(rng, nmin=n, nmax=n, maxcard=3, name_kind=rng.choice(["str", "word", "int", "int0"]), shape="gnp_dense", mincard=2)
    q = rng.sample(range(n), rng.choice([1, 2, 3]))
    rest = [v for v in range(n) if v not in q]
    ev = rng.sample(rest, rng.choice([0, 0, 1]))
    case["q"] = q
    case["ev"] = [[v, rng.randrange(case["card"][v])] for v in ev]
    case["joint"] = rng.random() < .5
    case["virt"] = []
    return case


def run_all_orders(case, drv):
    import itertools
    from pgmpy.inference import VariableElimination
    names, card, labels = case["nodes"], case["card"], case["labels"]
    pn = [gen.lab(x) for x in names]
    n = len(names)
    m = model_posterior(case, drv)
    if Fraction(m["pe"]) == 0:
        return skip("P(evidence) = 0")
    bn = gen.bn_to_pgmpy(case)
    evv = [v for v, _ in case["ev"]]
    elim = [v for v in range(n) if v not in case["q"] and v not in evv]
    evidence = {pn[v]: gen.lab(labels[v][i]) for v, i in case["ev"]}
    orders = [list(p) for p in itertools.permutations(elim)][:120] + ["greedy", "MinFill", "MinNeighbors", "MinWeight", "WeightedMinFill", None]
    tags = dict(n=n, nelim=len(elim), joint=case["joint"], nev=len(evv))
    ve = VariableElimination(bn)            # one engine for all orders: queries must not leave state behind
    for o in orders:
        order = [pn[v] for v in o] if isinstance(o, list) else o
        try:
            res = ve.query([pn[v] for v in case["q"]], evidence=evidence or None, elimination_order=order, joint=case["joint"],
                           show_progress=False)
        except Exception as e:
            return fail(f"query(order={order}) raised {type(e).__name__}: {e}", **tags)
        if case["joint"]:
            err = compare_factor(res, m["post"], names, card, labels)
        else:
            err = None
            for v in case["q"]:
                mv = drv.call("f_marginalize", f=m["post"], vars=[w for w in case["q"] if w != v])
                err = err or compare_factor(res[pn[v]], mv, names, card, labels)
        if err:
            return fail(f"elimination order {order}: {err}", **tags)
    return ok(nontrivial=len(elim) >= 2, **tags)


# ----------------------------------------------------------------------------- helpers on BayesianNetwork
def gen_stateprob(rng, tier):
    case = gen.rand_bn(rng, nmin=1, nmax=5, maxcard=3, name_kind=rng.choice(["str", "word", "int", "int0"]))
    n = len(case["nodes"])
    sub = rng.sample(range(n), rng.randint(1, n))
    case["states"] = [[v, rng.randrange(case["card"][v])] for v in sub]
    return case


def run_stateprob(case, drv):
    names, card, labels = case["nodes"], case["card"], case["labels"]
    pn = [gen.lab(x) for x in names]
    bn = gen.bn_to_pgmpy(case)
    val = bn.get_state_probability({pn[v]: gen.lab(labels[v][i]) for v, i in case["states"]})
    n = len(names)
    m = drv.call("bn_posterior", fs=gen.bn_model_factors(case), vars=list(range(n)), cards=card, q=[], ev=case["states"])
    if not core.close(val, Fraction(m["pe"])):
        return fail(f"get_state_probability: impl {val} model {m['pe']}")
    return ok(nontrivial=bool(case["edges"]), n=n, nstates=len(case["states"]))


def gen_predprob(rng, tier):
    case = gen.rand_bn(rng, nmin=2, nmax=5, maxcard=3, name_kind="str", label_kind=rng.choice(["int", "str"]))
    n = len(case["nodes"])
    obs = rng.sample(range(n), rng.randint(1, n - 1))
    case["obs"] = obs
    case["rows"] = [[rng.randrange(case["card"][v]) for v in obs] for _ in range(rng.randint(1, 3))]
    return case


def run_predprob(case, drv):
    import pandas as pd
    names, card, labels = case["nodes"], case["card"], case["labels"]
    pn = [gen.lab(x) for x in names]
    n = len(names)
    obs = case["obs"]
    missing = [v for v in range(n) if v not in obs]
    posts = []
    for row in case["rows"]:
        ev = [[v, i] for v, i in zip(obs, row)]
        m = drv.call("bn_posterior", fs=gen.bn_model_factors(case), vars=list(range(n)), cards=card, q=missing, ev=ev)
        if Fraction(m["pe"]) == 0:
            return skip("P(evidence) = 0 for a row")
        posts.append(m["post"])
    bn = gen.bn_to_pgmpy(case)
    df = pd.DataFrame([[gen.lab(labels[v][i]) for v, i in zip(obs, row)] for row in case["rows"]], columns=[pn[v] for v in obs])
    out = bn.predict_probability(df)
    for r, post in enumerate(posts):
        for v in missing:
            mv = drv.call("f_marginalize", f=post, vars=[w for w in missing if w != v])
            for i in range(card[v]):
                col = f"{pn[v]}_{gen.lab(labels[v][i])}"
                if col not in out.columns:
                    return fail(f"predict_probability: column {col} missing")
                if not core.close(out.iloc[r][col], Fraction(mv["vals"][i])):
                    return fail(f"predict_probability row {r} {col}: impl {out.iloc[r][col]} model {mv['vals'][i]}")
    return ok(n=n, nmissing=len(missing))


STREAMS = [
    Stream("query", gen_query, run_query, quick=1500, thorough=25000),
    Stream("all_orders", gen_all_orders, run_all_orders, quick=250, thorough=2500),
    Stream("virtual", gen_virtual, run_query, quick=500, thorough=6000),
    Stream("dup_evidence", gen_dup, run_query, quick=600, thorough=6000),
    Stream("state_probability", gen_stateprob, run_stateprob, quick=300, thorough=3000),
    Stream("predict_probability", gen_predprob, run_predprob, quick=150, thorough=1500),
]
