"""C13 — interventions follow the truncated factorisation."""
from __future__ import annotations

import itertools
from fractions import Fraction

from harness import core, gen
from harness.core import ok, fail, skip, rs
from harness.worker import Stream
from harness.props.c04 import compare_factor
from harness.props.c15 import compare_world

OBLIGATIONS = [
    "PgmVerif.C13_do_surgery", "PgmVerif.C13_do_acyclic", "PgmVerif.C13_parents_adjustment",
    "PgmVerif.C13_parent_adjustment_exact", "PgmVerif.C13_do_compose_graph", "PgmVerif.C13_do_cpd_parentless",
]
PARTIAL = ["adjustment over any set Z that contains the parents of X and no descendant is proved equal to the truncated factorisation "
           "(C13_parent_adjustment_exact); for arbitrary sets satisfying the back-door criterion the equality needs the global Markov property: decided by the "
           "correspondence (every enumerated valid set, both back-ends) against the exact truncated factorisation",
           "engine validity tests <=> path criteria: decided exhaustively on all DAGs up to 4 nodes (5 in thorough) against the path-enumeration spec"]
RULE = ("random BNs of 2-5 nodes with optional latents; do-sets single and multiple incl. parent-child pairs; query sets disjoint from the "
        "do-set and its parents; back-ends ve / bp (bp on connected networks); criteria: every DAG on <=4 nodes x every (X,Y) x every Z among "
        "the non-descendants of X; non-trivial = X has a parent or the do-set has 2 nodes; distinct = case JSON"
        " Also: declared latents in queries; do() arguments as tuple / set / generator / iterator.")
ASSUMPTIONS = ["P(do-state, adjustment state) > 0 for every adjustment state (verified exactly by the model before a case counts)"]
BUDGET_QUICK = 100
LEVEL_TEXT = ("Kernel-checked: do() on the model removes exactly the incoming edges of the intervened nodes, keeps the node set and "
              "acyclicity, and leaves every other CPD untouched; for EVERY network (any shape, cardinalities, outcome set Y) and a single "
              "intervened variable X, the adjustment formula sum_z P(y | x, z) P(z) over a set Z that covers pa(X) equals the marginal of the "
              "truncated factorisation (product of all CPDs but X's), given P(x | z) != 0 and P(z) != 0 (C13_parent_adjustment_exact, "
              "built on the descendants-sum-to-one lemma). The implementation is tied by: do() compared "
              "with the model state machine; every CausalInference.query (default set, every enumerated valid back-door set, ve and bp, "
              "single and multiple do incl. parent-child pairs) compared with the exact truncated factorisation; all enumerated back-door / "
              "front-door / minimal sets and the validity tests compared with the path criteria exhaustively on DAGs <= 4 nodes.")
LEVEL_NOTE = "Trusted: Lean kernel + standard axioms; model; harness."
TECHNIQUE = "Lean 4 proof (do-surgery invariants, parent adjustment = truncated factorisation) + exhaustive differential check of criteria and queries"

NAMES = ["A", "B", "C", "D", "E"]


# ----------------------------------------------------------------------------- do()
def gen_do(rng, tier):
    case = gen.rand_bn(rng, nmin=2, nmax=5, maxcard=3, name_kind=rng.choice(["str", "word", "int", "int0"]), mincard=2)
    n = len(case["nodes"])
    case["do"] = rng.sample(range(n), rng.randint(1, min(2, n)))
    case["inplace"] = rng.random() < .4
    return case


def run_do(case, drv):
    names, card, labels = case["nodes"], case["card"], case["labels"]
    pn = [gen.lab(x) for x in names]
    n = len(names)
    bn = gen.bn_to_pgmpy(case)
    st = {"nodes": list(range(n)), "edges": case["edges"], "latents": [], "cpds": gen.bn_model_factors(case)}
    r = drv.call("bn_step", state=st, bnop={"k": "do", "vs": case["do"]})
    from harness.props.c16 import model_snapshot
    s0 = model_snapshot(bn)
    try:
        dl = [pn[v] for v in case["do"]]
        # the intervened nodes as list / tuple / set / generator / one-shot iterator / a single name
        forms = [dl, tuple(dl), set(dl), (x for x in dl), iter(dl)] + ([dl[0]] if len(dl) == 1 and isinstance(dl[0], str) else [])
        res = bn.do(forms[(len(case["edges"]) + len(dl)) % len(forms)], inplace=case["inplace"])
    except Exception as e:
        return fail(f"do raised {type(e).__name__}: {e}")
    if res is None:
        res = bn
    if not case["inplace"] and model_snapshot(bn) != s0:
        return fail("do(inplace=False) modified the original network")
    err = compare_world(res, r["state"], names, card, labels)
    if err:
        return fail(f"do({[pn[v] for v in case['do']]}): {err}")
    try:
        res.check_model()
    except Exception as e:
        return fail(f"network after do() does not validate: {e}")
    return ok(nontrivial=any(u in case["do"] or v in case["do"] for u, v in case["edges"]), ndo=len(case["do"]))


# ----------------------------------------------------------------------------- queries
def bn_with_edges(rng, base, edges):
    """a positive binary network on the node set of `base` with exactly the given edges"""
    n = len(base["nodes"])
    cpds = []
    for v in range(n):
        ps = [u for u, w in edges if w == v]
        rng.shuffle(ps)
        cols = [gen.rand_dist(rng, 2, "generic") for _ in range(2 ** len(ps))]
        cpds.append({"child": v, "parents": ps, "table": [[rs(cols[j][i]) for j in range(len(cols))] for i in range(2)]})
    out = dict(base)
    out.update(edges=[list(e) for e in sorted(edges)], cpds=cpds, card=[2] * n, shape="butterfly",
               labels=[gen.state_labels(rng, 2, "str") for _ in range(n)])
    return out


def gen_query(rng, tier):
    for _ in range(30):
        case = gen.rand_bn(rng, nmin=2, nmax=5, maxcard=3, name_kind=rng.choice(["str", "str", "int0"]), mincard=2, label_kind=rng.choice(["int", "str", "permint"]),
                           positive=rng.random() < .8)
        r_ = rng.random()
        if r_ < .15:
            # butterfly Z1 -> Z2 <- W -> Y, Z1 -> X, Z2 -> X, X -> Y (relabelled): the parents of X interact through a collider
            perm = list(range(5))
            rng.shuffle(perm)
            z1, z2, w, x_, y_ = perm
            base = gen.rand_bn(rng, nmin=5, nmax=5, maxcard=2, name_kind="str", mincard=2, positive=True, shape="isolated")
            bf = [(z1, z2), (w, z2), (w, y_), (z1, x_), (z2, x_), (x_, y_)]
            case = bn_with_edges(rng, base, bf)
            case["X"] = [[x_, rng.randrange(2)]]
            case["Y"] = [y_]
            case["algo"] = rng.choice(["ve", "ve", "bp"])
            case["kind"] = "butterfly"
            case["use_sets"] = False
            case["warm"] = False
            return case
        if r_ < .35:
            case = gen.rand_bn(rng, nmin=5, nmax=6, maxcard=2, name_kind="str", mincard=2, positive=True, shape="gnp_dense", max_parents=3)
        n = len(case["nodes"])
        kind = rng.choice(["single", "single", "multi", "parent_child"])
        if kind == "single":
            X = [rng.randrange(n)]
        elif kind == "multi":
            X = rng.sample(range(n), min(2, n))
        else:
            if not case["edges"]:
                continue
            u, v = rng.choice(case["edges"])
            X = [u, v]
        par = {p for p, c in case["edges"] if c in X}
        cand = [v for v in range(n) if v not in X and v not in par]
        if not cand:
            continue
        Y = rng.sample(cand, rng.randint(1, min(2, len(cand))))
        case["X"] = [[x, rng.randrange(case["card"][x])] for x in X]
        case["Y"] = Y
        case["algo"] = rng.choice(["ve", "ve", "bp"])
        case["kind"] = kind
        case["use_sets"] = rng.random() < .4 and kind == "single"
        case["warm"] = rng.random() < .3
        # declared latent variables that are neither intervened on, nor queried, nor parents of X: they change nothing about the answer
        # (the default adjustment over the parents of X stays observable)
        hidden = [v for v in range(n) if v not in X and v not in Y and v not in par]
        if hidden and not case["use_sets"] and rng.random() < .35:
            case["latents"] = rng.sample(hidden, rng.randint(1, min(2, len(hidden))))
        return case
    return None


def parent_adjustment(joint, xs, zs, ys, card):
    """sum_z P(y | x, z) P(z) over the model joint, as a model-style factor over `ys` (exact rationals)"""
    xd = dict((x, s) for x, s in xs)
    ys = list(ys)
    out = []
    ycard = [card[y] for y in ys]
    table = {}
    for asg in core.all_assignments(joint["scope"], joint["card"]):
        table[tuple(asg[v] for v in joint["scope"])] = core.model_value(joint, asg)
    pos = {v: i for i, v in enumerate(joint["scope"])}

    def mass(fixed):
        return sum(val for key, val in table.items() if all(key[pos[v]] == s for v, s in fixed.items()))
    for yasg in core.all_assignments(ys, ycard):
        tot = Fraction(0)
        for zasg in core.all_assignments(zs, [card[z] for z in zs]):
            pxz = mass({**xd, **zasg})
            if pxz == 0:
                continue
            tot += mass({**xd, **zasg, **yasg}) / pxz * mass(zasg)
        out.append(tot)
    z = sum(out)
    return {"scope": ys, "card": ycard, "vals": [str(v / z) if z else "0" for v in out]}


def run_query(case, drv):
    from pgmpy.inference import CausalInference
    from harness.props.c03 import connected
    names, card, labels = case["nodes"], case["card"], case["labels"]
    pn = [gen.lab(x) for x in names]
    n = len(names)
    X = [x for x, _ in case["X"]]
    fs = gen.bn_model_factors(case)
    # truncated factorisation: drop the CPDs of the intervened variables, fix them to their values
    fs_trunc = [f for f in fs if f["scope"][0] not in X]
    m = drv.call("bn_posterior", fs=fs_trunc, vars=list(range(n)), cards=card, q=case["Y"], ev=case["X"])
    if Fraction(m["pe"]) == 0:
        return skip("truncated factorisation has zero mass")
    # positivity: the adjustment formula needs P(x, z) > 0 for all adjustment states
    pz = [f["scope"][0] for f in fs if f["scope"][0] in {p for p, c in case["edges"] if c in X} - set(X)]
    joint = drv.call("bn_joint", fs=fs, vars=list(range(n)), cards=card)
    keep = sorted(set(X) | set(pz))
    mz = drv.call("f_marginalize", f=joint, vars=[v for v in range(n) if v not in keep])
    for asg in core.all_assignments(mz["scope"], mz["card"]):
        if all(asg[x] == s for x, s in case["X"]) and core.model_value(mz, asg) == 0:
            return skip("positivity fails: some (do-state, parent-state) has probability 0")
    if case["algo"] == "bp" and not connected(n, case["edges"]):
        return skip("bp back-end needs a connected network")
    bn = gen.bn_to_pgmpy(case)
    ci = CausalInference(bn)
    do = {pn[x]: gen.lab(labels[x][s]) for x, s in case["X"]}
    tags = dict(kind=case["kind"], algo=case["algo"], nX=len(X), warm=bool(case.get("warm")))
    sets = [None]
    if case["use_sets"] and len(case["Y"]) == 1:
        try:
            got = ci.get_all_backdoor_adjustment_sets(pn[X[0]], pn[case["Y"][0]])
            sets = [set(s) for s in got] if got else [set()]
        except ValueError:
            sets = [None]
    if case.get("warm"):
        # the same engine has already answered a query with the same variables and OTHER intervention states: no answer may be reused
        try:
            other = {pn[x]: gen.lab(labels[x][(s + 1) % card[x]]) for x, s in case["X"]}
            ci.query([pn[v] for v in case["Y"]], do=other, inference_algo=case["algo"], show_progress=False)
        except Exception:
            pass
    for adj in sets:
        if adj is not None:
            # positivity for this set
            keep = sorted(set(X) | {pn.index(z) for z in adj})
            mz = drv.call("f_marginalize", f=joint, vars=[v for v in range(n) if v not in keep])
            if any(core.model_value(mz, a) == 0 for a in core.all_assignments(mz["scope"], mz["card"]) if all(a[x] == s for x, s in case["X"])):
                continue
        try:
            res = ci.query([pn[v] for v in case["Y"]], do=do, adjustment_set=adj, inference_algo=case["algo"], show_progress=False)
        except Exception as e:
            return fail(f"query(do={do}, adjustment_set={adj}, {case['algo']}) raised {type(e).__name__}: {e}", **tags)
        err = compare_factor(res, m["post"], names, card, labels)
        if err:
            msg = (f"P({[pn[v] for v in case['Y']]} | do({do})) with adjustment_set={adj} ({case['algo']}): {err} "
                   f"[edges {[(pn[u], pn[v]) for u, v in case['edges']]}]")
            # does the answer equal the parents-as-adjustment-set formula  sum_z P(y | x, z) P(z)  (z = parents of the do-variables)?
            pa = None
            if adj is None:
                try:
                    pa = compare_factor(res, parent_adjustment(joint, case["X"], sorted(set(pz)), case["Y"], card), names, card, labels) is None
                except Exception:
                    pa = None
            return fail({"msg": msg, "adjustment_set": None if adj is None else sorted(adj), "equals_parent_adjustment": pa}, **tags)
    par = any(c in X for _, c in case["edges"])
    return ok(nontrivial=par or len(X) > 1, **tags)


# ----------------------------------------------------------------------------- criteria
_D = {}


def enum_criteria(tier):
    for n in (2, 3, 4, 5):
        if n not in _D:
            _D[n] = gen.all_dags(n)
        for k, edges in enumerate(_D[n]):
            if n == 5 and k % (6 if tier == "thorough" else 97):
                continue
            yield {"n": n, "edges": [list(e) for e in edges]}
            # the same graph with one (for 4+ nodes sometimes two) variables declared latent: enumerated sets must avoid them, and
            # paths THROUGH them still count for the criteria
            if n >= 3 and edges and (n < 5 or tier == "thorough"):
                for l in range(n):
                    if n <= 3 or (k + l) % 2 == 0:
                        yield {"n": n, "edges": [list(e) for e in edges], "latents": [l]}
                if n >= 4 and k % 5 == 0:
                    yield {"n": n, "edges": [list(e) for e in edges], "latents": [k % n, (k // n + 1 + k % n) % n]}


def run_criteria(case, drv):
    from pgmpy.models import BayesianNetwork
    from pgmpy.inference import CausalInference
    n, edges = case["n"], case["edges"]
    names = NAMES[:n]
    lat = sorted(set(case.get("latents", [])))
    bn = BayesianNetwork(latents={names[l] for l in lat})
    bn.add_nodes_from(names)
    bn.add_edges_from([(names[u], names[v]) for u, v in edges])
    ci = CausalInference(bn)
    mg = {"nodes": list(range(n)), "edges": edges}
    nchecks = 0
    for x in range(n):
        if x in lat:
            continue
        desc = set(drv.call("g_descendants", g=mg, zs=[x]))
        for y in range(n):
            if y == x or y in lat:
                continue
            cand = [z for z in range(n) if z not in desc and z not in (x, y) and z not in lat]
            for r in range(len(cand) + 1):
                for Z in itertools.combinations(cand, r):
                    crit = drv.call("causal_criteria", g=mg, x=x, y=y, zs=list(Z))
                    got = bool(ci.is_valid_backdoor_adjustment_set(names[x], names[y], [names[z] for z in Z]))
                    nchecks += 1
                    if not lat:
                        # for candidate sets of non-descendants of the treatment the complete adjustment criterion (proper back-door
                        # graph) coincides with the back-door criterion
                        try:
                            got2 = bool(ci.is_valid_adjustment_set([names[x]], [names[y]], [names[z] for z in Z]))
                        except Exception as e:
                            return fail(f"is_valid_adjustment_set raised {type(e).__name__}: {e}")
                        if got2 != crit["backdoor"]:
                            return fail(f"is_valid_adjustment_set([{names[x]}],[{names[y]}],{[names[z] for z in Z]}) = {got2}; "
                                        f"back-door criterion on paths: {crit['backdoor']} (edges {edges})")
                    if got != crit["backdoor"]:
                        return fail(f"is_valid_backdoor_adjustment_set({names[x]},{names[y]},{[names[z] for z in Z]}) = {got}; "
                                    f"back-door criterion on paths: {crit['backdoor']} (edges {edges})")
            # enumerated sets
            try:
                sets = ci.get_all_backdoor_adjustment_sets(names[x], names[y])
            except ValueError:
                sets = None
            if sets is not None:
                for s in (sets if sets else [frozenset()]):
                    zs = [names.index(z) for z in s]
                    if set(zs) & set(lat):
                        return fail(f"get_all_backdoor_adjustment_sets({names[x]},{names[y]}) lists {set(s)}, which contains a latent variable (latents {[names[l] for l in lat]})")
                    if not drv.call("causal_criteria", g=mg, x=x, y=y, zs=zs)["backdoor"]:
                        return fail(f"get_all_backdoor_adjustment_sets({names[x]},{names[y]}) lists {set(s)}, which violates the back-door criterion (edges {edges})")
            else:
                # no valid set claimed: then none among the non-descendants exists
                for r in range(len(cand) + 1):
                    for Z in itertools.combinations(cand, r):
                        if drv.call("causal_criteria", g=mg, x=x, y=y, zs=list(Z))["backdoor"]:
                            return fail(f"get_all_backdoor_adjustment_sets({names[x]},{names[y]}) found none, but {[names[z] for z in Z]} satisfies the criterion")
            for s in ci.get_all_frontdoor_adjustment_sets(names[x], names[y]):
                zs = [names.index(z) for z in s]
                if set(zs) & set(lat):
                    return fail(f"get_all_frontdoor_adjustment_sets({names[x]},{names[y]}) lists {set(s)}, which contains a latent variable")
                if not drv.call("causal_criteria", g=mg, x=x, y=y, zs=zs)["frontdoor"]:
                    return fail(f"get_all_frontdoor_adjustment_sets({names[x]},{names[y]}) lists {set(s)}, which violates the front-door criterion "
                                f"(edges {edges}, latents {[names[l] for l in lat]})")
            # the validity test itself, on every observed candidate set that avoids x and y
            obs_all = [z for z in range(n) if z not in (x, y) and z not in lat]
            for r in range(len(obs_all) + 1):
                for Z in itertools.combinations(obs_all, r):
                    want = drv.call("causal_criteria", g=mg, x=x, y=y, zs=list(Z))["frontdoor"]
                    try:
                        got = bool(ci.is_valid_frontdoor_adjustment_set(names[x], names[y], [names[z] for z in Z]))
                    except Exception as e:
                        return fail(f"is_valid_frontdoor_adjustment_set raised {type(e).__name__}: {e}")
                    if got and not want:
                        return fail(f"is_valid_frontdoor_adjustment_set({names[x]},{names[y]},{[names[z] for z in Z]}) = True, but the front-door "
                                    f"criterion fails on paths (edges {edges}, latents {[names[l] for l in lat]})")
            if [x, y] not in edges and [y, x] not in edges:
                try:
                    ms = ci.get_minimal_adjustment_set(names[x], names[y])
                except Exception as e:
                    return fail(f"get_minimal_adjustment_set({names[x]},{names[y]}) raised {type(e).__name__}: {e}")
                if ms is not None:
                    zs = [names.index(z) for z in ms]
                    if set(zs) & desc:
                        return fail(f"get_minimal_adjustment_set({names[x]},{names[y]}) = {set(ms)} contains a descendant of the treatment (edges {edges})")
                    if not drv.call("causal_criteria", g=mg, x=x, y=y, zs=zs)["blocks"]:
                        return fail(f"get_minimal_adjustment_set({names[x]},{names[y]}) = {set(ms)} leaves a back-door path open (edges {edges})")
    return ok(nontrivial=bool(edges), n=n, checks=min(nchecks // 10 * 10, 100), latents=len(lat))


STREAMS = [
    Stream("do", gen_do, run_do, quick=400, thorough=4000),
    Stream("query", gen_query, run_query, quick=600, thorough=6000),
    Stream("criteria", enum=enum_criteria, run=run_criteria),
]
