"""C02 — junction-tree belief propagation is exact and calibrated."""
from __future__ import annotations

from fractions import Fraction

from harness import core, gen, mnet
from harness.core import ok, fail, skip, rs
from harness.worker import Stream
from harness.props import c01
from harness.props.c04 import compare_factor

OBLIGATIONS = [
    "PgmVerif.C02_update_preserves_measure", "PgmVerif.C02_calibrated_fixed_point", "PgmVerif.C02_two_clique_exact", "PgmVerif.C02_sepset_agreement_after_update",
    "PgmVerif.C02_calibrated_tree_exact", "PgmVerif.C02_calibrated_tree_marginal",
    "PgmVerif.C02_max_calibrated_tree_exact",
]
PARTIAL = ["calibrated + running intersection => clique beliefs are marginals (K&F Thm 10.4) is proved for sum-calibration of any tree given in "
           "a leaf-peeling order with strictly positive sepset beliefs, and likewise for max-calibration (C02_max_calibrated_tree_exact, non-negative "
           "beliefs); zero sepset entries (0/0 = 0 convention) and "
           "the fact that the code's two-pass schedule reaches calibration are decided per case: the implementation's final beliefs are "
           "compared with the exact (max-)marginals of the Lean spec",
           "networkx find_cliques / spanning tree are validated per case by the model's decidable tree / running-intersection predicates"]
RULE = ("connected models of the four kinds (BN, MarkovNetwork, FactorGraph, JunctionTree) with 2-5 variables, cards 2-3, unary / duplicate "
        "factors, string / int / permuted state names; calibrate and max_calibrate beliefs vs exact (max-)marginals; queries with evidence by "
        "state name, joint and per-variable; 6 hash seeds; non-trivial = at least two cliques or evidence; distinct = case JSON"
        " Also: explicit junction trees with separator nodes (kind jtx), variable names of mixed types, virtual evidence in BP queries, BeliefPropagationWithMessagePassing on loop-free factor graphs.")
ASSUMPTIONS = ["interaction graph connected (the library rejects disconnected clique trees by design)"]
BUDGET_QUICK = 90
LEVEL_TEXT = ("Kernel-checked: a belief-update message preserves the clique-tree measure (prod beliefs = prod sepsets x prod factors) pointwise "
              "for ANY message schedule, makes the receiver agree with the sender on the sepset, and - for every tree with the running-intersection "
              "property, any number of cliques, positive sepset beliefs - calibration implies that each clique belief is the exact marginal "
              "of the measure (C02_calibrated_tree_exact), and max-calibration implies that it is the exact max-marginal (C02_max_calibrated_tree_exact). "
              "That the implementation's schedule reaches calibration, and tables with zeros, are decided per case: clique and sepset "
              "beliefs after calibrate / max_calibrate are compared with the exact (max-)marginals of the brute-force spec, adjacent cliques "
              "must agree, every BP query (evidence by state name, all four model kinds) must equal the brute-force posterior; 6 hash seeds.")
LEVEL_NOTE = "Trusted: Lean kernel + standard axioms; model; harness; networkx clique enumeration / spanning tree (outputs validated per case)."
TECHNIQUE = "Lean 4 proof (belief-update invariant, calibrated tree => exact marginals) + differential check of beliefs and queries against the exact joint"


def build(case, kind):
    if kind == "mn":
        return mnet.to_markov(case)
    if kind == "fg":
        return mnet.to_factor_graph(case)
    if kind == "jt":
        return mnet.to_markov(case).to_junction_tree()
    if kind == "jtx":
        return mnet.to_explicit_jt(case)
    raise ValueError(kind)


def proportional(phi, mrep, names, card, labels, tol=1e-9):
    """impl factor proportional to the model table (by named assignment)"""
    tot_i = float(phi.values.sum())
    tot_m = sum(Fraction(x) for x in mrep["vals"])
    if tot_m == 0:
        return None if abs(tot_i) < 1e-12 else f"model mass 0 but impl mass {tot_i}"
    if tot_i == 0:
        return "implementation belief has zero mass"
    pn = [gen.lab(x) for x in names]
    if set(phi.variables) != {pn[v] for v in mrep["scope"]}:
        return f"scope {phi.variables}"
    for asg in core.all_assignments(mrep["scope"], mrep["card"]):
        mv = core.model_value(mrep, asg) / tot_m
        iv = gen.impl_factor_value(phi, names, labels, asg) / tot_i
        if not core.close(iv, mv, tol):
            return f"at {asg}: normalised impl {iv} model {float(mv)}"
    return None


# ----------------------------------------------------------------------------- calibration
def gen_calib(rng, tier):
    kind = rng.choice(["mn", "mn", "fg", "jt", "bn", "jtx"])
    if kind == "jtx":
        case = mnet.gen_jtx_case(rng)
        case["kind"] = kind
        case["heur"] = None
        case["op"] = rng.choice(["sum", "sum", "max"])
        return case
    cyc = rng.random() < .2          # long chordless cycles / grid: cascaded fill-in edges of the triangulation
    if kind == "bn":
        if cyc:
            case = gen.rand_bn(rng, nmin=6, nmax=8, maxcard=2, name_kind=rng.choice(["str", "word", "int", "int0"]), mincard=2, shape="ring",
                               dup=False)
        else:
            for _ in range(30):
                case = gen.rand_bn(rng, nmin=2, nmax=5, maxcard=3, name_kind=rng.choice(["str", "word", "int", "int0", "mixed"]), mincard=2)
                from harness.props.c03 import connected
                if connected(len(case["nodes"]), case["edges"]):
                    break
            else:
                return None
    elif cyc:
        case = mnet.gen_cliquey_case(rng) if rng.random() < .35 else mnet.gen_cycle_case(rng, grid=rng.random() < .12)
    else:
        case = mnet.gen_mn_case(rng, dup=False if kind == "fg" else None, name_kind=rng.choice(["str", "word", "int", "int0", "str", "word", "int", "mixed"]))
    if kind != "bn" and rng.random() < .25:
        # unnormalised potentials of a very different magnitude (beliefs are only defined up to scale)
        sc = Fraction(10) ** rng.choice([-9, -6, -4, 3])
        for f in case["factors"]:
            f["vals"] = [rs(Fraction(x) * sc) for x in f["vals"]]
        case["scale"] = rs(sc)
    case["kind"] = kind
    case["op"] = rng.choice(["sum", "sum", "max"])
    case["heur"] = rng.choice([None, None, "H1", "H2", "H3", "H4", "H5", "H6"]) if kind in ("mn", "jt") else None
    return case


def run_calib(case, drv):
    from pgmpy.inference import BeliefPropagation
    kind = case["kind"]
    names, card, labels = case["nodes"], case["card"], case["labels"]
    pn = [gen.lab(x) for x in names]
    n = len(names)
    if kind == "bn":
        model = gen.bn_to_pgmpy(case)
        fs = gen.bn_model_factors(case)
    else:
        if kind == "fg" and mnet.has_equal_factors(case):
            return skip("factor graphs cannot hold two equal factors")
        model = build(case, kind)
        fs = mnet.model_factors(case)
    tags = dict(kind=kind, op=case["op"], dup=case.get("dup", False), scaled="scale" in case, cycle=bool(case.get("cycle") or case.get("shape") == "ring"),
                heur=str(case.get("heur")))
    if case.get("heur") and kind in ("mn", "jt"):
        # every triangulation heuristic must return a chordal supergraph (the junction tree is built from it)
        try:
            mn0 = mnet.to_markov(case)
            tri = mn0.triangulate(heuristic=case["heur"], inplace=False)
            te = [[pn.index(u), pn.index(v)] for u, v in tri.edges()]
        except Exception as e:
            return fail(f"triangulate(heuristic={case['heur']}) raised {type(e).__name__}: {e}", **tags)
        ug = drv.call("ug_check", nodes=list(range(n)), edges=te, orig=[list(e) for e in mnet.edges_of(case)])
        if not (ug["chordal"] and ug["supergraph"]):
            return fail(f"triangulate(heuristic={case['heur']}) is not a chordal supergraph: {ug} edges {te}", **tags)
    try:
        bp = BeliefPropagation(model)
        if case["op"] == "sum":
            bp.calibrate()
        else:
            bp.max_calibrate()
        cb = bp.get_clique_beliefs()
        sb = bp.get_sepset_beliefs()
        cliques = list(bp.junction_tree.nodes())
        tedges = list(bp.junction_tree.edges())
    except Exception as e:
        return fail(f"BeliefPropagation/{case['op']}-calibrate on {kind} raised {type(e).__name__}: {e}", **tags)
    # structure: tree, running intersection, covers factor scopes
    cidx = {c: i for i, c in enumerate(cliques)}
    chk = drv.call("jt_check", cliques=[[pn.index(v) for v in c] for c in cliques],
                   edges=[[cidx[a], cidx[b]] for a, b in tedges], scopes=[f["scope"] for f in fs])
    if not (chk["tree"] and chk["rip"] and chk["covers"]):
        return fail(f"junction tree invalid: {chk} cliques {cliques} edges {tedges}", **tags)
    for c in cliques:
        q = [pn.index(v) for v in c]
        if case["op"] == "sum":
            m = drv.call("bn_posterior", fs=fs, vars=list(range(n)), cards=card, q=q, ev=[])["post"]
            if Fraction(drv.call("bn_posterior", fs=fs, vars=list(range(n)), cards=card, q=[], ev=[])["pe"]) == 0:
                return skip("zero partition function")
        else:
            m = drv.call("max_marginal", fs=fs, vars=list(range(n)), cards=card, q=q)
        err = proportional(cb[c], m, names, card, labels)
        if err:
            return fail(f"{case['op']}-calibrated belief of clique {c} is not proportional to the exact {case['op']}-marginal: {err}", **tags)
    for a, b in tedges:
        sep = [v for v in a if v in b]
        key = frozenset((a, b))
        op = "marginalize" if case["op"] == "sum" else "maximize"
        ma = getattr(cb[a], op)([v for v in a if v not in sep], inplace=False)
        mb = getattr(cb[b], op)([v for v in b if v not in sep], inplace=False)
        q = [pn.index(v) for v in sep]
        for asg in core.all_assignments(q, [card[v] for v in q]):
            va = gen.impl_factor_value(ma, names, labels, asg)
            vb = gen.impl_factor_value(mb, names, labels, asg)
            vs = gen.impl_factor_value(sb[key], names, labels, asg) if sb.get(key) is not None else va
            if not (core.close(va, vb, 1e-9) and core.close(va, vs, 1e-9)):
                return fail(f"adjacent cliques {a} / {b} disagree on sepset {sep} at {asg}: {va} {vb} sepset belief {vs}", **tags)
    return ok(nontrivial=len(cliques) >= 2, ncliques=min(len(cliques), 4), **tags)


# ----------------------------------------------------------------------------- queries
def gen_query(rng, tier):
    case = gen_calib(rng, tier)
    if case is None:
        return None
    n = len(case["nodes"])
    q = rng.sample(range(n), rng.randint(1, min(2, n)))
    rest = [v for v in range(n) if v not in q]
    ev = rng.sample(rest, min(len(rest), rng.choice([0, 1, 1, 2])))
    case["q"] = q
    case["ev"] = [[v, rng.randrange(case["card"][v])] for v in ev]
    case["joint"] = rng.random() < .6
    case["virt"] = []
    if case["kind"] == "bn" and all(isinstance(gen.lab(x), str) for x in case["nodes"]) and rng.random() < .45:
        cand = [v for v in range(n) if v not in ev]
        for v in rng.sample(cand, rng.randint(1, min(2, len(cand)))):
            case["virt"].append([v, [rs(Fraction(rng.randint(0, 10), 10)) for _ in range(case["card"][v])]])
    return case


def run_query(case, drv):
    from pgmpy.inference import BeliefPropagation
    kind = case["kind"]
    names, card, labels = case["nodes"], case["card"], case["labels"]
    pn = [gen.lab(x) for x in names]
    n = len(names)
    if kind == "bn":
        model = gen.bn_to_pgmpy(case)
        fs = gen.bn_model_factors(case)
    else:
        if kind == "fg" and mnet.has_equal_factors(case):
            return skip("factor graphs cannot hold two equal factors")
        model = build(case, kind)
        fs = mnet.model_factors(case)
    virt = case.get("virt") or []
    fs = fs + [{"scope": [v], "card": [card[v]], "vals": L} for v, L in virt]
    m = drv.call("bn_posterior", fs=fs, vars=list(range(n)), cards=card, q=case["q"], ev=case["ev"])
    if Fraction(m["pe"]) == 0:
        return skip("zero evidence mass")
    evidence = {pn[v]: gen.lab(labels[v][i]) for v, i in case["ev"]}
    tags = dict(kind=kind, joint=case["joint"], nev=len(case["ev"]), dup=case.get("dup", False), virt=len(virt))
    kw = {}
    if virt:
        from pgmpy.factors.discrete import TabularCPD
        kw["virtual_evidence"] = [TabularCPD(pn[v], card[v], [[float(Fraction(x))] for x in L],
                                             state_names={pn[v]: [gen.lab(l) for l in labels[v]]}) for v, L in virt]
    try:
        res = BeliefPropagation(model).query([pn[v] for v in case["q"]], evidence=evidence or None, joint=case["joint"], show_progress=False, **kw)
    except Exception as e:
        return fail(f"BeliefPropagation.query on {kind} with evidence {evidence} raised {type(e).__name__}: {e}", **tags)
    # non-BN models return unnormalised results from the elimination engine: compare up to normalisation
    if case["joint"]:
        err = proportional(res, m["post"], names, card, labels) if kind != "bn" else compare_factor(res, m["post"], names, card, labels)
        if err:
            return fail(f"BP query on {kind}: {err}", **tags)
        for v in case["q"]:
            if list(res.state_names[pn[v]]) != [gen.lab(l) for l in labels[v]]:
                return fail(f"BP query result is labelled {res.state_names[pn[v]]} for {pn[v]}, the model's states are {labels[v]}", **tags)
    else:
        for v in case["q"]:
            mv = drv.call("f_marginalize", f=m["post"], vars=[w for w in case["q"] if w != v])
            err = proportional(res[pn[v]], mv, names, card, labels)
            if err:
                return fail(f"BP query(joint=False) on {kind} for {pn[v]}: {err}", **tags)
    return ok(nontrivial=len(case["ev"]) > 0 or n > 2, **tags)


# ----------------------------------------------------------------------------- one engine object, a history of calls
def gen_history(rng, tier):
    case = gen_calib(rng, tier)
    if case is None:
        return None
    n = len(case["nodes"])
    ops = []
    for _ in range(rng.randint(2, 5)):
        k = rng.choice(["calibrate", "max_calibrate", "query", "query", "map_query", "beliefs"])
        if k in ("query", "map_query"):
            q = rng.sample(range(n), rng.randint(1, min(2, n)))
            rest = [v for v in range(n) if v not in q]
            ev = rng.sample(rest, min(len(rest), rng.choice([0, 0, 1, 2])))
            ops.append({"op": k, "q": q, "ev": [[v, rng.randrange(case["card"][v])] for v in ev], "joint": rng.random() < .6})
        else:
            ops.append({"op": k})
    case["ops"] = ops
    return case


def run_history(case, drv):
    """calibrate / max_calibrate / query / map_query in any order on ONE BeliefPropagation object: every answer must be the exact one"""
    from pgmpy.inference import BeliefPropagation
    from harness.props.c03 import check_assignment
    kind = case["kind"]
    names, card, labels = case["nodes"], case["card"], case["labels"]
    pn = [gen.lab(x) for x in names]
    n = len(names)
    if kind == "bn":
        model = gen.bn_to_pgmpy(case)
        fs = gen.bn_model_factors(case)
    else:
        if kind == "fg" and mnet.has_equal_factors(case):
            return skip("factor graphs cannot hold two equal factors")
        model = build(case, kind)
        fs = mnet.model_factors(case)
    if Fraction(drv.call("bn_posterior", fs=fs, vars=list(range(n)), cards=card, q=[], ev=[])["pe"]) == 0:
        return skip("zero partition function")
    seq = "+".join(o["op"] for o in case["ops"])
    tags = dict(kind=kind, nops=len(case["ops"]), first=case["ops"][0]["op"])
    try:
        bp = BeliefPropagation(model)
    except Exception as e:
        return fail(f"BeliefPropagation({kind}) raised {type(e).__name__}: {e}", **tags)
    last_cal = None
    for i, o in enumerate(case["ops"]):
        where = f"step {i} ({o['op']}) of {seq} on {kind}"
        try:
            if o["op"] == "calibrate":
                bp.calibrate(); last_cal = "sum"
            elif o["op"] == "max_calibrate":
                bp.max_calibrate(); last_cal = "max"
            elif o["op"] == "beliefs":
                if last_cal is None:
                    continue
                cb = bp.get_clique_beliefs()
                for c in list(bp.junction_tree.nodes()):
                    q = [pn.index(v) for v in c]
                    if last_cal == "sum":
                        m = drv.call("bn_posterior", fs=fs, vars=list(range(n)), cards=card, q=q, ev=[])["post"]
                    else:
                        m = drv.call("max_marginal", fs=fs, vars=list(range(n)), cards=card, q=q)
                    err = proportional(cb[c], m, names, card, labels)
                    if err:
                        return fail(f"{where}: belief of clique {c} after {last_cal}-calibration: {err}", **tags)
            else:
                m = drv.call("bn_posterior", fs=fs, vars=list(range(n)), cards=card, q=o["q"], ev=o["ev"])
                if Fraction(m["pe"]) == 0:
                    continue
                evidence = {pn[v]: gen.lab(labels[v][k]) for v, k in o["ev"]}
                if o["op"] == "query":
                    res = bp.query([pn[v] for v in o["q"]], evidence=evidence or None, joint=o["joint"], show_progress=False)
                    if o["joint"]:
                        err = proportional(res, m["post"], names, card, labels)
                    else:
                        err = None
                        for v in o["q"]:
                            mv = drv.call("f_marginalize", f=m["post"], vars=[w for w in o["q"] if w != v])
                            err = err or proportional(res[pn[v]], mv, names, card, labels)
                    if err:
                        return fail(f"{where}: query {[pn[v] for v in o['q']]} | {evidence}: {err}", **tags)
                else:
                    res = bp.map_query([pn[v] for v in o["q"]], evidence=evidence or None, show_progress=False)
                    err = check_assignment(res, case, m, names, card, labels, o["q"])
                    if err:
                        return fail(f"{where}: map_query {[pn[v] for v in o['q']]} | {evidence}: {err}", **tags)
                last_cal = None      # queries re-initialise the engine; stored beliefs are unspecified afterwards
        except Exception as e:
            return fail(f"{where} raised {type(e).__name__}: {e}", **tags)
    return ok(nontrivial=len(case["ops"]) >= 2, **tags)


# ----------------------------------------------------------------------------- message passing on loop-free factor graphs
def gen_fgtree(rng, tier):
    """a factor graph WITHOUT loops: start from one variable; every new factor hangs on one existing variable and brings 0-2 new ones"""
    nv = 1
    card = [rng.choice([2, 2, 3])]
    factors = []
    for _ in range(rng.randint(1, 5)):
        anchor = rng.randrange(nv)
        new = list(range(nv, nv + rng.choice([0, 1, 1, 2])))
        if not new and any(f["scope"] == [anchor] for f in factors):
            continue            # two equal-scope unary factors may be value-equal: factor graphs cannot hold equal factors
        card += [rng.choice([2, 2, 3]) for _ in new]
        nv += len(new)
        scope = [anchor] + new
        rng.shuffle(scope)
        size = 1
        for v in scope:
            size *= card[v]
        style = rng.choice([None, None, "zeros"])
        factors.append({"scope": scope, "vals": [rs(x) for x in gen.rand_vals(rng, size, style)]})
    if not factors:
        return None
    names = gen.node_names(rng, nv, "str")
    q = rng.sample(range(nv), rng.randint(1, min(3, nv)))
    rest = [v for v in range(nv) if v not in q]
    ev = rng.sample(rest, min(len(rest), rng.choice([0, 1, 1, 2])))
    virt = []
    if rng.random() < .3:
        cand = [v for v in range(nv) if v not in ev]
        for v in rng.sample(cand, 1):
            virt.append([v, [rs(Fraction(rng.randint(1, 10), 10)) for _ in range(card[v])]])
    return {"nodes": names, "card": card, "labels": [list(range(c)) for c in card], "factors": factors, "q": q,
            "ev": [[v, rng.randrange(card[v])] for v in ev], "virt": virt, "messages": rng.random() < .3}


def run_fgtree(case, drv):
    """BeliefPropagationWithMessagePassing.query on a loop-free factor graph = the exact posterior marginal of every queried variable"""
    from pgmpy.models import FactorGraph
    from pgmpy.inference.ExactInference import BeliefPropagationWithMessagePassing
    from pgmpy.factors.discrete import TabularCPD
    names, card, labels = case["nodes"], case["card"], case["labels"]
    pn = [gen.lab(x) for x in names]
    n = len(names)
    fs = [gen.factor_model(card, f) for f in case["factors"]]
    if any(fs[i] == fs[j] for i in range(len(fs)) for j in range(i)):
        return skip("equal factors")
    extra = [{"scope": [v], "card": [card[v]], "vals": L} for v, L in case["virt"]]
    g = FactorGraph()
    g.add_nodes_from(pn)
    phis = [gen.factor_to_pgmpy(names, card, labels, f) for f in case["factors"]]
    try:
        for phi in phis:
            g.add_factors(phi)
            g.add_edges_from([(v, phi) for v in phi.variables])
        bp = BeliefPropagationWithMessagePassing(g)
    except Exception as e:
        return fail(f"building the loop-free factor graph raised {type(e).__name__}: {e}")
    tags = dict(nq=len(case["q"]), nev=len(case["ev"]), virt=bool(case["virt"]), n=n)
    kw = {}
    if case["virt"]:
        kw["virtual_evidence"] = [TabularCPD(pn[v], card[v], [[float(Fraction(x))] for x in L]) for v, L in case["virt"]]
    try:
        res = bp.query([pn[v] for v in case["q"]], evidence={pn[v]: i for v, i in case["ev"]} or None, get_messages=case["messages"], **kw)
        if case["messages"]:
            res = res[0]
    except Exception as e:
        m0 = drv.call("bn_posterior", fs=fs + extra, vars=list(range(n)), cards=card, q=[case["q"][0]], ev=case["ev"])
        if Fraction(m0["pe"]) == 0:
            return skip("zero evidence mass")
        return fail(f"BeliefPropagationWithMessagePassing.query raised {type(e).__name__}: {e}", **tags)
    for v in case["q"]:
        m = drv.call("bn_posterior", fs=fs + extra, vars=list(range(n)), cards=card, q=[v], ev=case["ev"])
        if Fraction(m["pe"]) == 0:
            return skip("zero evidence mass")
        if pn[v] not in res:
            return fail(f"no result for {pn[v]}: {list(res)}", **tags)
        err = proportional(res[pn[v]], m["post"], names, card, labels)
        if err:
            return fail(f"message passing posterior of {pn[v]} given {case['ev']} (virtual {case['virt']}): {err}", **tags)
    return ok(nontrivial=n > 1, **tags)


STREAMS = [
    Stream("calibrate", gen_calib, run_calib, quick=500, thorough=6000),
    Stream("query", gen_query, run_query, quick=900, thorough=10000),
    Stream("history", gen_history, run_history, quick=500, thorough=5000),
    Stream("fg_message_passing", gen_fgtree, run_fgtree, quick=300, thorough=3000),
]
