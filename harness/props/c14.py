"""C14 — model conversions preserve the distribution and produce valid targets."""
from __future__ import annotations

from fractions import Fraction

from harness import core, gen, mnet
from harness.core import ok, fail, skip, rs
from harness.worker import Stream
from harness.props.c04 import compare_factor

OBLIGATIONS = [
    "PgmVerif.C14_each_factor_once", "PgmVerif.C14_moral_covers_family", "PgmVerif.C14_moral_only_family", "PgmVerif.C14_bn_to_mn_measure",
    "PgmVerif.C14_elimination_is_perfect", "PgmVerif.C14_filled_graph_chordal",
]
PARTIAL = ["every elimination order is proved to be a perfect elimination ordering of the graph it fills in (C14_elimination_is_perfect) and that "
           "graph is therefore proved chordal - every cycle of length >= 4 has a chord (C14_filled_graph_chordal); that the triangulation the "
           "implementation returns IS such a fill-in (heuristic orders), and the tree / running-intersection property of the clique tree "
           "built from the maximal cliques, are validated per case by the model's decidable predicates (chordal, tree, RIP, cover), not by theorems",
           "networkx clique enumeration and spanning tree are trusted; their outputs are validated per case"]
RULE = ("BNs (C01 generator) and Markov networks / factor graphs with 2-5 variables, cards 2-3, unary, repeated and duplicate factors, "
        "connected for clique-tree targets; triangulation heuristics H1-H6 and explicit orders; 6 hash seeds; non-trivial = at least one "
        "edge; distinct = case JSON"
        " Also: mixed-type variable names, disconnected networks with a chordless cycle.")
ASSUMPTIONS = ["factor graphs cannot represent two value-equal factors (their nodes are the factor objects): generated pairwise unequal"]
BUDGET_QUICK = 90
LEVEL_TEXT = ("Kernel-checked: assigning every factor position to exactly one clique makes the product of clique potentials equal the product "
              "of all factors at every assignment (even with equal factors); the moral graph makes every CPD family a clique; BN->MN keeps the "
              "factor list, hence the joint and Z; for EVERY graph and EVERY elimination order, the fill-in graph of the model of triangulate has "
              "that order as a perfect elimination ordering (later neighbours of each vertex are pairwise adjacent), hence that graph is chordal: every cycle of length >= 4 has a chord. The implementation's conversions (BN->MN, MN<->FG, MN/FG/BN->junction tree, triangulate "
              "with H1-H6 and explicit orders) are compared at every named assignment with the brute-force joint of the model, partition "
              "functions are compared exactly, targets are validated with their own check_model and with the model's chordal / tree / "
              "running-intersection / cover predicates under 6 hash seeds.")
LEVEL_NOTE = "Trusted: Lean kernel + standard axioms; model; harness; networkx find_cliques / minimum_spanning_tree / is_chordal."
TECHNIQUE = "Lean 4 proof (factor-to-clique bookkeeping, moral cover, elimination order is a perfect elimination ordering) + per-case validation of targets against decidable model predicates"


def joint_compare(factors_impl, fs_model, case, drv, what):
    """product of implementation factors vs product of model factors at every named assignment"""
    from pgmpy.factors import factor_product
    names, card, labels = case["nodes"], case["card"], case["labels"]
    n = len(names)
    jt = drv.call("bn_joint", fs=fs_model, vars=list(range(n)), cards=card)
    prod = factor_product(*factors_impl) if len(factors_impl) > 1 else factors_impl[0].copy()
    pn = [gen.lab(x) for x in names]
    missing = [v for v in range(n) if pn[v] not in prod.variables]
    if missing:
        jt = drv.call("f_marginalize", f=jt, vars=missing)
        scale = 1
        for v in missing:
            scale *= card[v]
        jt = {"scope": jt["scope"], "card": jt["card"], "vals": [rs(Fraction(x) / scale) for x in jt["vals"]]}
    err = compare_factor(prod, jt, names, card, labels)
    return f"{what}: product of target factors differs from the source joint: {err}" if err else None


# ----------------------------------------------------------------------------- BN -> MN
def gen_bn(rng, tier):
    case = gen.rand_bn(rng, nmin=1, nmax=5, maxcard=3, name_kind=rng.choice(["str", "word", "int", "int0"]), mincard=2)
    return case


def run_bn(case, drv):
    names, card, labels = case["nodes"], case["card"], case["labels"]
    pn = [gen.lab(x) for x in names]
    n = len(names)
    bn = gen.bn_to_pgmpy(case)
    try:
        mn = bn.to_markov_model()
        ok_model = mn.check_model()
        z = float(mn.get_partition_function())
    except Exception as e:
        return fail(f"to_markov_model raised {type(e).__name__}: {e}")
    mor = drv.call("g_moral", g={"nodes": list(range(n)), "edges": case["edges"]})
    if {frozenset(e) for e in mn.edges()} != {frozenset((pn[a], pn[b])) for a, b in mor} or set(mn.nodes()) != set(pn):
        return fail(f"to_markov_model graph is not the moral graph: {sorted(map(sorted, mn.edges()))} vs {mor}")
    err = joint_compare(mn.get_factors(), gen.bn_model_factors(case), case, drv, "BN->MN")
    if err:
        return fail(err)
    if not core.close(z, 1):
        return fail(f"partition function of the Markov network of a BN is {z}, not 1")
    if len(mn.get_factors()) != n:
        return fail(f"{len(mn.get_factors())} factors for {n} CPDs")
    from harness.props.c03 import connected
    if connected(n, case["edges"]):
        try:
            jt = bn.to_junction_tree()
            jt.check_model()
        except Exception as e:
            return fail(f"BN.to_junction_tree raised {type(e).__name__}: {e}")
        r = check_jt(jt, gen.bn_model_factors(case), case, drv, "BN->JT")
        if r:
            return fail(r)
    # the SAME network object after one CPD has been replaced by another of the same shape: a conversion describes the current CPDs
    if n and (n + len(case["edges"])) % 2:
        c2 = dict(case)
        c2["cpds"] = [dict(c) for c in case["cpds"]]
        k_ = (n * 7 + len(case["edges"])) % n
        tab = c2["cpds"][k_]["table"]
        if len(tab) > 1:
            c2["cpds"][k_]["table"] = tab[1:] + tab[:1]            # rows rotated: still column-normalised, other numbers
            try:
                bn.add_cpds(gen.cpd_to_pgmpy(c2, c2["cpds"][k_]))
                mn2 = bn.to_markov_model()
            except Exception as e:
                return fail(f"to_markov_model after replacing a CPD raised {type(e).__name__}: {e}")
            err = joint_compare(mn2.get_factors(), gen.bn_model_factors(c2), c2, drv, "BN->MN after a CPD was replaced")
            if err:
                return fail(err)
    return ok(nontrivial=bool(case["edges"]), n=n)


def check_jt(jt, fs_model, case, drv, what):
    import networkx as nx
    names, card, labels = case["nodes"], case["card"], case["labels"]
    pn = [gen.lab(x) for x in names]
    cliques = list(jt.nodes())
    cidx = {c: i for i, c in enumerate(cliques)}
    chk = drv.call("jt_check", cliques=[[pn.index(v) for v in c] for c in cliques],
                   edges=[[cidx[a], cidx[b]] for a, b in jt.edges()], scopes=[f["scope"] for f in fs_model])
    if not all(chk.values()):
        return f"{what}: clique tree invalid {chk}: cliques {cliques} edges {list(jt.edges())}"
    if len(jt.get_factors()) != len(cliques):
        return f"{what}: {len(jt.get_factors())} potentials for {len(cliques)} cliques"
    for phi in jt.get_factors():
        for v in phi.variables:
            if list(phi.state_names[v]) != [gen.lab(l) for l in labels[pn.index(v)]]:
                return f"{what}: clique potential {phi.variables} has state names {phi.state_names[v]} for {v}, the model's are {labels[pn.index(v)]}"
    err = joint_compare(list(jt.get_factors()), fs_model, case, drv, what)
    if err:
        return err
    n = len(names)
    tot = Fraction(drv.call("bn_posterior", fs=fs_model, vars=list(range(n)), cards=card, q=[], ev=[])["pe"])
    z = float(jt.get_partition_function())
    if not core.close(z, tot):
        return f"{what}: partition function {z}, source {float(tot)}"
    return None


# ----------------------------------------------------------------------------- MN <-> FG, -> JT
def gen_mn(rng, tier):
    r_ = rng.random()
    if r_ < .2:
        case = mnet.gen_cliquey_case(rng)
    elif r_ < .3:
        case = mnet.gen_cycle_case(rng)
    else:
        case = mnet.gen_mn_case(rng, connected=rng.random() < .8, special=rng.choice([None, None, None, "one"]), name_kind=rng.choice(["str", "word", "int", "int0", "str", "word", "int", "mixed"]))
    case["target"] = rng.choice(["fg", "fg", "jt", "jt", "fg_jt", "fg_mn"]) if r_ >= .3 else rng.choice(["jt", "jt", "fg_jt"])
    return case


def run_mn(case, drv):
    names, card, labels = case["nodes"], case["card"], case["labels"]
    n = len(names)
    fs = mnet.model_factors(case)
    tgt = case["target"]
    tags = dict(target=tgt, dup=case["dup"], connected=mnet.is_connected(case))
    tot = Fraction(drv.call("bn_posterior", fs=fs, vars=list(range(n)), cards=card, q=[], ev=[])["pe"])
    try:
        if tgt in ("fg", "jt"):
            mn = mnet.to_markov(case)
            mn.check_model()
            z0 = float(mn.get_partition_function())
            if not core.close(z0, tot):
                return fail(f"MarkovNetwork.get_partition_function {z0}, exact {float(tot)}", **tags)
            if tgt == "fg":
                if mnet.has_equal_factors(case):
                    return skip("factor graphs cannot hold two equal factors")
                fg = mn.to_factor_graph()
                try:
                    fg.check_model()
                except Exception as e:
                    # is the ONLY thing wrong the recorded one (factor nodes are the strings 'phi_<scope>' instead of the factors)?
                    try:
                        vnodes = set(mn.nodes())
                        fn = [x for x in fg.nodes() if x not in vnodes]
                        want = {"phi_" + "_".join(f.scope()): set(f.scope()) for f in mn.get_factors()}
                        only = (all(isinstance(x, str) for x in fn) and set(fn) == set(want)
                                and all(set(fg.neighbors(x)) == want[x] for x in fn)
                                and not any(fg.has_edge(a, b) for a in vnodes for b in vnodes)
                                and joint_compare(fg.get_factors(), fs, case, drv, "MN->FG") is None
                                and str(e) == "Factors not associated for all the random variables")
                    except Exception:
                        only = False
                    return fail({"msg": f"MarkovNetwork.to_factor_graph(): target fails its own check_model: {e}", "only_string_factor_nodes": only}, **tags)
                err = joint_compare(fg.get_factors(), fs, case, drv, "MN->FG")
                if err:
                    return fail(err, **tags)
                if not core.close(float(fg.get_partition_function()), tot):
                    return fail("MN->FG: partition function changed", **tags)
                back = fg.to_markov_model()
                back.check_model()
                err = joint_compare(back.get_factors(), fs, case, drv, "MN->FG->MN")
                if err:
                    return fail(err, **tags)
            else:
                if not mnet.is_connected(case):
                    return skip("disconnected: clique tree rejected by design")
                jt = mn.to_junction_tree()
                jt.check_model()
                r = check_jt(jt, fs, case, drv, "MN->JT")
                if r:
                    return fail(r, **tags)
        else:
            if mnet.has_equal_factors(case):
                return skip("factor graphs cannot hold two equal factors")
            fg = mnet.to_factor_graph(case)
            fg.check_model()
            if tgt == "fg_mn":
                mn = fg.to_markov_model()
                mn.check_model()
                err = joint_compare(mn.get_factors(), fs, case, drv, "FG->MN")
                if err:
                    return fail(err, **tags)
                pn = [gen.lab(x) for x in names]
                exp = {frozenset((pn[a], pn[b])) for a, b in mnet.edges_of(case)}
                if {frozenset(e) for e in mn.edges()} != exp:
                    return fail("FG->MN: edges are not the pairs of variables sharing a factor", **tags)
                if not core.close(float(mn.get_partition_function()), tot):
                    return fail("FG->MN: partition function changed", **tags)
            else:
                if not mnet.is_connected(case):
                    return skip("disconnected")
                jt = fg.to_junction_tree()
                jt.check_model()
                r = check_jt(jt, fs, case, drv, "FG->JT")
                if r:
                    return fail(r, **tags)
    except Exception as e:
        return fail(f"{tgt} conversion raised {type(e).__name__}: {e}", **tags)
    return ok(nontrivial=bool(mnet.edges_of(case)), **tags)


# ----------------------------------------------------------------------------- triangulation
def gen_tri(rng, tier):
    if rng.random() < .15:
        # a DISCONNECTED network: a chordless cycle in one component, trees in the others (fewer edges than nodes overall)
        k = rng.randint(4, 5)
        extra = rng.randint(1, 2)
        n = k + 2 * extra
        names = gen.node_names(rng, n, rng.choice(["str", "word", "int"]))
        card = [rng.choice([2, 2, 3]) for _ in range(n)]
        labels = [gen.state_labels(rng, c, rng.choice(["int", "str"])) for c in card]
        perm = list(range(n))
        rng.shuffle(perm)
        pairs = [(perm[i], perm[(i + 1) % k]) for i in range(k)] + [(perm[k + 2 * j], perm[k + 2 * j + 1]) for j in range(extra)]
        fs = [{"scope": list(p_) if rng.random() < .5 else [p_[1], p_[0]],
               "vals": [rs(x) for x in gen.rand_vals(rng, card[p_[0]] * card[p_[1]], "generic")]} for p_ in pairs]
        rng.shuffle(fs)
        case = {"nodes": names, "card": card, "labels": labels, "factors": fs, "dup": False}
        case["heuristic"] = rng.choice(["H1", "H2", "H3", "H4", "H5", "H6", "order"])
        order = list(range(n))
        rng.shuffle(order)
        case["order"] = order
        case["inplace"] = rng.random() < .3
        return case
    n = rng.randint(3, 6)
    case = mnet.gen_mn_case(rng, nmin=n, nmax=n, connected=True, dup=False, special=rng.choice([None, None, None, "one"]))
    # add a few extra pairwise factors to create chordless cycles
    for _ in range(rng.randint(0, 3)):
        a, b = rng.sample(range(n), 2)
        case["factors"].append({"scope": [a, b], "vals": [rs(x) for x in gen.rand_vals(rng, case["card"][a] * case["card"][b], "generic")]})
    case["heuristic"] = rng.choice(["H1", "H2", "H3", "H4", "H5", "H6", "order"])
    order = list(range(n))
    rng.shuffle(order)
    case["order"] = order
    case["inplace"] = rng.random() < .3
    return case


def run_tri(case, drv):
    names = case["nodes"]
    pn = [gen.lab(x) for x in names]
    n = len(names)
    mn = mnet.to_markov(case)
    orig = [list(e) for e in mnet.edges_of(case)]
    h = case["heuristic"]
    tags = dict(h=h, n=n)
    try:
        if h == "order":
            ol = [pn[v] for v in case["order"]]
            # the elimination order as list / tuple / generator / one-shot iterator / reversed view
            res = mn.triangulate(order=[ol, tuple(ol), (x for x in ol), iter(ol), reversed(ol[::-1])][(n + len(orig)) % 5], inplace=case["inplace"])
        else:
            res = mn.triangulate(heuristic=h, inplace=case["inplace"])
        if res is None:
            res = mn
    except Exception as e:
        return fail(f"triangulate({h}) raised {type(e).__name__}: {e}", **tags)
    edges = sorted(sorted([pn.index(u), pn.index(v)]) for u, v in res.edges())
    chk = drv.call("ug_check", nodes=list(range(n)), edges=edges, orig=orig)
    if not chk["chordal"]:
        return fail(f"triangulate({h}) result is not chordal: {edges}", **tags)
    if not chk["supergraph"]:
        return fail(f"triangulate({h}) lost an edge of the original graph", **tags)
    import networkx as nx
    was_chordal = drv.call("ug_check", nodes=list(range(n)), edges=orig, orig=orig)["chordal"]
    if h == "order" and not was_chordal:
        fill = drv.call("ug_eliminate", nodes=list(range(n)), edges=orig, order=case["order"])
        exp = sorted(set(map(tuple, orig)) | {tuple(sorted(e)) for e in fill})
        if [tuple(e) for e in edges] != exp:
            return fail(f"triangulate(order={case['order']}) edges {edges} differ from the fill-in graph {exp}", **tags)
    if was_chordal and sorted(edges) != sorted(orig):
        return fail("triangulate changed an already chordal graph", **tags)
    return ok(nontrivial=not was_chordal, **tags)


STREAMS = [
    Stream("bn", gen_bn, run_bn, quick=500, thorough=5000),
    Stream("mn", gen_mn, run_mn, quick=900, thorough=9000),
    Stream("triangulate", gen_tri, run_tri, quick=500, thorough=5000),
]
