"""C18 — independence reasoning is sound: equivalence, closure and I-maps."""
from __future__ import annotations

import itertools
from fractions import Fraction

from harness import core, gen
from harness.core import ok, fail, skip, rs
from harness.worker import Stream

OBLIGATIONS = [
    "PgmVerif.C18_same_equiv", "PgmVerif.C18_closure_extensive", "PgmVerif.C18_closure_closed",
    "PgmVerif.C18_ci_product_form", "PgmVerif.C18_iequiv_refl_symm", "PgmVerif.C18_iequiv_trans", "PgmVerif.C18_closure_sound",
    "PgmVerif.C18_closure_semantically_sound", "PgmVerif.CI_decomposition", "PgmVerif.CI_weak_union", "PgmVerif.CI_contraction",
    "PgmVerif.C18_ci_scale_invariant", "PgmVerif.C18_ci_unnormalised",
]
PARTIAL = ["closure = semi-graphoid derivability: the model's closure is proved extensive, closed under the rule step and minimal (every member "
           "is derivable, C18_closure_sound) and semantically sound (C18_closure_semantically_sound: every member holds in every non-negative "
           "table that satisfies the input, via kernel-checked decomposition / weak union / contraction / symmetry); completeness of the "
           "semi-graphoid rules for probabilistic independence does not hold in general (Studeny) and is not claimed; the "
           "comparison with the implementation is exhaustive over all assertion sets of <= 2 assertions on 4 variables plus random larger sets",
           "same skeleton + same v-structures <=> same d-separation statements (Verma-Pearl) is confirmed exhaustively in the model for all "
           "pairs of DAGs on <= 3 nodes and sampled pairs on 4 nodes, not proved"]
RULE = ("closure/entails/is_equivalent: every set of <=2 disjoint assertions over 4 variables (exhaustive) and random sets of 3; "
        "is_iequivalent: all ordered pairs of DAGs on <=3 nodes and random same-skeleton pairs on 4; check_independence on generic, "
        "product-form and XOR-like joints; minimal_imap for all orders; non-trivial = closure adds something / graphs have edges; "
        "distinct = case JSON"
        " Also: variable names contained in one another, per-graph insertion order and BayesianNetwork objects for is_iequivalent, get_immoralities.")
ASSUMPTIONS = ["assertions have pairwise disjoint, non-empty X and Y; tables are exact small rationals so 'holds numerically' is unambiguous"]
BUDGET_QUICK = 100
LEVEL_TEXT = ("Kernel-checked: equality of assertions up to symmetry is an equivalence relation; the model's closure contains its input and is "
              "closed under symmetry, decomposition, weak union and contraction steps (fixed point reached within the fuel bound of the "
              "finite universe), at every stage contains only assertions derivable from the input by those rules (minimality), and - for EVERY non-negative "
              "joint table over any variables and cardinalities in which the input assertions hold - every assertion of the closure holds in "
              "that table (the four semi-graphoid rules are proved for finite distributions, zero cells included); the product test P(x,y,z)P(z)=P(x,z)P(y,z) characterises conditional independence for a product-form "
              "table; I-equivalence of the model is reflexive and symmetric. The implementation (closure, entails, is_equivalent, "
              "is_iequivalent, check_independence, get_independencies, minimal_imap, is_imap) is compared with the model exhaustively on small "
              "universes; Verma-Pearl equivalence with d-separation is confirmed exhaustively in the model (partial).")
LEVEL_NOTE = "Trusted: Lean kernel + standard axioms; model; harness."
TECHNIQUE = "Lean 4 proof (semi-graphoid rules valid in every distribution, closure sound / minimal / closed, symmetry quotient) + exhaustive differential check on small universes"

VARS = ["A", "B", "C", "D"]
# variable names of joint tables: also names that contain each other (a name is data, never a pattern)
NAME_SETS = [["A", "B", "C", "D"], ["A", "B", "C", "D"], ["x1", "x10", "x2", "x1b"], ["A", "AB", "ABC", "B"], ["rain", "rain_tomorrow", "r", "ain"]]


def all_assertions(n=4):
    out = []
    for lab in itertools.product(range(4), repeat=n):     # 0 none, 1 X, 2 Y, 3 Z
        x = [i for i in range(n) if lab[i] == 1]
        y = [i for i in range(n) if lab[i] == 2]
        z = [i for i in range(n) if lab[i] == 3]
        if x and y and x < y:
            out.append([x, y, z])
    return out


_ALL = None


def enum_closure(tier):
    global _ALL
    if _ALL is None:
        _ALL = all_assertions()
    A = _ALL
    for a in A:
        yield {"assertions": [a]}
    for i in range(len(A)):
        for j in range(i + 1, len(A)):
            yield {"assertions": [A[i], A[j]]}


def gen_closure(rng, tier):
    global _ALL
    if _ALL is None:
        _ALL = all_assertions()
    if rng.random() < .3:
        # a derivation that needs contraction and then decomposition: {X _|_ W | Y,Z ; X _|_ Y | Z} |- X _|_ W | Z (and X _|_ Y,W | Z);
        # the entailed statement mentions fewer variables than the premises
        x, w, y, z = rng.sample(range(4), 4)
        a = [[x], [w], sorted([y, z])]
        b = [[x], [y], [z]]
        if rng.random() < .5:
            a = [a[1], a[0], a[2]]
        if rng.random() < .5:
            b = [b[1], b[0], b[2]]
        prem = [a, b]
        rng.shuffle(prem)
        q = rng.choice([[[x], [w], [z]], [[w], [x], [z]], [[x], sorted([w, y]), [z]]])
        return {"assertions": prem, "other": [q]}
    k = rng.choice([3, 3, 4])
    s = rng.sample(_ALL, k)
    t = rng.sample(_ALL, rng.randint(1, 2))
    return {"assertions": s, "other": t}


def mk_ind(assertions):
    from pgmpy.independencies import Independencies
    return Independencies(*[[[VARS[i] for i in x], [VARS[i] for i in y], [VARS[i] for i in z]] if z else
                            [[VARS[i] for i in x], [VARS[i] for i in y]] for x, y, z in assertions])


def canon(x, y, z):
    x, y = tuple(sorted(x)), tuple(sorted(y))
    return (min(x, y), max(x, y), tuple(sorted(z)))


def run_closure(case, drv):
    ind = mk_ind(case["assertions"])
    try:
        cl = ind.closure().get_assertions()
    except Exception as e:
        return fail(f"closure raised {type(e).__name__}: {e}")
    got = {canon([VARS.index(v) for v in a.event1], [VARS.index(v) for v in a.event2], [VARS.index(v) for v in a.event3]) for a in cl}
    mr = drv.call("sg_closure", assertions=case["assertions"])
    if not mr["fixpoint"]:
        return fail("MODEL: closure iteration did not reach a fixed point within its fuel")
    m = mr["assertions"]
    exp = {canon(x, y, z) for x, y, z in m}
    fmt = lambda s: sorted(("".join(VARS[i] for i in a), "".join(VARS[i] for i in b), "".join(VARS[i] for i in c)) for a, b, c in s)
    if got != exp:
        extra, missing = got - exp, exp - got
        return fail({"msg": f"closure of {fmt({canon(*a) for a in case['assertions']})}: "
                            f"implementation derives underivable {fmt(extra)}; misses derivable {fmt(missing)}",
                     "got": [[list(a), list(b), list(c)] for a, b, c in got]}, n=len(case["assertions"]))
    if "other" in case:
        other = mk_ind(case["other"])
        e_impl = bool(ind.entails(other))
        e_model = drv.call("sg_entails", s=case["assertions"], t=case["other"])
        if e_impl != e_model:
            return fail({"msg": f"entails: impl {e_impl} model {e_model}", "got": [[list(a), list(b), list(c)] for a, b, c in got]})
        q_impl = bool(ind.is_equivalent(other))
        q_model = e_model and drv.call("sg_entails", s=case["other"], t=case["assertions"])
        if q_impl != q_model:
            return fail({"msg": f"is_equivalent: impl {q_impl} model {q_model}", "got": [[list(a), list(b), list(c)] for a, b, c in got]})
    return ok(nontrivial=len(exp) > len({canon(*a) for a in case["assertions"]}), n=len(case["assertions"]), size=min(len(exp) // 5 * 5, 40))


# ----------------------------------------------------------------------------- one object, assertions added between queries
def gen_ind_history(rng, tier):
    global _ALL
    if _ALL is None:
        _ALL = all_assertions()
    k = rng.choice([2, 3, 3, 4])
    s = rng.sample(_ALL, k)
    cut = rng.randint(1, k - 1)
    return {"first": s[:cut], "later": s[cut:], "probe": rng.sample(_ALL, 2), "ask": rng.choice(["closure", "entails", "is_equivalent"])}


def run_ind_history(case, drv):
    """an Independencies object that is queried, extended with add_assertions and queried again must answer like a fresh object
    holding the same assertions (metamorphic: independent of the closure algorithm itself)"""
    def sig(ind):
        return {canon([VARS.index(v) for v in a.event1], [VARS.index(v) for v in a.event2], [VARS.index(v) for v in a.event3])
                for a in ind.closure().get_assertions()}
    tags = dict(ask=case["ask"], n=len(case["first"]) + len(case["later"]))
    try:
        ind = mk_ind(case["first"])
        probe = mk_ind(case["probe"])
        if case["ask"] == "closure":
            ind.closure()
        elif case["ask"] == "entails":
            ind.entails(probe)
        else:
            ind.is_equivalent(probe)
        for x, y, z in case["later"]:
            ind.add_assertions([[VARS[i] for i in x], [VARS[i] for i in y], [VARS[i] for i in z]] if z else
                               [[VARS[i] for i in x], [VARS[i] for i in y]])
        fresh = mk_ind(case["first"] + case["later"])
        a, b = sig(ind), sig(fresh)
        if a != b:
            return fail(f"closure after query + add_assertions has {len(a)} assertions, a fresh object with the same assertions {len(b)}", **tags)
        held = mk_ind(case["later"])
        if not ind.entails(held):
            return fail("after add_assertions the object does not entail the assertions it was just given", **tags)
        if bool(ind.entails(probe)) != bool(fresh.entails(probe)):
            return fail("entails differs between the extended object and a fresh object with the same assertions", **tags)
        if not ind.is_equivalent(fresh) or not fresh.is_equivalent(ind):
            return fail("the extended object is not equivalent to a fresh object with the same assertions", **tags)
    except Exception as e:
        return fail(f"Independencies history raised {type(e).__name__}: {e}", **tags)
    return ok(nontrivial=True, **tags)


# ----------------------------------------------------------------------------- I-equivalence
def enum_iequiv(tier):
    d3 = gen.all_dags(3)
    for a in d3:
        for b in d3:
            yield {"n": 3, "g": [list(e) for e in a], "h": [list(e) for e in b]}
    d2 = gen.all_dags(2)
    for a in d2:
        for b in d2:
            yield {"n": 2, "g": [list(e) for e in a], "h": [list(e) for e in b]}


def gen_iequiv(rng, tier):
    n = 4
    _, g = gen.rand_dag_edges(rng, n, "gnp", p=rng.choice([.4, .6, .8]))
    # same skeleton, random acyclic re-orientation
    perm = list(range(n))
    rng.shuffle(perm)
    rank = {v: i for i, v in enumerate(perm)}
    h = [[u, v] if rank[u] < rank[v] else [v, u] for u, v in g]
    if rng.random() < .2:
        _, h = gen.rand_dag_edges(rng, n, "gnp")
    return {"n": n, "g": [list(e) for e in g], "h": [list(e) for e in h]}


def dsep_signature(drv, n, edges):
    sig = []
    for r in range(n + 1):
        for obs in itertools.combinations(range(n), r):
            for e in drv.call("g_active_all", g={"nodes": list(range(n)), "edges": edges}, obs=list(obs)):
                sig.append((e["x"], obs, tuple(e["spec"])))
    return sig


def run_iequiv(case, drv):
    from pgmpy.base import DAG
    n = case["n"]
    names = VARS[:n]

    import random

    def mk(edges, salt):
        # the order in which edges (and nodes) are inserted is not part of a graph: each graph gets its own, and half of the graphs are
        # BayesianNetwork objects
        from pgmpy.models import BayesianNetwork
        prng = random.Random(len(edges) * 31 + salt + n)
        d = BayesianNetwork() if prng.random() < .5 else DAG()
        nl, el = list(names), [(names[u], names[v]) for u, v in edges]
        prng.shuffle(nl)
        prng.shuffle(el)
        d.add_nodes_from(nl)
        d.add_edges_from(el)
        return d
    g, h = mk(case["g"], 1), mk(case["h"], 2)
    m = drv.call("iequiv", g={"nodes": list(range(n)), "edges": case["g"]}, h={"nodes": list(range(n)), "edges": case["h"]})
    # Verma-Pearl inside the model: same skeleton + v-structures <=> same d-separation statements
    same_dsep = dsep_signature(drv, n, case["g"]) == dsep_signature(drv, n, case["h"])
    if m != same_dsep:
        return fail(f"MODEL: iEquivalent={m} but d-separation statements equal={same_dsep} for {case['g']} / {case['h']}")
    try:
        r1, r2 = bool(g.is_iequivalent(h)), bool(h.is_iequivalent(g))
    except Exception as e:
        return fail(f"is_iequivalent raised {type(e).__name__}: {e}")
    if r1 != m or r2 != m:
        return fail(f"is_iequivalent({case['g']}, {case['h']}) = {r1}/{r2}; same skeleton and v-structures: {m}", n=n)
    # get_immoralities: the unordered parent pairs of the model's v-structures (a -> c <- b, a and b not adjacent)
    for d, edges in ((g, case["g"]), (h, case["h"])):
        vs = drv.call("vstructures", g={"nodes": list(range(n)), "edges": edges})
        want = {tuple(sorted((names[a], names[b]))) for a, _, b in vs}
        try:
            got = {tuple(sorted(x)) for x in d.get_immoralities()}
        except Exception as e:
            return fail(f"get_immoralities raised {type(e).__name__}: {e}", n=n)
        if got != want:
            return fail(f"get_immoralities({edges}) = {sorted(got)}, unshielded colliders of the graph: {sorted(want)}", n=n)
    return ok(nontrivial=bool(case["g"]) and bool(case["h"]), n=n, equiv=m)


# ----------------------------------------------------------------------------- independence in a joint table
def rand_joint(rng, n, card, style):
    """joint over n variables as list of Fractions in C order"""
    size = 1
    for c in card:
        size *= c
    if style == "product":
        margs = [gen.rand_dist(rng, c, "generic") for c in card]
        vals = []
        for idx in range(size):
            mi = core.unravel(card, idx)
            p = Fraction(1)
            for v, i in enumerate(mi):
                p *= margs[v][i]
            vals.append(p)
        return vals
    if style == "chain":
        # a BN chain 0 -> 1 -> 2 ...: conditional independencies, no marginal ones
        first = gen.rand_dist(rng, card[0], "generic")
        conds = [[gen.rand_dist(rng, card[v], "generic") for _ in range(card[v - 1])] for v in range(1, n)]
        vals = []
        for idx in range(size):
            mi = core.unravel(card, idx)
            p = first[mi[0]]
            for v in range(1, n):
                p *= conds[v - 1][mi[v - 1]][mi[v]]
            vals.append(p)
        return vals
    if style == "chain_zeros":
        # the same chain, but the conditionals contain exact zeros (deterministic transitions for some parent states): the
        # independencies of the chain still hold, with structural zeros in the marginals P(x, z)
        first = gen.rand_dist(rng, card[0], "generic")
        conds = []
        for v in range(1, n):
            rows = []
            for _ in range(card[v - 1]):
                if rng.random() < .5:
                    d = [Fraction(0)] * card[v]
                    d[rng.randrange(card[v])] = Fraction(1)
                else:
                    d = gen.rand_dist(rng, card[v], "generic")
                rows.append(d)
            conds.append(rows)
        vals = []
        for idx in range(size):
            mi = core.unravel(card, idx)
            p = first[mi[0]]
            for v in range(1, n):
                p *= conds[v - 1][mi[v - 1]][mi[v]]
            vals.append(p)
        return vals
    if style == "xor" and n >= 3 and card[:3] == [2, 2, 2]:
        vals = []
        rest = gen.rand_dist(rng, size // 8, "generic") if size > 8 else [Fraction(1)]
        for idx in range(size):
            mi = core.unravel(card, idx)
            p = Fraction(1, 4) if (mi[0] ^ mi[1]) == mi[2] else Fraction(0)
            r = core.ravel(card[3:], mi[3:]) if n > 3 else 0
            vals.append(p * rest[r])
        return vals
    w = [Fraction(rng.randint(1, 12)) for _ in range(size)]
    t = sum(w)
    return [x / t for x in w]


def gen_ci(rng, tier):
    n = rng.randint(2, 4)
    card = [2, 2, 2, 2][:n] if rng.random() < .6 else [rng.choice([2, 3]) for _ in range(n)]
    style = rng.choice(["product", "chain", "chain_zeros", "chain_zeros", "xor", "generic"])
    vals = rand_joint(rng, n, card, style)
    x, y = rng.sample(range(n), 2)
    rest = [v for v in range(n) if v not in (x, y)]
    z = rng.sample(rest, rng.randint(0, len(rest)))
    names = list(rng.choice(NAME_SETS))
    rng.shuffle(names)
    by_value = rng.random() < .3 and bool(z)
    zstate = [rng.randrange(card[v]) for v in z]
    rare = False
    if by_value and rng.random() < .4:
        # the context Z = z is a rare event (probability 1e-5 .. 1e-7): the conditional distribution given it is what it was
        sel = [all(core.unravel(card, idx)[v] == s_ for v, s_ in zip(z, zstate)) for idx in range(len(vals))]
        tot = sum(Fraction(v) for v, k in zip(vals, sel) if k)
        if 0 < tot < 1:
            eps = Fraction(1, rng.choice([10 ** 5, 10 ** 6, 10 ** 7]))
            vals = [Fraction(v) * (eps / tot) if k else Fraction(v) * ((1 - eps) / (1 - tot)) for v, k in zip(vals, sel)]
            rare = True
    return {"n": n, "card": card, "vals": [rs(v) for v in vals], "x": x, "y": y, "z": z, "style": style, "names": names[:n],
            "by_value": by_value, "zstate": zstate, "rare": rare}


def marg(vals, card, keep):
    out = {}
    for idx, p in enumerate(vals):
        mi = core.unravel(card, idx)
        k = tuple(mi[v] for v in keep)
        out[k] = out.get(k, Fraction(0)) + p
    return out


def run_ci(case, drv):
    from pgmpy.factors.discrete import JointProbabilityDistribution as JPD
    n, card = case["n"], case["card"]
    names = case.get("names") or VARS[:n]
    vals = [Fraction(v) for v in case["vals"]]
    x, y, z = case["x"], case["y"], case["z"]
    p = {"scope": list(range(n)), "card": card, "vals": case["vals"]}
    tags = dict(style=case["style"], nz=len(z), by_value=case["by_value"], rare_context=bool(case.get("rare")))
    jpd = JPD(names, card, [float(v) for v in vals])
    if case["by_value"]:
        # condition on Z = z (values): independence of x, y in P(. | z)
        sel = [(idx, pv) for idx, pv in enumerate(vals) if all(core.unravel(card, idx)[v] == s for v, s in zip(z, case["zstate"]))]
        tot = sum(pv for _, pv in sel)
        if tot == 0:
            return skip("conditioning event has probability 0")
        keep = [x, y]
        pxy, px, py = {}, {}, {}
        for idx, pv in sel:
            mi = core.unravel(card, idx)
            pxy[(mi[x], mi[y])] = pxy.get((mi[x], mi[y]), 0) + pv / tot
            px[mi[x]] = px.get(mi[x], 0) + pv / tot
            py[mi[y]] = py.get(mi[y], 0) + pv / tot
        gap = max(abs(pxy.get((a, b), 0) - px[a] * py[b]) for a in px for b in py)
        exp = gap == 0
        # the model's verdict: the joint restricted to the context (Factor.reduce), then ciHolds with nothing left to condition on
        # (the product form P(x,y) * total = P(x) * P(y) is homogeneous, so the restricted table need not be normalised)
        red = drv.call("f_reduce", f=p, ev=[[v, s] for v, s in zip(z, case["zstate"])])
        if drv.call("ci_holds", p=red, x=[x], y=[y], z=[]) != exp:
            return fail(f"MODEL ciHolds on the reduced table says {not exp}, exact gap of the conditional distribution is {gap}")
        if not exp and gap < Fraction(1, 1000):
            return skip("too close to independence for a float verdict")
        try:
            got = bool(jpd.check_independence([names[x]], [names[y]], [(names[v], s) for v, s in zip(z, case["zstate"])]))
        except Exception as e:
            return fail(f"check_independence (value conditioning) raised {type(e).__name__}: {e}", **tags)
    else:
        exp = drv.call("ci_holds", p=p, x=[x], y=[y], z=z)
        # distance from independence, to keep float verdicts unambiguous
        pxyz, pz = marg(vals, card, [x, y] + z), marg(vals, card, z)
        pxz, pyz = marg(vals, card, [x] + z), marg(vals, card, [y] + z)
        gap = max(abs(pv * pz[k[2:]] - pxz[(k[0],) + k[2:]] * pyz[(k[1],) + k[2:]]) for k, pv in pxyz.items())
        if (gap == 0) != exp:
            return fail(f"MODEL ciHolds {exp} but exact gap {gap}")
        if not exp and gap < Fraction(1, 1000):
            return skip("too close to independence for a float verdict")
        try:
            got = bool(jpd.check_independence([names[x]], [names[y]], [names[v] for v in z] or None, condition_random_variable=bool(z)))
        except Exception as e:
            return fail(f"check_independence raised {type(e).__name__}: {e}", **tags)
    if got != exp:
        return fail(f"check_independence({names[x]}, {names[y]} | {[names[v] for v in z]}{' = ' + str(case['zstate']) if case['by_value'] else ''}) "
                    f"= {got}, exact independence holds: {exp} (style {case['style']})", **tags)
    return ok(nontrivial=True, holds=exp, **tags)


# ----------------------------------------------------------------------------- I-maps
def gen_imap(rng, tier):
    n = rng.randint(2, 4)
    card = [2] * n
    style = rng.choice(["product", "chain", "xor", "generic", "chain"])
    vals = rand_joint(rng, n, card, style)
    order = list(range(n))
    rng.shuffle(order)
    names = list(rng.choice(NAME_SETS))
    rng.shuffle(names)
    return {"n": n, "card": card, "vals": [rs(v) for v in vals], "order": order, "style": style, "names": names[:n]}


def imap_as_implemented(drv, p, order):
    """the recorded finding: for every PROPER subset S of the predecessors U with  v _|_ U - S | S  the loop adds S -> v (the union of
    all working subsets, instead of one minimal working subset)"""
    out = set()
    for k, v in enumerate(order):
        u = order[:k]
        for r in range(len(u)):
            for sub in itertools.combinations(u, r):
                rest = [w for w in u if w not in sub]
                if drv.call("ci_holds", p=p, x=[v], y=rest, z=list(sub)):
                    out |= {(w, v) for w in sub}
    return out


def run_imap(case, drv):
    from pgmpy.factors.discrete import JointProbabilityDistribution as JPD
    n, card = case["n"], case["card"]
    names = case.get("names") or VARS[:n]
    vals = [Fraction(v) for v in case["vals"]]
    p = {"scope": list(range(n)), "card": card, "vals": case["vals"]}
    jpd = JPD(names, card, [float(v) for v in vals])
    order = case["order"]
    try:
        g = jpd.minimal_imap([names[v] for v in order])
    except Exception as e:
        return fail(f"minimal_imap raised {type(e).__name__}: {e}", style=case["style"])
    edges = {(names.index(u), names.index(v)) for u, v in g.edges()}
    for k, v in enumerate(order):
        pred = order[:k]
        pa = sorted(u for u in pred if (u, v) in edges)
        if any((u, v) in edges for u in order[k:]):
            return fail(f"minimal_imap added an edge into {names[v]} from a later variable", style=case["style"])
        rest = [u for u in pred if u not in pa]
        if rest and not drv.call("ci_holds", p=p, x=[v], y=rest, z=pa):
            return fail({"msg": f"minimal_imap(order={[names[o] for o in order]}) returns parents {[names[u] for u in pa]} for {names[v]}, "
                                f"but {names[v]} is not independent of {[names[u] for u in rest]} given them (joint style {case['style']}): "
                                f"the graph encodes an independence that does not hold",
                         "equals_union_of_working_subsets": sorted(edges) == sorted(imap_as_implemented(drv, p, order))}, style=case["style"])
    return ok(nontrivial=n > 2, style=case["style"])


# ----------------------------------------------------------------------------- is_imap verdicts
def gen_isimap(rng, tier):
    case = gen.rand_bn(rng, nmin=3, nmax=4, maxcard=2, name_kind="str", mincard=2, label_kind="int", positive=True, dup=False)
    n = len(case["nodes"])
    perm = list(range(n))
    rng.shuffle(perm)
    rot = rng.randint(0, n - 1)
    case["perm"] = perm          # order in which the joint table lists the variables
    case["rot"] = rot            # roles of the variables rotated by `rot` positions (0 = the network's own joint)
    return case


def run_isimap(case, drv):
    """bn.is_imap(J) / J.is_imap(bn): accepting a joint means that the independencies the graph encodes hold in it; the network's
    own joint is accepted in whatever order the table lists the variables"""
    from pgmpy.factors.discrete import JointProbabilityDistribution as JPD
    names, card = case["nodes"], case["card"]
    pn = [gen.lab(x) for x in names]
    n = len(names)
    bn = gen.bn_to_pgmpy(case)
    j = drv.call("bn_joint", fs=gen.bn_model_factors(case), vars=list(range(n)), cards=card)
    base = {tuple(asg[v] for v in range(n)): core.model_value(j, asg) for asg in core.all_assignments(list(range(n)), card)}
    rot = case["rot"]
    # rotated joint: variable v plays the role of variable (v + rot) mod n  (all binary, so cardinalities fit)
    tab = {a: base[tuple(a[(v + rot) % n] for v in range(n))] for a in base}
    perm = case["perm"]
    vals = []
    for idx in itertools.product(*[range(card[v]) for v in perm]):
        a = [0] * n
        for pos, v in enumerate(perm):
            a[v] = idx[pos]
        vals.append(float(tab[tuple(a)]))
    jpd = JPD([pn[v] for v in perm], [card[v] for v in perm], vals)
    same = all(tab[a] == base[a] for a in base)
    tags = dict(n=n, rot=rot, same=same)
    try:
        v1 = bool(bn.is_imap(jpd))
        v2 = bool(jpd.is_imap(bn))
    except Exception as e:
        return fail(f"is_imap raised {type(e).__name__}: {e}", **tags)
    if v1 != v2:
        return fail(f"BayesianNetwork.is_imap says {v1}, JointProbabilityDistribution.is_imap says {v2}", **tags)
    if same and not v1:
        return fail(f"the network is not accepted as an I-map of its own joint (table listed in the order {[pn[v] for v in perm]})", **tags)
    if v1 and not same:
        # accepted although the table differs: then at least every local Markov independence of the graph must hold in it
        p = {"scope": list(range(n)), "card": card, "vals": [rs(tab[a]) for a in sorted(tab)]}
        mg = {"nodes": list(range(n)), "edges": case["edges"]}
        for v in range(n):
            pa = sorted(u for u, w in case["edges"] if w == v)
            desc = set(drv.call("g_descendants", g=mg, zs=[v]))
            nd = [u for u in range(n) if u != v and u not in desc and u not in pa]
            if nd and not drv.call("ci_holds", p=p, x=[v], y=nd, z=pa):
                return fail(f"is_imap accepts a joint in which {pn[v]} is not independent of {[pn[u] for u in nd]} given its parents "
                            f"{[pn[u] for u in pa]} (edges {case['edges']}, table order {[pn[v_] for v_ in perm]})", **tags)
    return ok(nontrivial=n >= 3, **tags)


STREAMS = [
    Stream("closure_exhaustive", enum=enum_closure, run=run_closure),
    Stream("closure_random", gen_closure, run_closure, quick=300, thorough=3000),
    Stream("history", gen_ind_history, run_ind_history, quick=300, thorough=3000),
    Stream("iequiv_exhaustive", enum=enum_iequiv, run=run_iequiv),
    Stream("iequiv_random", gen_iequiv, run_iequiv, quick=200, thorough=2000),
    Stream("check_independence", gen_ci, run_ci, quick=900, thorough=9000),
    Stream("imap", gen_imap, run_imap, quick=300, thorough=3000),
    Stream("is_imap", gen_isimap, run_isimap, quick=300, thorough=3000),
]
