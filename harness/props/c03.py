"""C03 — MAP queries return a maximiser of the exact posterior."""
from __future__ import annotations

from fractions import Fraction

from harness import core, gen
from harness.core import ok, fail, skip, rs
from harness.worker import Stream
from harness.props import c01

OBLIGATIONS = [
    "PgmVerif.C03_argmax_is_max", "PgmVerif.C03_argmax_decode", "PgmVerif.C03_map_is_maximiser",
    "PgmVerif.C03_max_elimination_any_order", "PgmVerif.C03_argmax_scale_invariant",
]
PARTIAL = ["numpy argmax tie-breaking is free by design: the check is by value of the exact posterior at the returned assignment",
           "row-wise predict is compared differentially (pandas merge logic is not modelled)"]
RULE = ("same generators as C01 (incl. planted equal reduced factors); MAP by VE for all order options, by BP on connected networks, "
        "row-wise predict, Markov networks; non-trivial = >1 joint state of the query variables; distinct = case JSON"
        " Also: calibrate / max_calibrate before BP map queries.")
ASSUMPTIONS = ["ties: any maximiser is accepted; the returned assignment's exact posterior must be within 1e-9 (relative) of the maximum"]
BUDGET_QUICK = 75
LEVEL_TEXT = ("Kernel-checked: argmaxIdx returns the index of a maximal table entry and `assignment` decodes a flat index into an in-range "
              "state of exactly the scope variables (via unravel_ravel), so MAP on the VE result (proved equal to the exact posterior in C01) "
              "is a maximiser of the exact posterior; max-product elimination itself (the model of map_query / max_marginal: multiply the "
              "factors mentioning a variable, maximise it out) is proved exact for EVERY elimination order on non-negative factors "
              "(C03_max_elimination_any_order). The implementation (VE all orders, BP, predict, Markov networks) is tied by "
              "differential correspondence: the returned assignment's exact posterior equals the model's maximum.")
LEVEL_NOTE = "Trusted: Lean kernel + standard axioms; model; harness; tie-breaking is free."
TECHNIQUE = "Lean 4 proof (max-product elimination in any order, argmax decoding, C01) + differential correspondence with map_query / predict"


def check_assignment(res, case, m, names, card, labels, q):
    pn = [gen.lab(x) for x in names]
    if not isinstance(res, dict):
        return f"result is not a dict: {res!r}"
    if set(res.keys()) != {pn[v] for v in q}:
        return f"assigned variables {sorted(map(str, res.keys()))} != requested {[str(pn[v]) for v in q]}"
    asg = {}
    for v in q:
        ls = [gen.lab(l) for l in labels[v]]
        val = res[pn[v]]
        try:
            val = val.item() if hasattr(val, "item") else val
        except Exception:
            pass
        if val not in ls:
            return f"value {val!r} is not a state name of {pn[v]} ({ls})"
        asg[v] = ls.index(val)
    post = m["post"]
    vals = [Fraction(x) for x in post["vals"]]
    best = max(vals)
    got = core.model_value(post, asg)
    if got < best * (1 - Fraction(1, 10 ** 9)):
        return f"returned assignment {res} has posterior {float(got)} < maximum {float(best)}"
    return None


def gen_tiny_evidence(rng):
    """a cause with k observed rare findings: P(evidence) is far below anything a float table usually holds (1e-312 .. 1e-200)"""
    k = rng.choice([5, 6, 8, 8])
    e = {5: 40, 6: 45, 8: 39}[k]
    ca = rng.choice([2, 3])
    prior = [Fraction(rng.randint(1, 9)) for _ in range(ca)]
    prior = [x / sum(prior) for x in prior]
    cpds = [{"child": 0, "parents": [], "table": [[rs(x)] for x in prior]}]
    for i in range(1, k + 1):
        hi = [Fraction(rng.randint(1, 3), 10 ** e) for _ in range(ca)]
        rows = [[rs(1 - x) for x in hi], [rs(x) for x in hi]]
        if i % 2:
            rows.reverse()
        cpds.append({"child": i, "parents": [0], "table": rows})
    return {"nodes": [f"v{i}" for i in range(k + 1)], "edges": [[0, i] for i in range(1, k + 1)], "card": [ca] + [2] * k,
            "labels": [list(range(ca))] + [[0, 1]] * k, "cpds": cpds, "shape": "tiny_evidence", "q": [0],
            "ev": [[i, 0 if i % 2 else 1] for i in range(1, k + 1)], "joint": False, "latents": [], "virt": [], "keep_insertion_order": True}


def gen_map(rng, tier):
    if rng.random() < .02:
        case = gen_tiny_evidence(rng)
        case["order"], case["warm"] = rng.choice(["MinFill", None]), False
        return case
    r_ = rng.random()
    case = c01.gen_dup(rng, tier) if r_ < .3 else (c01.gen_virtual(rng, tier) if r_ < .5 else c01.gen_query(rng, tier))
    if case is None:
        return None
    case["virt"] = [vl for vl in case.get("virt", []) if vl[0] not in case["q"]]
    case["order"] = rng.choice(["MinFill", "MinNeighbors", "MinWeight", "WeightedMinFill", None, "explicit"])
    case["warm"] = rng.random() < .3
    if case["order"] == "explicit":
        n = len(case["nodes"])
        evv = [v for v, _ in case["ev"]]
        elim = [v for v in range(n) if v not in case["q"] and v not in evv]
        rng.shuffle(elim)
        case["explicit"] = elim
    return case


def run_map(case, drv):
    from pgmpy.inference import VariableElimination
    names, card, labels = case["nodes"], case["card"], case["labels"]
    pn = [gen.lab(x) for x in names]
    virt = case.get("virt", [])
    m = c01.model_posterior(case, drv, extra=[{"scope": [v], "card": [card[v]], "vals": L} for v, L in virt])
    if Fraction(m["pe"]) == 0:
        return skip("P(evidence) = 0")
    bn = gen.bn_to_pgmpy(case)
    vkw = {}
    if virt:
        from pgmpy.factors.discrete import TabularCPD

        def vcpds(shift):
            out = []
            for v, L in virt:
                LL = L[shift % len(L):] + L[:shift % len(L)]
                out.append(TabularCPD(pn[v], card[v], [[float(Fraction(x))] for x in LL],
                                      state_names={pn[v]: [gen.lab(l) for l in labels[v]]}))
            return out
        vkw = {"virtual_evidence": vcpds(0)}
    order = case["order"]
    if order == "explicit":
        order = [pn[v] for v in case["explicit"]]
    evidence = {pn[v]: gen.lab(labels[v][i]) for v, i in case["ev"]}
    tags = dict(order=str(case["order"]), shape=case["shape"], n=len(names), nev=len(case["ev"]), virt=len(virt), warm=bool(case.get("warm")))
    try:
        eng = VariableElimination(bn)
        if case.get("warm") and virt:
            # the same engine has answered a query with ANOTHER likelihood on the same virtual-evidence variables
            try:
                eng.map_query([pn[v] for v in case["q"]], evidence=evidence or None, virtual_evidence=vcpds(1), show_progress=False)
            except Exception:
                pass
        if case.get("warm") and case["ev"]:
            # the engine has answered the same question for other evidence STATES before
            try:
                other = {pn[v]: gen.lab(labels[v][(i + 1) % card[v]]) for v, i in case["ev"]}
                eng.map_query([pn[v] for v in case["q"]], evidence=other, elimination_order=order, show_progress=False)
                eng.query([pn[v] for v in case["q"]], evidence=other, show_progress=False)
            except Exception:
                pass
        res = eng.map_query([pn[v] for v in case["q"]], evidence=evidence or None,
                            elimination_order=order, show_progress=False, **vkw)
    except Exception as e:
        return fail(f"map_query raised {type(e).__name__}: {e}", **tags)
    err = check_assignment(res, case, m, names, card, labels, case["q"])
    if err:
        return fail(f"VE.map_query(order={case['order']}): {err}", **tags)
    return ok(nontrivial=len(m["post"]["vals"]) > 1, **tags)


def connected(n, edges):
    if n == 0:
        return True
    adj = {i: set() for i in range(n)}
    for u, v in edges:
        adj[u].add(v)
        adj[v].add(u)
    seen, st = {0}, [0]
    while st:
        u = st.pop()
        for w in adj[u]:
            if w not in seen:
                seen.add(w)
                st.append(w)
    return len(seen) == n


def gen_bp(rng, tier):
    if rng.random() < .4:
        # a long chordless cycle in the moral graph: the triangulation needs cascaded fill-in edges
        case = gen.rand_bn(rng, nmin=6, nmax=8, maxcard=2, name_kind=rng.choice(["str", "word", "int"]), mincard=2, shape="ring", dup=False,
                           positive=True)
        n = len(case["nodes"])
        # strong couplings around the cycle and nearly balanced roots: the posterior modes hinge on small asymmetries, so beliefs
        # that are slightly wrong (a clique tree without running intersection counts evidence twice) change the arg max
        for c in case["cpds"]:
            ncols = len(c["table"][0])
            if c["parents"]:
                cols = [rng.choice([Fraction(1, 10), Fraction(3, 20), Fraction(17, 20), Fraction(9, 10), Fraction(3, 10), Fraction(7, 10)])
                        for _ in range(ncols)]
            else:
                cols = [Fraction(1, 2) + Fraction(rng.randint(-3, 3), 100)]
            c["table"] = [[rs(a) for a in cols], [rs(1 - a) for a in cols]]
        case["q"] = rng.sample(range(n), rng.randint(1, 3))
        rest = [v for v in range(n) if v not in case["q"]]
        case["ev"] = [[v, rng.randrange(case["card"][v])] for v in rng.sample(rest, rng.choice([0, 1, 2]))]
        case["virt"] = []
        case["warm"] = False
        return case
    for _ in range(20):
        case = c01.gen_query(rng, tier)
        if connected(len(case["nodes"]), case["edges"]) and len(case["nodes"]) >= 2:
            case["warm"] = rng.random() < .3
            return case
    return None


def run_bp(case, drv):
    from pgmpy.inference import BeliefPropagation
    names, card, labels = case["nodes"], case["card"], case["labels"]
    pn = [gen.lab(x) for x in names]
    m = c01.model_posterior(case, drv)
    if Fraction(m["pe"]) == 0:
        return skip("P(evidence) = 0")
    bn = gen.bn_to_pgmpy(case)
    evidence = {pn[v]: gen.lab(labels[v][i]) for v, i in case["ev"]}
    tags = dict(shape=case["shape"], n=len(names), nev=len(case["ev"]))
    try:
        eng = BeliefPropagation(bn)
        pre = (len(case["edges"]) + len(case["q"]) + len(case["ev"])) % 4
        if pre == 1:
            eng.max_calibrate()          # the public calibration calls leave beliefs behind: the next query is still a query
        elif pre == 2:
            eng.calibrate()
        if case.get("warm") and case["ev"]:
            try:
                other = {pn[v]: gen.lab(labels[v][(i + 1) % card[v]]) for v, i in case["ev"]}
                eng.map_query([pn[v] for v in case["q"]], evidence=other, show_progress=False)
            except Exception:
                pass
        res = eng.map_query([pn[v] for v in case["q"]], evidence=evidence or None, show_progress=False)
    except Exception as e:
        return fail(f"BP.map_query raised {type(e).__name__}: {e}", **tags)
    err = check_assignment(res, case, m, names, card, labels, case["q"])
    if err:
        return fail(f"BP.map_query: {err}", **tags)
    return ok(nontrivial=len(m["post"]["vals"]) > 1, **tags)


def gen_predict(rng, tier):
    case = gen.rand_bn(rng, nmin=2, nmax=5, maxcard=3, name_kind="str", label_kind=rng.choice(["int", "str"]))
    n = len(case["nodes"])
    obs = rng.sample(range(n), rng.randint(1, n - 1))
    case["obs"] = obs
    rows = [[rng.randrange(case["card"][v]) for v in obs] for _ in range(rng.randint(1, 4))]
    if rng.random() < .5:
        rows.append(list(rows[0]))     # duplicate row: predict works on distinct rows and merges back
    case["rows"] = rows
    case["n_jobs"] = rng.choice([1, 1, 1, 2])
    return case


def run_predict(case, drv):
    import pandas as pd
    names, card, labels = case["nodes"], case["card"], case["labels"]
    pn = [gen.lab(x) for x in names]
    n = len(names)
    obs = case["obs"]
    missing = [v for v in range(n) if v not in obs]
    posts = []
    for row in case["rows"]:
        ev = [[v, i] for v, i in zip(obs, row)]
        m = drv.call("bn_posterior", fs=gen.bn_model_factors(case), vars=list(range(n)), cards=card, q=missing, ev=ev)
        if Fraction(m["pe"]) == 0:
            return skip("P(evidence) = 0 for a row")
        posts.append(m)
    bn = gen.bn_to_pgmpy(case)
    df = pd.DataFrame([[gen.lab(labels[v][i]) for v, i in zip(obs, row)] for row in case["rows"]], columns=[pn[v] for v in obs])
    try:
        out = bn.predict(df, n_jobs=case["n_jobs"])
    except Exception as e:
        return fail(f"predict raised {type(e).__name__}: {e}")
    if len(out) != len(case["rows"]):
        return fail(f"predict returned {len(out)} rows for {len(case['rows'])} inputs")
    if set(out.columns) != {pn[v] for v in missing}:
        return fail(f"predict columns {list(out.columns)}")
    for r, m in enumerate(posts):
        res = {pn[v]: out.iloc[r][pn[v]] for v in missing}
        err = check_assignment(res, case, m, names, card, labels, missing)
        if err:
            return fail(f"predict row {r}: {err}")
    return ok(n=n, nmissing=len(missing), rows=len(case["rows"]))


def gen_mn(rng, tier):
    n = rng.randint(2, 5)
    names = gen.node_names(rng, n, rng.choice(["str", "word", "int"]))
    card = [rng.choice([2, 2, 3]) for _ in range(n)]
    labels = [gen.state_labels(rng, c, rng.choice(["int", "str"])) for c in card]
    fs = []
    for i in range(1, n):
        j = rng.randrange(i)
        fs.append({"scope": [j, i], "vals": [rs(x) for x in gen.rand_vals(rng, card[i] * card[j], "generic")]})
    for _ in range(rng.randint(0, 2)):
        fs.append(gen.rand_factor(rng, list(range(n)), card, k=rng.randint(1, 2), style="generic"))
    if rng.random() < .4:
        fs.append(dict(fs[0]))
    q = rng.sample(range(n), rng.randint(1, min(3, n)))
    rest = [v for v in range(n) if v not in q]
    ev = rng.sample(rest, min(len(rest), rng.choice([0, 1, 1, 2])))
    return {"nodes": names, "card": card, "labels": labels, "factors": fs, "q": q,
            "ev": [[v, rng.randrange(card[v])] for v in ev]}


def mn_to_pgmpy(case):
    from pgmpy.models import MarkovNetwork
    pn = [gen.lab(x) for x in case["nodes"]]
    mn = MarkovNetwork()
    mn.add_nodes_from(pn)
    for f in case["factors"]:
        sc = f["scope"]
        for a in range(len(sc)):
            for b in range(a + 1, len(sc)):
                mn.add_edge(pn[sc[a]], pn[sc[b]])
    mn.add_factors(*[gen.factor_to_pgmpy(case["nodes"], case["card"], case["labels"], f) for f in case["factors"]])
    return mn


def run_mn(case, drv):
    from pgmpy.inference import VariableElimination
    names, card, labels = case["nodes"], case["card"], case["labels"]
    pn = [gen.lab(x) for x in names]
    n = len(names)
    covered = {v for f in case["factors"] for v in f["scope"]}
    if covered != set(range(n)):
        return skip("a variable has no factor")
    fs = [gen.factor_model(card, f) for f in case["factors"]]
    m = drv.call("bn_posterior", fs=fs, vars=list(range(n)), cards=card, q=case["q"], ev=case["ev"])
    if Fraction(m["pe"]) == 0:
        return skip("zero evidence mass")
    mn = mn_to_pgmpy(case)
    evidence = {pn[v]: gen.lab(labels[v][i]) for v, i in case["ev"]}
    try:
        res = VariableElimination(mn).map_query([pn[v] for v in case["q"]], evidence=evidence or None, show_progress=False)
    except Exception as e:
        return fail(f"map_query on MarkovNetwork raised {type(e).__name__}: {e}")
    err = check_assignment(res, case, m, names, card, labels, case["q"])
    if err:
        return fail(f"MarkovNetwork VE.map_query: {err}", dup=case["factors"][0] == case["factors"][-1])
    return ok(n=n, dup=case["factors"][0] == case["factors"][-1])


STREAMS = [
    Stream("ve_map", gen_map, run_map, quick=1500, thorough=20000),
    Stream("bp_map", gen_bp, run_bp, quick=700, thorough=8000),
    Stream("predict", gen_predict, run_predict, quick=150, thorough=1500),
    Stream("mn_map", gen_mn, run_mn, quick=400, thorough=5000),
]
