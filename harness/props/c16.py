"""C16 — queries are pure, repeatable and representation-independent."""
from __future__ import annotations

import io
import os
import tempfile
from fractions import Fraction

from harness import core, gen
from harness.core import ok, fail, skip, rs
from harness.worker import Stream
from harness.props import c01
from harness.props.c04 import compare_factor, snapshot

OBLIGATIONS = [
    "PgmVerif.C16_perm_invariant", "PgmVerif.C16_rename_den", "PgmVerif.C16_rename_roundtrip", "PgmVerif.C16_rename_joint",
    "PgmVerif.C16_engine_history", "PgmVerif.C16_sumOut_perm",
]
PARTIAL = ["purity (no mutation of arguments) is a heap fact: decided by deep snapshots around every call",
           "hash-seed and backend independence: decided by running every case under 6 (quick) / 14 (thorough) PYTHONHASHSEEDs and, for factor "
           "operations and exact inference, under the torch backend, each compared with the Lean model"]
RULE = ("random BNs (C01 generators) with API call lists for purity, 2-8 query histories on shared engines (incl. virtual evidence and "
        "invalid queries) vs fresh engines, and renamed / state-permuted / insertion-shuffled presentations each compared with the model; "
        "non-trivial = network with an edge; distinct = case JSON"
        " Also: sampling engines with a history vs fresh engines for the same seed.")
ASSUMPTIONS = ["order of model.cpds is not part of a model's content (writers may reorder the list)"]
BUDGET_QUICK = 90
LEVEL_TEXT = ("Kernel-checked: the joint denotation is invariant under permutation of the factor list and of the summation order, renaming "
              "variables by any function commutes with denotation (so answers are equivariant), and an engine whose bound network has "
              "accumulated unobserved virtual-evidence leaves answers like a fresh engine (barren leaves sum out to 1, for any number of "
              "leaves). The implementation is tied by: deep snapshots of model / graph / CPDs / factors / data around inference, sampling, "
              "scoring, estimation, search, export and conversion calls; histories of queries on shared VE / BP / CausalInference engines vs "
              "fresh engines; renamed, state-permuted and insertion-shuffled presentations vs the model; 6 hash seeds; torch backend.")
LEVEL_NOTE = "Trusted: Lean kernel + standard axioms; model; harness; purity/hash-seed/backend facts are differential only."
TECHNIQUE = "Lean 4 proof (permutation invariance, renaming equivariance, engine history = fresh engine) + snapshot / metamorphic differential runs"


def model_snapshot(bn):
    return (sorted(map(repr, bn.nodes())), sorted(map(repr, bn.edges())), sorted(map(repr, bn.latents)),
            sorted((repr(c.variable), repr(snapshot(c))) for c in bn.cpds))


# ----------------------------------------------------------------------------- purity
CALLS = ["ve_query", "ve_map", "bp_query", "causal", "sample", "score", "mle", "hc", "bif", "xmlbif", "uai", "to_mn", "to_jt",
         "moralize", "predict", "check", "copy", "fit_update", "bayes_est", "ve_virtual", "simulate", "get_state_prob", "factor_ops", "factor_ops",
         "bic", "pc"]


def gen_purity(rng, tier):
    case = gen.rand_bn(rng, nmin=2, nmax=5, maxcard=3, name_kind=rng.choice(["str", "word"]), label_kind=rng.choice(["int", "str", "permint"]),
                       mincard=2)
    n = len(case["nodes"])
    case["calls"] = rng.sample(CALLS, rng.randint(3, 7))
    case["q"] = [rng.randrange(n)]
    rest = [v for v in range(n) if v != case["q"][0]]
    ev = rng.sample(rest, min(len(rest), rng.choice([0, 1])))
    case["ev"] = [[v, rng.randrange(case["card"][v])] for v in ev]
    case["rows"] = [[rng.randrange(case["card"][v]) for v in range(n)] for _ in range(rng.randint(8, 20))]
    case["frame"] = rng.choice(["category", "int", "int"])        # dtype of the data frame handed to estimators / scores
    return case


def run_purity(case, drv):
    import pandas as pd
    import numpy as np
    from pgmpy.inference import VariableElimination, BeliefPropagation, CausalInference
    from pgmpy.sampling import BayesianModelSampling
    from pgmpy.estimators import K2Score, MaximumLikelihoodEstimator, HillClimbSearch, BayesianEstimator
    from pgmpy.readwrite import BIFWriter, XMLBIFWriter, UAIWriter
    from pgmpy.base import DAG
    names, card, labels = case["nodes"], case["card"], case["labels"]
    pn = [gen.lab(x) for x in names]
    n = len(pn)
    m = c01.model_posterior(case, drv)
    if Fraction(m["pe"]) == 0:
        return skip("P(evidence)=0")
    bn = gen.bn_to_pgmpy(case)
    df = pd.DataFrame({pn[v]: pd.Categorical([gen.lab(labels[v][r[v]]) for r in case["rows"]],
                                             categories=[gen.lab(l) for l in labels[v]]) for v in range(n)})
    if case.get("frame") == "int" and all(isinstance(gen.lab(l), int) for ls in labels for l in ls):
        # plain integer columns: the caller's frame must keep its values AND its dtypes
        df = pd.DataFrame({pn[v]: np.array([gen.lab(labels[v][r[v]]) for r in case["rows"]], dtype="int64") for v in range(n)})
    evidence = {pn[v]: gen.lab(labels[v][i]) for v, i in case["ev"]}
    qv = [pn[v] for v in case["q"]]
    conn = c03_connected(n, case["edges"])
    for call in case["calls"]:
        s0 = model_snapshot(bn)
        d0 = df.copy(deep=True)
        ev0 = dict(evidence)
        extra = None
        try:
            if call == "ve_query":
                VariableElimination(bn).query(qv, evidence=evidence or None, show_progress=False)
            elif call == "ve_virtual":
                from pgmpy.factors.discrete import TabularCPD
                v = case["q"][0]
                other = [w for w in range(n) if w != v and w not in [e[0] for e in case["ev"]]]
                if not other:
                    continue
                w = other[0]
                virt = [TabularCPD(pn[w], card[w], [[0.3 + 0.1 * i] for i in range(card[w])],
                                   state_names={pn[w]: [gen.lab(l) for l in labels[w]]})]
                VariableElimination(bn).query(qv, evidence=evidence or None, virtual_evidence=virt, show_progress=False)
            elif call == "ve_map":
                VariableElimination(bn).map_query(qv, evidence=evidence or None, show_progress=False)
            elif call == "bp_query":
                if not conn:
                    continue
                BeliefPropagation(bn).query(qv, evidence=evidence or None, show_progress=False)
            elif call == "causal":
                x = case["q"][0]
                ys = [w for w in range(n) if w != x]
                if not ys:
                    continue
                try:
                    CausalInference(bn).query([pn[ys[0]]], do={pn[x]: gen.lab(labels[x][0])}, show_progress=False)
                except ValueError:
                    pass
            elif call == "sample":
                BayesianModelSampling(bn).forward_sample(size=5, seed=1, show_progress=False)
            elif call == "simulate":
                bn.simulate(n_samples=5, seed=1, show_progress=False)
            elif call == "score":
                K2Score(df).score(bn)
            elif call == "mle":
                MaximumLikelihoodEstimator(bn, df).get_parameters()
            elif call == "bayes_est":
                BayesianEstimator(bn, df).get_parameters(prior_type="BDeu", equivalent_sample_size=5)
            elif call == "hc":
                start = DAG()
                start.add_nodes_from(pn)
                start.add_edges_from([(pn[u], pn[v]) for u, v in case["edges"]])
                extra = (sorted(map(repr, start.nodes())), sorted(map(repr, start.edges())))
                HillClimbSearch(df).estimate(scoring_method="k2", start_dag=start, max_iter=5, show_progress=False)
                if (sorted(map(repr, start.nodes())), sorted(map(repr, start.edges()))) != extra:
                    return fail("HillClimbSearch.estimate modified the caller's start_dag", call=call)
            elif call == "bic":
                from pgmpy.estimators import BicScore
                BicScore(df).score(bn)
            elif call == "pc":
                from pgmpy.estimators import PC
                PC(df).estimate(ci_test="chi_square", max_cond_vars=1, show_progress=False, n_jobs=1)
            elif call == "factor_ops":
                from pgmpy.factors.discrete import DiscreteFactor
                big = max(bn.cpds, key=lambda c_: len(c_.variables)).to_factor()
                vs = list(big.variables)[::-1]                 # the same scope, listed in the opposite order
                perm = [list(big.variables).index(x) for x in vs]
                g = DiscreteFactor(vs, [int(big.get_cardinality([x])[x]) for x in vs],
                                   np.transpose(np.asarray(big.values, dtype=float) + 1.0, perm),
                                   state_names={x: list(big.state_names[x]) for x in vs})
                f0, g0 = snapshot(big), snapshot(g)
                gshape = (list(g.variables), [int(x) for x in g.cardinality], tuple(np.asarray(g.values).shape))
                for opn in ("divide", "sum", "product"):
                    getattr(big, opn)(g, inplace=False)
                    if snapshot(big) != f0 or snapshot(g) != g0 or \
                            (list(g.variables), [int(x) for x in g.cardinality], tuple(np.asarray(g.values).shape)) != gshape:
                        return fail(f"DiscreteFactor.{opn}(other, inplace=False) changed one of its operands "
                                    f"(second operand now {list(g.variables)} card {list(g.cardinality)} shape {np.asarray(g.values).shape})", call=call)
                big / g
                big + g
                if snapshot(g) != g0 or (list(g.variables), [int(x) for x in g.cardinality], tuple(np.asarray(g.values).shape)) != gshape:
                    return fail("the operators / and + changed their second operand", call=call)
            elif call == "bif":
                BIFWriter(bn).__str__()
            elif call == "xmlbif":
                XMLBIFWriter(bn).__str__()
            elif call == "uai":
                w = UAIWriter(bn)
                s1 = str(w)
                s2 = str(w)
                if s1 != s2:
                    return fail("UAIWriter.__str__ is not repeatable: two calls give different documents", call=call)
            elif call == "to_mn":
                bn.to_markov_model()
            elif call == "to_jt":
                if not conn:
                    continue
                bn.to_junction_tree()
            elif call == "moralize":
                bn.moralize()
            elif call == "predict":
                obs = [v for v in range(n) if v != case["q"][0]]
                if not obs:
                    continue
                bn.predict(df[[pn[v] for v in obs]].head(3), n_jobs=1)
            elif call == "check":
                bn.check_model()
            elif call == "copy":
                c = bn.copy()
                c.add_node("zz_new")
            elif call == "fit_update":
                b2 = bn.copy()
                b2.fit_update(df, n_prev_samples=10)
            elif call == "get_state_prob":
                bn.get_state_probability({qv[0]: gen.lab(labels[case["q"][0]][0])})
        except Exception as e:
            # a failing call must still not mutate its arguments
            extra = f"{type(e).__name__}: {e}"
        if model_snapshot(bn) != s0:
            return fail(f"{call} changed the content of the model it was given" + (f" (call raised {extra})" if isinstance(extra, str) else ""),
                        call=call)
        if not df.equals(d0) or list(df.columns) != list(d0.columns) or list(map(str, df.dtypes)) != list(map(str, d0.dtypes)) or \
                list(df.index) != list(d0.index):
            return fail(f"{call} changed the data frame it was given (dtypes {list(map(str, d0.dtypes))} -> {list(map(str, df.dtypes))})", call=call)
        if evidence != ev0:
            return fail(f"{call} changed the evidence dict it was given", call=call)
    # after all calls the model still answers like the Lean model
    res = VariableElimination(bn).query(qv, evidence=evidence or None, show_progress=False)
    err = compare_factor(res, m["post"], names, card, labels)
    if err:
        return fail("after the call list the model answers differently: " + err)
    return ok(nontrivial=bool(case["edges"]), ncalls=len(case["calls"]))


def c03_connected(n, edges):
    from harness.props.c03 import connected
    return connected(n, edges)


# ----------------------------------------------------------------------------- engine histories
def gen_history(rng, tier):
    case = gen.rand_bn(rng, nmin=2, nmax=5, maxcard=3, name_kind="str", label_kind=rng.choice(["int", "str", "permint"]), mincard=2)
    n = len(case["nodes"])
    qs = []
    for _ in range(rng.randint(2, 8)):
        q = rng.sample(range(n), rng.randint(1, min(2, n)))
        rest = [v for v in range(n) if v not in q]
        ev = rng.sample(rest, min(len(rest), rng.choice([0, 1, 1, 2])))
        kind = rng.choice(["query", "query", "query", "map", "virtual", "invalid", "calibration"])
        item = {"kind": kind, "q": q, "ev": [[v, rng.randrange(case["card"][v])] for v in ev]}
        if kind == "virtual":
            cand = [v for v in range(n) if v not in ev]
            v = rng.choice(cand)
            item["virt"] = [[v, [rs(Fraction(rng.randint(1, 10), 10)) for _ in range(case["card"][v])]]]
        if kind == "invalid":
            item["bad"] = rng.choice(["overlap", "unknown_var", "unknown_state"])
        if kind == "calibration":
            item["which"] = rng.choice(["calibrate", "max_calibrate", "max_calibrate"])
        qs.append(item)
        if kind == "virtual" and rng.random() < .5:
            # the same question again (same query variables, same evidence variables) with ANOTHER likelihood on the same variable
            v0, L0 = item["virt"][0]
            L1 = [rs(Fraction(rng.randint(1, 10), 10)) for _ in L0]
            qs.append({"kind": "virtual", "q": list(q), "ev": [[v, rng.randrange(case["card"][v])] for v in ev] if rng.random() < .5 else
                       [list(e) for e in item["ev"]], "virt": [[v0, L1]]})
        if kind == "calibration" and rng.random() < .6:
            # a calibration pass directly followed by a question about one variable, nothing observed
            qs.append({"kind": rng.choice(["query", "map"]), "q": [rng.randrange(n)], "ev": []})
    case["queries"] = qs
    case["engine"] = rng.choice(["ve", "ve", "bp", "bp"])
    return case


def run_history(case, drv):
    from pgmpy.inference import VariableElimination, BeliefPropagation
    from pgmpy.factors.discrete import TabularCPD
    names, card, labels = case["nodes"], case["card"], case["labels"]
    pn = [gen.lab(x) for x in names]
    n = len(pn)
    if case["engine"] == "bp" and not c03_connected(n, case["edges"]):
        return skip("disconnected network for BP")
    bn = gen.bn_to_pgmpy(case)
    Eng = VariableElimination if case["engine"] == "ve" else BeliefPropagation
    shared = Eng(bn)
    s0 = model_snapshot(bn)
    nvalid = 0
    for i, item in enumerate(case["queries"]):
        q, ev = item["q"], item["ev"]
        qv = [pn[v] for v in q]
        evidence = {pn[v]: gen.lab(labels[v][k]) for v, k in ev}
        kind = item["kind"]
        if kind == "calibration":
            # public calls that leave beliefs behind on the engine; later answers must not depend on them
            if case["engine"] == "bp":
                try:
                    getattr(shared, item["which"])()
                except Exception as e:
                    return fail(f"{item['which']}() on the shared engine raised {type(e).__name__}: {e}", engine=case["engine"])
            continue
        if kind == "invalid":
            bad_ev = dict(evidence)
            if item["bad"] == "overlap":
                bad_ev[qv[0]] = gen.lab(labels[q[0]][0])
            elif item["bad"] == "unknown_var":
                bad_ev["no_such_var"] = 0
            else:
                w = [v for v in range(n) if v not in q]
                if not w:
                    continue
                bad_ev[pn[w[0]]] = "no_such_state"
            try:
                shared.query(qv, evidence=bad_ev, show_progress=False)
            except Exception:
                pass
            continue
        extra = [{"scope": [v], "card": [card[v]], "vals": L} for v, L in item.get("virt", [])]
        m = c01.model_posterior(case, drv, q=q, ev=ev, extra=extra)
        if Fraction(m["pe"]) == 0:
            continue
        kw = {}
        if kind == "virtual":
            if case["engine"] == "bp":
                continue
            kw["virtual_evidence"] = [TabularCPD(pn[v], card[v], [[float(Fraction(x))] for x in L],
                                                 state_names={pn[v]: [gen.lab(l) for l in labels[v]]}) for v, L in item["virt"]]
        try:
            if kind == "map":
                res = shared.map_query(qv, evidence=evidence or None, show_progress=False)
            else:
                res = shared.query(qv, evidence=evidence or None, show_progress=False, **kw)
        except Exception as e:
            return fail(f"query {i} ({kind}) on the shared {case['engine']} engine raised {type(e).__name__}: {e} "
                        f"(history: {[x['kind'] for x in case['queries'][:i]]})", engine=case["engine"])
        nvalid += 1
        if kind == "map":
            from harness.props.c03 import check_assignment
            err = check_assignment(res, case, m, names, card, labels, q)
        else:
            err = compare_factor(res, m["post"], names, card, labels)
        if err:
            return fail(f"query {i} ({kind}) on the shared {case['engine']} engine after {[x['kind'] for x in case['queries'][:i]]}: {err}",
                        engine=case["engine"])
        if model_snapshot(bn) != s0:
            return fail(f"query {i} ({kind}) changed the model bound to the engine", engine=case["engine"])
    return ok(nontrivial=nvalid >= 2 and bool(case["edges"]), engine=case["engine"], nq=len(case["queries"]))


# ----------------------------------------------------------------------------- metamorphic presentations
def gen_meta(rng, tier):
    case = c01.gen_query(rng, tier)
    n = len(case["nodes"])
    case["rename"] = rng.choice(["int", "tuple", "word", "str", "int0"])
    case["sperm"] = []
    for v in range(n):
        p = list(range(case["card"][v]))
        if rng.random() < .5:
            rng.shuffle(p)
        case["sperm"].append(p)
    case["relabel"] = rng.choice(["int", "str", "shiftint", "tuple"])
    case["shuffle"] = rng.random()
    case["backend"] = "torch" if rng.random() < .25 else "numpy"
    case["order"] = rng.choice(["greedy", "MinFill", None])
    return case


def run_meta(case, drv):
    """present the same network with renamed variables, renamed + re-ordered states and shuffled insertion
    order; the answer, read back through the renaming, must be the model's answer for the original."""
    import random
    from pgmpy.inference import VariableElimination
    from pgmpy import config
    n = len(case["nodes"])
    card, labels = case["card"], case["labels"]
    m = c01.model_posterior(case, drv)
    if Fraction(m["pe"]) == 0:
        return skip("P(e)=0")
    rng = random.Random(case["shuffle"])
    newnames = gen.node_names(rng, n, case["rename"])
    # new labels: state k of the new presentation is old state sperm[k], with fresh label names
    newlabels = []
    for v in range(n):
        base = gen.state_labels(rng, card[v], case["relabel"])
        newlabels.append(base)
    # rebuild CPDs in the new presentation
    c2 = {"nodes": newnames, "card": card, "labels": newlabels, "edges": case["edges"], "cpds": []}
    for c in case["cpds"]:
        v, ps = c["child"], list(c["parents"])
        ps2 = list(ps)
        rng.shuffle(ps2)
        pc = [card[p] for p in ps]
        pc2 = [card[p] for p in ps2]
        ncols = 1
        for x in pc2:
            ncols *= x
        table = [[None] * ncols for _ in range(card[v])]
        for j2 in range(ncols):
            idx2 = core.unravel(pc2, j2)
            old = {p: case["sperm"][p][k] for p, k in zip(ps2, idx2)}
            j = core.ravel(pc, [old[p] for p in ps])
            for i2 in range(card[v]):
                table[i2][j2] = c["table"][case["sperm"][v][i2]][j]
        c2["cpds"].append({"child": v, "parents": ps2, "table": table})
    rng.shuffle(c2["cpds"])
    # build with shuffled insertion order
    from pgmpy.models import BayesianNetwork
    pn2 = [gen.lab(x) for x in newnames]
    bn = BayesianNetwork()
    order_nodes = list(range(n))
    rng.shuffle(order_nodes)
    bn.add_nodes_from([pn2[v] for v in order_nodes])
    es = list(case["edges"])
    rng.shuffle(es)
    for u, v in es:
        bn.add_edge(pn2[u], pn2[v])
    for c in c2["cpds"]:
        bn.add_cpds(gen.cpd_to_pgmpy(c2, c))
    inv = [[p.index(k) for k in range(len(p))] for p in case["sperm"]]   # old state -> new index
    evidence = {pn2[v]: gen.lab(newlabels[v][inv[v][i]]) for v, i in case["ev"]}
    tags = dict(rename=case["rename"], relabel=case["relabel"], backend=case["backend"])
    try:
        if case["backend"] == "torch":
            config.set_backend("torch")
            bn = gen.bn_to_pgmpy(c2) if False else bn
            # factors must be rebuilt under the torch backend
            bn2 = BayesianNetwork()
            bn2.add_nodes_from(bn.nodes())
            bn2.add_edges_from(bn.edges())
            for c in c2["cpds"]:
                bn2.add_cpds(gen.cpd_to_pgmpy(c2, c))
            bn = bn2
        try:
            res = VariableElimination(bn).query([pn2[v] for v in case["q"]], evidence=evidence or None,
                                                elimination_order=case["order"], show_progress=False)
        except Exception as e:
            return fail(f"query on the renamed presentation raised {type(e).__name__}: {e}", **tags)
        # read back: value at new labelled assignment (v -> new index) vs model at old index
        post = m["post"]
        for asg in core.all_assignments(post["scope"], post["card"]):
            mv = core.model_value(post, asg)
            new_asg = {v: inv[v][k] for v, k in asg.items()}
            idx = []
            for var in res.variables:
                v = pn2.index(var)
                idx.append(res.name_to_no[var][gen.lab(newlabels[v][new_asg[v]])])
            iv = float(res.values[tuple(idx)])
            if not core.close(iv, mv, 1e-9 if case["backend"] == "numpy" else 1e-6):
                return fail(f"renamed presentation: at {asg} impl {iv} model {float(mv)}", **tags)
    finally:
        if case["backend"] == "torch":
            config.set_backend("numpy")
    return ok(nontrivial=bool(case["edges"]), **tags)


# ----------------------------------------------------------------------------- factor operations: numpy vs torch
def gen_backend_ops(rng, tier):
    n = rng.randint(2, 4)
    card = [rng.choice([2, 2, 3]) for _ in range(n)]
    names = gen.node_names(rng, n, "str")

    def fac():
        k = rng.randint(1, min(3, n))
        sc = rng.sample(range(n), k)
        size = 1
        for v in sc:
            size *= card[v]
        # real-valued tables: negative entries and exact zeros are legal factor values
        vals = [rs(Fraction(rng.choice([0, 0, 1, 2, 3, -1, -2, 5]), rng.choice([1, 2, 4]))) for _ in range(size)]
        return {"scope": sc, "vals": vals}
    return {"nodes": names, "card": card, "labels": [list(range(c)) for c in card], "f": fac(), "g": fac(),
            "op": rng.choice(["divide", "divide", "product", "sum", "marginalize", "maximize", "reduce"])}


def run_backend_ops(case, drv):
    """the same operation on the same tables under the numpy and the torch backend: identical scopes and values, including the sign of
    infinities produced by a division by zero and the 0/0 = 0 convention"""
    import numpy as np
    from pgmpy.global_vars import config
    from pgmpy.utils import compat_fns
    names, card, labels = case["nodes"], case["card"], case["labels"]
    op = case["op"]

    def compute():
        f = gen.factor_to_pgmpy(names, card, labels, case["f"])
        g = gen.factor_to_pgmpy(names, card, labels, case["g"])
        if op in ("divide", "sum", "product"):
            if op == "divide" and not set(g.variables) <= set(f.variables):
                f, g = (g, f) if set(f.variables) <= set(g.variables) else (f.product(g, inplace=False), g)
            r = getattr(f, op)(g, inplace=False)
        elif op in ("marginalize", "maximize"):
            if len(f.variables) < 2:
                return None
            r = getattr(f, op)([f.variables[0]], inplace=False)
        else:
            if len(f.variables) < 2:
                return None
            r = f.reduce([(f.variables[0], 0)], inplace=False)
        vals = np.asarray(compat_fns.to_numpy(r.values), dtype=float)
        order = sorted(range(len(r.variables)), key=lambda i: str(r.variables[i]))
        return [str(r.variables[i]) for i in order], [int(r.cardinality[i]) for i in order], np.transpose(vals, order) if vals.ndim else vals
    tags = dict(op=op)
    try:
        with np.errstate(all="ignore"):
            a = compute()
            config.set_backend("torch")
            try:
                b = compute()
            finally:
                config.set_backend("numpy")
    except Exception as e:
        config.set_backend("numpy")
        return fail(f"{op} raised {type(e).__name__}: {e}", **tags)
    if a is None or b is None:
        return skip("single-variable operand")
    if a[0] != b[0] or a[1] != b[1]:
        return fail(f"{op}: scope under numpy {a[0]} {a[1]}, under torch {b[0]} {b[1]}", **tags)
    va, vb = a[2], b[2]
    if va.shape != vb.shape:
        return fail(f"{op}: shapes differ between the backends", **tags)
    for x, y in zip(va.reshape(-1), vb.reshape(-1)):
        if np.isnan(x) != np.isnan(y) or np.isinf(x) != np.isinf(y) or (np.isinf(x) and np.sign(x) != np.sign(y)) or \
                (np.isfinite(x) and abs(x - y) > 1e-5 * max(1.0, abs(x))):
            return fail(f"{op}: numpy gives {va.reshape(-1).tolist()}, torch gives {vb.reshape(-1).tolist()}", **tags)
    return ok(nontrivial=True, **tags)


# ----------------------------------------------------------------------------- sampling engines with a history
def gen_samp_hist(rng, tier):
    case = gen.rand_bn(rng, nmin=3, nmax=5, maxcard=3, name_kind="str", label_kind=rng.choice(["int", "str", "permint"]), mincard=2, positive=True,
                       shape=rng.choice(["collider", "family", "gnp_dense", "diamond"]))
    n = len(case["nodes"])
    ops = []
    for _ in range(rng.randint(2, 4)):
        api = rng.choice(["forward", "rejection", "lw", "lw", "gibbs", "gibbs_gen"])
        op = {"api": api, "size": rng.choice([2, 5, 60, 60]), "seed": rng.choice([0, 3, rng.randrange(10 ** 6)])}
        if api in ("rejection", "lw"):
            v = rng.randrange(n)
            op["ev"] = [[v, rng.randrange(case["card"][v])]]
        ops.append(op)
    case["ops"] = ops
    return case


def run_samp_hist(case, drv):
    """a sampling engine that has answered other questions gives, for the same seed, exactly the answer of a fresh engine; and the
    start state handed to a Gibbs sampler is the caller's, before and after"""
    from pgmpy.sampling import BayesianModelSampling, GibbsSampling
    from pgmpy.factors.discrete import State
    names, labels = case["nodes"], case["labels"]
    pn = [gen.lab(x) for x in names]
    n = len(names)
    bn = gen.bn_to_pgmpy(case)
    shared_bms, shared_gibbs = BayesianModelSampling(bn), GibbsSampling(bn)
    start = [State(v, 0) for v in shared_gibbs.variables]          # one list object, in the sampler's own order, reused by every call
    start0 = list(start)

    def frame(df):
        cols = sorted(df.columns, key=str)
        return [[str(x) for x in df[c].values] for c in cols], [str(c) for c in cols]

    def ask(bms, gibbs, op, st):
        ev = [State(pn[v], gen.lab(labels[v][s_])) for v, s_ in op.get("ev", [])]
        if op["api"] == "forward":
            return frame(bms.forward_sample(size=op["size"], seed=op["seed"], show_progress=False))
        if op["api"] == "rejection":
            return frame(bms.rejection_sample(evidence=ev, size=op["size"], seed=op["seed"], show_progress=False))
        if op["api"] == "lw":
            return frame(bms.likelihood_weighted_sample(evidence=ev, size=op["size"], seed=op["seed"], show_progress=False))
        if op["api"] == "gibbs":
            return frame(gibbs.sample(start_state=st, size=op["size"], seed=op["seed"]))
        rows = [sorted((str(s_.var), str(s_.state)) for s_ in state) for state in gibbs.generate_sample(start_state=st, size=op["size"], seed=op["seed"])]
        return rows, []
    for i, op in enumerate(case["ops"]):
        tags = dict(api=op["api"], step=i)
        try:
            got = ask(shared_bms, shared_gibbs, op, start)
            ref = ask(BayesianModelSampling(gen.bn_to_pgmpy(case)), GibbsSampling(gen.bn_to_pgmpy(case)), op, list(start0))
        except Exception as e:
            return fail(f"step {i} {op['api']} raised {type(e).__name__}: {e}", **tags)
        if start != start0:
            return fail(f"step {i} {op['api']}: the caller's start_state list was modified: {start0} -> {start}", **tags)
        if got != ref:
            return fail(f"step {i} {op['api']}(seed={op['seed']}, size={op['size']}): the engine with a history ({[o['api'] for o in case['ops'][:i]]}) "
                        f"and a fresh engine give different samples for the same seed", **tags)
    return ok(nontrivial=True, nops=len(case["ops"]))


STREAMS = [
    Stream("purity", gen_purity, run_purity, quick=250, thorough=2500),
    Stream("engine_history", gen_history, run_history, quick=500, thorough=5000),
    Stream("metamorphic", gen_meta, run_meta, quick=700, thorough=8000),
    Stream("backend_ops", gen_backend_ops, run_backend_ops, quick=500, thorough=5000),
    Stream("sampler_history", gen_samp_hist, run_samp_hist, quick=150, thorough=1500),
]
