"""C20 — linear-Gaussian models agree with multivariate-normal algebra."""
from __future__ import annotations

from fractions import Fraction

from harness import core, gen
from harness.core import ok, fail, skip, rs
from harness.worker import Stream

OBLIGATIONS = [
    "PgmVerif.C20_cov_fixed_point", "PgmVerif.C20_cov_unique", "PgmVerif.C20_conditional_is_schur", "PgmVerif.C20_precision_block",
    "PgmVerif.C20_round_tie",
]
PARTIAL = ["the theorems are about Mathlib matrices over a field; the executable Gauss-Jordan inverse of the model is not proved correct in "
           "general - it validates A * inv(A) = I exactly on every call, and the implementation is compared with it",
           "numpy inv / lstsq / sklearn LinearRegression numerics and the 8-decimal rounding of to_joint_gaussian: tolerance 1e-6"]
RULE = ("DAGs of 1-6 nodes with rational coefficients and positive variances, every split observed/missing (>= 2 missing in most cases), "
        "data of full column rank for fit; Gaussian distributions built from such networks for marginalise / reduce / canonical form / "
        "product; non-trivial = at least one edge and (for predict) >= 2 missing variables; distinct = case JSON"
        " Also: simulate (moments, reproducibility), LinearGaussianCPD.fit with permuted columns, model histories (replace CPD / refit), data far from the origin.")
ASSUMPTIONS = ["residual variance is the unbiased sample variance of the residuals (pandas .var(), ddof=1), as the implementation documents by construction"]
BUDGET_QUICK = 70
LEVEL_TEXT = ("Kernel-checked (Mathlib matrices over a field): Sigma = (I-B)^-T Omega (I-B)^-1 is the unique solution of "
              "(I-B)^T Sigma (I-B) = Omega; the conditional covariance of a block is the Schur complement on SUB-MATRICES and its inverse is "
              "the corresponding block of the precision matrix. The executable model (exact rational Gauss-Jordan, validated on every call) "
              "computes joint mean / covariance, conditional mean / covariance for any missing set, and least-squares fits; "
              "to_joint_gaussian, predict, fit and GaussianDistribution marginalise / reduce / canonical form / product are compared with "
              "it (tolerance 1e-6).")
LEVEL_NOTE = "Trusted: Lean kernel + standard axioms; model; harness; numpy/sklearn linear algebra."
TECHNIQUE = "Lean 4 proof (covariance fixed point, Schur complement) + differential check against an exact rational linear-algebra model"
TOL = 1e-6
ROUND_EPS = 1e-7   # 20 x the half-ulp (5e-9) of the 8-decimal rounding in to_joint_gaussian, times the amplification computed per case


def gen_lg(rng, tier):
    n = rng.randint(1, 6)
    names = gen.node_names(rng, n, rng.choice(["str", "word"]))
    shape, edges = gen.rand_dag_edges(rng, n)
    order = gen.topo_order(n, [tuple(e) for e in edges])
    b0 = [Fraction(rng.randint(-8, 8), rng.choice([1, 2, 4])) for _ in range(n)]
    var = [Fraction(rng.randint(1, 12), rng.choice([1, 2, 4])) for _ in range(n)]
    w = {f"{u},{v}": rs(Fraction(rng.randint(-6, 6), rng.choice([1, 2, 3])) or Fraction(1, 2)) for u, v in edges}
    return {"nodes": names, "edges": [list(e) for e in edges], "order": order, "b0": [rs(x) for x in b0], "var": [rs(x) for x in var], "w": w,
            "perm_seed": rng.randrange(10 ** 6)}


def build_lg(case):
    from pgmpy.models import LinearGaussianBayesianNetwork
    from pgmpy.factors.continuous import LinearGaussianCPD
    import random
    names = case["nodes"]
    prng = random.Random(case.get("perm_seed", 0))
    m = LinearGaussianBayesianNetwork()
    m.add_nodes_from(names)
    el = [(names[u], names[v]) for u, v in case["edges"]]
    prng.shuffle(el)                    # the order in which edges are inserted ...
    m.add_edges_from(el)
    for v in range(len(names)):
        ps = [u for u, w in case["edges"] if w == v]
        prng.shuffle(ps)                # ... is unrelated to the order in which a CPD lists its parents
        m.add_cpds(LinearGaussianCPD(names[v], [float(Fraction(case["b0"][v]))] + [float(Fraction(case["w"][f"{u},{v}"])) for u in ps],
                                     float(Fraction(case["var"][v])), [names[u] for u in ps]))
    return m


def model_joint(case, drv):
    """mean / covariance in the model's own topological numbering `order`"""
    order = case["order"]
    n = len(order)
    pos = {v: i for i, v in enumerate(order)}
    coef = [["0"] * n for _ in range(n)]
    for u, v in case["edges"]:
        coef[pos[v]][pos[u]] = case["w"][f"{u},{v}"]
    r = drv.call("lg_joint", n=n, b0=[case["b0"][v] for v in order], coef=coef, var=[case["var"][v] for v in order])
    return r, pos


def gen_joint(rng, tier):
    case = gen_lg(rng, tier)
    n = len(case["nodes"])
    if n >= 2 and rng.random() < .15:
        # variables on very different scales (a micro-scale sensor next to a macro-scale one, a large gain on an edge): the observed
        # covariance is badly conditioned but positive definite, and conditioning on it is still well defined
        vs = rng.sample(range(n), 2)
        case["var"][vs[0]] = rs(Fraction(1, 10 ** 6))
        case["var"][vs[1]] = rs(Fraction(10 ** 4))
        for key in list(case["w"]):
            u, v = map(int, key.split(","))
            if u == vs[0]:
                case["w"][key] = rs(Fraction(rng.choice([1000, -1000, 500])))
        case["scales"] = True
    miss = rng.sample(range(n), rng.randint(1, max(1, n - 1))) if n > 1 else []
    case["missing"] = miss
    case["rows"] = [[rs(Fraction(rng.randint(-10, 10), 2)) for _ in range(n)] for _ in range(rng.randint(1, 3))]
    return case


def run_joint(case, drv):
    import numpy as np
    import pandas as pd
    names = case["nodes"]
    n = len(names)
    m = build_lg(case)
    r, pos = model_joint(case, drv)
    try:
        mean, cov = m.to_joint_gaussian()
        import networkx as nx
        topo = list(nx.topological_sort(m))
    except Exception as e:
        return fail(f"to_joint_gaussian raised {type(e).__name__}: {e}")
    idx = {nm: i for i, nm in enumerate(topo)}
    for v in range(n):
        if abs(mean[idx[names[v]]] - float(Fraction(r["mean"][pos[v]]))) > TOL:
            return fail(f"joint mean of {names[v]}: {mean[idx[names[v]]]} vs structural-equation value {float(Fraction(r['mean'][pos[v]]))}")
        for u in range(n):
            got = cov[idx[names[v]], idx[names[u]]]
            exp = float(Fraction(r["cov"][pos[v]][pos[u]]))
            if abs(got - exp) > TOL * max(1, abs(exp)):
                return fail(f"joint covariance ({names[v]},{names[u]}): {got} vs (I-B)^-T Omega (I-B)^-1 = {exp}")
    miss = case["missing"]
    tags = dict(n=n, nmissing=len(miss))
    if miss and len(miss) < n:
        obs = [v for v in range(n) if v not in miss]
        df = pd.DataFrame([[float(Fraction(row[v])) for v in obs] for row in case["rows"]], columns=[names[v] for v in obs])
        try:
            vars_, mu_c, cov_c = m.predict(df)
        except Exception as e:
            return fail(f"predict raised {type(e).__name__}: {e}", **tags)
        if set(vars_) != {names[v] for v in miss}:
            return fail(f"predict returned variables {vars_}", **tags)
        a = [pos[names.index(x)] for x in vars_]
        b = [pos[v] for v in obs]
        # to_joint_gaussian rounds the joint to 8 decimals before predict conditions on it; a perturbation eps of every entry
        # of (mu, Sigma) moves the conditional mean by at most eps (1+|S^-1 d|_1)(1+|A S^-1|_inf) and the conditional
        # covariance by at most eps (1+|A S^-1|_inf)^2 (first order), so the tolerance carries that amplification.
        Mf = np.array([float(Fraction(x)) for x in r["mean"]])
        Cf = np.array([[float(Fraction(x)) for x in rw] for rw in r["cov"]])
        Sinv = np.linalg.pinv(Cf[np.ix_(b, b)])
        AS = Cf[np.ix_(a, b)] @ Sinv
        amp_c = (1 + np.abs(AS).sum(axis=1).max()) ** 2
        # float64 inversion of S: relative error ~ cond(S) * 2^-53 on A S^-1 A^T and A S^-1 d (backward-stable solve), x10 safety
        kappa = float(np.linalg.cond(Cf[np.ix_(b, b)]))
        fl_c = 1e-15 * kappa * (np.abs(AS @ Cf[np.ix_(b, a)]).max() + np.abs(Cf[np.ix_(a, a)]).max())
        for k, row in enumerate(case["rows"]):
            mc = drv.call("gauss_condition", mean=r["mean"], cov=r["cov"], a=a, b=b, xb=[row[v] for v in obs])
            if not mc["inv_ok"]:
                return fail("MODEL: Gauss-Jordan inverse failed its own A*inv(A)=I validation")
            dvec = np.array([float(Fraction(row[v])) for v in obs]) - Mf[b]
            amp_m = (1 + np.abs(Sinv @ dvec).sum()) * (1 + np.abs(AS).sum(axis=1).max())
            fl_m = 1e-15 * kappa * float((np.abs(AS) @ np.abs(dvec)).max())
            for i in range(len(a)):
                if abs(mu_c[k][i] - float(Fraction(mc["mean"][i]))) > TOL * max(1, abs(float(Fraction(mc["mean"][i])))) + ROUND_EPS * amp_m + fl_m:
                    return fail(f"predict: conditional mean of {vars_[i]} = {mu_c[k][i]}, Gaussian conditioning gives "
                                f"{float(Fraction(mc['mean'][i]))} (missing {vars_})", **tags)
                for j in range(len(a)):
                    exp = float(Fraction(mc["cov"][i][j]))
                    if abs(cov_c[i][j] - exp) > TOL * max(1, abs(exp)) + ROUND_EPS * amp_c + fl_c:
                        return fail(f"predict: conditional covariance ({vars_[i]},{vars_[j]}) = {cov_c[i][j]}, Schur complement gives {exp} "
                                    f"(missing {vars_})", **tags)
    return ok(nontrivial=bool(case["edges"]) and len(miss) >= 2, **tags)


# ----------------------------------------------------------------------------- fit
def gen_fit(rng, tier):
    case = gen_lg(rng, tier)
    n = len(case["nodes"])
    N = rng.randint(n + 4, 30)
    case["data"] = [[rs(Fraction(rng.randint(-20, 20), 2)) for _ in range(n)] for _ in range(N)]
    if rng.random() < .25:
        # data far from the origin relative to its spread (sensor readings around 1e6 +- 10): least squares is still well posed
        off = [Fraction(rng.choice([10 ** 5, 10 ** 6, -10 ** 6, 3 * 10 ** 5])) for _ in range(n)]
        case["data"] = [[rs(Fraction(x) + off[v]) for v, x in enumerate(row)] for row in case["data"]]
        case["far"] = True
    case["index"] = rng.choice(["range", "range", "shuffled", "offset", "str"])       # least squares does not depend on row labels
    return case


def run_fit(case, drv):
    import pandas as pd
    names = case["nodes"]
    n = len(names)
    from pgmpy.models import LinearGaussianBayesianNetwork
    m = LinearGaussianBayesianNetwork()
    m.add_nodes_from(names)
    m.add_edges_from([(names[u], names[v]) for u, v in case["edges"]])
    df = pd.DataFrame([[float(Fraction(x)) for x in row] for row in case["data"]], columns=names)
    ik = case.get("index", "range")
    if ik == "shuffled":
        import random
        lab = list(range(len(df)))
        random.Random(len(df) * 7 + n).shuffle(lab)
        df.index = lab                         # same rows, permuted labels
    elif ik == "offset":
        df.index = [3 * i + 5 for i in range(len(df))]
    elif ik == "str":
        df.index = ["r%d" % i for i in range(len(df))]
    try:
        m.fit(df)
    except Exception as e:
        return fail(f"fit raised {type(e).__name__}: {e}")
    N = len(case["data"])
    for v in range(n):
        cpd = m.get_cpds(names[v])
        if cpd is None:
            return fail(f"fit: no CPD for {names[v]}")
        ps = [names.index(p) for p in cpd.evidence]
        if set(ps) != {u for u, w in case["edges"] if w == v}:
            return fail(f"fit: CPD of {names[v]} has evidence {cpd.evidence}")
        r = drv.call("ols", xs=[[row[p] for p in ps] for row in case["data"]], ys=[row[v] for row in case["data"]])
        if r is None:
            return skip("rank-deficient design")
        beta = [Fraction(x) for x in r["beta"]]
        got = [float(x) for x in cpd.mean]
        if len(got) != len(beta) or any(abs(a - float(b)) > TOL * max(1, abs(float(b))) for a, b in zip(got, beta)):
            return fail(f"fit: coefficients of {names[v]} | {cpd.evidence}: {got}, least squares gives {[float(b) for b in beta]}")
        exp_var = float(Fraction(r["rss"]) / (N - 1))
        if abs(float(cpd.variance) - exp_var) > TOL * max(1, abs(exp_var)):
            return fail(f"fit: residual variance of {names[v]}: {cpd.variance}, RSS/(N-1) = {exp_var}")
    return ok(nontrivial=bool(case["edges"]), n=n)


# ----------------------------------------------------------------------------- GaussianDistribution
def gen_gd(rng, tier):
    case = gen_lg(rng, tier)
    n = len(case["nodes"])
    if n < 2:
        return None
    case["op"] = rng.choice(["marginalize", "marginalize", "reduce", "reduce", "canonical", "product", "canon_ops", "canon_ops"])
    case["prime"] = rng.choice(["none", "none", "precision", "canonical", "copy_precision"])     # what was asked of the object before
    case["inplace"] = rng.random() < .4       # operate in place while other objects were built from the same list of names
    sub = rng.sample(range(n), rng.randint(1, n - 1))
    case["sub"] = sub
    case["vals"] = [rs(Fraction(rng.randint(-8, 8), 2)) for _ in sub]
    return case


def run_gd(case, drv):
    import numpy as np
    from pgmpy.factors.distributions import GaussianDistribution
    names = case["nodes"]
    n = len(names)
    r, pos = model_joint(case, drv)
    order = case["order"]
    mean = [float(Fraction(x)) for x in r["mean"]]
    cov = [[float(Fraction(x)) for x in row] for row in r["cov"]]
    vars_ = [names[v] for v in order]
    gd = GaussianDistribution(vars_, mean, cov)
    op = case["op"]
    sub = [pos[v] for v in case["sub"]]
    keep = [i for i in range(n) if i not in sub]
    tags = dict(op=op, n=n, nsub=len(sub), prime=case.get("prime", "none"))
    if op == "canon_ops":
        return run_canon_ops(case, names, n)
    try:
        # a history on ONE object: reading derived quantities first must not change what later operations return
        if case.get("prime") == "precision":
            gd.precision_matrix
        elif case.get("prime") == "canonical":
            gd.to_canonical_factor()
        elif case.get("prime") == "copy_precision":
            gd.precision_matrix
            gd = gd.copy()
        siblings = None
        if case.get("inplace") and op in ("marginalize", "reduce"):
            # a second distribution built from the SAME list object, and a canonical form derived from the first one: an in-place
            # operation on `gd` must leave them (and the caller's list) alone
            shared = list(vars_)
            gd = GaussianDistribution(shared, mean, cov)
            twin = GaussianDistribution(shared, mean, cov)
            canon = gd.to_canonical_factor()
            siblings = (shared, twin, canon)
        if op == "marginalize":
            if siblings:
                gd.marginalize([vars_[i] for i in sub], inplace=True)
                res = gd
            else:
                res = gd.marginalize([vars_[i] for i in sub], inplace=False)
            exp_mean = [mean[i] for i in keep]
            exp_cov = [[cov[i][j] for j in keep] for i in keep]
        elif op == "reduce":
            if siblings:
                gd.reduce([(vars_[i], float(Fraction(x))) for i, x in zip(sub, case["vals"])], inplace=True)
                res = gd
            else:
                res = gd.reduce([(vars_[i], float(Fraction(x))) for i, x in zip(sub, case["vals"])], inplace=False)
            mc = drv.call("gauss_condition", mean=r["mean"], cov=r["cov"], a=keep, b=sub, xb=case["vals"])
            exp_mean = [float(Fraction(x)) for x in mc["mean"]]
            exp_cov = [[float(Fraction(x)) for x in row] for row in mc["cov"]]
        elif op == "canonical":
            cf = gd.to_canonical_factor()
            inv = drv.call("mat_inverse", a=r["cov"])
            if inv is None or not inv["ok"]:
                return skip("singular covariance")
            K = [[float(Fraction(x)) for x in row] for row in inv["inv"]]
            h = [sum(K[i][j] * mean[j] for j in range(n)) for i in range(n)]
            kc = float(np.linalg.cond(np.asarray(cov, dtype=float)))
            if np.abs(np.asarray(cf.K) - np.asarray(K)).max() > (1e-6 + 1e-14 * kc) * max(1, np.abs(K).max()):
                return fail("to_canonical_factor: K is not the inverse covariance", **tags)
            if np.abs(np.asarray(cf.h).reshape(-1) - np.asarray(h)).max() > (1e-6 + 1e-14 * kc) * max(1, np.abs(h).max()):
                return fail("to_canonical_factor: h is not K mu", **tags)
            back = cf.to_joint_gaussian()
            res, exp_mean, exp_cov, keep = back, mean, cov, list(range(n))
        else:
            if n >= 2 and (len(sub) + n) % 2:
                # two Gaussians over the SAME variables, listed in different orders: precisions and information vectors add, aligned by name
                from pgmpy.factors.distributions import GaussianDistribution as GD_
                perm_ = list(range(n))[1:] + [0] if n > 2 else [1, 0]
                d2 = [1.0 + 0.5 * i for i in range(n)]                # second factor: independent components, by variable index
                mu2 = [0.5 * i - 1.0 for i in range(n)]
                g2 = GD_([vars_[i] for i in perm_], [[mu2[i]] for i in perm_], [[d2[i] if i == j else 0.0 for j in perm_] for i in perm_])
                res = gd * g2
                K1 = np.linalg.inv(np.asarray(cov, dtype=float))
                K2 = np.diag([1.0 / x for x in d2])
                Cn = np.linalg.inv(K1 + K2)
                mn_ = Cn @ (K1 @ np.asarray(mean, dtype=float) + K2 @ np.asarray(mu2))
                idx = [res.variables.index(x) for x in vars_]
                rm = np.asarray(res.mean).reshape(-1)[idx]
                rc = np.asarray(res.covariance)[np.ix_(idx, idx)]
                tol_ = (1e-6 + 1e-13 * np.linalg.cond(np.asarray(cov, dtype=float))) * max(1.0, float(np.abs(Cn).max()), float(np.abs(mn_).max()))
                if np.abs(rm - mn_).max() > tol_ or np.abs(rc - Cn).max() > tol_:
                    return fail(f"product of two Gaussians over the same variables (second listed as {[vars_[i] for i in perm_]}): mean {rm} cov {rc}; "
                                f"adding precisions and information vectors by variable name gives mean {mn_} cov {Cn}", **tags)
                return ok(nontrivial=True, **tags)
            # product of the marginal over `keep` with itself-conditionally... use two marginals over disjoint blocks: independent product
            a = gd.marginalize([vars_[i] for i in sub], inplace=False)
            b = gd.marginalize([vars_[i] for i in keep], inplace=False)
            res = a * b
            order2 = [vars_[i] for i in keep] + [vars_[i] for i in sub]
            exp_mean = [mean[i] for i in keep] + [mean[i] for i in sub]
            blk = keep + sub
            exp_cov = [[cov[i][j] if ((i in keep) == (j in keep)) else 0.0 for j in blk] for i in blk]
            idx = [res.variables.index(x) for x in order2]
            rm = np.asarray(res.mean).reshape(-1)[idx]
            rc = np.asarray(res.covariance)[np.ix_(idx, idx)]
            if np.abs(rm - np.asarray(exp_mean)).max() > 1e-6 * max(1, np.abs(exp_mean).max()) or \
                    np.abs(rc - np.asarray(exp_cov)).max() > 1e-6 * max(1, np.abs(exp_cov).max()):
                return fail(f"product of two Gaussians over disjoint variables is not the block-diagonal joint: mean {rm} cov {rc}", **tags)
            return ok(nontrivial=True, **tags)
    except Exception as e:
        return fail(f"GaussianDistribution.{op} raised {type(e).__name__}: {e}", **tags)
    if list(res.variables) != [vars_[i] for i in keep]:
        return fail(f"{op}: variables {res.variables}", **tags)
    if siblings:
        shared, twin, canon = siblings
        if shared != list(vars_):
            return fail(f"in-place {op} changed the caller's list of variable names to {shared}", **tags)
        if list(twin.variables) != list(vars_) or np.asarray(twin.mean).reshape(-1).shape[0] != n or np.asarray(twin.covariance).shape != (n, n):
            return fail(f"in-place {op} on one distribution changed another distribution built from the same names: {twin.variables}", **tags)
        if list(canon.variables) != list(vars_) or np.asarray(canon.K).shape != (n, n):
            return fail(f"in-place {op} changed the canonical factor derived earlier: variables {canon.variables}", **tags)
    rm = np.asarray(res.mean).reshape(-1)
    rc = np.asarray(res.covariance)
    # float64 inversion of the conditioned / whole covariance: relative error ~ cond * 2^-53 (x10 safety), as for predict
    fl_m = fl_c = 0.0
    Cf = np.asarray(cov, dtype=float)
    if op == "reduce":
        S = Cf[np.ix_(sub, sub)]
        kappa = float(np.linalg.cond(S))
        AS = Cf[np.ix_(keep, sub)] @ np.linalg.pinv(S)
        dvec = np.array([float(Fraction(x)) for x in case["vals"]]) - np.asarray(mean)[sub]
        fl_c = 1e-15 * kappa * (np.abs(AS @ Cf[np.ix_(sub, keep)]).max() + np.abs(Cf[np.ix_(keep, keep)]).max())
        fl_m = 1e-15 * kappa * float((np.abs(AS) @ np.abs(dvec)).max())
    elif op == "canonical":
        kappa = float(np.linalg.cond(Cf))
        fl_c = 1e-15 * kappa * np.abs(Cf).max()
        fl_m = 1e-15 * kappa * np.abs(np.asarray(mean)).max()
    if np.abs(rm - np.asarray(exp_mean)).max() > 1e-6 * max(1, np.abs(exp_mean).max()) + fl_m:
        return fail(f"{op}: mean {rm} vs {exp_mean}", **tags)
    if np.abs(rc - np.asarray(exp_cov)).max() > 1e-6 * max(1, np.abs(exp_cov).max()) + fl_c:
        return fail(f"{op}: covariance {rc.tolist()} vs {exp_cov}", **tags)
    if op in ("marginalize", "reduce"):
        # derived quantities of the result must describe the same density: precision = covariance^-1, K = precision, h = K mu
        inv = drv.call("mat_inverse", a=[[rs(Fraction(x).limit_denominator(10 ** 12)) for x in row] for row in exp_cov])
        if inv is not None and inv["ok"]:
            Kx = np.array([[float(Fraction(x)) for x in row] for row in inv["inv"]])
            cond = float(np.linalg.cond(np.asarray(exp_cov, dtype=float)))
            # plus the error the result's covariance inherited from the operation itself: dK ~ K dSigma K
            tolK = 1e-6 * max(1, np.abs(Kx).max()) + 1e-13 * cond * np.abs(Kx).max() + len(Kx) * np.abs(Kx).max() ** 2 * fl_c
            try:
                pm = np.asarray(res.precision_matrix, dtype=float)
                cf = res.to_canonical_factor()
            except Exception as e:
                return fail(f"{op}: precision_matrix / to_canonical_factor of the result raised {type(e).__name__}: {e}", **tags)
            if pm.shape != Kx.shape or np.abs(pm - Kx).max() > tolK:
                return fail(f"{op} (after {case.get('prime')}): precision_matrix of the result {pm.tolist()} is not the inverse of its covariance {Kx.tolist()}", **tags)
            if np.abs(np.asarray(cf.K, dtype=float) - Kx).max() > tolK:
                return fail(f"{op} (after {case.get('prime')}): canonical K of the result is not the inverse of its covariance", **tags)
    return ok(nontrivial=len(sub) >= 1, **tags)


def run_canon_ops(case, names, n):
    """product / divide of two canonical factors whose scopes overlap and are listed in unrelated orders: in information form the
    parameters add (subtract) variable by variable - K, h are assembled BY NAME with exact rationals"""
    import random
    import numpy as np
    from pgmpy.factors.distributions.CanonicalDistribution import CanonicalDistribution
    prng = random.Random(case.get("perm_seed", 0) + 17)
    pool = list(names) + ["extra"]
    k1 = prng.randint(1, min(3, len(pool)))
    v1 = prng.sample(pool, k1)
    shared = prng.sample(v1, prng.randint(1, len(v1)))
    others = [x for x in pool if x not in v1]
    v2 = shared + prng.sample(others, prng.randint(0, min(2, len(others))))
    prng.shuffle(v2)

    def rand_sym(k):
        A = [[Fraction(prng.randint(-3, 3), prng.choice([1, 2])) for _ in range(k)] for _ in range(k)]
        return [[sum(A[t][i] * A[t][j] for t in range(k)) + (1 if i == j else 0) for j in range(k)] for i in range(k)]
    K1, K2 = rand_sym(len(v1)), rand_sym(len(v2))
    h1 = [Fraction(prng.randint(-6, 6), 2) for _ in v1]
    h2 = [Fraction(prng.randint(-6, 6), 2) for _ in v2]
    g1, g2 = Fraction(prng.randint(-4, 4), 2), Fraction(prng.randint(-4, 4), 2)
    opn = prng.choice(["product", "divide", "mul"])
    sign = -1 if opn == "divide" else 1
    tags = dict(op="canon_" + opn, n1=len(v1), n2=len(v2), same_scope=set(v1) == set(v2))
    try:
        f1 = CanonicalDistribution(list(v1), np.array([[float(x) for x in r] for r in K1]), np.array([[float(x)] for x in h1]), float(g1))
        f2 = CanonicalDistribution(list(v2), np.array([[float(x) for x in r] for r in K2]), np.array([[float(x)] for x in h2]), float(g2))
        snap = (list(f2.variables), np.array(f2.K, dtype=float).copy(), np.array(f2.h, dtype=float).copy())
        res = f1 * f2 if opn == "mul" else getattr(f1, opn)(f2, inplace=False)
    except Exception as e:
        return fail(f"CanonicalDistribution {opn} of {v1} and {v2} raised {type(e).__name__}: {e}", **tags)
    allv = list(dict.fromkeys(list(v1) + list(v2)))
    if set(res.variables) != set(allv):
        return fail(f"canonical {opn}: scope {res.variables}, expected the union {allv}", **tags)
    Kx = {(a, b): Fraction(0) for a in allv for b in allv}
    hx = {a: Fraction(0) for a in allv}
    for i, a in enumerate(v1):
        hx[a] += h1[i]
        for j, b in enumerate(v1):
            Kx[(a, b)] += K1[i][j]
    for i, a in enumerate(v2):
        hx[a] += sign * h2[i]
        for j, b in enumerate(v2):
            Kx[(a, b)] += sign * K2[i][j]
    rv = list(res.variables)
    RK = np.asarray(res.K, dtype=float)
    Rh = np.asarray(res.h, dtype=float).reshape(-1)
    for i, a in enumerate(rv):
        if abs(Rh[i] - float(hx[a])) > 1e-9 * max(1, abs(float(hx[a]))):
            return fail(f"canonical {opn} of {v1} and {v2}: h[{a}] = {Rh[i]}, information form gives {float(hx[a])}", **tags)
        for j, b in enumerate(rv):
            if abs(RK[i, j] - float(Kx[(a, b)])) > 1e-9 * max(1, abs(float(Kx[(a, b)]))):
                return fail(f"canonical {opn} of {v1} and {v2}: K[{a},{b}] = {RK[i, j]}, information form gives {float(Kx[(a, b)])}", **tags)
    if abs(float(res.g) - float(g1 + sign * g2)) > 1e-9:
        return fail(f"canonical {opn}: g = {res.g}, expected {float(g1 + sign * g2)}", **tags)
    if list(f2.variables) != snap[0] or np.abs(np.asarray(f2.K, dtype=float) - snap[1]).max() > 0 or np.abs(np.asarray(f2.h, dtype=float) - snap[2]).max() > 0:
        return fail(f"canonical {opn} modified its second operand", **tags)
    return ok(nontrivial=len(allv) >= 2, **tags)


# ----------------------------------------------------------------------------- LinearGaussianCPD.fit
def gen_cpdfit(rng, tier):
    k = rng.randint(0, 3)
    N = rng.randint(k + 5, 25)
    ev = gen.node_names(rng, k, "word") if k else []
    order = list(range(k + 1))          # column order of the data / of `states`: position 0 is (Y|X)
    rng.shuffle(order)
    return {"k": k, "evidence": ev, "order": order, "extra": rng.random() < .3, "frame": rng.random() < .5,
            "data": [[rs(Fraction(rng.randint(-20, 20), 2)) for _ in range(k + 1)] for _ in range(N)]}


def run_cpdfit(case, drv):
    """LinearGaussianCPD.fit(data, states, 'MLE'): intercept, one slope per parent IN THE ORDER OF cpd.evidence, and the maximum-
    likelihood residual standard deviation sqrt(RSS / N) - whatever order the columns of the data are listed in"""
    import numpy as np
    import pandas as pd
    from pgmpy.factors.continuous import LinearGaussianCPD
    k, ev = case["k"], case["evidence"]
    N = len(case["data"])
    cols_all = ["(Y|X)"] + list(ev)
    cols = [cols_all[i] for i in case["order"]]
    rows = [[float(Fraction(r[i])) for i in case["order"]] for r in case["data"]]
    if case["extra"]:
        cols = cols + ["unrelated"]
        rows = [r + [float(j % 3)] for j, r in enumerate(rows)]
    cpd = LinearGaussianCPD("Y", [0.0] * (k + 1), 1.0, list(ev))
    data = pd.DataFrame(rows, columns=cols) if case["frame"] else np.array(rows)
    r = drv.call("ols", xs=[[row[i + 1] for i in range(k)] for row in case["data"]], ys=[row[0] for row in case["data"]])
    if r is None:
        return skip("rank-deficient design")
    tags = dict(k=k, permuted=case["order"] != sorted(case["order"]), frame=case["frame"])
    try:
        with np.errstate(all="ignore"):
            beta, sigma = cpd.fit(data, states=cols, estimator="MLE")
    except Exception as e:
        return fail(f"LinearGaussianCPD.fit raised {type(e).__name__}: {e}", **tags)
    exp = [float(Fraction(x)) for x in r["beta"]]
    got = [float(x) for x in np.asarray(beta).reshape(-1)]
    scale = max(1.0, max(abs(x) for x in exp))
    if len(got) != len(exp) or any(abs(a - b) > 1e-6 * scale for a, b in zip(got, exp)):
        return fail(f"LinearGaussianCPD.fit: coefficients {got} for evidence {ev} (columns listed as {cols}); least squares gives {exp}", **tags)
    rss = float(Fraction(r["rss"]))
    if rss / N > 1e-6:
        if abs(float(sigma) - (rss / N) ** .5) > 1e-5 * max(1.0, (rss / N) ** .5):
            return fail(f"LinearGaussianCPD.fit: sigma {float(sigma)}, sqrt(RSS / N) = {(rss / N) ** .5}", **tags)
    return ok(nontrivial=k >= 2, **tags)


# ----------------------------------------------------------------------------- one model object, a history of edits and queries
def gen_lghist(rng, tier):
    case = gen_lg(rng, tier)
    n = len(case["nodes"])
    steps = []
    for _ in range(rng.randint(2, 4)):
        kind = rng.choice(["joint", "predict", "simulate", "replace", "replace", "refit"])
        if kind == "replace":
            v = rng.randrange(n)
            ps = [u for u, w in case["edges"] if w == v]
            steps.append({"op": "replace", "v": v, "b0": rs(Fraction(rng.randint(-8, 8), 2)), "var": rs(Fraction(rng.randint(1, 12), 2)),
                          "w": {str(u): rs(Fraction(rng.randint(-6, 6), 2)) for u in ps}})
        elif kind == "refit":
            N = rng.randint(n + 4, 16)
            steps.append({"op": "refit", "data": [[rs(Fraction(rng.randint(-20, 20), 2)) for _ in range(n)] for _ in range(N)]})
        else:
            steps.append({"op": kind})
    steps.append({"op": rng.choice(["joint", "predict"])})
    case["steps"] = steps
    case["obs"] = rng.sample(range(n), rng.randint(1, max(1, n - 1))) if n > 1 else []
    return case


def run_lghist(case, drv):
    """the joint / prediction always describes the CURRENT structural equations: after a CPD has been replaced (add_cpds on a node that
    already has one) or the model has been fitted again, nothing computed earlier may be served"""
    import numpy as np
    import pandas as pd
    import networkx as nx
    from pgmpy.factors.continuous import LinearGaussianCPD
    names = case["nodes"]
    n = len(names)
    m = build_lg(case)
    cur = {"b0": list(case["b0"]), "var": list(case["var"]), "w": dict(case["w"])}

    def expected():
        c2 = dict(case)
        c2.update(b0=cur["b0"], var=cur["var"], w=cur["w"])
        return model_joint(c2, drv)
    for i, st_ in enumerate(case["steps"]):
        op = st_["op"]
        tags = dict(n=n, step=i, op=op)
        try:
            if op == "replace":
                v = st_["v"]
                ps = [u for u, w in case["edges"] if w == v]
                m.add_cpds(LinearGaussianCPD(names[v], [float(Fraction(st_["b0"]))] + [float(Fraction(st_["w"][str(u)])) for u in ps],
                                             float(Fraction(st_["var"])), [names[u] for u in ps]))
                cur["b0"][v], cur["var"][v] = st_["b0"], st_["var"]
                for u in ps:
                    cur["w"][f"{u},{v}"] = st_["w"][str(u)]
                continue
            if op == "refit":
                df = pd.DataFrame([[float(Fraction(x)) for x in row] for row in st_["data"]], columns=names)
                N = len(st_["data"])
                newp = {"b0": [None] * n, "var": [None] * n, "w": {}}
                bad = False
                for v in range(n):
                    ps = [u for u, w in case["edges"] if w == v]
                    r = drv.call("ols", xs=[[row[p] for p in ps] for row in st_["data"]], ys=[row[v] for row in st_["data"]])
                    if r is None or Fraction(r["rss"]) <= 0:
                        bad = True
                        break
                    newp["b0"][v] = r["beta"][0]
                    newp["var"][v] = rs(Fraction(r["rss"]) / (N - 1))
                    for u, b in zip(ps, r["beta"][1:]):
                        newp["w"][f"{u},{v}"] = b
                if bad:
                    continue
                m.fit(df)
                cur.update(newp)
                continue
            r, pos = expected()
            M = np.array([float(Fraction(x)) for x in r["mean"]])
            C = np.array([[float(Fraction(x)) for x in rw] for rw in r["cov"]])
            scale = max(1.0, float(np.abs(C).max()), float(np.abs(M).max()))
            if op == "joint":
                mean, cov = m.to_joint_gaussian()
                topo = list(nx.topological_sort(m))
                idx = {nm: k for k, nm in enumerate(topo)}
                for v in range(n):
                    if abs(mean[idx[names[v]]] - M[pos[v]]) > 1e-5 * scale:
                        return fail(f"step {i}: joint mean of {names[v]} = {mean[idx[names[v]]]}, current structural equations give {M[pos[v]]}", **tags)
                    for u in range(n):
                        if abs(cov[idx[names[v]], idx[names[u]]] - C[pos[v], pos[u]]) > 1e-5 * scale:
                            return fail(f"step {i}: joint covariance ({names[v]},{names[u]}) = {cov[idx[names[v]], idx[names[u]]]}, current "
                                        f"structural equations give {C[pos[v], pos[u]]}", **tags)
            elif op == "simulate":
                m.simulate(n=5, seed=i)
            elif op == "predict" and case["obs"] and len(case["obs"]) < n:
                obs = case["obs"]
                miss = [v for v in range(n) if v not in obs]
                a, b = [pos[v] for v in miss], [pos[v] for v in obs]
                Sbb = C[np.ix_(b, b)]
                if np.linalg.cond(Sbb) > 1e6:
                    continue
                x = np.array([1.0 + 0.5 * k for k in range(len(obs))])
                vars_, mu_c, cov_c = m.predict(pd.DataFrame([x], columns=[names[v] for v in obs]))
                em = M[a] + C[np.ix_(a, b)] @ np.linalg.solve(Sbb, x - M[b])
                for k_, nm in enumerate(vars_):
                    want = em[miss.index(names.index(nm))]
                    if abs(mu_c[0][k_] - want) > 1e-4 * max(scale, float(np.abs(em).max())):
                        return fail(f"step {i}: predicted mean of {nm} = {mu_c[0][k_]}, conditioning the current joint gives {want}", **tags)
        except Exception as e:
            return fail(f"step {i} ({op}) raised {type(e).__name__}: {e}", **tags)
    return ok(nontrivial=any(s_["op"] in ("replace", "refit") for s_ in case["steps"]), n=n)


# ----------------------------------------------------------------------------- simulate
def gen_sim(rng, tier):
    case = gen_lg(rng, tier)
    case["n_samples"] = rng.choice([2000, 4000])
    case["seed"] = rng.choice([0, 1, 7, 42, rng.randrange(10 ** 6)])
    return case


def run_sim(case, drv):
    """LinearGaussianBayesianNetwork.simulate: reproducible for a seed, one column per node, and the sample moments of the NAMED
    columns agree with the structural-equation joint within 6.5 standard errors (exact joint from the Lean model)"""
    import numpy as np
    names = case["nodes"]
    n = len(names)
    m = build_lg(case)
    r, pos = model_joint(case, drv)
    N = case["n_samples"]
    try:
        df = m.simulate(n=N, seed=case["seed"])
        df2 = m.simulate(n=N, seed=case["seed"])
        df3 = m.simulate(n=N, seed=case["seed"] + 1)
    except Exception as e:
        return fail(f"simulate raised {type(e).__name__}: {e}", n=n)
    if sorted(map(str, df.columns)) != sorted(map(str, names)) or len(df) != N:
        return fail(f"simulate returned columns {list(df.columns)} / {len(df)} rows for nodes {names}, n={N}", n=n)
    if not (list(df.columns) == list(df2.columns) and np.array_equal(df.values, df2.values)):
        return fail(f"simulate(seed={case['seed']}) is not reproducible", n=n)
    if n and np.array_equal(df.values, df3.values):
        return fail("simulate ignores the seed (seed and seed + 1 give the same sample)", n=n)
    M = np.array([float(Fraction(x)) for x in r["mean"]])
    C = np.array([[float(Fraction(x)) for x in rw] for rw in r["cov"]])
    X = np.column_stack([df[names[v]].values.astype(float) for v in range(n)]) if n else np.zeros((N, 0))
    mh = X.mean(axis=0) if n else []
    Ch = np.atleast_2d(np.cov(X, rowvar=False)) if n else np.zeros((0, 0))
    for v in range(n):
        i = pos[v]
        if abs(mh[v] - M[i]) > 6.5 * (C[i, i] / N) ** .5 + 1e-6:
            return fail(f"simulate: sample mean of {names[v]} = {mh[v]}, joint mean {M[i]} (se {(C[i, i] / N) ** .5})", n=n)
        for u in range(n):
            j = pos[u]
            se = ((C[i, i] * C[j, j] + C[i, j] ** 2) / N) ** .5
            if abs(Ch[v, u] - C[i, j]) > 6.5 * se + 1e-6:
                return fail(f"simulate: sample covariance ({names[v]},{names[u]}) = {Ch[v, u]}, joint covariance {C[i, j]} (se {se})", n=n)
    return ok(nontrivial=bool(case["edges"]), n=n)


STREAMS = [
    Stream("joint_predict", gen_joint, run_joint, quick=700, thorough=7000),
    Stream("fit", gen_fit, run_fit, quick=200, thorough=2000),
    Stream("gaussian_distribution", gen_gd, run_gd, quick=400, thorough=4000),
    Stream("simulate", gen_sim, run_sim, quick=150, thorough=1500),
    Stream("cpd_fit", gen_cpdfit, run_cpdfit, quick=300, thorough=3000),
    Stream("history", gen_lghist, run_lghist, quick=300, thorough=3000),
]
