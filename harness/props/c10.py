"""C10 — structure scores equal their published definitions."""
from __future__ import annotations

import math
from fractions import Fraction

from harness import core, gen
from harness.core import ok, fail, skip, rs
from harness.worker import Stream
from harness.props import c06

OBLIGATIONS = [
    "PgmVerif.C10_cache_transparent", "PgmVerif.C10_cache_bounded", "PgmVerif.C10_counts_row_perm",
    "PgmVerif.C10_unobserved_config_k2", "PgmVerif.C10_unobserved_config_bd", "PgmVerif.C10_rising_gamma", "PgmVerif.C10_state_order_irrelevant",
    "PgmVerif.C10_bdeu_covered_edge", "PgmVerif.C10_loglik_covered_edge", "PgmVerif.C10_nparams_covered_edge",
    "PgmVerif.C10_defaults_tie",
]
PARTIAL = ["score equivalence is proved for one covered-edge reversal (BDeu product, maximised likelihood and parameter count are symmetric for "
           "every count table); that any two Markov-equivalent DAGs are joined by such reversals is Chickering's theorem, not proved here; the "
           "implementation is compared on sampled equivalent pairs by the correspondence; the count table N is tied to the data by the model's "
           "localCounts, which the correspondence compares with the implementation's state_counts", "lgamma / log accuracy of scipy/math is trusted; scores are compared in the "
           "log domain against exact rationals"]
RULE = ("discrete data frames on 2-5 columns (sparse: unobserved parent configurations and declared-but-unobserved states), all (variable, "
        "parent list) pairs with <=2 parents in random order, ESS in {1,5,10,2.5}; non-trivial = at least one parent; distinct = case JSON"
        " Also: integer column names (single-parent families), parent sets as tuple / generator / iterator, undeclared states with unused categorical levels.")
ASSUMPTIONS = ["exp(score) is rational for K2/BDeu/BDs; BIC/AIC = log R - c log N - pen with R rational"]
BUDGET_QUICK = 80
LEVEL_TEXT = ("Kernel-checked: the LRU score cache, for every call history and every max_size >= 1, returns exactly the base scorer's value "
              "and never holds more than max_size entries; local-count tables are invariant under row permutation; a parent configuration "
              "that never occurs contributes the factor 1 (score term 0) to K2 and BDeu, as the closed forms demand; rising factorials "
              "satisfy the Gamma recurrence used to express the scores as rationals; for EVERY table of counts, every equivalent sample size > 0 "
              "and all cardinalities, reversing a covered edge X -> Y leaves the BDeu product, the maximised likelihood (empty cells and rows "
              "included) and the number of free parameters unchanged, i.e. BDeu, BIC and AIC are score equivalent step by step. The five local scores, network scores, the cache and "
              "the metric wrapper are compared in the log domain with the exact rational closed forms on sparse data; Markov-equivalent pairs "
              "obtained by covered-edge reversals must score identically for BDeu/BIC/AIC (differential, partial).")
LEVEL_NOTE = "Trusted: Lean kernel + standard axioms; model; harness; scipy gammaln / math.log accuracy (tolerance 1e-9 relative)."
TECHNIQUE = "Lean 4 proof (LRU refinement, covered-edge score equivalence of BDeu/BIC/AIC, count invariance, closed-form terms) + log-domain differential check against exact rational scores"

KINDS = ["k2", "bdeu", "bds", "bic", "aic"]


def scorer(kind, df, case, ess):
    from pgmpy.estimators import K2Score, BDeuScore, BDsScore, BicScore, AICScore
    kw = c06.sn_arg(case)
    if kind == "k2":
        return K2Score(df, **kw)
    if kind == "bdeu":
        return BDeuScore(df, equivalent_sample_size=float(ess), **kw)
    if kind == "bds":
        return BDsScore(df, equivalent_sample_size=float(ess), **kw)
    if kind == "bic":
        return BicScore(df, **kw)
    return AICScore(df, **kw)


def model_local(drv, case, v, parents, kind, ess):
    card, labels, rows = c06.effective(case)
    r = drv.call("score_local", rows=rows, cards=card, child=v, parents=parents, kind=kind, ess=rs(ess))
    R = Fraction(r["R"])
    val = (math.log(R.numerator) - math.log(R.denominator)) if R > 0 else -math.inf
    if Fraction(r["c"]) != 0:
        val -= float(Fraction(r["c"])) * math.log(r["N"])
    val -= float(Fraction(r["pen"]))
    return val, r


def close_score(a, b):
    if math.isinf(a) or math.isinf(b):
        return a == b
    return abs(a - b) <= 1e-9 * max(1.0, abs(a), abs(b))


def int_cols(rng, case):
    """some data sets carry integer column names (the default of pd.DataFrame(ndarray)), in a shuffled order - only where no family
    has two or more parents: pandas' unstack cannot take a LIST of integer level names, so the unchanged library already fails there"""
    indeg = {}
    for u, v in case["edges"]:
        indeg[v] = indeg.get(v, 0) + 1
    if rng.random() < .3 and all(d <= 1 for d in indeg.values()):
        n = len(case["cols"])
        names = list(range(n))
        rng.shuffle(names)
        case["cols"] = names
    return case


def gen_local(rng, tier):
    case = int_cols(rng, c06.gen_data(rng, tier))
    case["weights"] = None
    n = len(case["cols"])
    v = rng.randrange(n)
    others = [u for u in range(n) if u != v]
    ps = rng.sample(others, rng.randint(0, min(rng.choice([2, 2, 3, 4]), len(others))))
    if isinstance(case["cols"][0], int):
        ps = ps[:1]
    case["var"], case["parents"] = v, ps
    case["kind"] = rng.choice(KINDS)
    case["ess"] = rs(rng.choice([Fraction(1), Fraction(5), Fraction(10), Fraction(5, 2)]))
    return case


def unobserved_info(r):
    cols = r["cols"]
    zero_cols = sum(1 for c in cols if sum(c) == 0)
    zero_cells_in_observed = any(sum(c) > 0 and 0 in c for c in cols)
    zero_rows = any(all(c[k] == 0 for c in cols) for k in range(len(cols[0]))) if cols else False
    return zero_cols, zero_rows, zero_cells_in_observed


def run_local(case, drv):
    names = case["cols"]
    df = c06.make_df(case)
    kind, ess = case["kind"], Fraction(case["ess"])
    v, ps = case["var"], case["parents"]
    try:
        s = scorer(kind, df, case, ess)
        pl = [names[p] for p in ps]
        # the parent set in any iterable form (list, tuple, generator, one-shot iterator)
        got = float(s.local_score(names[v], [pl, tuple(pl), (x for x in pl), iter(pl)][(len(case["rows"]) + v) % 4]))
    except Exception as e:
        return fail(f"{kind}.local_score raised {type(e).__name__}: {e}", kind=kind)
    exp, r = model_local(drv, case, v, ps, kind, ess)
    zc, zr, _ = unobserved_info(r)
    tags = dict(kind=kind, nparents=len(ps), unobserved_configs=min(zc, 3), unobserved_state=zr, r=len(r["cols"][0]))
    if not close_score(got, exp):
        return fail({"msg": f"{kind}.local_score({names[v]} | {[names[p] for p in ps]}): impl {got!r} closed form {exp!r} "
                            f"(counts {r['cols']}, ess {case['ess']})", "impl": got, "locals": [r["cols"]], "nedges": None}, **tags)
    # row order and parent order must not matter
    if len(ps) == 2:
        got2 = float(s.local_score(names[v], [names[p] for p in reversed(ps)]))
        if not close_score(got, got2):
            return fail(f"{kind}.local_score depends on the order of the parents: {got} vs {got2}", **tags)
    df2 = df.iloc[::-1].reset_index(drop=True)
    got3 = float(scorer(kind, df2, case, ess).local_score(names[v], [names[p] for p in ps]))
    if not close_score(got, got3):
        return fail(f"{kind}.local_score depends on the order of the rows: {got} vs {got3}", **tags)
    return ok(nontrivial=len(ps) > 0, **tags)


# ----------------------------------------------------------------------------- network score, metric wrapper
def gen_network(rng, tier):
    case = int_cols(rng, c06.gen_data(rng, tier))
    case["weights"] = None
    case["kind"] = rng.choice(KINDS)
    case["ess"] = rs(rng.choice([Fraction(1), Fraction(5), Fraction(10)]))
    case["wrapper"] = rng.random() < .3
    return case


def network_expected(case, drv, edges, kind, ess, locals_out=None):
    n = len(case["cols"])
    tot = 0.0
    for v in range(n):
        ps = [u for u, w in edges if w == v]
        val, r_ = model_local(drv, case, v, ps, kind, ess)
        if locals_out is not None:
            locals_out.append(r_["cols"])
        tot += val
    if kind == "bds":
        tot += -(len(edges) + n * (n - 1) / 2.0) * math.log(2.0)
    return tot


def run_network(case, drv):
    from pgmpy.metrics import structure_score
    names = case["cols"]
    kind, ess = case["kind"], Fraction(case["ess"])
    df = c06.make_df(case)
    m = c06.build_model(case)
    locs = []
    exp = network_expected(case, drv, case["edges"], kind, ess, locs)
    try:
        if case["wrapper"] and kind != "aic":
            kw = {"equivalent_sample_size": float(ess)} if kind in ("bdeu", "bds") else {}
            kw.update(c06.sn_arg(case))        # the documented state_names argument of the wrapper reaches the score
            got = float(structure_score(m, df, scoring_method=kind, **kw))
        else:
            got = float(scorer(kind, df, case, ess).score(m))
    except Exception as e:
        return fail(f"{kind} network score raised {type(e).__name__}: {e}", kind=kind)
    if not close_score(got, exp):
        return fail({"msg": f"{kind}.score(model): impl {got!r}, sum of closed-form local scores + prior {exp!r}", "impl": got, "locals": locs,
                     "nedges": len(case["edges"]), "nnodes": len(names)}, kind=kind)
    return ok(nontrivial=bool(case["edges"]), kind=kind, wrapper=case["wrapper"])


# ----------------------------------------------------------------------------- cache
def gen_cache(rng, tier):
    case = int_cols(rng, c06.gen_data(rng, tier))
    case["weights"] = None
    n = len(case["cols"])
    calls = []
    for _ in range(rng.randint(4, 25)):
        v = rng.randrange(n)
        others = [u for u in range(n) if u != v]
        calls.append([v, rng.sample(others, rng.randint(0, min(3, len(others))))])
        if rng.random() < .4 and calls:
            calls.append(list(rng.choice(calls)))
    case["calls"] = calls
    case["max_size"] = rng.choice([1, 2, 3, 5, 100])
    case["kind"] = rng.choice(["k2", "bic", "bdeu"])
    # synthetic LRU drive
    case["keys"] = [rng.randrange(6) for _ in range(rng.randint(5, 40))]
    case["table"] = [rng.randrange(100) for _ in range(6)]
    return case


def run_cache(case, drv):
    from pgmpy.estimators.ScoreCache import ScoreCache, LRUCache
    names = case["cols"]
    df = c06.make_df(case)
    base = scorer(case["kind"], df, case, 10)
    ref = scorer(case["kind"], df, case, 10)
    sc = ScoreCache(base, df, max_size=case["max_size"])
    for v, ps in case["calls"]:
        a = sc.local_score(names[v], [names[p] for p in ps])
        b = ref.local_score(names[v], [names[p] for p in ps])
        if not (a == b or close_score(float(a), float(b))):
            return fail(f"cached score {a} != uncached {b} for {names[v]} | {[names[p] for p in ps]} (max_size {case['max_size']})")
    if len(sc.cache.mapping) > case["max_size"]:
        return fail(f"cache holds {len(sc.cache.mapping)} entries, max_size {case['max_size']}")
    # LRU state machine against the Lean model
    ncalls = [0]

    def f(k):
        ncalls[0] += 1
        return case["table"][k]
    lru = LRUCache(f, max_size=case["max_size"])
    vals = [lru(k) for k in case["keys"]]
    m = drv.call("lru_run", table=case["table"], keys=case["keys"], max_size=case["max_size"])
    if vals != m["values"]:
        return fail(f"LRUCache values {vals} model {m['values']}")
    # recency order: walk the linked list
    order = []
    link = lru.head[1]
    while link is not lru.tail:
        order.append([link[2][0], link[3]])
        link = link[1]
    if order != m["entries"]:
        return fail(f"LRUCache recency list {order} model {m['entries']}")
    return ok(max_size=case["max_size"], ncalls=min(len(case["calls"]) // 5 * 5, 30))


# ----------------------------------------------------------------------------- score equivalence
def covered_reversals(n, edges, rng, k=3):
    E = set(map(tuple, edges))
    for _ in range(k):
        cand = []
        for (u, v) in sorted(E):
            pu = {a for a, b in E if b == u}
            pv = {a for a, b in E if b == v}
            if pv - {u} == pu:
                cand.append((u, v))
        if not cand:
            break
        u, v = rng.choice(cand)
        E.remove((u, v))
        E.add((v, u))
    return sorted(map(list, E))


def gen_equiv(rng, tier):
    case = int_cols(rng, c06.gen_data(rng, tier))
    case["weights"] = None
    n = len(case["cols"])
    case["edges2"] = covered_reversals(n, case["edges"], rng)
    case["kind"] = rng.choice(["bdeu", "bic", "aic"])
    case["ess"] = rs(rng.choice([Fraction(1), Fraction(5), Fraction(10)]))
    return case


def run_equiv(case, drv):
    if sorted(map(list, case["edges"])) == case["edges2"]:
        return skip("no covered edge")
    kind, ess = case["kind"], Fraction(case["ess"])
    df = c06.make_df(case)
    m1 = c06.build_model(case)
    c2 = dict(case)
    c2["edges"] = case["edges2"]
    m2 = c06.build_model(c2)
    s = scorer(kind, df, case, ess)
    try:
        a, b = float(s.score(m1)), float(s.score(m2))
    except Exception as e:
        return fail(f"{kind}.score raised {type(e).__name__}: {e}", kind=kind)
    e1 = network_expected(case, drv, case["edges"], kind, ess)
    e2 = network_expected(case, drv, case["edges2"], kind, ess)
    if not close_score(e1, e2):
        return fail(f"MODEL: closed-form {kind} is not score equivalent on {case['edges']} vs {case['edges2']}: {e1} {e2}", kind=kind)
    if not close_score(a, b):
        return fail(f"{kind} gives different scores to Markov-equivalent DAGs {case['edges']} / {case['edges2']}: {a} vs {b} "
                    f"(closed form {e1})", kind=kind)
    return ok(kind=kind)


STREAMS = [
    Stream("local", gen_local, run_local, quick=900, thorough=10000),
    Stream("network", gen_network, run_network, quick=300, thorough=3000),
    Stream("cache", gen_cache, run_cache, quick=250, thorough=2500),
    Stream("equivalence", gen_equiv, run_equiv, quick=300, thorough=3000),
]
