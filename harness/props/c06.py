"""C06 — parameter learning returns the closed-form estimates."""
from __future__ import annotations

import math
from fractions import Fraction

from harness import core, gen
from harness.core import ok, fail, skip, rs
from harness.worker import Stream
from harness.props.c04 import compare_factor

OBLIGATIONS = [
    "PgmVerif.C06_counts_den", "PgmVerif.C06_counts_perm", "PgmVerif.C06_counts_parent_order",
    "PgmVerif.C06_mle_closed_form", "PgmVerif.C06_bayes_closed_form", "PgmVerif.C06_fitted_valid",
    "PgmVerif.C06_mle_weight_scale", "PgmVerif.C06_bayes_zero_prior",
]
PARTIAL = ["EM monotonicity of the observed-data likelihood and EM = MLE without latents are decided by the correspondence "
           "(likelihood recomputed exactly by the Lean model after 1..4 iterations), not by a theorem",
           "pandas groupby/unstack/reindex are compared, not modelled"]
RULE = ("random DAGs over 2-5 data columns incl. isolated nodes, 5-40 rows, declared-but-unseen states, unseen parent configurations, "
        "categorical / integer columns, weighted rows, n_jobs 1/2; estimators MLE, Bayesian(K2, BDeu, Dirichlet), fit, DAG.fit, fit_update, EM; "
        "non-trivial = some node has a parent; distinct = case JSON"
        " Also: Dirichlet tables as float arrays (purity, reuse), fit over pre-existing CPDs, undeclared states with unused categorical levels, n_prev_samples = 0.")
ASSUMPTIONS = ["string-valued columns are passed as pandas category dtype (pandas 3 'str' dtype is rejected by preprocess_data)"]
BUDGET_QUICK = 90
LEVEL_TEXT = ("Kernel-checked: the count table denotes, at every assignment, the weighted number of rows agreeing with it (hence is invariant "
              "under row permutation and parent order); the ML estimate is count/column-total with uniform columns for unseen parent "
              "configurations and depends on the row weights only through their ratios (any common non-zero factor cancels); "
              "the Bayesian estimate is (count+pseudo)/(total) for K2, BDeu and Dirichlet pseudo-counts; every fitted column "
              "sums to one. The implementation (MLE, BayesianEstimator, fit, DAG.fit, fit_update, weighted rows, n_jobs) is tied by "
              "differential correspondence at every named assignment. EM monotonicity / EM=MLE are differential only (partial).")
LEVEL_NOTE = "Trusted: Lean kernel + standard axioms; model; harness; pandas internals."
TECHNIQUE = "Lean 4 proof of closed forms over a count-table model + differential correspondence with the estimators"


def gen_data(rng, tier, latent=False):
    n = rng.randint(2, 5)
    cols = gen.node_names(rng, n, rng.choice(["str", "word"]))
    shape, edges = gen.rand_dag_edges(rng, n)
    par = {v: [] for v in range(n)}
    for u, v in edges:
        if len(par[v]) < 2:
            par[v].append(u)
    edges = sorted([u, v] for v in par for u in par[v])
    card = [rng.choice([2, 2, 3, 3, 4]) for _ in range(n)]
    dtype = rng.choice(["category", "category", "int"])
    labels = []
    for v in range(n):
        if dtype == "int":
            base = sorted(rng.sample(range(0, 9), card[v]))
            if rng.random() < .15:
                base = [20240100 + b for b in base]          # integer codes beyond 2**24 (dates as YYYYMMDD, record ids) are still exact labels
        else:
            base = sorted(gen.state_labels(rng, card[v], "str"))
        labels.append(base)
    declared_perm = rng.random() < .35
    if declared_perm:
        # declared state order need not be the sorted one: estimates must be aligned to the DECLARED order
        for v in range(n):
            rng.shuffle(labels[v])
    nrows = rng.randint(5, 40)
    # sparse: some states / parent configurations never occur
    allowed = [rng.sample(range(card[v]), rng.randint(1, card[v])) if rng.random() < .4 else list(range(card[v])) for v in range(n)]
    rows = [[rng.choice(allowed[v]) for v in range(n)] for _ in range(nrows)]
    weights = None
    if rng.random() < .3:
        u = rng.random()
        if u < .4:
            weights = [rs(Fraction(rng.randint(1, 6), 2)) for _ in range(nrows)]
        elif u < .6:
            # weights on a tiny scale (probabilities of rare events used as weights): estimates depend on their ratios only
            weights = [rs(Fraction(rng.randint(1, 9), 2 ** 40)) for _ in range(nrows)]
        else:
            # small weights: a parent configuration that does occur can have a total weight below 1
            weights = [rs(Fraction(rng.randint(1, 9), rng.choice([20, 50, 100]))) for _ in range(nrows)]
    return {"cols": cols, "card": card, "labels": labels, "edges": edges, "rows": rows, "weights": weights, "dtype": dtype,
            # (without a declaration the states are the OBSERVED values - also for a categorical column that still carries unused levels)
            "pass_state_names": True if declared_perm else (False if rng.random() < .25 else
                                                            (True if any(len(set(r[v] for r in rows)) < card[v] for v in range(n)) else rng.random() < .5)),
            "declared_perm": declared_perm,
            "n_jobs": rng.choice([1, 1, 2]),
            # row labels of the frame: counts do not depend on them
            "index": rng.choice(["range", "range", "offset", "str", "shuffled"])}


def make_df(case, include_weight=True):
    import pandas as pd
    n = len(case["cols"])
    d = {}
    for v in range(n):
        vals = [gen.lab(case["labels"][v][r[v]]) for r in case["rows"]]
        if case["dtype"] == "category":
            d[case["cols"][v]] = pd.Categorical(vals, categories=[gen.lab(l) for l in case["labels"][v]])
        else:
            d[case["cols"][v]] = vals
    df = pd.DataFrame(d)
    if case["weights"] and include_weight:
        df["_weight"] = [float(Fraction(w)) for w in case["weights"]]
    ik = case.get("index", "range")
    if ik == "offset":
        df.index = [2 * i + len(df) for i in range(len(df))]        # labels outside 0..n-1
    elif ik == "str":
        df.index = ["row%d" % i for i in range(len(df))]
    elif ik == "shuffled":
        import random
        lab = list(range(len(df)))
        random.Random(len(df)).shuffle(lab)
        df.index = lab
    return df


def effective(case):
    """cardinalities / labels as the estimator sees them: declared ones if state_names are passed, else the sorted observed ones;
    returns (card, labels, rows re-indexed) or None when a column would have unobserved declared states but no declaration"""
    n = len(case["cols"])
    if case["pass_state_names"]:
        return case["card"], case["labels"], case["rows"]
    card, labels, remap = [], [], []
    for v in range(n):
        seen = sorted({r[v] for r in case["rows"]})
        labels.append([case["labels"][v][i] for i in seen])
        card.append(len(seen))
        remap.append({old: new for new, old in enumerate(seen)})
    rows = [[remap[v][r[v]] for v in range(n)] for r in case["rows"]]
    return card, labels, rows


def parents_of(case, v):
    return sorted((u for u, w in case["edges"] if w == v), key=lambda u: case["cols"][u])


def model_cpd(drv, case, v, kind, **kw):
    card, labels, rows = effective(case)
    return drv.call("learn", rows=rows, weights=case["weights"] if kw.pop("weighted", False) else None, cards=card,
                    child=v, parents=parents_of(case, v), kind=kind, **kw)


def build_model(case, cls=None):
    from pgmpy.models import BayesianNetwork
    m = (cls or BayesianNetwork)()
    m.add_nodes_from(case["cols"])
    m.add_edges_from([(case["cols"][u], case["cols"][v]) for u, v in case["edges"]])
    return m


def sn_arg(case):
    if not case["pass_state_names"]:
        return {}
    return {"state_names": {case["cols"][v]: [gen.lab(l) for l in case["labels"][v]] for v in range(len(case["cols"]))}}


def check_cpds(cpds, case, drv, kind, tags, **kw):
    card, labels, _ = effective(case)
    names = case["cols"]
    got = {c.variable: c for c in cpds}
    if set(got) != set(names):
        return fail(f"{kind}: CPDs returned for {sorted(got)} but the model has nodes {sorted(names)}", **tags)
    for v in range(len(names)):
        m = model_cpd(drv, case, v, kind, **dict(kw))
        c = got[names[v]]
        if set(c.variables[1:]) != {names[p] for p in parents_of(case, v)}:
            return fail(f"{kind}: CPD of {names[v]} has evidence {c.variables[1:]}", **tags)
        err = compare_factor(c, m, names, card, labels_for_compare(case, labels))
        if err:
            return fail(f"{kind}: CPD of {names[v]}: {err}", **tags)
        if not c.is_valid_cpd():
            return fail(f"{kind}: CPD of {names[v]} is not column-normalised", **tags)
    return None


def labels_for_compare(case, labels):
    # integer columns are converted to float by preprocess_data: 1 == 1.0 and hash-equal, so lookups by int work
    return labels


# ----------------------------------------------------------------------------- MLE / Bayes
def gen_est(rng, tier):
    case = gen_data(rng, tier)
    case["est"] = rng.choice(["mle", "mle", "k2", "bdeu", "dirichlet", "dirichlet_scalar", "fit_mle", "fit_bayes", "dagfit"])
    case["scalar"] = rs(rng.choice([Fraction(1, 2), Fraction(3, 2), Fraction(2), Fraction(9, 4), Fraction(1, 10)]))
    case["ess"] = rs(rng.choice([Fraction(1), Fraction(5), Fraction(10), Fraction(5, 2)]))
    case["pseudo_seed"] = rng.randrange(10 ** 6)
    if case["est"] in ("dagfit",):
        case["weights"] = None
    return case


def run_est(case, drv):
    import numpy as np
    import random
    from pgmpy.estimators import MaximumLikelihoodEstimator, BayesianEstimator
    from pgmpy.base import DAG
    names = case["cols"]
    card, labels, _ = effective(case)
    df = make_df(case)
    est = case["est"]
    weighted = bool(case["weights"])
    tags = dict(est=est, dtype=case["dtype"], weighted=weighted, declared=case["pass_state_names"], n_jobs=case["n_jobs"],
                declared_perm=bool(case.get("declared_perm")))
    kw = {}
    try:
        if est == "mle":
            e_ = MaximumLikelihoodEstimator(build_model(case), df, **sn_arg(case))
            if case["pseudo_seed"] % 3 == 0:
                # the estimator object has been asked something else before (other weighting / single nodes): nothing may be cached across calls
                try:
                    e_.get_parameters(n_jobs=1, weighted=not weighted) if case["weights"] else [e_.estimate_cpd(x) for x in names[:2]]
                except Exception:
                    pass
            cpds = e_.get_parameters(n_jobs=case["n_jobs"], weighted=weighted)
            kind = "mle"
        elif est == "dirichlet_scalar":
            # one scalar pseudo-count for every cell (possibly fractional)
            be = BayesianEstimator(build_model(case), df, **sn_arg(case))
            cpds = be.get_parameters(prior_type="dirichlet", pseudo_counts=float(Fraction(case["scalar"])), n_jobs=case["n_jobs"], weighted=weighted)
            pcm = {}
            for v in range(len(names)):
                ps = parents_of(case, v)
                q = 1
                for p in ps:
                    q *= card[p]
                pcm[v] = {"scope": [v] + ps, "card": [card[x] for x in [v] + ps], "vals": [case["scalar"]] * (q * card[v])}
            kind = "dirichlet"
        elif est in ("k2", "bdeu", "dirichlet"):
            be = BayesianEstimator(build_model(case), df, **sn_arg(case))
            if case["pseudo_seed"] % 3 == 0:
                try:
                    be.get_parameters(prior_type="BDeu" if est == "k2" else "K2", equivalent_sample_size=3, n_jobs=1)
                except Exception:
                    pass
            if est == "k2":
                cpds = be.get_parameters(prior_type="K2", n_jobs=case["n_jobs"], weighted=weighted)
            elif est == "bdeu":
                cpds = be.get_parameters(prior_type="BDeu", equivalent_sample_size=float(Fraction(case["ess"])), n_jobs=case["n_jobs"],
                                         weighted=weighted)
                kw["ess"] = case["ess"]
            else:
                prng = random.Random(case["pseudo_seed"])
                pc, pcm = {}, {}
                for v in range(len(names)):
                    ps = parents_of(case, v)
                    q = 1
                    for p in ps:
                        q *= card[p]
                    tab = [[Fraction(prng.randint(0, 6), 2) + Fraction(1, 2) for _ in range(q)] for _ in range(card[v])]
                    pc[names[v]] = [[float(x) for x in row] for row in tab]
                    pcm[v] = {"scope": [v] + ps, "card": [card[x] for x in [v] + ps], "vals": [rs(x) for row in tab for x in row]}
                pck = case["pseudo_seed"] % 4
                if pck >= 2:
                    pc = {k: np.array(v, dtype=float) for k, v in pc.items()}       # hyper-parameter tables as float arrays
                before = {k: np.array(v, dtype=float).copy() for k, v in pc.items()}
                cpds = be.get_parameters(prior_type="dirichlet", pseudo_counts=pc, n_jobs=case["n_jobs"], weighted=weighted)
                if pck == 3:
                    # the same tables are used for a second estimation: the answer is the same closed form again
                    cpds = BayesianEstimator(build_model(case), df, **sn_arg(case)).get_parameters(
                        prior_type="dirichlet", pseudo_counts=pc, n_jobs=1, weighted=weighted)
                for k in before:
                    if not np.array_equal(np.array(pc[k], dtype=float), before[k]):
                        return fail(f"dirichlet: the caller's pseudo-count table of {k} was modified by the estimation "
                                    f"({before[k].tolist()} -> {np.array(pc[k], dtype=float).tolist()})", **tags)
            kind = est
        elif est in ("fit_mle", "fit_bayes"):
            m = build_model(case)
            if case["pseudo_seed"] % 2:
                # the network already carries (uniform) CPDs whose parents are listed in reverse order: fit replaces every one of them
                from pgmpy.factors.discrete import TabularCPD
                for v in range(len(names)):
                    ps = sorted(parents_of(case, v), key=lambda u: str(names[u]), reverse=True)
                    q = 1
                    for p_ in ps:
                        q *= card[p_]
                    m.add_cpds(TabularCPD(names[v], card[v], [[1.0 / card[v]] * q for _ in range(card[v])],
                                          evidence=[names[u] for u in ps] or None, evidence_card=[card[u] for u in ps] or None,
                                          state_names={names[u]: list(labels[u]) for u in [v] + ps}))
            if est == "fit_mle":
                m.fit(df, estimator=MaximumLikelihoodEstimator, n_jobs=case["n_jobs"], **sn_arg(case))
                kind = "mle"
            else:
                m.fit(df, estimator=BayesianEstimator, prior_type="K2", n_jobs=case["n_jobs"], **sn_arg(case))
                kind = "k2"
            weighted = False
            if set(m.nodes()) != set(names):
                return fail(f"fit changed the node set: {sorted(m.nodes())}", **tags)
            try:
                m.check_model()
            except Exception as e:
                return fail(f"fitted network does not validate: {e}", **tags)
            cpds = m.get_cpds()
            if len(cpds) != len(names):
                return fail(f"after fit the network holds {len(cpds)} CPDs for {len(names)} nodes", **tags)
            cpds = [m.get_cpds(x) for x in names]          # what a user (and every inference engine) reads back per node
        else:
            d = build_model(case, DAG)
            m = d.fit(df, **sn_arg(case))
            kind = "mle"
            weighted = False
            if set(m.nodes()) != set(names):
                return fail(f"DAG.fit returned a network over {sorted(m.nodes())}, the DAG has nodes {sorted(names)}", **tags)
            try:
                m.check_model()
            except Exception as e:
                return fail(f"DAG.fit: fitted network does not validate: {e}", **tags)
            cpds = m.get_cpds()
    except Exception as e:
        return fail(f"{est} raised {type(e).__name__}: {e}", **tags)
    if kind == "dirichlet":
        got = {c.variable: c for c in cpds}
        for v in range(len(names)):
            mm = model_cpd(drv, case, v, "dirichlet", pseudo=pcm[v], weighted=weighted)
            err = compare_factor(got[names[v]], mm, names, card, labels)
            if err:
                return fail(f"dirichlet: CPD of {names[v]}: {err}", **tags)
    else:
        r = check_cpds(cpds, case, drv, kind, tags, weighted=weighted, **kw)
        if r is not None:
            return r
    return ok(nontrivial=bool(case["edges"]), **tags)


# ----------------------------------------------------------------------------- fit_update
def gen_update(rng, tier):
    case = gen_data(rng, tier)
    case["weights"] = None
    case["pass_state_names"] = True
    n = len(case["cols"])
    case["rows2"] = [[rng.randrange(case["card"][v]) for v in range(n)] for _ in range(rng.randint(3, 20))]
    case["nprev"] = rng.choice([None, 1, 10, 37, 0, 0])
    return case


def run_update(case, drv):
    from pgmpy.estimators import MaximumLikelihoodEstimator
    names, card, labels = case["cols"], case["card"], case["labels"]
    if case["nprev"] == 0:
        # zero previous samples: the update is the estimate from the new data alone - defined where every parent configuration occurs
        for v in range(len(names)):
            ps = parents_of(case, v)
            q = 1
            for p_ in ps:
                q *= card[p_]
            if len({tuple(r[p_] for p_ in ps) for r in case["rows2"]}) < q:
                return skip("n_prev_samples = 0 with a parent configuration that does not occur in the new data (0/0)")
    df1 = make_df(case)
    m = build_model(case)
    try:
        m.fit(df1, estimator=MaximumLikelihoodEstimator, **sn_arg(case))
        c2 = dict(case)
        c2["rows"] = case["rows2"]
        df2 = make_df(c2)
        m.fit_update(df2, n_prev_samples=case["nprev"])
    except Exception as e:
        return fail(f"fit/fit_update raised {type(e).__name__}: {e}")
    nprev = case["nprev"] if case["nprev"] is not None else len(case["rows2"])
    for v in range(len(names)):
        prev = model_cpd(drv, case, v, "mle")
        mm = drv.call("learn", rows=case["rows2"], weights=None, cards=card, child=v, parents=parents_of(case, v),
                      kind="fit_update", prev=prev, nprev=rs(nprev))
        err = compare_factor(m.get_cpds(names[v]), mm, names, card, labels)
        if err:
            return fail(f"fit_update: CPD of {names[v]}: {err}")
    try:
        m.check_model()
    except Exception as e:
        return fail(f"network after fit_update does not validate: {e}")
    return ok(nontrivial=bool(case["edges"]), nprev=str(case["nprev"]))


# ----------------------------------------------------------------------------- EM
def gen_em(rng, tier):
    n = rng.randint(2, 4)
    cols = gen.node_names(rng, n, "str")
    shape, edges = gen.rand_dag_edges(rng, n, rng.choice(["chain", "collider", "tree", "gnp"]))
    par = {v: [] for v in range(n)}
    for u, v in edges:
        if len(par[v]) < 2:
            par[v].append(u)
    edges = sorted([u, v] for v in par for u in par[v])
    card = [2] * n
    lat = [rng.randrange(n)] if rng.random() < .75 else []
    rows = [[rng.randrange(2) for _ in range(n)] for _ in range(rng.randint(8, 25))]
    return {"cols": cols, "card": card, "labels": [[0, 1]] * n, "edges": edges, "rows": rows, "latents": lat,
            "seed": rng.randrange(1000), "weights": None, "dtype": "int", "pass_state_names": False,
            # rows are dispatched to the E-step in batches of distinct rows: any batch size must give the same iterates
            "batch_size": rng.choice([1000, 1000, 1, 2, 3, 5, 7])}


def run_em(case, drv):
    import pandas as pd
    from pgmpy.estimators import ExpectationMaximization, MaximumLikelihoodEstimator
    from pgmpy.models import BayesianNetwork
    names = case["cols"]
    n = len(names)
    lat = case["latents"]
    obs = [v for v in range(n) if v not in lat]
    if len(obs) == 0:
        return skip("nothing observed")
    for v in obs:
        if len({r[v] for r in case["rows"]}) < 2:
            return skip("an observed column is constant")
    df = pd.DataFrame({names[v]: [r[v] for r in case["rows"]] for v in obs})
    m = BayesianNetwork()
    m.add_nodes_from(names)
    m.add_edges_from([(names[u], names[v]) for u, v in case["edges"]])
    m.latents = {names[v] for v in lat}
    lls = []
    last = None
    for k in (1, 2, 3, 4):
        try:
            em = ExpectationMaximization(m, df)
            kw_init = {}
            if not lat and case["seed"] % 2:
                # start from deterministic CPDs (every variable "always 0"): some rows are impossible under the start, and with nothing
                # latent the first M-step is still the maximum-likelihood estimate from all rows
                from pgmpy.factors.discrete import TabularCPD
                kw_init["init_cpds"] = {}
                for v in range(n):
                    ps_ = [names[u] for u, w in case["edges"] if w == v]
                    q_ = 2 ** len(ps_)
                    kw_init["init_cpds"][names[v]] = TabularCPD(names[v], 2, [[1.0] * q_, [0.0] * q_], evidence=ps_ or None,
                                                                evidence_card=[2] * len(ps_) or None)
            cpds = em.get_parameters(latent_card={names[v]: 2 for v in lat}, max_iter=k, seed=case["seed"], show_progress=False, n_jobs=1,
                                     batch_size=case.get("batch_size", 1000), **kw_init)
        except Exception as e:
            return fail(f"EM(max_iter={k}) raised {type(e).__name__}: {e}", latents=len(lat))
        got = {c.variable: c for c in cpds}
        if set(got) != set(names):
            return fail(f"EM returned CPDs for {sorted(got)}", latents=len(lat))
        if k == 2 and case.get("batch_size", 1000) != 1000:
            # the batch size only says how the distinct rows are handed to the E-step: the iterates must not depend on it
            try:
                ref = ExpectationMaximization(m, df).get_parameters(latent_card={names[v]: 2 for v in lat}, max_iter=k, seed=case["seed"],
                                                                    show_progress=False, n_jobs=1, batch_size=1000)
            except Exception as e:
                return fail(f"EM(batch_size=1000) raised {type(e).__name__}: {e}", latents=len(lat))
            import numpy as np
            for c in ref:
                a_ = np.asarray(got[c.variable].values, dtype=float).reshape(-1)
                b_ = np.asarray(c.values, dtype=float).reshape(-1)
                if got[c.variable].variables != c.variables or a_.shape != b_.shape or np.abs(a_ - b_).max() > 1e-9:
                    return fail(f"EM with batch_size={case['batch_size']} differs from batch_size=1000 after {k} iterations for {c.variable}: "
                                f"{a_.tolist()} vs {b_.tolist()}", latents=len(lat), batch=case["batch_size"])
        # exact likelihood of the observed data under the returned parameters, by the Lean model
        fs = []
        import numpy as np
        for v in range(n):
            c = got[names[v]]
            sc = [names.index(x) for x in c.variables]
            # state order of c: use its own state names (ints 0/1, floats 0.0/1.0)
            perm_ok = all([float(s) for s in c.state_names[x]] == [0.0, 1.0] for x in c.variables)
            if not perm_ok:
                return fail(f"EM CPD of {names[v]} has state names {c.state_names}", latents=len(lat))
            fs.append({"scope": sc, "card": [2] * len(sc), "vals": [rs(Fraction(float(x))) for x in np.asarray(c.values).reshape(-1)]})
        ll = 0.0
        for r in case["rows"]:
            pe = Fraction(drv.call("bn_posterior", fs=fs, vars=list(range(n)), cards=[2] * n, q=[], ev=[[v, r[v]] for v in obs])["pe"])
            if pe <= 0:
                ll = -math.inf
                break
            ll += math.log(pe)
        lls.append(ll)
        last = got
    for a, b in zip(lls, lls[1:]):
        if b < a - 1e-7 * max(1.0, abs(a)):
            return fail(f"EM decreased the observed-data log-likelihood: {lls}", latents=len(lat))
    if not lat:
        c2 = dict(case)
        for v in range(n):
            mm = model_cpd(drv, c2, v, "mle")
            err = compare_factor(last[names[v]], mm, names, [2] * n, [[0, 1]] * n)
            if err:
                return fail(f"EM without latents differs from MLE for {names[v]}: {err}", latents=0)
    return ok(nontrivial=bool(case["edges"]), latents=len(lat))


STREAMS = [
    Stream("estimators", gen_est, run_est, quick=700, thorough=8000),
    Stream("fit_update", gen_update, run_update, quick=200, thorough=2000),
    Stream("em", gen_em, run_em, quick=90, thorough=900),
]
