"""C05 — CPD tables keep their column meaning; validated models are normalised."""
from __future__ import annotations

import ast
import inspect
import os
from fractions import Fraction

from harness import core, gen
from harness.core import ok, fail, skip, rs
from harness.worker import Stream
from harness.props.c04 import compare_factor, snapshot

OBLIGATIONS = [
    "PgmVerif.C05_column_meaning", "PgmVerif.C05_get_values", "PgmVerif.C05_reorder_parents",
    "PgmVerif.C05_col_normalize", "PgmVerif.C05_marginalize", "PgmVerif.C05_reduce",
    "PgmVerif.C05_valid_sound", "PgmVerif.C05_valid_complete", "PgmVerif.C05_check_model_iff",
    "PgmVerif.C05_atol_tie", "PgmVerif.C05_joint_mass_one", "PgmVerif.C05_joint_mass_within_tolerance",
]
PARTIAL = ["joint mass = 1 is proved for exact column sums (C05_joint_mass_one) and (1-t)^n <= mass <= (1+t)^n for column sums within t of 1 "
           "(C05_joint_mass_within_tolerance, every t <= 1, every network); that check_model's float test accepts exactly the columns within "
           "t = atol + rtol (numpy allclose) is compared per generated network in the correspondence",
           "state-name preservation is compared differentially (labels are not part of the table model)"]
RULE = ("random CPDs with 0-3 parents, cards 1-4, all label kinds, every parent permutation / subset; validation on networks that are "
        "correct or wrong in exactly one respect; non-trivial = at least one parent or a mutated network; distinct = distinct case JSON"
        " Also: CPDs with 8-10 parents, unnormalised tables through reduce / marginalize, edit + normalize after every transformation, construction from float64 arrays the caller writes to afterwards.")
ASSUMPTIONS = ["numpy allclose default rtol=1e-5 is read from numpy at run time; atol is extracted from the source"]
BUDGET_QUICK = 60

LEVEL_TEXT = ("Kernel-checked theorems (Props/C05.lean): column j of the 2-D table is the j-th parent configuration in C order for every "
              "cardinality list; reorder/marginalise/reduce/normalise preserve P(child|parents) at every assignment (normalised sum for "
              "marginalise); is_valid_cpd accepts exactly the tables whose every column sum is within the tolerance (atol extracted from the "
              "source and pinned by a decide theorem); check_model's verdict is characterised by its listed conditions; a network whose CPD columns all sum "
              "to 1 has joint mass 1, and with column sums within t of 1 the joint mass of an n-node network lies in [(1-t)^n, (1+t)^n]. The model is tied to "
              "TabularCPD / BayesianNetwork.check_model by differential correspondence at every named assignment.")
LEVEL_NOTE = ("Trusted: Lean kernel + standard axioms; hand-written model; harness; numpy's allclose rtol default.")
TECHNIQUE = "Lean 4 proof over a table model of TabularCPD + AST-extracted tolerance + differential correspondence"


def tolerance():
    import numpy as np
    src = ast.parse(open("/repo/pgmpy/factors/discrete/DiscreteFactor.py").read())
    atol = None
    for n in ast.walk(src):
        if isinstance(n, ast.FunctionDef) and n.name == "is_valid_cpd":
            for k in ast.walk(n):
                if isinstance(k, ast.keyword) and k.arg == "atol" and isinstance(k.value, ast.Constant):
                    atol = Fraction(repr(k.value.value))
    rtol = Fraction(repr(inspect.signature(np.allclose).parameters["rtol"].default))
    if atol is None:
        atol = Fraction(0)
    return atol + rtol


def rand_cpd_case(rng, normalised=True, maxpar=3):
    wide = rng.random() < .07
    if wide:
        # a CPD with 8-10 (mostly binary) parents: axis bookkeeping beyond 8 positions
        n = rng.randint(9, 11)
        names = gen.node_names(rng, n)
        card = [rng.choice([1, 2, 2, 2, 2, 3]) for _ in range(n)]
        maxpar = n - 1
    else:
        n = rng.randint(1, 5)
        names = gen.node_names(rng, n)
        card = [rng.choice([1, 2, 2, 3, 3, 4]) for _ in range(n)]
    labels = [gen.state_labels(rng, c) for c in card]
    child = rng.randrange(n)
    others = [v for v in range(n) if v != child]
    parents = rng.sample(others, rng.randint(8, len(others)) if wide else rng.randint(0, min(maxpar, len(others))))
    ncols = 1
    for p in parents:
        ncols *= card[p]
    cols = []
    for _ in range(ncols):
        if normalised:
            cols.append(gen.rand_dist(rng, card[child]))
        else:
            cols.append(gen.rand_vals(rng, card[child], rng.choice(["generic", "small", "zeros"])))
    if not normalised and rng.random() < .25:
        sc = Fraction(1, 10 ** rng.choice([9, 12, 15]))         # column masses far below 1e-8: still an ordinary table to normalise
        cols = [[x * sc for x in col] for col in cols]
    table = [[rs(cols[j][i]) for j in range(ncols)] for i in range(card[child])]
    return {"names": names, "card": card, "labels": labels, "child": child, "parents": parents, "table": table}


def mk_cpd(case):
    from pgmpy.factors.discrete import TabularCPD
    pn = [gen.lab(x) for x in case["names"]]
    v, ps = case["child"], case["parents"]
    sn = {pn[x]: [gen.lab(l) for l in case["labels"][x]] for x in [v] + ps}
    return TabularCPD(pn[v], case["card"][v], [[float(Fraction(x)) for x in row] for row in case["table"]],
                      evidence=[pn[p] for p in ps] if ps else None,
                      evidence_card=[case["card"][p] for p in ps] if ps else None, state_names=sn)


def model_cpd(case, drv):
    return drv.call("cpd_of_table", child=case["child"], parents=case["parents"], ccard=case["card"][case["child"]],
                    pcards=[case["card"][p] for p in case["parents"]], table=case["table"])


def cmp_table(arr, mtab, tol=core.RTOL):
    import numpy as np
    from pgmpy.utils import compat_fns
    a = np.asarray(compat_fns.to_numpy(arr))
    if a.shape != (len(mtab), len(mtab[0]) if mtab else 0):
        return f"2-D shape {a.shape} vs model {(len(mtab), len(mtab[0]) if mtab else 0)}"
    for i, row in enumerate(mtab):
        for j, x in enumerate(row):
            if not core.close(a[i, j], Fraction(x), tol):
                return f"2-D table [{i}][{j}]: impl {a[i, j]} model {x}"
    return None


# ----------------------------------------------------------------------------- build / export
def gen_build(rng, tier):
    return rand_cpd_case(rng)


def run_build(case, drv):
    cpd = mk_cpd(case)
    m = model_cpd(case, drv)
    names, card, labels = case["names"], case["card"], case["labels"]
    # the table given as a float64 array (as counts or a work buffer would be): the CPD owns its numbers, the array stays the caller's
    import numpy as np
    from pgmpy.factors.discrete import TabularCPD, DiscreteFactor
    pn_ = [gen.lab(x) for x in names]
    v_, ps_ = case["child"], case["parents"]
    arr = np.array([[float(Fraction(x)) for x in row] for row in case["table"]], dtype=float)
    arr0 = arr.copy()
    c2 = TabularCPD(pn_[v_], card[v_], arr, evidence=[pn_[p] for p in ps_] if ps_ else None,
                    evidence_card=[card[p] for p in ps_] if ps_ else None,
                    state_names={pn_[x]: [gen.lab(l) for l in labels[x]] for x in [v_] + ps_})
    if not np.array_equal(arr, arr0):
        return fail("constructor modified the array it was given")
    arr *= 3.0
    arr[0, 0] = 0.123
    err = compare_factor(c2, m["f"], names, card, labels)
    if err:
        return fail("a CPD built from an ndarray changes when the caller later writes to that array: " + err)
    flat = np.array([float(Fraction(x)) for row in case["table"] for x in row], dtype=float)
    f2 = DiscreteFactor([pn_[x] for x in [v_] + ps_], [card[x] for x in [v_] + ps_], flat,
                        state_names={pn_[x]: [gen.lab(l) for l in labels[x]] for x in [v_] + ps_})
    flat += 1.0
    err = compare_factor(f2, m["f"], names, card, labels)
    if err:
        return fail("a factor built from an ndarray changes when the caller later writes to that array: " + err)
    err = compare_factor(cpd, m["f"], names, card, labels)
    if err:
        return fail("constructor: " + err)
    err = cmp_table(cpd.get_values(), m["values"])
    if err:
        return fail("get_values: " + err)
    pn = [gen.lab(x) for x in names]
    if cpd.variables != [pn[case["child"]]] + [pn[p] for p in case["parents"]]:
        return fail(f"declared evidence order not kept: {cpd.variables}")
    # reading single entries by state NAME (get_value) - names are names, also integer ones that look like state numbers
    sc_ = [case["child"]] + case["parents"]
    if all(isinstance(pn[v], str) for v in sc_):
        for obj_name, obj in (("cpd", cpd), ("copy", cpd.copy()), ("to_factor", cpd.to_factor())):
            for k_, asg in enumerate(core.all_assignments(m["f"]["scope"], m["f"]["card"])):
                if k_ % 3 and k_ > 6:
                    continue
                try:
                    got = float(obj.get_value(**{pn[v]: gen.lab(labels[v][asg[v]]) for v in sc_}))
                except Exception as e:
                    return fail(f"{obj_name}.get_value by state names raised {type(e).__name__}: {e}")
                if not core.close(got, core.model_value(m["f"], asg)):
                    return fail(f"{obj_name}.get_value({ {pn[v]: labels[v][asg[v]] for v in sc_} }) = {got}, table entry {float(core.model_value(m['f'], asg))}")
    s0 = snapshot(cpd)
    fct = cpd.to_factor()
    err = compare_factor(fct, m["f"], names, card, labels)
    if err:
        return fail("to_factor: " + err)
    cp = cpd.copy()
    err = compare_factor(cp, m["f"], names, card, labels)
    if err:
        return fail("copy: " + err)
    if cp.variable != cpd.variable or list(cp.variables) != list(cpd.variables):
        return fail("copy: variable / evidence order changed")
    cp.values[...] = 0.5
    fct.values[...] = 0.25
    if snapshot(cpd) != s0:
        return fail("copy / to_factor share storage with the original")
    return ok(nontrivial=len(case["parents"]) > 0, nparents=len(case["parents"]), ncols=len(case["table"][0]))


# ----------------------------------------------------------------------------- transformations
def gen_transform(rng, tier):
    op = rng.choice(["reorder", "reorder", "marginalize", "reduce", "reduce", "normalize"])
    # reduce / marginalize renormalise their result: also tables of counts or rounded probabilities go in
    case = rand_cpd_case(rng, normalised=(op == "reorder" or (op != "normalize" and rng.random() < .5)), maxpar=4 if op == "reduce" else 3)
    if op != "normalize" and not case["parents"]:
        return None
    ps = case["parents"]
    case["op"] = op
    case["inplace"] = rng.random() < .5
    if op == "reorder":
        o = list(ps)
        rng.shuffle(o)
        case["order"] = o
    elif op == "marginalize":
        case["vars"] = rng.sample(ps, rng.randint(1, len(ps)))
    elif op == "reduce":
        sub = rng.sample(ps, rng.randint(1, len(ps)))
        case["ev"] = [[v, rng.randrange(case["card"][v])] for v in sub]
    return case


def run_transform(case, drv):
    import numpy as np
    names, card, labels = case["names"], case["card"], case["labels"]
    pn = [gen.lab(x) for x in names]
    cpd = mk_cpd(case)
    m0 = model_cpd(case, drv)
    s0 = snapshot(cpd)
    op, inplace = case["op"], case["inplace"]
    tags = dict(op=op, inplace=inplace, nparents=len(case["parents"]))
    if op == "reorder":
        m = drv.call("cpd_reorder", f=m0["f"], order=case["order"])
        order = [pn[v] for v in case["order"]]
        import warnings
        with warnings.catch_warnings():
            warnings.simplefilter("ignore")
            ret = cpd.reorder_parents(order, inplace=inplace)
        err = cmp_table(ret, m["values"])
        if err:
            return fail("reorder_parents returned table: " + err, **tags)
        if inplace:
            err = compare_factor(cpd, m["f"], names, card, labels)
            if err:
                return fail("reorder_parents(inplace=True): " + err, **tags)
            if list(cpd.variables) != [pn[case["child"]]] + order:
                return fail(f"reorder_parents(inplace=True): evidence order {cpd.variables[1:]} not {order}", **tags)
            err = cmp_table(cpd.get_values(), m["values"])
            if err:
                return fail("reorder_parents(inplace=True) get_values: " + err, **tags)
        elif snapshot(cpd) != s0:
            return fail("reorder_parents(inplace=False) modified the CPD", **tags)
        return ok(nontrivial=case["order"] != case["parents"], **tags)
    if op == "marginalize":
        m = drv.call("cpd_marginalize", f=m0["f"], vars=case["vars"])
        args = ([pn[v] for v in case["vars"]],)
    elif op == "reduce":
        m = drv.call("cpd_reduce", f=m0["f"], ev=case["ev"])
        args = ([(pn[v], gen.lab(labels[v][i])) for v, i in case["ev"]],)
    else:
        m = drv.call("cpd_normalize", f=m0["f"])
        args = ()
    if m["zero"]:
        return skip("a column sums to zero (normalisation undefined)")
    with np.errstate(all="ignore"):
        if inplace:
            getattr(cpd, op)(*args, inplace=True)
            res = cpd
        else:
            res = getattr(cpd, op)(*args, inplace=False)
    if res is None:
        return fail(f"{op}(inplace=False) returned None", **tags)
    err = compare_factor(res, m["f"], names, card, labels)
    if err:
        return fail(f"{op}: {err}", **tags)
    err = cmp_table(res.get_values(), m["values"])
    if err:
        return fail(f"{op} get_values: {err}", **tags)
    if res.variable != pn[case["child"]] or res.variables[0] != pn[case["child"]]:
        return fail(f"{op}: child is no longer the first axis", **tags)
    if not inplace and snapshot(cpd) != s0:
        return fail(f"{op}(inplace=False) modified the CPD", **tags)
    # the result is an ordinary CPD: an exported table is a value, and a later edit + normalize() behaves like on a fresh CPD
    exported = np.array(res.get_values(), dtype=float).copy()
    held = res.get_values()
    try:
        res.values[...] = res.values * 3.0 + 1.0
        res.normalize(inplace=True)
    except Exception as e:
        return fail(f"normalize() after {op} raised {type(e).__name__}: {e}", **tags)
    if held.shape == exported.shape and not np.array_equal(np.asarray(held, dtype=float), exported):
        pass            # the export may be a view of the table that was just edited on purpose: not judged
    tab = [[3 * Fraction(x) + 1 for x in row] for row in m["values"]]
    for j in range(len(tab[0]) if tab else 0):
        tot = sum(tab[i][j] for i in range(len(tab)))
        for i in range(len(tab)):
            got = float(np.asarray(res.get_values())[i, j])
            if not core.close(got, tab[i][j] / tot):
                return fail(f"after {op}: values*3+1 followed by normalize() gives [{i}][{j}] = {got}, column-normalised value {float(tab[i][j] / tot)}", **tags)
    return ok(**tags)


# ----------------------------------------------------------------------------- derived objects share nothing with the CPD
def gen_alias(rng, tier):
    case = rand_cpd_case(rng, normalised=True)
    if not case["parents"]:
        return None
    case["derive"] = rng.choice(["to_factor", "to_factor", "copy", "marginalize", "reduce", "normalize", "reorder"])
    case["edit"] = rng.choice(["marginalize", "reduce", "maximize", "scale", "set_value", "product"])
    case["which"] = rng.randrange(len(case["parents"]))
    return case


def run_alias(case, drv):
    """an object derived from a CPD (to_factor, copy, out-of-place results) is edited IN PLACE: the CPD must not notice"""
    import numpy as np
    from pgmpy.factors.discrete import DiscreteFactor
    names, card, labels = case["names"], case["card"], case["labels"]
    pn = [gen.lab(x) for x in names]
    cpd = mk_cpd(case)
    m0 = model_cpd(case, drv)
    s0 = snapshot(cpd)
    p = case["parents"][case["which"]]
    tags = dict(derive=case["derive"], edit=case["edit"])
    try:
        with np.errstate(all="ignore"):
            d = case["derive"]
            if d == "to_factor":
                obj = cpd.to_factor()
            elif d == "copy":
                obj = cpd.copy()
            elif d == "marginalize":
                others = [q for q in case["parents"] if q != p]
                if not others:
                    return skip("one parent only")
                obj = cpd.marginalize([pn[others[0]]], inplace=False)
            elif d == "reduce":
                others = [q for q in case["parents"] if q != p]
                if not others:
                    return skip("one parent only")
                obj = cpd.reduce([(pn[others[0]], gen.lab(labels[others[0]][0]))], inplace=False)
            elif d == "normalize":
                obj = cpd.normalize(inplace=False)
            else:
                import warnings
                with warnings.catch_warnings():
                    warnings.simplefilter("ignore")
                    cpd.reorder_parents([pn[q] for q in reversed(case["parents"])], inplace=False)
                obj = cpd.copy()
            e = case["edit"]
            if e == "marginalize":
                obj.marginalize([pn[p]], inplace=True)
            elif e == "reduce":
                obj.reduce([(pn[p], gen.lab(labels[p][0]))], inplace=True)
            elif e == "maximize":
                if isinstance(obj, DiscreteFactor) and not hasattr(obj, "variable"):
                    obj.maximize([pn[p]], inplace=True)
                else:
                    obj.marginalize([pn[p]], inplace=True)
            elif e == "scale":
                obj.values *= 3.0
            elif e == "set_value":
                idx = tuple(0 for _ in obj.values.shape)
                obj.values[idx] = 0.123
            else:
                other = DiscreteFactor(["zz_new"], [2], [0.5, 2.0])
                if hasattr(obj, "variable"):
                    obj.to_factor().product(other, inplace=True)
                else:
                    obj.product(other, inplace=True)
    except Exception as ex:
        return fail(f"{case['derive']} then in-place {case['edit']} raised {type(ex).__name__}: {ex}", **tags)
    if snapshot(cpd) != s0:
        return fail(f"editing the result of {case['derive']} in place ({case['edit']}) changed the CPD it came from", **tags)
    err = compare_factor(cpd, m0["f"], names, card, labels)
    if err:
        return fail(f"after editing the result of {case['derive']} in place the CPD reads differently by state name: {err}", **tags)
    return ok(nontrivial=True, **tags)


# ----------------------------------------------------------------------------- is_valid_cpd
def gen_valid(rng, tier):
    case = rand_cpd_case(rng)
    ncols = len(case["table"][0])
    k = case["card"][case["child"]]
    j = rng.randrange(ncols)
    mult = rng.choice(["0", "1/2", "99/100", "101/100", "2", "-1/2", "-99/100", "-101/100", "-2"])
    case["col"] = j
    case["mult"] = mult
    return case


def run_valid(case, drv):
    t = tolerance()
    delta = Fraction(case["mult"]) * t
    table = [[Fraction(x) for x in row] for row in case["table"]]
    j = case["col"]
    # move the column sum by delta, spread over an entry that stays non-negative
    i = max(range(len(table)), key=lambda r: table[r][j])
    table[i][j] += delta
    if table[i][j] < 0:
        return skip("perturbation would make an entry negative")
    c2 = dict(case)
    c2["table"] = [[rs(x) for x in row] for row in table]
    cpd = mk_cpd(c2)
    m = model_cpd(c2, drv)
    mv = drv.call("cpd_valid", f=m["f"], tol=rs(t))
    iv = bool(cpd.is_valid_cpd())
    if iv != mv:
        return fail(f"is_valid_cpd: impl {iv} model {mv} (column sum off by {case['mult']} x tolerance {float(t)})", mult=case["mult"])
    return ok(mult=case["mult"], verdict=iv)


# ----------------------------------------------------------------------------- check_model
MUTS = ["ok", "ok", "missing", "parents_drop", "parents_extra", "card", "names", "colsum_in", "colsum_out"]


def gen_check(rng, tier):
    case = gen.rand_bn(rng, nmin=1, nmax=5, maxcard=3, dup=False)
    mut = rng.choice(MUTS)
    case["mut"] = mut
    case["target"] = rng.randrange(len(case["nodes"]))
    case["r"] = rng.random()
    return case


def run_check(case, drv):
    from pgmpy.factors.discrete import TabularCPD
    t = tolerance()
    mut, tgt = case["mut"], case["target"]
    n = len(case["nodes"])
    card, labels = case["card"], case["labels"]
    pn = [gen.lab(x) for x in case["nodes"]]
    cp = {c["child"]: {"child": c["child"], "parents": list(c["parents"]), "table": [list(r) for r in c["table"]]} for c in case["cpds"]}
    decl_card = {v: {x: card[x] for x in [v] + cp[v]["parents"]} for v in cp}       # cards as declared by each CPD
    decl_lab = {v: {x: list(labels[x]) for x in [v] + cp[v]["parents"]} for v in cp}
    graph_par = {v: sorted(p for p, c in case["edges"] if c == v) for v in range(n)}
    applied = mut
    if mut == "missing":
        del cp[tgt]
    elif mut == "parents_drop":
        if not cp[tgt]["parents"]:
            applied = "ok"
        else:
            # drop the last declared parent: keep the first block of columns
            p = cp[tgt]["parents"].pop()
            k = card[p]
            cp[tgt]["table"] = [row[::k] for row in cp[tgt]["table"]]
            del decl_card[tgt][p], decl_lab[tgt][p]
    elif mut == "parents_extra":
        cand = [v for v in range(n) if v != tgt and v not in cp[tgt]["parents"]]
        if not cand:
            applied = "ok"
        else:
            p = cand[int(case["r"] * len(cand)) % len(cand)]
            cp[tgt]["parents"].append(p)
            cp[tgt]["table"] = [[x for x in row for _ in range(card[p])] for row in cp[tgt]["table"]]
            decl_card[tgt][p] = card[p]
            decl_lab[tgt][p] = list(labels[p])
    elif mut == "card":
        if not cp[tgt]["parents"]:
            applied = "ok"
        else:
            p = cp[tgt]["parents"][-1]
            # declare one more state for the last parent
            k = card[p]
            newt = []
            for row in cp[tgt]["table"]:
                r2 = []
                for b in range(0, len(row), k):
                    blk = row[b:b + k]
                    r2.extend(blk + [blk[-1]])
                newt.append(r2)
            cp[tgt]["table"] = newt
            decl_card[tgt][p] = k + 1
            decl_lab[tgt][p] = list(labels[p]) + [["extra", 0]]
    elif mut == "names":
        if not cp[tgt]["parents"]:
            applied = "ok"
        else:
            p = cp[tgt]["parents"][0]
            decl_lab[tgt][p] = [["other", i] for i in range(card[p])]
    elif mut in ("colsum_in", "colsum_out"):
        tab = [[Fraction(x) for x in row] for row in cp[tgt]["table"]]
        j = int(case["r"] * len(tab[0])) % len(tab[0])
        i = max(range(len(tab)), key=lambda r: tab[r][j])
        d = t * (Fraction(99, 100) if mut == "colsum_in" else Fraction(101, 100))
        if case["r"] < .5 and tab[i][j] >= d:
            d = -d
        tab[i][j] += d
        cp[tgt]["table"] = [[rs(x) for x in row] for row in tab]
    # implementation
    from pgmpy.models import BayesianNetwork
    bn = BayesianNetwork()
    bn.add_nodes_from(pn)
    bn.add_edges_from([(pn[u], pn[v]) for u, v in case["edges"]])
    history = applied in ("colsum_out", "parents_drop") and int(case["r"] * 1000) % 3 == 0
    if history:
        # the VALID network is validated (and queried) first; then the CPD object that is attached to the model is edited in place into
        # the faulty one; validation must look at the model as it is now
        orig = {c["child"]: c for c in case["cpds"]}
        for v, c in orig.items():
            sn = {pn[x]: [gen.lab(l) for l in labels[x]] for x in [v] + c["parents"]}
            bn.add_cpds(TabularCPD(pn[v], card[v], [[float(Fraction(x)) for x in row] for row in c["table"]],
                                   evidence=[pn[p] for p in c["parents"]] or None,
                                   evidence_card=[card[p] for p in c["parents"]] or None, state_names=sn))
        try:
            first = bool(bn.check_model())
        except ValueError as e:
            return fail(f"check_model rejects the unmodified network: {e}", mut="history", n=n)
        if not first:
            return fail("check_model returned False for the unmodified network", mut="history", n=n)
        obj = bn.get_cpds(pn[tgt])
        if applied == "parents_drop":
            dropped = [x for x in orig[tgt]["parents"] if x not in cp[tgt]["parents"]][0]
            obj.marginalize([pn[dropped]], inplace=True)
        else:
            newt = [[float(Fraction(x)) for x in row] for row in cp[tgt]["table"]]
            import numpy as np
            arr = np.asarray(newt, dtype=float).reshape(obj.values.shape)
            obj.values[...] = arr
    else:
        for v, c in cp.items():
            sn = {pn[x]: [gen.lab(l) for l in decl_lab[v][x]] for x in [v] + c["parents"]}
            bn.add_cpds(TabularCPD(pn[v], decl_card[v][v], [[float(Fraction(x)) for x in row] for row in c["table"]],
                                   evidence=[pn[p] for p in c["parents"]] or None,
                                   evidence_card=[decl_card[v][p] for p in c["parents"]] or None, state_names=sn))
    try:
        impl = bool(bn.check_model())
    except ValueError:
        impl = False
    # model
    ltab = {}

    def lid(l):
        return ltab.setdefault(repr(l), len(ltab))
    nodes = []
    for v in range(n):
        if v in cp:
            c = cp[v]
            sc = [v] + c["parents"]
            f = {"scope": sc, "card": [decl_card[v][x] for x in sc], "vals": [x for row in c["table"] for x in row]}
            labs = [[lid(l) for l in decl_lab[v][x]] for x in sc]
        else:
            f, labs = None, []
        nodes.append({"node": v, "gparents": graph_par[v], "cpd": f, "labels": labs})
    mv = drv.call("check_model", nodes=nodes, tol=rs(t))
    tags = dict(mut=applied, n=n, history=history)
    if impl != (mv == "ok"):
        return fail(f"check_model: impl {'accepts' if impl else 'rejects'}, model says {mv} (mutation {applied})", **tags)
    if impl:
        # an accepted network: parents = graph parents, joint mass within (1±t)^n
        fs = [{"scope": nd["cpd"]["scope"], "card": nd["cpd"]["card"], "vals": nd["cpd"]["vals"]} for nd in nodes]
        j = drv.call("bn_joint", fs=fs, vars=list(range(n)), cards=card)
        tot = sum(Fraction(x) for x in j["vals"])
        if not ((1 - t) ** n <= tot <= (1 + t) ** n):
            return fail(f"accepted network has joint mass {float(tot)} outside (1±t)^n", **tags)
        for v in range(n):
            if set(bn.get_cpds(pn[v]).variables[1:]) != set(bn.get_parents(pn[v])):
                return fail("accepted network whose CPD parents differ from graph parents", **tags)
    return ok(nontrivial=applied != "ok" or n > 1, **tags)


STREAMS = [
    Stream("build", gen_build, run_build, quick=900, thorough=10000),
    Stream("transform", gen_transform, run_transform, quick=1500, thorough=20000),
    Stream("alias", gen_alias, run_alias, quick=500, thorough=5000),
    Stream("valid", gen_valid, run_valid, quick=600, thorough=6000),
    Stream("check_model", gen_check, run_check, quick=900, thorough=10000),
]
