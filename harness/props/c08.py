"""C08 — d-separation answers match the path-based definition."""
from __future__ import annotations

import itertools

from harness import core, gen
from harness.core import ok, fail, skip
from harness.worker import Stream

OBLIGATIONS = [
    "PgmVerif.C08_saturate_closed", "PgmVerif.C08_saturate_sound", "PgmVerif.C08_reach_exact", "PgmVerif.C08_reach_iff_active_trail",
    "PgmVerif.C08_ancestors_exact", "PgmVerif.C08_blanket_spec",
    "PgmVerif.DSep.activeRev_reverse", "PgmVerif.C08_dconnection_symmetric",
]
PARTIAL = ["the theorem is stated on trails (nodes may repeat, Koller-Friedman); the equivalent simple-path form used by the executable "
           "path-enumeration spec is confirmed exhaustively (all DAGs <= 4 nodes quick, 5 nodes thorough), not proved",
           "minimality / existence of the returned separator: checked per case against the spec"]
RULE = ("exhaustive: every labelled DAG on <=4 nodes x every observed subset x every start node (x name kinds / observed container kinds); "
        "random DAGs to 7 nodes with latents; non-trivial = graph has an edge; distinct = case JSON"
        " Also: BayesianNetwork objects, per-graph insertion order, latent end points and latent flags set after the structure, multi-variable local_independencies, a sample of the 5-node DAGs in the quick tier.")
ASSUMPTIONS = ["networkx predecessors/successors are adjacency look-ups"]
BUDGET_QUICK = 80
LEVEL_TEXT = ("Kernel-checked: C08_reach_iff_active_trail - for every acyclic graph, observed set and unobserved start node, a (node, direction) "
              "state is reached by the traversal of active_trail_nodes iff an active trail in the textbook sense (every interior non-collider "
              "unobserved, every interior collider an ancestor-or-self of an observed node) ends there. Also: the fuel-bounded saturation used by the model of active_trail_nodes / _get_ancestors_of returns exactly the least "
              "set closed under the four (node, direction) rules (closed + sound for any step function; fuel bound proved), ancestors are "
              "exactly the reflexive-transitive parents closure, Markov blanket is parents+children+co-parents. The equivalence of the rule "
              "system with the path definition (every non-collider unobserved, every collider with an observed descendant-or-self) is decided "
              "exhaustively on all DAGs up to 4 (quick) / 5 (thorough) nodes and on random DAGs, comparing the implementation and the Lean "
              "algorithm model with the Lean path-enumeration spec (partial). Separators: no latent, separates, minimal, exists - per case.")
LEVEL_NOTE = "Trusted: Lean kernel + standard axioms; model; harness; the simple-path form of the definition."
TECHNIQUE = "Lean 4 proof (saturation = least fixed point of the trail rules) + exhaustive differential check against a Lean path-enumeration spec"

_DAGS = {}


def dags(n):
    if n not in _DAGS:
        _DAGS[n] = gen.all_dags(n)
    return _DAGS[n]


NAME_KINDS = ["int1", "int0", "str"]


def names_for(kind, n):
    if kind == "int1":
        return list(range(1, n + 1))
    if kind == "int0":
        return list(range(n))
    return ["A", "B", "C", "D", "E", "F", "G", "H", "I"][:n]


def mk_dag(names, edges, latents=()):
    from pgmpy.base import DAG
    from pgmpy.models import BayesianNetwork
    import random
    # the order in which nodes and edges are inserted is not part of a graph: every graph gets its own (deterministic) shuffle
    prng = random.Random(len(edges) * 131 + len(names) * 17 + sum((i + 1) * (u * 7 + v) for i, (u, v) in enumerate(edges)))
    node_order = list(names)
    prng.shuffle(node_order)
    edges = list(map(tuple, edges))
    prng.shuffle(edges)
    lat = [gen.lab(names[v]) for v in latents]
    if (len(edges) + len(latents)) % 2 == 0:
        # the public way of declaring latent nodes one by one, on the class most users build; a latent declared on one graph
        # object must never show up in another one (the workers build thousands of graphs in one process)
        g = BayesianNetwork()
        if prng.random() < .5:
            for x in node_order:
                g.add_node(gen.lab(x), latent=gen.lab(x) in lat)
            g.add_edges_from([(gen.lab(names[u]), gen.lab(names[v])) for u, v in edges])
        else:
            # structure first, the latent flags afterwards (add_node / add_nodes_from on nodes that already exist)
            g.add_nodes_from([gen.lab(x) for x in node_order])
            g.add_edges_from([(gen.lab(names[u]), gen.lab(names[v])) for u, v in edges])
            if lat and prng.random() < .5:
                g.add_nodes_from(lat, latent=[True] * len(lat))
            else:
                for x in lat:
                    g.add_node(x, latent=True)
        return g
    g = DAG()
    g.add_nodes_from([gen.lab(x) for x in node_order])
    g.add_edges_from([(gen.lab(names[u]), gen.lab(names[v])) for u, v in edges])
    g.latents = set(lat)
    return g


def container(kind, items):
    if kind == "list":
        return list(items)
    if kind == "tuple":
        return tuple(items)
    if kind == "set":
        return set(items)
    if kind == "single" and len(items) == 1:
        return items[0]
    return list(items)


def enum_small(tier):
    k = 0
    for n in (1, 2, 3, 4):
        for edges in dags(n):
            for r in range(n + 1):
                for obs in itertools.combinations(range(n), r):
                    h = (k * 2654435761 % (2 ** 32)) >> 5
                    yield {"n": n, "edges": [list(e) for e in edges], "obs": list(obs),
                           "names": NAME_KINDS[h % 3], "cont": ["list", "set", "tuple", "single"][(h // 3) % 4]}
                    k += 1
    import random
    rng = random.Random(5)
    for j, edges in enumerate(dags(5)):
        if tier != "thorough" and j % 23:
            continue                      # quick tier: every 23rd five-node DAG
        if True:
            for _ in range(3):
                obs = [v for v in range(5) if rng.random() < .35]
                h = (k * 2654435761 % (2 ** 32)) >> 5
                yield {"n": 5, "edges": [list(e) for e in edges], "obs": obs, "names": NAME_KINDS[h % 3],
                       "cont": ["list", "set", "tuple", "single"][(h // 3) % 4]}
                k += 1


def run_active(case, drv):
    n, edges, obs = case["n"], case["edges"], case["obs"]
    names = names_for(case["names"], n) if isinstance(case["names"], str) else case["names"]
    pn = [gen.lab(x) for x in names]
    lat = case.get("latents", [])
    g = mk_dag(names, edges, lat)
    m = drv.call("g_active_all", g={"nodes": list(range(n)), "edges": edges}, obs=obs)
    for e in m:
        if e["algo"] != e["spec"]:
            return fail(f"Lean algorithm model {e['algo']} != Lean path spec {e['spec']} for start {e['x']}")
    incl = case.get("include_latents", False)
    o = container(case["cont"], [pn[v] for v in obs])
    try:
        res = g.active_trail_nodes(list(pn), observed=o, include_latents=incl) if lat or incl else g.active_trail_nodes(list(pn), observed=o)
    except Exception as ex:
        return fail(f"active_trail_nodes raised {type(ex).__name__}: {ex}")
    for e in m:
        exp = {pn[v] for v in e["spec"] if incl or v not in lat}
        got = set(res[pn[e["x"]]])
        if got != exp:
            return fail(f"active_trail_nodes({pn[e['x']]!r}, observed={o!r}): impl {sorted(map(str, got))} spec {sorted(map(str, exp))}",
                        n=n, nobs=len(obs))
    # is_dconnected on one pair
    if n >= 2:
        x, y = 0, n - 1
        if x not in obs and y not in obs and x not in lat and y not in lat:
            d = g.is_dconnected(pn[x], pn[y], observed=[pn[v] for v in obs] or None)
            if bool(d) != (y in m[x]["spec"]):
                return fail(f"is_dconnected({pn[x]!r},{pn[y]!r}|{obs}) = {d}")
        # a latent START with a visible end: the answer is still the d-connection of the two nodes (only latent END points are hidden)
        for x in lat:
            for y in range(n):
                if y != x and y not in lat and x not in obs and y not in obs:
                    d = g.is_dconnected(pn[x], pn[y], observed=[pn[v] for v in obs] or None)
                    if bool(d) != (y in m[x]["spec"]):
                        return fail(f"is_dconnected(latent {pn[x]!r}, {pn[y]!r} | {obs}) = {d}, d-connected: {y in m[x]['spec']}")
    return ok(nontrivial=len(edges) > 0, n=n, nobs=len(obs), names=str(case["names"])[:6], cont=case["cont"])


def gen_random(rng, tier):
    n = rng.randint(5, 7 if tier == "quick" else 9)
    shape, edges = gen.rand_dag_edges(rng, n)
    obs = [v for v in range(n) if rng.random() < .3]
    lat = [v for v in range(n) if rng.random() < .2 and v not in obs]
    names = gen.node_names(rng, n, rng.choice(["str", "word", "int", "int0"]))
    return {"n": n, "edges": [list(e) for e in edges], "obs": obs, "names": names, "latents": lat,
            "include_latents": rng.random() < .5, "cont": rng.choice(["list", "set", "tuple"]), "shape": shape}


# ----------------------------------------------------------------------------- one graph object that is queried, edited, queried again
def gen_edit_history(rng, tier):
    n = rng.randint(4, 6)
    _, edges = gen.rand_dag_edges(rng, n, rng.choice(["gnp", "gnp_dense", "collider", "diamond", "family"]))
    edges = [list(e) for e in edges]
    cur = [tuple(e) for e in edges]
    steps = []
    obs0 = [v for v in range(n) if rng.random() < .35] or [rng.randrange(n)]
    steps.append({"k": "query", "obs": obs0})
    for _ in range(rng.randint(2, 5)):
        k = rng.choice(["query", "query", "remove_edge", "remove_edge", "add_edge", "remove_edges_from", "do"])
        if k == "query":
            # mostly the SAME observed set as before: an answer remembered across an edit would be served again
            steps.append({"k": "query", "obs": obs0 if rng.random() < .7 else [v for v in range(n) if rng.random() < .35]})
        elif k in ("remove_edge", "remove_edges_from") and cur:
            es = rng.sample(cur, 1 if k == "remove_edge" else min(len(cur), 2))
            for e in es:
                cur.remove(e)
            steps.append({"k": k, "edges": [list(e) for e in es]})
        elif k == "add_edge":
            cand = [(a, b) for a in range(n) for b in range(n) if a != b and (a, b) not in cur and gen.is_acyclic(n, cur + [(a, b)])]
            if cand:
                e = rng.choice(cand)
                cur.append(e)
                steps.append({"k": "add_edge", "edges": [list(e)]})
        elif k == "do":
            v = rng.randrange(n)
            cur = [e for e in cur if e[1] != v]
            steps.append({"k": "do", "v": v})
    steps.append({"k": "query", "obs": obs0})
    return {"n": n, "edges": edges, "steps": steps, "names": gen.node_names(rng, n, rng.choice(["str", "int0"]))}


def run_edit_history(case, drv):
    """d-separation answers after any sequence of edits must be those of the CURRENT graph"""
    n = case["n"]
    names = case["names"]
    pn = [gen.lab(x) for x in names]
    g = mk_dag(names, case["edges"])
    cur = [tuple(e) for e in case["edges"]]
    nq = 0
    for i, st in enumerate(case["steps"]):
        try:
            if st["k"] == "query":
                obs = st["obs"]
                m = drv.call("g_active_all", g={"nodes": list(range(n)), "edges": [list(e) for e in cur]}, obs=obs)
                res = g.active_trail_nodes(list(pn), observed=[pn[v] for v in obs])
                for e in m:
                    exp = {pn[v] for v in e["spec"]}
                    got = set(res[pn[e["x"]]])
                    if got != exp:
                        return fail(f"step {i}: after the edits {[s_['k'] for s_ in case['steps'][:i]]} active_trail_nodes({pn[e['x']]!r}, "
                                    f"observed={[pn[v] for v in obs]}) = {sorted(map(str, got))}, the current graph {cur} gives {sorted(map(str, exp))}")
                if obs:
                    anc = set(g.get_ancestral_graph([pn[v] for v in obs]).nodes())
                    manc = {pn[v] for v in drv.call("g_ancestors", g={"nodes": list(range(n)), "edges": [list(e) for e in cur]}, zs=obs)}
                    if anc != manc:
                        return fail(f"step {i}: get_ancestral_graph({[pn[v] for v in obs]}) has nodes {sorted(map(str, anc))}, current graph gives {sorted(map(str, manc))}")
                nq += 1
            elif st["k"] == "remove_edge":
                (a, b), = st["edges"]
                g.remove_edge(pn[a], pn[b])
                cur.remove((a, b))
            elif st["k"] == "remove_edges_from":
                g.remove_edges_from([(pn[a], pn[b]) for a, b in st["edges"]])
                for a, b in st["edges"]:
                    cur.remove((a, b))
            elif st["k"] == "add_edge":
                (a, b), = st["edges"]
                g.add_edge(pn[a], pn[b])
                cur.append((a, b))
            elif st["k"] == "do":
                g = g.do([pn[st["v"]]], inplace=rng_bool(i, n))
                cur = [e for e in cur if e[1] != st["v"]]
        except Exception as ex:
            return fail(f"step {i} ({st['k']}) raised {type(ex).__name__}: {ex}")
    return ok(nontrivial=nq >= 2, n=n, steps=len(case["steps"]))


def rng_bool(i, n):
    return (i + n) % 2 == 0


# ----------------------------------------------------------------------------- derived sets
def gen_derived(rng, tier):
    n = rng.randint(1, 6)
    shape, edges = gen.rand_dag_edges(rng, n)
    return {"n": n, "edges": [list(e) for e in edges], "names": gen.node_names(rng, n, rng.choice(["str", "word", "int", "int0"])),
            "zs": rng.sample(range(n), rng.randint(1, n))}


def run_derived(case, drv):
    n, edges = case["n"], case["edges"]
    pn = [gen.lab(x) for x in case["names"]]
    g = mk_dag(case["names"], edges)
    mg = {"nodes": list(range(n)), "edges": edges}
    for v in range(n):
        mb = drv.call("g_blanket", g=mg, v=v)
        got = set(g.get_markov_blanket(pn[v]))
        if got != {pn[w] for w in mb}:
            return fail(f"get_markov_blanket({pn[v]!r}) impl {got} model {[pn[w] for w in mb]}")
    mor = drv.call("g_moral", g=mg)
    mi = g.moralize()
    gi = {frozenset(e) for e in mi.edges()}
    gm = {frozenset((pn[a], pn[b])) for a, b in mor}
    if gi != gm or set(mi.nodes()) != set(pn):
        return fail(f"moralize: impl {sorted(map(sorted, gi))} model {sorted(map(sorted, gm))}")
    anc = drv.call("g_ancestors", g=mg, zs=case["zs"])
    ag = g.get_ancestral_graph([pn[z] for z in case["zs"]])
    if set(ag.nodes()) != {pn[v] for v in anc}:
        return fail(f"get_ancestral_graph nodes: impl {set(ag.nodes())} model {anc}")
    exp_e = {(pn[u], pn[v]) for u, v in edges if u in anc and v in anc}
    if set(ag.edges()) != exp_e:
        return fail("get_ancestral_graph edges differ from the induced subgraph")
    return ok(nontrivial=len(edges) > 0, n=n)


# ----------------------------------------------------------------------------- independencies
def gen_indep(rng, tier):
    n = rng.randint(2, 4)
    shape, edges = gen.rand_dag_edges(rng, n)
    return {"n": n, "edges": [list(e) for e in edges]}


def run_indep(case, drv):
    n, edges = case["n"], case["edges"]
    names = names_for("str", n)
    g = mk_dag(names, edges)
    mg = {"nodes": list(range(n)), "edges": edges}
    idx = {nm: i for i, nm in enumerate(names)}
    try:
        ind = g.get_independencies()
    except Exception as ex:
        return fail(f"get_independencies raised {type(ex).__name__}: {ex}")
    asserts = [(set(a.event1), set(a.event2), set(a.event3)) for a in ind.get_assertions()]
    spec = {}
    for r in range(n):
        for obs in itertools.combinations(range(n), r):
            for e in drv.call("g_active_all", g=mg, obs=list(obs)):
                spec[(e["x"], obs)] = set(e["spec"])
    # soundness
    for e1, e2, e3 in asserts:
        obs = tuple(sorted(idx[z] for z in e3))
        for x in e1:
            for y in e2:
                if idx[y] in spec[(idx[x], obs)]:
                    return fail(f"get_independencies lists ({x} _|_ {y} | {sorted(e3)}) but they are d-connected")
    # completeness (up to symmetry)
    for (x, obs), act in spec.items():
        if x in obs:
            continue
        for y in range(n):
            if y == x or y in obs or y in act:
                continue
            z = {names[v] for v in obs}
            if not any(e3 == z and ((names[x] in e1 and names[y] in e2) or (names[y] in e1 and names[x] in e2)) for e1, e2, e3 in asserts):
                return fail(f"get_independencies misses ({names[x]} _|_ {names[y]} | {sorted(z)})")
    # local independencies
    for v in range(n):
        li = g.local_independencies(names[v]).get_assertions()
        desc = set(drv.call("g_descendants", g=mg, zs=[v]))
        par = {u for u, w in edges if w == v}
        nd = set(range(n)) - desc - par
        if nd:
            if len(li) != 1 or set(li[0].event1) != {names[v]} or set(li[0].event2) != {names[u] for u in nd} or set(li[0].event3) != {names[u] for u in par}:
                return fail(f"local_independencies({names[v]}): {li}")
        elif li:
            return fail(f"local_independencies({names[v]}) should be empty: {li}")
    # the same question for SEVERAL variables in one call (list or tuple, any order): one statement per variable, each the same as
    # when asked alone
    if n >= 2:
        import random
        prng = random.Random(n * 97 + len(edges))
        vs = list(range(n))
        prng.shuffle(vs)
        vs = vs[:prng.randint(2, n)]
        arg = [names[v] for v in vs] if prng.random() < .5 else tuple(names[v] for v in vs)
        try:
            got = {(frozenset(a.event1), frozenset(a.event2), frozenset(a.event3)) for a in g.local_independencies(arg).get_assertions()}
        except Exception as ex:
            return fail(f"local_independencies({arg!r}) raised {type(ex).__name__}: {ex}")
        want = set()
        for v in vs:
            desc = set(drv.call("g_descendants", g=mg, zs=[v]))
            par = {u for u, w in edges if w == v}
            nd = set(range(n)) - desc - par
            if nd:
                want.add((frozenset({names[v]}), frozenset(names[u] for u in nd), frozenset(names[u] for u in par)))
        if got != want:
            return fail(f"local_independencies({arg!r}) = {sorted(map(str, got))}, one local Markov statement per variable gives {sorted(map(str, want))}")
    return ok(nontrivial=len(edges) > 0, n=n)


# ----------------------------------------------------------------------------- minimal d-separator
def gen_minsep(rng, tier):
    n = rng.randint(3, 7)
    shape, edges = gen.rand_dag_edges(rng, n)
    lat = [v for v in range(n) if rng.random() < .2] if rng.random() < .4 else []
    pairs = [(x, y) for x in range(n) for y in range(n) if x != y and [x, y] not in [list(e) for e in edges] and [y, x] not in [list(e) for e in edges]]
    if not pairs:
        return None
    x, y = rng.choice(pairs)
    if (x in lat or y in lat) and rng.random() < .5:
        lat = [v for v in lat if v not in (x, y)]
    return {"n": n, "edges": [list(e) for e in edges], "x": x, "y": y, "latents": lat,
            "names": gen.node_names(rng, n, rng.choice(["str", "word", "int"]))}


def run_minsep(case, drv):
    n, edges, x, y, lat = case["n"], case["edges"], case["x"], case["y"], case["latents"]
    pn = [gen.lab(v) for v in case["names"]]
    g = mk_dag(case["names"], edges, lat)
    mg = {"nodes": list(range(n)), "edges": edges}
    try:
        sep = g.minimal_dseparator(pn[x], pn[y])
    except Exception as ex:
        return fail(f"minimal_dseparator raised {type(ex).__name__}: {ex}")
    tags = dict(n=n, latents=len(lat))
    if sep is None:
        if not lat:
            return fail(f"no separator returned for non-adjacent {pn[x]!r},{pn[y]!r} in a graph without latents", **tags)
        return ok(nontrivial=False, found=False, **tags)
    s = sorted(pn.index(u) for u in sep)
    if any(u in lat for u in s):
        return fail(f"separator {sep} contains a latent node", **tags)
    if x in s or y in s:
        return fail(f"separator {sep} contains an end point", **tags)
    if drv.call("g_dsep", g=mg, obs=s, x=x, y=y):
        return fail(f"returned separator {sep} does not d-separate {pn[x]!r} and {pn[y]!r}", **tags)
    for u in s:
        if not drv.call("g_dsep", g=mg, obs=[w for w in s if w != u], x=x, y=y):
            return fail(f"separator {sep} is not minimal: {pn[u]!r} can be removed", **tags)
    return ok(nontrivial=len(s) > 0, found=True, size=len(s), **tags)


STREAMS = [
    Stream("exhaustive", enum=enum_small, run=run_active),
    Stream("random", gen_random, run_active, quick=600, thorough=8000),
    Stream("edit_history", gen_edit_history, run_edit_history, quick=400, thorough=4000),
    Stream("derived", gen_derived, run_derived, quick=400, thorough=4000),
    Stream("independencies", gen_indep, run_indep, quick=200, thorough=2000),
    Stream("minsep", gen_minsep, run_minsep, quick=600, thorough=8000),
]
