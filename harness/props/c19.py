"""C19 — conditional-independence tests compute the statistic they document."""
from __future__ import annotations

import itertools
import math
from fractions import Fraction

from harness import core, gen
from harness.core import ok, fail, skip, rs
from harness.worker import Stream

OBLIGATIONS = [
    "PgmVerif.C19_symmetric", "PgmVerif.C19_row_perm", "PgmVerif.C19_zero_on_independent", "PgmVerif.C19_lambda_tie",
    "PgmVerif.C19_pearson_cell", "PgmVerif.C19_pearson_stat_nonneg", "PgmVerif.C19_yates_between",
]
PARTIAL = ["p-values use scipy's chi-square / t tails on both sides (trusted); statistics for non-integer lambda are evaluated in floats from "
           "the model's exact observed / expected tables",
           "the partial-correlation test is compared with a float re-computation (least squares with intercept + Pearson on residuals); "
           "no Lean model of least squares yet"]
RULE = ("discrete frames with X, Y and 0-2 conditioning columns, 20-200 rows, sparse strata and empty cells, cards 2-4, integer / categorical "
        "columns, every named wrapper and lambda in {pearson, log-likelihood, freeman-tukey, mod-log-likelihood, neyman, cressie-read, "
        "numeric}; exactly independent tables; continuous frames with affine reparametrisations for pearsonr; non-trivial = at least one "
        "stratum with dof > 0; distinct = case JSON"
        " Also: verdicts at very small levels and next to the p-value, pearsonr verdicts, Z in every iterable form, PC usage of the test parameters in every variant and on a reused estimator.")
ASSUMPTIONS = ["Yates' continuity correction on 2x2 tables as scipy applies it by default is part of the documented test"]
BUDGET_QUICK = 90
LEVEL_TEXT = ("Kernel-checked for an ARBITRARY cell function (hence every lambda): the stratified statistic and its degrees of freedom are "
              "symmetric in X and Y, invariant under permutation of the rows, and vanish on tables that are exactly independent in every "
              "stratum when cell(e, e) = 0; the named wrappers use the documented lambda (table extracted from the source and pinned by a "
              "decide theorem). The implementation's statistic, dof, p-value and boolean verdict are compared with the model (exact for "
              "Pearson and Neyman, float from the exact tables otherwise), together with symmetry, row-order and Z-order metamorphic "
              "checks; the partial-correlation test is compared with a float re-computation and affine reparametrisations (partial).")
LEVEL_NOTE = "Trusted: Lean kernel + standard axioms; model; harness; scipy chi2 / t tails and chi2_contingency's handling of lambda."
TECHNIQUE = "Lean 4 proof (symmetry / permutation invariance / zero on independence for any cell function) + differential check of the tests"

LAMBDAS = {"pearson": 1.0, "log-likelihood": 0.0, "freeman-tukey": -0.5, "mod-log-likelihood": -1.0, "neyman": -2.0, "cressie-read": 2.0 / 3}


def cell_value(o, e, lam):
    if lam == 1.0:
        return (o - e) ** 2 / e
    if lam == 0.0:
        return 2 * (o * math.log(o / e) if o > 0 else 0.0) if True else 0
    if lam == -1.0:
        return 2 * e * math.log(e / o) if o > 0 else math.inf
    if o == 0:
        return math.inf if lam < 0 else 2 / (lam * (lam + 1)) * 0.0
    return 2 / (lam * (lam + 1)) * o * ((o / e) ** lam - 1)


def stat_from_tables(tables, lam):
    """power-divergence statistic (scipy's convention, terms summed over all cells) from exact (O, E) tables"""
    tot = 0.0
    for t in tables:
        r, c = len(t), len(t[0]) if t else 0
        corr = (r == 2 and c == 2)
        # scipy: stat = sum over cells of terms; for lambda 0 and -1 the sum is 2*sum(O ln(O/E)) resp. 2*sum(E ln(E/O))
        for row in t:
            for o, e in row:
                o, e = float(o), float(Fraction(e))
                if corr:
                    d = e - o
                    o = o + math.copysign(min(0.5, abs(d)), d) if d != 0 else o
                tot += cell_value(o, e, lam)
    return tot


def gen_pd(rng, tier, independent=False):
    nz = rng.choice([0, 0, 1, 1, 2, 2, 3])
    kx, ky = rng.choice([2, 2, 3, 4]), rng.choice([2, 2, 3, 4])
    kz = [rng.choice([2, 3]) for _ in range(nz)]
    nrows = rng.randint(20, 200)
    rows = []
    if independent:
        # exact independence in every stratum: counts = a_i * b_j
        ks = 1
        for k in kz:
            ks *= k
        for s in range(ks):
            zs = core.unravel(kz, s) if kz else []
            a = [rng.randint(1, 3) for _ in range(kx)]
            b = [rng.randint(1, 3) for _ in range(ky)]
            for i in range(kx):
                for j in range(ky):
                    rows += [[i, j] + zs] * (a[i] * b[j])
        rng.shuffle(rows)
    else:
        dep = rng.random()
        for _ in range(nrows):
            zs = [rng.randrange(k) if rng.random() < .8 else 0 for k in kz]
            x = rng.randrange(kx)
            y = (x + sum(zs)) % ky if rng.random() < dep else rng.randrange(ky)
            rows.append([x, y] + zs)
    lam = rng.choice(list(LAMBDAS) + ["chi_square", "g_sq", "log_likelihood", "modified_log_likelihood", "numeric"])
    return {"kx": kx, "ky": ky, "kz": kz, "rows": rows, "lam": lam, "num": rng.choice([0.5, 2.0, -1.5, 0, 0.0, 1, 1.0]), "alpha": rng.choice([0.01, 0.05, 0.5]),
            "dtype": rng.choice(["int", "int", "category"]), "independent": independent,
            # the statistic does not depend on how states are labelled nor on the frame's index
            "zform": rng.randrange(5), "edit": rng.random() < .4, "relabel": rng.choice([None, None, rng.randrange(10 ** 6)]), "index": rng.choice(["range", "range", "shuffled", "reversed", "str", "dup"])}


def gen_indep(rng, tier):
    return gen_pd(rng, tier, independent=True)


def gen_degenerate(rng, tier):
    """every stratum has a single level of X or of Y: pooled degrees of freedom 0, no evidence against independence"""
    case = gen_pd(rng, tier)
    if not case["kz"]:
        case["kz"] = [2]
        for r in case["rows"]:
            r.append(rng.randrange(2))
    kz = case["kz"]
    for r in case["rows"]:
        s = core.ravel(kz, r[2:])
        if s % 2 == 0:
            r[0] = s % case["kx"]          # X constant in this stratum
        else:
            r[1] = s % case["ky"]          # Y constant in this stratum
    case["lam"] = rng.choice(["pearson", "chi_square", "g_sq", "log-likelihood", "cressie-read"])
    case["degenerate"] = True
    return case


def make_df(case):
    import pandas as pd
    cols = ["X", "Y"] + [f"Z{i}" for i in range(len(case["kz"]))]
    df = pd.DataFrame(case["rows"], columns=cols)
    if case["dtype"] == "category":
        for c in cols:
            df[c] = pd.Categorical(["s%d" % v for v in df[c]])
    elif case.get("relabel") is not None:
        # integer labels with gaps / negative values instead of 0..k-1
        import random
        prng = random.Random(case["relabel"])
        for c in cols:
            k = int(df[c].max()) + 1
            labs = sorted(prng.sample(range(-3, 12), k))
            prng.shuffle(labs) if prng.random() < .3 else None
            df[c] = df[c].map(dict(enumerate(labs))).astype("int64")
    ik = case.get("index", "range")
    if ik == "shuffled":
        df = df.sample(frac=1, random_state=len(df))            # rows AND index labels permuted together
    elif ik == "reversed":
        df.index = list(range(len(df) - 1, -1, -1))
    elif ik == "str":
        df.index = ["r%d" % i for i in range(len(df))]
    elif ik == "dup":
        df.index = [i % 7 for i in range(len(df))]              # repeated index labels (a bootstrap resample, a concat without ignore_index)
    return df, cols[2:]


def call_test(case, df, X, Y, Z, boolean):
    from pgmpy.estimators import CITests as T
    lam = case["lam"]
    # the conditioning set in any iterable form (list, tuple, generator, one-shot iterator, reversed view): the same test
    zl = list(Z)
    Z = [zl, tuple(zl), (z for z in zl), iter(zl), reversed(zl)][case.get("zform", 0) % 5]
    kw = {"significance_level": case["alpha"]}
    if lam in ("chi_square", "g_sq", "log_likelihood", "modified_log_likelihood"):
        return getattr(T, lam)(X, Y, Z, df, boolean=boolean, **kw)
    lam_arg = case["num"] if lam == "numeric" else lam
    return T.power_divergence(X, Y, Z, df, boolean=boolean, lambda_=lam_arg, **kw)


def lam_value(case):
    lam = case["lam"]
    return {"chi_square": 1.0, "g_sq": 0.0, "log_likelihood": 0.0, "modified_log_likelihood": -1.0}.get(lam, case["num"] if lam == "numeric" else LAMBDAS.get(lam))


def run_pd(case, drv):
    from scipy import stats
    import numpy as np
    df, Z = make_df(case)
    kz = case["kz"]
    ks = 1
    for k in kz:
        ks *= k
    mrows = [[r[0], r[1], core.ravel(kz, r[2:]) if kz else 0] for r in case["rows"]]
    lam = lam_value(case)
    m = drv.call("ci_stat", rows=mrows, kx=case["kx"], ky=case["ky"], ks=max(ks, 1), kind="neyman" if lam == -2.0 else "pearson")
    tags = dict(lam=str(case["lam"]), nz=len(kz), dtype=case["dtype"], indep=case["independent"], relabel=case.get("relabel") is not None,
                index=case.get("index", "range"))
    # zero observed cells make some statistics infinite / undefined: keep lambda >= 0 there
    has_zero = any(o == 0 for t in m["tables"] for row in t for o, _ in row)
    if has_zero and lam < 0:
        return skip("empty cell with a negative lambda (statistic undefined)")
    if not kz and case["dtype"] == "category" and (len(m["tables"][0]) < case["kx"] or len(m["tables"][0][0]) < case["ky"]):
        pass
    exp_stat = float(Fraction(m["stat"])) if lam in (1.0, -2.0) else stat_from_tables(m["tables"], lam)
    dof = m["dof"]
    try:
        with np.errstate(all="ignore"):
            chi, p, d = call_test(case, df, "X", "Y", Z, boolean=False)
            verdict = call_test(case, df, "X", "Y", Z, boolean=True)
    except Exception as e:
        return fail(f"{case['lam']} raised {type(e).__name__}: {e}", **tags)
    if int(d) != dof:
        return fail(f"degrees of freedom {d}, documented stratified test gives {dof}", **tags)
    if not core.close(chi, exp_stat, 1e-8):
        return fail(f"statistic {chi}, documented ({case['lam']}, lambda={lam}) value {exp_stat} (dof {dof})", **tags)
    exp_p = 1.0 if dof == 0 else float(1 - stats.chi2.cdf(exp_stat, df=dof)) if kz else float(stats.chi2.sf(exp_stat, dof))
    if math.isnan(p) or abs(p - exp_p) > 1e-8:
        return fail(f"p-value {p}, expected {exp_p} for statistic {exp_stat} with {dof} degrees of freedom", **tags)
    if bool(verdict) != (exp_p >= case["alpha"]) and abs(exp_p - case["alpha"]) > 1e-9:
        return fail(f"boolean verdict {verdict} but p-value {exp_p} and significance level {case['alpha']}", **tags)
    # the verdict is "p-value >= significance level" at EVERY level: very small levels (multiple-testing corrections) and levels
    # right next to the p-value included
    levels = [1e-9, 1e-12, 1e-300, 0.999999]
    if 0 < p < 1:
        levels += [p * (1 + 1e-6), p * (1 - 1e-6), p * (1 + 1e-3), p * (1 - 1e-3)]
    for a_ in levels:
        if abs(exp_p - a_) <= 1e-9 * max(a_, 1e-300) or not (0 < a_ < 1):
            continue
        if abs(exp_p - p) > 1e-12 and (exp_p >= a_) != (p >= a_):
            continue                    # reference and implementation p-value straddle the level: not judged
        try:
            with np.errstate(all="ignore"):
                v_ = call_test(dict(case, alpha=a_), df, "X", "Y", Z, boolean=True)
        except Exception as e:
            return fail(f"{case['lam']} with significance_level={a_} raised {type(e).__name__}: {e}", **tags)
        if bool(v_) != (p >= a_):
            return fail(f"boolean verdict {v_} at significance level {a_!r}, p-value {p!r}: the verdict is p >= level", **tags)
    if case["independent"]:
        if abs(chi) > 1e-9 or abs(p - 1) > 1e-9:
            return fail(f"exactly independent tables give statistic {chi}, p {p}", **tags)
    # metamorphic: symmetry, row order, order of the conditioning variables
    with np.errstate(all="ignore"):
        chi2_, p2, d2 = call_test(case, df, "Y", "X", Z, boolean=False)
        chi3, p3, d3 = call_test(case, df.iloc[::-1].reset_index(drop=True), "X", "Y", Z, boolean=False)
        chi4, p4, d4 = call_test(case, df, "X", "Y", list(reversed(Z)), boolean=False)
    for nm, (c_, p_, d_) in {"swapping X and Y": (chi2_, p2, d2), "reversing the rows": (chi3, p3, d3),
                             "reordering Z": (chi4, p4, d4)}.items():
        if d_ != d or not core.close(c_, chi, 1e-8) or abs(p_ - p) > 1e-8:
            return fail(f"{nm} changes the result: ({chi}, {p}, {d}) vs ({c_}, {p_}, {d_})", **tags)
    if Z and case.get("edit"):
        # the SAME frame object, edited in place (same shape) after it has been tested once: the answer must be that of the new content.
        # Rotating the values of the last conditioning column by one row moves rows between strata.
        zc = Z[-1]
        vals = list(df[zc])
        df[zc] = pd_series_like(df, zc, vals[1:] + vals[:1])
        rows2 = [list(r) for r in case["rows"]]
        zi = 2 + len(Z) - 1
        col = [r[zi] for r in rows2]
        order = list(range(len(rows2)))
        if case.get("index") == "shuffled":
            return ok(nontrivial=dof > 0, **tags)          # row order of the frame differs from case["rows"]: skip the edit step
        col = col[1:] + col[:1]
        for r, c in zip(rows2, col):
            r[zi] = c
        mrows2 = [[r[0], r[1], core.ravel(kz, r[2:]) if kz else 0] for r in rows2]
        m2 = drv.call("ci_stat", rows=mrows2, kx=case["kx"], ky=case["ky"], ks=max(ks, 1), kind="neyman" if lam == -2.0 else "pearson")
        if any(o == 0 for t in m2["tables"] for row in t for o, _ in row) and lam < 0:
            return ok(nontrivial=dof > 0, **tags)
        exp2 = float(Fraction(m2["stat"])) if lam in (1.0, -2.0) else stat_from_tables(m2["tables"], lam)
        try:
            with np.errstate(all="ignore"):
                chi5, p5, d5 = call_test(case, df, "X", "Y", Z, boolean=False)
        except Exception as e:
            return fail(f"{case['lam']} after an in-place edit of {zc} raised {type(e).__name__}: {e}", **tags)
        if int(d5) != m2["dof"] or not core.close(chi5, exp2, 1e-8):
            return fail(f"after editing column {zc} of the same frame in place: statistic {chi5} (dof {d5}), the edited data give {exp2} (dof {m2['dof']})", **tags)
    return ok(nontrivial=dof > 0, **tags)


def pd_series_like(df, col, values):
    import pandas as pd
    if str(df[col].dtype) == "category":
        return pd.Categorical(values, categories=list(df[col].cat.categories))
    return pd.Series(values, index=df.index, dtype=df[col].dtype)


# ----------------------------------------------------------------------------- partial correlation
def gen_pr(rng, tier):
    n = rng.randint(8, 40)
    nz = rng.choice([0, 1, 2])
    cols = 2 + nz
    data = [[rng.randint(-20, 20) / 4 for _ in range(cols)] for _ in range(n)]
    for r in data:                                   # some dependence
        r[1] = r[1] + 0.5 * r[0] + (0.7 * r[2] if nz else 0)
    return {"data": data, "nz": nz, "shift": [rng.randint(-5, 5) for _ in range(cols)], "scale": [rng.choice([1, 2, 0.5, 10]) for _ in range(cols)],
            "ones": rng.random() < .4}


def ref_partial(data, nz, intercept=True):
    import numpy as np
    from scipy import stats
    A = np.asarray(data, dtype=float)
    x, y = A[:, 0], A[:, 1]
    if nz == 0:
        return stats.pearsonr(x, y)
    Zm = np.column_stack([np.ones(len(A)), A[:, 2:]]) if intercept else A[:, 2:]
    rx = x - Zm @ np.linalg.lstsq(Zm, x, rcond=None)[0]
    ry = y - Zm @ np.linalg.lstsq(Zm, y, rcond=None)[0]
    return stats.pearsonr(rx, ry)


def run_pr(case, drv):
    import pandas as pd
    import numpy as np
    from pgmpy.estimators.CITests import pearsonr
    nz = case["nz"]
    cols = ["X", "Y"] + [f"Z{i}" for i in range(nz)]
    df = pd.DataFrame(case["data"], columns=cols)
    if np.linalg.matrix_rank(np.column_stack([np.ones(len(df)), df[cols[2:]].values])) < 1 + nz:
        return skip("rank deficient")
    tags = dict(nz=nz)
    try:
        c0, p0 = pearsonr("X", "Y", cols[2:], df, boolean=False)
        df2 = df.copy()
        for i, c in enumerate(cols):
            df2[c] = df[c] * case["scale"][i] + case["shift"][i]
        c1, p1 = pearsonr("X", "Y", cols[2:], df2, boolean=False)
    except Exception as e:
        return fail(f"pearsonr raised {type(e).__name__}: {e}", **tags)
    # verdicts: independent <=> p-value >= significance level, at every level
    for a_ in [0.05, 1e-9, 1e-12] + ([p0 * (1 + 1e-6), p0 * (1 - 1e-6)] if 0 < p0 < 1 else []):
        if not (0 < a_ < 1):
            continue
        try:
            v_ = pearsonr("X", "Y", cols[2:], df, boolean=True, significance_level=a_)
        except Exception as e:
            return fail(f"pearsonr(boolean=True, significance_level={a_}) raised {type(e).__name__}: {e}", **tags)
        if bool(v_) != (p0 >= a_):
            return fail({"msg": f"pearsonr verdict {v_} at significance level {a_!r}, p-value {p0!r}", "kind": "verdict"}, **tags)
    rc, rp = ref_partial(case["data"], nz)
    if case.get("ones") and nz >= 1:
        # the conditioning set contains an explicit column of ones: the regression then HAS an intercept, whatever the library adds
        # itself, and the result must be the partial correlation given Z (and stay put under shifts of X and Y)
        try:
            dfo = df.copy()
            dfo["one"] = 1.0
            c2, p2 = pearsonr("X", "Y", cols[2:] + ["one"], dfo, boolean=False)
            dfs = dfo.copy()
            dfs["X"] = dfs["X"] + 3.5
            dfs["Y"] = dfs["Y"] - 1.25
            c3, p3 = pearsonr("X", "Y", cols[2:] + ["one"], dfs, boolean=False)
        except Exception as e:
            return fail(f"pearsonr with a column of ones in Z raised {type(e).__name__}: {e}", **tags)
        if abs(c2 - rc) > 1e-7 or abs(p2 - rp) > 1e-7:
            return fail({"msg": f"pearsonr(X, Y | Z + ones) = ({c2}, {p2}); Pearson test on least-squares residuals = ({rc}, {rp})",
                         "kind": "with_ones", "nz": nz}, **tags)
        if abs(c2 - c3) > 1e-7 or abs(p2 - p3) > 1e-7:
            return fail({"msg": f"pearsonr(X, Y | Z + ones) changes when X and Y are shifted: ({c2}, {p2}) vs ({c3}, {p3})", "kind": "with_ones_shift",
                         "nz": nz}, **tags)
    def no_icpt(frame, c, p):
        # is (c, p) the Pearson test on residuals of a regression WITHOUT intercept (what the recorded finding computes)?
        try:
            nc, np_ = ref_partial(frame[cols].values.tolist(), nz, intercept=False)
            return bool(abs(c - nc) <= 1e-7 and abs(p - np_) <= 1e-7)
        except Exception:
            return False
    if abs(c0 - rc) > 1e-7 or abs(p0 - rp) > 1e-7:
        return fail({"msg": f"pearsonr = ({c0}, {p0}); Pearson test on least-squares residuals (with intercept) = ({rc}, {rp})", "kind": "reference",
                     "nz": nz, "equals_no_intercept": nz > 0 and no_icpt(df, c0, p0)}, **tags)
    if abs(c0 - c1) > 1e-7 or abs(p0 - p1) > 1e-7:
        return fail({"msg": f"pearsonr changes under shifting / positive rescaling: ({c0}, {p0}) vs ({c1}, {p1})", "kind": "affine", "nz": nz,
                     "equals_no_intercept": nz > 0 and no_icpt(df, c0, p0) and no_icpt(df2, c1, p1)}, **tags)
    return ok(nontrivial=nz > 0, **tags)


# ----------------------------------------------------------------------------- the tests as PC uses them
def gen_pcuse(rng, tier):
    n = rng.randint(3, 4)
    N = rng.randint(40, 160)
    rows = []
    for _ in range(N):
        r = [rng.randrange(2)]
        for v in range(1, n):
            src = r[rng.randrange(v)]
            r.append(src if rng.random() < .75 else rng.randrange(3 if v == n - 1 else 2))
        rows.append(r)
    # a sparse corner: one rare combination, where the members of the power-divergence family disagree most
    rows += [[1] + [0] * (n - 2) + [2]] * rng.randint(0, 2)
    return {"n": n, "rows": rows, "lam": rng.choice(["pearson", "log-likelihood", "neyman", "mod-log-likelihood", "freeman-tukey", "cressie-read", -2, 0.0]),
            "alpha": rng.choice([0.01, 0.05, 0.001]), "variant": rng.choice(["orig", "stable", "parallel", "parallel"])}


def run_pcuse(case, drv):
    """PC hands the caller's test parameters (lambda_, significance_level) to the test in EVERY variant: the skeleton it builds is
    the one obtained by running the PC-stable / orig loops by hand with pgmpy's own power_divergence verdicts (which the
    power_divergence stream ties to the documented statistic)"""
    import numpy as np
    import pandas as pd
    from pgmpy.estimators import PC
    from pgmpy.estimators.CITests import power_divergence
    n = case["n"]
    names = ["V%d" % i for i in range(n)]
    df = pd.DataFrame(case["rows"], columns=names)
    if len(case["rows"]) % 3 == 0:
        df = df + 20240100          # integer codes beyond 2**24 (dates, record ids): the same tables, other labels
    lam, alpha, variant = case["lam"], case["alpha"], case["variant"]
    tags = dict(variant=variant, lam=str(lam))

    def indep(x, y, z):
        with np.errstate(all="ignore"):
            return bool(power_divergence(x, y, list(z), df, boolean=True, lambda_=lam, significance_level=alpha))
    try:
        # reference loops (Colombo & Maathuis): level-wise; `orig` removes edges at once, stable / parallel work on a snapshot of the adjacencies
        adj = {a: set(names) - {a} for a in names}
        lvl = 0
        while any(len(adj[a]) - 1 >= lvl for a in names):
            snap = {a: set(adj[a]) for a in names}
            for a in names:
                for b in sorted(snap[a] if variant != "orig" else list(adj[a])):
                    if b not in adj[a]:
                        continue
                    pool = (snap[a] if variant != "orig" else adj[a]) - {b}
                    for z in itertools.combinations(sorted(pool), lvl):
                        if indep(a, b, z):
                            adj[a].discard(b)
                            adj[b].discard(a)
                            break
            lvl += 1
            if lvl > n:
                break
    except Exception as e:
        return skip(f"reference run: {type(e).__name__}: {e}")
    ref = {frozenset((a, b)) for a in names for b in adj[a]}
    try:
        with np.errstate(all="ignore"):
            est = PC(df)
            if len(case["rows"]) % 2:
                # the estimator object has been used before with OTHER test parameters: each run uses the parameters it is given
                try:
                    est.estimate(variant=variant, ci_test="power_divergence", lambda_="pearson" if lam != "pearson" else "neyman",
                                 significance_level=0.3 if alpha < 0.3 else 1e-4, return_type="skeleton", show_progress=False, n_jobs=1,
                                 max_cond_vars=n)
                except Exception:
                    pass
            skel, _ = est.estimate(variant=variant, ci_test="power_divergence", lambda_=lam, significance_level=alpha,
                                   return_type="skeleton", show_progress=False, n_jobs=1, max_cond_vars=n)
    except Exception as e:
        return fail(f"PC(variant={variant}, power_divergence, lambda_={lam!r}) raised {type(e).__name__}: {e}", **tags)
    got = {frozenset(e) for e in skel.edges()}
    if got != ref and variant != "orig":
        return fail(f"PC(variant={variant}, ci_test=power_divergence, lambda_={lam!r}, significance_level={alpha}) skeleton "
                    f"{sorted(map(sorted, got))}; the level-wise loop with power_divergence(lambda_={lam!r}) verdicts gives {sorted(map(sorted, ref))}", **tags)
    if variant == "orig":
        # the orig variant is order-dependent: only demand that every removed edge has an independence verdict and every kept edge has none
        # at the levels PC looked at - checked through the stable reference on the other variants; here: a kept edge is dependent marginally
        for e in got:
            a, b = sorted(e)
            if indep(a, b, ()):
                return fail(f"PC(orig, lambda_={lam!r}) keeps {a}-{b} although power_divergence(lambda_={lam!r}) calls them marginally independent", **tags)
    return ok(nontrivial=True, **tags)


STREAMS = [
    Stream("power_divergence", gen_pd, run_pd, quick=900, thorough=9000),
    Stream("independent", gen_indep, run_pd, quick=200, thorough=2000),
    Stream("degenerate", gen_degenerate, run_pd, quick=120, thorough=1200),
    Stream("pearsonr", gen_pr, run_pr, quick=300, thorough=3000),
    Stream("pc_usage", gen_pcuse, run_pcuse, quick=150, thorough=1500),
]
