"""C11 — score-based structure search honours its contract."""
from __future__ import annotations

import itertools
from fractions import Fraction

from harness import core, gen
from harness.core import ok, fail, skip, rs
from harness.worker import Stream
from harness.props import c06, c10

OBLIGATIONS = [
    "PgmVerif.C11_apply_acyclic", "PgmVerif.C11_hc_acyclic", "PgmVerif.C11_best_is_max", "PgmVerif.C11_loop_stops_below_eps",
    "PgmVerif.C11_hc_lists", "PgmVerif.C11_delta_exact", "PgmVerif.C11_hc_monotone", "PgmVerif.C11_hc_indegree", "PgmVerif.C11_hc_budget",
    "PgmVerif.C11_defaults_tie", "PgmVerif.C11_tree_scale_invariant",
]
PARTIAL = ["maximum-weight spanning tree optimality (networkx) is compared per case with the brute-force maximum of the Lean spec (<= 6 nodes); "
           "weight functions on other scales (x 2**-40 .. 2**20) are handed to the implementation only, the specification keeps the unscaled "
           "weights - C11_tree_scale_invariant is why the two rank every edge set alike",
           "black-box runs with the real scores check the contract only (acyclic, lists, in-degree, score not lower than the start)",
           "the in-degree bound is proved for the model's search loop (C11_hc_indegree: a start graph within the limit stays within it at "
           "every step); the implementation's loop is tied to it through the white-box trajectory and the contract checks"]
RULE = ("white-box: a StructureScore whose local scores are a random dyadic table (tie-free deltas) over 3-5 variables with random start DAG, "
        "fixed/black/white lists, max_indegree, tabu_length, epsilon, max_iter -> identical final DAG required; black-box: real scores on data; "
        "exhaustive search on 2-4 variables; Chow-Liu with synthetic distinct weights for every root; non-trivial = at least one move made; "
        "distinct = case JSON"
        " Also: edge lists as list / set / tuple / generator / iterator / zip, estimator reused with another score object, start graphs with their own node order, tables that force an undo.")
ASSUMPTIONS = ["start graphs satisfy the black list; epsilon >= 0"]
BUDGET_QUICK = 90
LEVEL_TEXT = ("Kernel-checked: applying a legal add / remove / flip (guarded by the has_path tests of the model) keeps the graph acyclic, hence "
              "the hill-climbing loop returns an acyclic graph from every acyclic start for every score table, option set and iteration bound; "
              "the chosen operation has the maximal delta; when the loop stops before max_iter every candidate delta is below epsilon; fixed edges "
              "are never lost and every new edge is white-listed and not black-listed; the reported delta is exactly score(after)-score(before) "
              "for a decomposable score, so with epsilon >= 0 the score never decreases; with max_indegree = m a start "
              "graph within the limit stays within it at every step. The "
              "implementation is tied by a white-box stream (table-driven StructureScore, identical final DAG required when deltas are "
              "tie-free) and by contract checks (lists, in-degree, monotone score, local optimum with tabu disabled); exhaustive search is "
              "compared with the model's maximum over all DAGs; Chow-Liu trees with the brute-force maximum spanning weight and the BFS "
              "orientation of the model.")
LEVEL_NOTE = "Trusted: Lean kernel + standard axioms; model of _legal_operations / estimate; harness; networkx spanning tree and BFS."
TECHNIQUE = "Lean 4 invariant proof for the hill-climbing loop + white-box trajectory correspondence + contract checks"


def rand_table(rng, n):
    return [[rs(Fraction(rng.randint(-2 ** 18, 2 ** 18), 1024)) for _ in range(2 ** n)] for _ in range(n)]


def mask(ps):
    return sum(2 ** p for p in set(ps))


def make_score_class(names, table, prior_c=Fraction(0)):
    import pandas as pd
    from pgmpy.estimators import StructureScore

    class TableScore(StructureScore):
        def __init__(self, data, tab=None):
            super().__init__(data)
            self.calls = 0
            self.tab = table if tab is None else tab

        def structure_prior_ratio(self, operation):
            # a graph prior that pays `prior_c` per arc (BDsScore does this with -log 2): adding an arc changes the log prior by +c,
            # deleting one by -c, reversing one by 0
            if operation == "+":
                return float(prior_c)
            if operation == "-":
                return -float(prior_c)
            return 0

        def local_score(self, variable, parents):
            self.calls += 1
            return float(Fraction(self.tab[names.index(variable)][mask([names.index(p) for p in parents])]))
    df = pd.DataFrame({nm: [0, 1] for nm in names})
    return TableScore(df), df


def gen_hc(rng, tier):
    n = rng.randint(3, 6 if rng.random() < .3 else 5)
    names = gen.node_names(rng, n, rng.choice(["str", "word", "int", "int0"]))
    # "ring" = a directed path plus the shortcut edge between its ends: reversing the shortcut closes a long cycle
    _, start = gen.rand_dag_edges(rng, n, rng.choice(["isolated", "isolated", "gnp", "chain", "ring", "gnp_dense"]))
    pairs = [(a, b) for a in range(n) for b in range(n) if a != b]
    black = [list(p) for p in rng.sample(pairs, rng.choice([0, 0, 1, 3])) if p not in start]
    white = None
    if rng.random() < .3:
        white = [list(p) for p in pairs if rng.random() < .7 or p in start]
    fixed = [list(e) for e in start if rng.random() < .3]
    if rng.random() < .2:
        extra = rng.choice(pairs)
        if gen.is_acyclic(n, list(map(tuple, start)) + [extra]) and list(extra) not in black and (white is None or list(extra) in white):
            fixed.append(list(extra))
    scores = rand_table(rng, n)
    if n >= 4 and rng.random() < .3:
        # a family in which greedy search has to UNDO one of its own moves: A, then B, then C become parents of Y one by one, after which
        # dropping A is the best move (A is redundant given B and C)
        y, a, b, c = rng.sample(range(n), 4)
        base = {(): 0, (a,): 500, (b,): 400, (c,): 390, (a, b): 600, (a, c): 560, (b, c): 2000, (a, b, c): 1000}
        for mk in range(2 ** n):
            ps = tuple(sorted(p_ for p_ in (a, b, c) if mk >> p_ & 1))
            others = bin(mk & ~(2 ** a | 2 ** b | 2 ** c)).count("1")
            scores[y][mk] = rs(Fraction(base[tuple(sorted(ps, key=lambda q: (a, b, c).index(q)))]) - 3000 * others + Fraction(rng.randint(0, 99), 128))
    return {"names": names, "n": n, "start": [list(e) for e in start], "scores": scores, "black": black, "white": white,
            "fixed": fixed, "tabu": rng.choice([0, 0, 2, 100]), "eps": rs(rng.choice([Fraction(0), Fraction(1, 1024), Fraction(1), Fraction(1, 10000)])),
            "max_iter": rng.choice([1, 2, 5, 50, 50]), "max_indegree": rng.choice([None, None, 1, 2]),
            "use_cache": rng.random() < .5, "form": rng.randrange(216), "warm": rng.choice([0, 0, rng.randrange(1, 10 ** 6)]), "prior_c": rs(rng.choice([Fraction(0), Fraction(0), Fraction(-45, 64), Fraction(3, 4), Fraction(-5, 2)]))}


def run_hc(case, drv):
    import networkx as nx
    from pgmpy.estimators import HillClimbSearch
    from pgmpy.base import DAG
    names = [gen.lab(x) for x in case["names"]]
    n = case["n"]
    prior_c = Fraction(case.get("prior_c", "0"))
    score, df = make_score_class(names, case["scores"], prior_c)
    # for the model the per-arc prior is folded into the local score table: local'(v, parents) = local + c * |parents|
    mscores = case["scores"] if prior_c == 0 else \
        [[rs(Fraction(x) + prior_c * bin(mk).count("1")) for mk, x in enumerate(row)] for row in case["scores"]]
    start = DAG()
    # the caller's start graph lists its nodes (and edges) in its own order, which need not be the column order of the data
    import random as _r0
    prng0 = _r0.Random(case.get("form", 0) + n)
    node_order, edge_order = list(names), [(names[u], names[v]) for u, v in case["start"]]
    prng0.shuffle(node_order)
    prng0.shuffle(edge_order)
    start.add_nodes_from(node_order)
    start.add_edges_from(edge_order)
    opts = dict(black=case["black"], white=case["white"], fixed=case["fixed"], tabu=case["tabu"], eps=case["eps"],
                max_iter=case["max_iter"], max_indegree=case["max_indegree"])
    m = drv.call("hc_run", g={"nodes": list(range(n)), "edges": case["start"]}, scores=mscores, **opts)
    tags = dict(n=n, tabu=case["tabu"], moves=min(len(m["trace"]), 6), lists=bool(case["black"] or case["white"] or case["fixed"]))
    form = case.get("form", 0)

    def as_form(pairs_, k):
        # the edge lists are documented as iterables: list, set, tuple, generator and one-shot iterator are all the same argument
        pairs_ = [(names[u], names[v]) for u, v in pairs_]
        return [pairs_, set(pairs_), tuple(pairs_), (e for e in pairs_), iter(pairs_), zip([a for a, _ in pairs_], [b for _, b in pairs_])][k % 6]
    try:
        est = HillClimbSearch(df, use_cache=case["use_cache"])
        if case.get("warm"):
            # the same estimator object has searched before, with ANOTHER score object of the same class (a different table): the
            # second search is a search for the score it is given
            import random as _r
            other = type(score)(df, rand_table(_r.Random(case["warm"]), n))          # same class, other parameters
            try:
                est.estimate(scoring_method=other, tabu_length=0, max_iter=3, show_progress=False)
            except Exception:
                pass
        res = est.estimate(
            scoring_method=score, start_dag=start, fixed_edges=as_form(case["fixed"], form),
            tabu_length=case["tabu"], max_indegree=case["max_indegree"],
            black_list=as_form(case["black"], form // 6) if case["black"] else None,
            white_list=as_form(case["white"], form // 36) if case["white"] is not None else None,
            epsilon=float(Fraction(case["eps"])), max_iter=case["max_iter"], show_progress=False)
    except Exception as e:
        return fail(f"estimate raised {type(e).__name__}: {e}", **tags)
    got = sorted([names.index(u), names.index(v)] for u, v in res.edges())
    # the caller's start graph is an input, not the working copy
    if sorted([names.index(u), names.index(v)] for u, v in start.edges()) != sorted(case["start"]) or res is start:
        return fail("estimate modified (or returned) the caller's start_dag", **tags)
    # contract
    if set(res.nodes()) != set(names):
        return fail(f"result has nodes {sorted(map(str, res.nodes()))}", **tags)
    if not nx.is_directed_acyclic_graph(res):
        return fail("result contains a directed cycle", **tags)
    startset = {tuple(e) for e in case["start"]} | {tuple(e) for e in case["fixed"]}
    for e in case["fixed"]:
        if e not in got:
            return fail(f"fixed edge {e} is missing from the result", **tags)
    for e in got:
        if tuple(e) not in startset:
            if e in case["black"]:
                return fail(f"black-listed edge {e} was added", **tags)
            if case["white"] is not None and e not in case["white"]:
                return fail(f"edge {e} was added although it is not white-listed", **tags)
    if case["max_indegree"] is not None:
        for v in range(n):
            p_new = [u for u, w in got if w == v]
            p_old = [u for u, w in startset if w == v]
            if len(p_new) > case["max_indegree"] and len(p_new) > len(p_old):
                return fail(f"in-degree of node {v} grew to {len(p_new)} > max_indegree {case['max_indegree']}", **tags)
    sc = Fraction(drv.call("score_total", g={"nodes": list(range(n)), "edges": got}, scores=mscores))      # score + log prior
    if sc < Fraction(m["start_score"]):
        return fail(f"score of the result {float(sc)} is lower than the start graph's {float(Fraction(m['start_score']))}", **tags)
    if case["tabu"] == 0 and len(m["trace"]) < case["max_iter"]:
        rem = drv.call("hc_run", g={"nodes": list(range(n)), "edges": got}, scores=mscores,
                       **dict(opts, max_iter=0, fixed=case["fixed"]))["remaining"]
        for op, d in rem:
            if Fraction(d) >= Fraction(case["eps"]) and Fraction(d) > 0:
                return fail(f"not a local optimum: legal operation {op} would improve the score by {float(Fraction(d))} >= epsilon", **tags)
    # white-box: identical trajectory end point when the model saw no tie
    if not m["tie"]:
        if got != sorted(m["edges"]):
            return fail(f"final DAG {got} differs from the model's {sorted(m['edges'])} (trace {m['trace']})", **tags)
    return ok(nontrivial=len(m["trace"]) > 0, tie=m["tie"], **tags)


# ----------------------------------------------------------------------------- black box with real scores
def gen_bb(rng, tier):
    case = c06.gen_data(rng, tier)
    case["weights"] = None
    case["pass_state_names"] = False
    n = len(case["cols"])
    case["method"] = rng.choice(["k2", "bdeu", "bic", "aic", "bds"])
    pairs = [(a, b) for a in range(n) for b in range(n) if a != b]
    case["black"] = [list(p) for p in rng.sample(pairs, rng.choice([0, 1, 2]))]
    case["max_indegree"] = rng.choice([None, 1, 2])
    case["tabu"] = rng.choice([0, 100])
    return case


def run_bb(case, drv):
    import networkx as nx
    from pgmpy.estimators import HillClimbSearch
    names = case["cols"]
    n = len(names)
    for v in range(n):
        if len({r[v] for r in case["rows"]}) < 2:
            return skip("constant column")
    df = c06.make_df(case)
    try:
        res = HillClimbSearch(df).estimate(scoring_method=case["method"], black_list=[(names[u], names[v]) for u, v in case["black"]] or None,
                                           max_indegree=case["max_indegree"], tabu_length=case["tabu"], epsilon=1e-4, show_progress=False)
    except Exception as e:
        return fail(f"estimate({case['method']}) raised {type(e).__name__}: {e}", method=case["method"])
    got = sorted([names.index(u), names.index(v)] for u, v in res.edges())
    if set(res.nodes()) != set(names) or not nx.is_directed_acyclic_graph(res):
        return fail("result is not a DAG over the data's variables", method=case["method"])
    for e in got:
        if e in case["black"]:
            return fail(f"black-listed edge {e} in the result", method=case["method"])
    if case["max_indegree"] is not None and any(sum(1 for u, w in got if w == v) > case["max_indegree"] for v in range(n)):
        return fail("in-degree bound exceeded", method=case["method"])
    if case["method"] != "bds":
        s1 = c10.network_expected(case, drv, got, case["method"], Fraction(10))
        s0 = c10.network_expected(case, drv, [], case["method"], Fraction(10))
        if s1 < s0 - 1e-7 * max(1.0, abs(s0)):
            return fail(f"{case['method']}: score of the result {s1} lower than the empty start graph's {s0}", method=case["method"])
    return ok(nontrivial=bool(got), method=case["method"])


# ----------------------------------------------------------------------------- exhaustive search
def gen_exh(rng, tier):
    n = rng.randint(2, 4 if tier == "quick" else 4)
    return {"names": gen.node_names(rng, n, rng.choice(["str", "word"])), "n": n, "scores": rand_table(rng, n),
            "use_cache": rng.random() < .5, "form": rng.randrange(216), "warm": rng.choice([0, 0, rng.randrange(1, 10 ** 6)]), "prior_c": rs(rng.choice([Fraction(0), Fraction(0), Fraction(-45, 64), Fraction(3, 4), Fraction(-5, 2)]))}


def run_exh(case, drv):
    import networkx as nx
    from pgmpy.estimators import ExhaustiveSearch
    names = case["names"]
    n = case["n"]
    score, df = make_score_class(names, case["scores"])
    m = drv.call("exh_best", nodes=list(range(n)), scores=case["scores"])
    try:
        es = ExhaustiveSearch(df, scoring_method=score, use_cache=case["use_cache"])
        best = es.estimate()
        nd = sum(1 for _ in es.all_dags())
    except Exception as e:
        return fail(f"ExhaustiveSearch raised {type(e).__name__}: {e}")
    if nd != m["ndags"]:
        return fail(f"all_dags yields {nd} graphs, there are {m['ndags']} DAGs on {n} nodes")
    if set(best.nodes()) != set(names) or not nx.is_directed_acyclic_graph(best):
        return fail("estimate() did not return a DAG over the variables")
    got = sorted([names.index(u), names.index(v)] for u, v in best.edges())
    sc = Fraction(drv.call("score_total", g={"nodes": list(range(n)), "edges": got}, scores=case["scores"]))
    if sc != Fraction(m["best"]):
        return fail(f"estimate() returned a DAG of score {float(sc)}, the global maximum is {float(Fraction(m['best']))}")
    if n <= 3:
        allsc = es.all_scores()
        vals = [s for s, _ in allsc]
        if vals != sorted(vals) or len(vals) != m["ndags"] or abs(vals[-1] - float(Fraction(m["best"]))) > 1e-9:
            return fail("all_scores() is not the sorted list of all DAG scores")
    return ok(n=n)


# ----------------------------------------------------------------------------- Chow-Liu
def gen_tree(rng, tier):
    n = rng.randint(2, 6)
    names = gen.node_names(rng, n, rng.choice(["str", "word", "int", "int0", "int0"]))     # column labels may be integers, 0 included
    # a user's weight function may be negative on some (or all) pairs; 0 is avoided (an exactly-zero weight means "no edge" to networkx)
    ws = rng.sample(range(1, 200), n * (n - 1) // 2) if rng.random() < .6 else rng.sample([w for w in range(-150, 100) if w], n * (n - 1) // 2)
    wedges = [[a, b, rs(Fraction(ws.pop(), 64))] for a in range(n) for b in range(a + 1, n)]
    return {"names": names, "n": n, "wedges": wedges, "root": rng.randrange(n), "tan": rng.random() < .3 and n >= 3,
            "cls": rng.randrange(n), "scale_exp": rng.choice([0, 0, 0, -30, -40, 20])}    # weights on another scale (x 2**e) rank the same


def run_tree(case, drv):
    import pandas as pd
    import networkx as nx
    from pgmpy.estimators import TreeSearch
    names = case["names"]
    n = case["n"]
    W = {}
    for a, b, w in case["wedges"]:
        W[(names[a], names[b])] = W[(names[b], names[a])] = float(Fraction(w))
    scale = 2.0 ** case.get("scale_exp", 0)
    # columns with states that are neither 0..k-1 nor in order of first appearance; the weight function is handed the data columns
    # and must see the data values themselves (a user-supplied callable need not be invariant under relabelling)
    raw = {nm: [3 + (i % 2), 1, 3 + (i % 2), 7, 1, 7][: 4 + (i % 3)] + [1] * (2 - (i % 3)) for i, nm in enumerate(names)}
    df = pd.DataFrame({nm: pd.Categorical(raw[nm]) for nm in names})

    def wfn(u, v):
        same = [int(x) for x in list(u)] == raw[u.name] and [int(x) for x in list(v)] == raw[v.name]
        w = W[(u.name, v.name)]
        return (w if same else 4.0 - w) * scale          # weights are in (0, 3.2): re-coded columns reverse the preference order
    root = case["root"]
    tags = dict(n=n, tan=case["tan"], scale_exp=case.get("scale_exp", 0))
    try:
        if case["tan"]:
            cls = case["cls"]
            if cls == root:
                return skip("root == class node")
            dag = TreeSearch(df, root_node=names[root], n_jobs=1).estimate(estimator_type="tan", class_node=names[cls],
                                                                          edge_weights_fn=wfn, show_progress=False)
        else:
            dag = TreeSearch(df, root_node=names[root], n_jobs=1).estimate(estimator_type="chow-liu", edge_weights_fn=wfn,
                                                                          show_progress=False)
    except Exception as e:
        return fail(f"TreeSearch raised {type(e).__name__}: {e}", **tags)
    edges = sorted([names.index(u), names.index(v)] for u, v in dag.edges())
    nodes = list(range(n))
    wedges = case["wedges"]
    if case["tan"]:
        cls = case["cls"]
        for v in nodes:
            if v != cls and [cls, v] not in edges:
                return fail(f"TAN: class edge to {v} missing", **tags)
        edges = [e for e in edges if e[0] != cls]
        nodes = [v for v in nodes if v != cls]
        wedges = [e for e in wedges if cls not in e[:2]]
        # conditional weights with a synthetic function are the same numbers (weights do not depend on the stratum)
    if len(edges) != len(nodes) - 1:
        return fail(f"result has {len(edges)} tree edges for {len(nodes)} nodes", **tags)
    spec = drv.call("tree_spec", nodes=nodes, wedges=wedges, tree=edges, root=root)
    if not case["tan"]:
        tot = sum(Fraction(w) for a, b, w in wedges if [a, b] in edges or [b, a] in edges)
        if tot != Fraction(spec["best"]):
            return fail(f"tree weight {float(tot)} is not the maximum spanning weight {float(Fraction(spec['best']))}", **tags)
    if sorted(map(list, spec["oriented"])) != edges:
        return fail(f"edges {edges} are not the BFS orientation {sorted(spec['oriented'])} away from root {root}", **tags)
    indeg = {v: 0 for v in nodes}
    for u, v in edges:
        indeg[v] += 1
    if indeg[root] != 0 or any(d != 1 for v, d in indeg.items() if v != root):
        return fail("a non-root node does not have exactly one tree parent", **tags)
    return ok(nontrivial=n > 2, **tags)


STREAMS = [
    Stream("hc_whitebox", gen_hc, run_hc, quick=900, thorough=10000),
    Stream("hc_blackbox", gen_bb, run_bb, quick=60, thorough=600),
    Stream("exhaustive", gen_exh, run_exh, quick=150, thorough=1000),
    Stream("tree", gen_tree, run_tree, quick=400, thorough=4000),
]
