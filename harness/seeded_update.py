"""rewrite the table between the seeded-table markers of DESIGN.md from seeded/*/meta.json"""
import io, os, re, sys, contextlib
sys.path.insert(0, os.path.dirname(os.path.dirname(os.path.abspath(__file__))))
from harness import seeded_report
buf = io.StringIO()
with contextlib.redirect_stdout(buf):
    seeded_report.main()
p = os.path.join(seeded_report.VERIF, "DESIGN.md")
s = open(p).read()
s = re.sub(r"<!-- seeded-table-begin -->.*?<!-- seeded-table-end -->",
           lambda m: "<!-- seeded-table-begin -->\n" + buf.getvalue().strip() + "\n<!-- seeded-table-end -->", s, flags=re.S)
open(p, "w").write(s)
print("updated")
