"""harness/runner.py — `./check Cxx [--tier quick|thorough] [--replay file]`.

One run =
  1. translator/extract.py regenerates lean/PgmVerif/Model/Generated.lean from /repo
  2. lake build of the property's theorem module + axiom audit + source grep
  3. correspondence: worker processes (different PYTHONHASHSEED) run the real code and
     the Lean model on generated cases and compare
  4. any broken obligation / disagreement -> failing-input search, classification against
     known_findings.json, VIOLATION line + replay file
  5. evidence/Cxx.json
Exit codes: 0 held, 1 violation, 2 internal error (no VIOLATION line).
"""
from __future__ import annotations

import argparse
import importlib
import json
import os
import re
import subprocess
import sys
import time
import tempfile
import shutil
import traceback

VERIF = os.path.dirname(os.path.dirname(os.path.abspath(__file__)))
# the tree under test; always /repo for the registered commands (VERIF_REPO is a development aid for scratch worktrees)
REPO = os.path.realpath(os.environ.get("VERIF_REPO", "/repo"))
if REPO != "/repo":
    sys.path.insert(1, REPO)
LEAN_DIR = os.path.join(VERIF, "lean")
PY = "/venv/bin/python"
sys.path.insert(0, VERIF)

ALLOWED_AXIOMS = {"propext", "Classical.choice", "Quot.sound"}
BAD_TOKENS = re.compile(r"\b(sorry|admit|native_decide|bv_decide|implemented_by|unsafe)\b|^axiom |maxHeartbeats 0")

TRUSTED_BASE = [
    "Lean 4.33.0 kernel; axioms limited to propext, Classical.choice, Quot.sound (audited by #print axioms on every run)",
    "Mathlib v4.33.0 modules imported by the proof files",
    "hand-written Lean model (lean/PgmVerif/Model) tied to /repo by the differential correspondence harness (harness/) and translator/extract.py",
    "float-vs-rational comparison with relative tolerance 1e-9 (wider only where stated)",
    "numpy / pandas / networkx / scipy / opt_einsum internals are modelled by their outputs, not verified",
]


def sh(cmd, cwd=None, timeout=3600, env=None):
    p = subprocess.run(cmd, cwd=cwd, shell=isinstance(cmd, str), capture_output=True, text=True,
                       timeout=timeout, env=env)
    return p.returncode, p.stdout + p.stderr


# ----------------------------------------------------------------------------- step 1+2: proof side
def strip_comments(src: str) -> str:
    # remove /- ... -/ (nested not handled beyond one level) and -- comments
    out = []
    i, depth, n = 0, 0, len(src)
    while i < n:
        if src.startswith("/-", i):
            depth += 1
            i += 2
        elif src.startswith("-/", i) and depth > 0:
            depth -= 1
            i += 2
        elif depth > 0:
            if src[i] == "\n":
                out.append("\n")
            i += 1
        elif src.startswith("--", i):
            while i < n and src[i] != "\n":
                i += 1
        else:
            out.append(src[i])
            i += 1
    return "".join(out)


def grep_sources():
    hits = []
    for root, _, files in os.walk(LEAN_DIR):
        if ".lake" in root:
            continue
        for f in files:
            if not f.endswith(".lean"):
                continue
            p = os.path.join(root, f)
            txt = strip_comments(open(p).read())
            for ln, line in enumerate(txt.split("\n"), 1):
                if BAD_TOKENS.search(line):
                    hits.append(f"{os.path.relpath(p, VERIF)}:{ln}: {line.strip()[:100]}")
    return hits


def proof_side(prop: str, tier: str):
    """returns dict(obligations=[names], discharged=[names], broken=[(name, why)], log=str).
    Serialised across concurrent `./check` invocations (they share Generated.lean and the lake build directory)."""
    import fcntl
    lock_path = os.path.join(LEAN_DIR, ".verif_build.lock")
    with open(lock_path, "w") as lk:
        fcntl.flock(lk, fcntl.LOCK_EX)
        try:
            return _proof_side(prop, tier)
        finally:
            fcntl.flock(lk, fcntl.LOCK_UN)


def _proof_side(prop: str, tier: str):
    mod = importlib.import_module(f"harness.props.{prop.lower()}")
    obligations = list(getattr(mod, "OBLIGATIONS", []))
    res = {"obligations": obligations, "discharged": [], "broken": [], "log": "", "axioms": {}}
    # 1. extraction
    rc, out = sh([PY, os.path.join(VERIF, "translator", "extract.py")], cwd=VERIF)
    res["log"] += out
    if rc != 0:
        res["broken"].append(("extract", "translator failed: " + out[-400:]))
    # 2. build
    targets = [f"PgmVerif.Props.{prop}", "driver"]
    rc, out = sh(["lake", "build"] + targets, cwd=LEAN_DIR, timeout=3000)
    res["log"] += out
    build_ok = rc == 0
    if not build_ok:
        # the driver may still build on its own
        rc2, out2 = sh(["lake", "build", "driver"], cwd=LEAN_DIR, timeout=3000)
        res["log"] += out2
        errs = [l for l in out.split("\n") if "error" in l][:8]
        for o in obligations:
            res["broken"].append((o, "lake build of Props." + prop + " failed: " + " | ".join(errs)[:600]))
        return res
    # 3. audit axioms
    audit = os.path.join(LEAN_DIR, "PgmVerif", "Audit", f"{prop}.lean")
    with open(audit, "w") as f:
        f.write(f"import PgmVerif.Props.{prop}\nopen PgmVerif\n")
        for o in obligations:
            f.write(f"#print axioms {o}\n")
    rc, out = sh(["lake", "env", "lean", audit], cwd=LEAN_DIR, timeout=1200)
    res["log"] += out
    found = {}
    for m in re.finditer(r"'([^']+)' depends on axioms: \[([^\]]*)\]", out.replace("\n", " ")):
        found[m.group(1)] = {a.strip() for a in m.group(2).split(",") if a.strip()}
    for m in re.finditer(r"'([^']+)' does not depend on any axioms", out):
        found[m.group(1)] = set()
    hits = grep_sources()
    for o in obligations:
        short = o.split(".")[-1]
        ax = None
        for k, v in found.items():
            if k == o or k.split(".")[-1] == short:
                ax = v
        if ax is None:
            res["broken"].append((o, "theorem not found by #print axioms: " + out[-300:]))
        elif not ax <= ALLOWED_AXIOMS:
            res["broken"].append((o, f"uses axioms {sorted(ax - ALLOWED_AXIOMS)}"))
        else:
            res["discharged"].append(o)
            res["axioms"][o] = sorted(ax)
    if hits:
        res["broken"].append(("source-grep", "forbidden tokens: " + "; ".join(hits[:5])))
    if tier == "thorough":
        rc, out = sh(["lake", "env", "leanchecker", f"PgmVerif.Props.{prop}"], cwd=LEAN_DIR, timeout=3000)
        res["log"] += out
        res["leanchecker"] = (rc == 0)
        if rc != 0:
            res["broken"].append(("leanchecker", out[-400:]))
    return res


# ----------------------------------------------------------------------------- step 3: workers
def worker_plan(tier: str, seed: int):
    if tier == "thorough":
        hs = list(range(8)) + [1000 + seed % 997, 2000 + (seed * 7) % 997] + [11, 12, 13, 14]
    else:
        hs = [0, 1, 2, 3, 4, 5]
    return hs


def run_workers(prop: str, tier: str, seed: int, extra_args=None, budget=None):
    hs = worker_plan(tier, seed)
    tmp = tempfile.mkdtemp(prefix=f"verif_{prop}_")
    procs = []
    for wid, h in enumerate(hs):
        out = os.path.join(tmp, f"w{wid}.json")
        env = dict(os.environ)
        env["PYTHONHASHSEED"] = str(h)
        env["PGMPY_VERIF"] = "1"
        for k in ("OMP_NUM_THREADS", "MKL_NUM_THREADS", "OPENBLAS_NUM_THREADS", "NUMEXPR_NUM_THREADS"):
            env[k] = "1"
        env["PYTHONPATH"] = VERIF + os.pathsep + REPO + os.pathsep + env.get("PYTHONPATH", "")
        env["VERIF_REPO"] = REPO
        cmd = [PY, "-m", "harness.worker", "--prop", prop, "--tier", tier, "--seed", str(seed),
               "--wid", str(wid), "--nworkers", str(len(hs)), "--out", out]
        if budget:
            cmd += ["--budget", str(budget)]
        if extra_args:
            cmd += extra_args
        procs.append((wid, h, out, subprocess.Popen(cmd, cwd=VERIF, env=env, stdout=subprocess.PIPE,
                                                    stderr=subprocess.STDOUT, text=True)))
    results = []
    errors = []
    mod = importlib.import_module(f"harness.props.{prop.lower()}")
    wb = budget or (getattr(mod, "BUDGET_QUICK", 75) if tier == "quick" else getattr(mod, "BUDGET_THOROUGH", 900))
    deadline = time.time() + wb * 2 + 240          # workers stop generating at their budget; beyond this they are stuck
    for wid, h, out, p in procs:
        try:
            so, _ = p.communicate(timeout=max(5, deadline - time.time()))
        except subprocess.TimeoutExpired:
            p.kill()
            try:
                p.communicate(timeout=10)
            except Exception:
                pass
            errors.append(f"worker {wid} (hashseed {h}) exceeded the hard limit of {int(wb * 2 + 240)} s and was killed")
            continue
        if p.returncode != 0 or not os.path.exists(out):
            errors.append(f"worker {wid} (hashseed {h}) rc={p.returncode}: {so[-1500:]}")
            continue
        r = json.load(open(out))
        r["hashseed"] = h
        if r.get("abandoned_at"):
            errors.append(f"worker {wid} (hashseed {h}) abandoned its run (results so far are kept): "
                          + json.dumps(r["abandoned_at"], default=str)[:700])
        results.append(r)
    shutil.rmtree(tmp, ignore_errors=True)
    return results, errors


# ----------------------------------------------------------------------------- findings
def load_findings(prop):
    p = os.path.join(VERIF, "known_findings.json")
    if not os.path.exists(p):
        return []
    data = json.load(open(p))
    return [e for e in data.get("findings", []) if e.get("property") == prop and e.get("status", "known") == "known"]


def classify(prop, failure, findings):
    from harness import findings as F
    for e in findings:
        pred = getattr(F, e["predicate"], None)
        if pred is None:
            continue
        try:
            if pred(failure["stream"], failure["case"], failure.get("detail")):
                return e["id"]
        except Exception:
            continue
    return None


# ----------------------------------------------------------------------------- main
def write_replay(prop, name, payload):
    d = os.path.join(VERIF, "replays")
    os.makedirs(d, exist_ok=True)
    path = os.path.join(d, f"{prop}-{name}.json")
    with open(path, "w") as f:
        json.dump(payload, f, indent=1, default=str)
    return os.path.relpath(path, VERIF)


def do_replay(prop, path):
    from harness import worker
    payload = json.load(open(path))
    if "case" not in payload:
        print(f"replay {path}: names a broken obligation, no concrete case: {payload.get('broken')}")
        return 1
    r = worker.run_one(prop, payload["stream"], payload["case"])
    print(json.dumps({"status": r.status, "detail": r.detail}, default=str)[:3000])
    if r.status == "fail":
        print(f"VIOLATION property={prop} replay={path}")
        return 1
    return 0


def main():
    ap = argparse.ArgumentParser()
    ap.add_argument("prop")
    ap.add_argument("--tier", default=os.environ.get("VERIF_TIER", "quick"))
    ap.add_argument("--replay")
    ap.add_argument("--no-proof", action="store_true", help="skip lake build/audit (development only)")
    a = ap.parse_args()
    prop = a.prop.upper()
    tier = a.tier if a.tier in ("quick", "thorough") else "quick"
    try:
        seed = int(os.environ.get("VERIF_SEED", "0"))
    except ValueError:
        seed = 0
    if a.replay:
        sys.exit(do_replay(prop, a.replay))
    t0 = time.time()
    try:
        mod = importlib.import_module(f"harness.props.{prop.lower()}")
        if a.no_proof:
            ps = {"obligations": list(getattr(mod, "OBLIGATIONS", [])), "discharged": list(getattr(mod, "OBLIGATIONS", [])),
                  "broken": [], "log": "", "axioms": {}}
        else:
            ps = proof_side(prop, tier)
        t_proof = time.time() - t0
        results, werrors = run_workers(prop, tier, seed)
        if werrors and not results:
            print("internal error: all workers failed\n" + "\n".join(werrors), file=sys.stderr)
            sys.exit(2)
        findings = load_findings(prop)
        # aggregate
        evaluations = 0
        keys = set()
        failures = []
        tags = {}
        samples = []
        streams = {}
        skipped = 0
        for r in results:
            evaluations += r["evaluations"]
            skipped += r.get("skipped", 0)
            keys.update(r["nontrivial_keys"])
            for f_ in r["failures"]:
                f_["hashseed"] = r["hashseed"]
                failures.append(f_)
            for k, v in r["tags"].items():
                d = tags.setdefault(k, {})
                for kk, vv in v.items():
                    d[kk] = d.get(kk, 0) + vv
            for s, c in r["streams"].items():
                d = streams.setdefault(s, {"cases": 0, "fail": 0, "skip": 0})
                for kk in d:
                    d[kk] += c.get(kk, 0)
            if len(samples) < 6:
                samples.extend(r["samples"][:2])
        known_seen = {}
        unknown = []
        for f_ in failures:
            fid = f_.get("known") or classify(prop, f_, findings)
            if fid:
                known_seen.setdefault(fid, []).append(f_)
            else:
                unknown.append(f_)
        known_total = {}
        for r in results:
            for k, v in r.get("known_counts", {}).items():
                known_total[k] = known_total.get(k, 0) + v
        lines = []
        for e in findings:
            if e["id"] in known_seen:
                lines.append(f"KNOWN-FINDING: property={prop} {e['id']} {e['what']}")
        exit_code = 0
        violations = 0
        if unknown:
            # smallest failing case first
            unknown.sort(key=lambda f_: len(json.dumps(f_["case"], default=str)))
            f0 = unknown[0]
            path = write_replay(prop, f"{f0['stream']}-{f0['key'][:10]}", {
                "property": prop, "stream": f0["stream"], "case": f0["case"], "detail": f0["detail"],
                "hashseed": f0["hashseed"], "seed": seed, "tier": tier,
                "broken_obligations": ps["broken"], "other_failures": len(unknown) - 1})
            lines.append(f"VIOLATION property={prop} replay={path}")
            violations = len(unknown)
            exit_code = 1
        elif ps["broken"]:
            # obligations broke but the failing-input search (the correspondence streams above,
            # which evaluate the property's own predicate on the implementation) found nothing
            path = write_replay(prop, "obligation", {
                "property": prop, "broken": ps["broken"], "seed": seed, "tier": tier,
                "note": "proof obligation / extraction tie no longer checks; the failing-input search "
                        f"ran {evaluations} cases on the implementation and found no failing input"})
            lines.append(f"VIOLATION property={prop} replay={path} no-failing-input-found")
            violations = 1
            exit_code = 1
        for w in werrors:
            print("worker error: " + w[:600], file=sys.stderr)
        ev = {
            "property_id": prop, "tier": tier, "seed": seed, "level": "proof",
            "coverage": {
                "obligations": len(ps["obligations"]),
                "discharged": len(ps["discharged"]),
                "checker_cmd": f"cd lean && lake build PgmVerif.Props.{prop} && lake env lean PgmVerif/Audit/{prop}.lean"
                               + (" && lake env leanchecker PgmVerif.Props." + prop if tier == "thorough" else ""),
                "trusted_base": TRUSTED_BASE + list(getattr(mod, "TRUSTED_EXTRA", [])),
                "theorems": ps["discharged"],
                "axioms": ps.get("axioms", {}),
                "broken_obligations": [list(b) for b in ps["broken"]],
                "partial": list(getattr(mod, "PARTIAL", [])),
                "evaluations": evaluations,
                "distinct_nontrivial": len(keys),
                "rule": getattr(mod, "RULE", ""),
                "samples": samples[:6],
                "streams": streams,
                "input_distribution": tags,
                "skipped_cases": skipped,
                "workers": [{"hashseed": r["hashseed"], "evaluations": r["evaluations"], "wall_s": r.get("wall_s")} for r in results],
                "worker_errors": werrors,
                "known_findings_seen": known_total,
                "proof_wall_s": round(t_proof, 1),
            },
            "assumptions": list(getattr(mod, "ASSUMPTIONS", [])),
            "wall_s": round(time.time() - t0, 1),
            "violations": violations,
        }
        os.makedirs(os.path.join(VERIF, "evidence"), exist_ok=True)
        evname = f"{prop}.json" if REPO == "/repo" else f"{prop}.scratch.json"
        with open(os.path.join(VERIF, "evidence", evname), "w") as f:
            json.dump(ev, f, indent=1, default=str)
        for l in lines:
            print(l)
        print(f"[{prop}] tier={tier} seed={seed} obligations={len(ps['discharged'])}/{len(ps['obligations'])} "
              f"cases={evaluations} distinct_nontrivial={len(keys)} failures={sum(s_['fail'] for s_ in streams.values())} "
              f"known={sum(known_total.values())} wall={ev['wall_s']}s")
        sys.exit(exit_code)
    except SystemExit:
        raise
    except Exception:
        traceback.print_exc()
        sys.exit(2)


if __name__ == "__main__":
    main()
