"""harness/gen.py — structured generators shared by the property streams.

Everything is derived from the `random.Random` passed in (seeded from VERIF_SEED), never from
hash order.  Cases are plain JSON: node names are strings (or ints / lists=tuples), labels are
ints / strings / lists (=tuples), numbers are "p/q" strings.
"""
from __future__ import annotations

import itertools
from fractions import Fraction

from harness.core import rs

# ----------------------------------------------------------------------------- names & labels
def lab(x):
    """JSON label -> python label (lists become tuples)"""
    return tuple(lab(y) for y in x) if isinstance(x, list) else x


def node_names(rng, n, kind=None):
    kind = kind or rng.choice(["str", "str", "str", "int", "int0", "tuple", "word"])
    if kind == "str":
        base = ["A", "B", "C", "D", "E", "F", "G", "H", "I", "J", "K", "L"]
        names = base[:n]
        rng.shuffle(names)
        return names
    if kind == "word":
        base = ["rain", "sprinkler", "wet", "slip", "cloud", "temp", "wind", "alarm", "call", "burglar", "quake", "news"]
        names = base[:n]
        rng.shuffle(names)
        return names
    if kind == "int":
        names = list(range(1, n + 1))
        rng.shuffle(names)
        return names
    if kind == "int0":
        names = list(range(0, n))
        rng.shuffle(names)
        return names
    if kind == "tuple":
        return [["n", i] for i in rng.sample(range(20), n)]
    if kind == "mixed":
        # variable names of different types in ONE model (str, int, tuple): hashable, but not comparable with each other
        pool = ["A", "B", "C", "rain", 1, 2, 3, 7, ["n", 0], ["n", 1], ["s", "x"], "D", 11, ["t", 2]]
        while True:
            names = rng.sample(pool, n)
            if n == 1 or len({type(lab(x)) for x in names}) > 1:
                return names
    raise ValueError(kind)


def state_labels(rng, k, kind=None):
    kind = kind or rng.choice(["int", "int", "str", "str", "permint", "shiftint", "tuple", "mixedstr"])
    if kind == "int":
        return list(range(k))
    if kind == "str":
        pool = ["lo", "mid", "hi", "xl", "s0", "s1", "yes", "no", "maybe", "off"]
        return rng.sample(pool, k)
    if kind == "mixedstr":
        pool = ["a", "b", "c", "d", "e", "f", "g"]
        return rng.sample(pool, k)
    if kind == "permint":
        l = list(range(k))
        if k > 1:
            while l == list(range(k)):
                rng.shuffle(l)
        return l
    if kind == "shiftint":
        s = rng.choice([1, 2, 5, 10])
        l = list(range(s, s + k))
        rng.shuffle(l)
        return l
    if kind == "tuple":
        return [["t", i] for i in rng.sample(range(9), k)]
    raise ValueError(kind)


# ----------------------------------------------------------------------------- numbers
def rand_dist(rng, k, style=None):
    """a probability vector of length k as Fractions"""
    style = style or rng.choice(["generic", "generic", "generic", "zeros", "det", "dyadic", "uniform"])
    if k == 1:
        return [Fraction(1)]
    if style == "uniform":
        return [Fraction(1, k)] * k
    if style == "det":
        i = rng.randrange(k)
        return [Fraction(1) if j == i else Fraction(0) for j in range(k)]
    if style == "dyadic":
        w = [rng.randint(0, 8) for _ in range(k)]
    elif style == "zeros":
        w = [rng.choice([0, 0, 1, 2, 3, 5]) for _ in range(k)]
    else:
        w = [rng.randint(1, 19) for _ in range(k)]
    if sum(w) == 0:
        w[rng.randrange(k)] = 1
    t = sum(w)
    return [Fraction(x, t) for x in w]


def rand_vals(rng, n, style=None):
    """n non-negative rationals (factor potentials)"""
    style = style or rng.choice(["generic", "generic", "zeros", "small", "big"])
    out = []
    for _ in range(n):
        if style == "zeros":
            out.append(Fraction(rng.choice([0, 0, 1, 2, 3]), rng.choice([1, 2, 3, 4])))
        elif style == "small":
            out.append(Fraction(rng.randint(0, 4)))
        elif style == "big":
            out.append(Fraction(rng.randint(1, 1000), rng.choice([1, 7, 64, 1000])))
        else:
            out.append(Fraction(rng.randint(1, 19), rng.randint(1, 12)))
    return out


# ----------------------------------------------------------------------------- DAGs
DAG_SHAPES = ["isolated", "chain", "collider", "diamond", "family", "disconnected", "gnp", "gnp", "gnp", "tree", "triangle_parent"]


def rand_dag_edges(rng, n, shape=None, p=None):
    """edges (i, j) with i < j in a random topological numbering; returns (shape, edges on 0..n-1)"""
    shape = shape or rng.choice(DAG_SHAPES)
    perm = list(range(n))
    rng.shuffle(perm)
    E = set()
    if shape == "isolated" or n == 1:
        pass
    elif shape == "chain":
        for i in range(n - 1):
            E.add((i, i + 1))
    elif shape == "collider":
        for i in range(n - 1):
            E.add((i, n - 1))
        if n > 3 and rng.random() < .5:
            E.discard((0, n - 1))
            E.add((n - 1 - 1, n - 1))
            E.add((0, 1))
    elif shape == "diamond" and n >= 4:
        E |= {(0, 1), (0, 2), (1, 3), (2, 3)}
        for i in range(4, n):
            E.add((rng.randrange(i), i))
    elif shape == "family":
        k = min(n - 1, rng.randint(2, 4))
        for i in range(k):
            E.add((i, k))
        for i in range(k + 1, n):
            E.add((rng.randrange(i), i))
    elif shape == "disconnected" and n >= 3:
        h = n // 2
        for i in range(h - 1):
            if rng.random() < .8:
                E.add((i, i + 1))
        for i in range(h, n - 1):
            if rng.random() < .8:
                E.add((i, i + 1))
    elif shape == "tree":
        for i in range(1, n):
            E.add((rng.randrange(i), i))
    elif shape == "triangle_parent" and n >= 4:
        # B -> M -> S, B -> S and a further parent P -> M that is connected to S only through M: a reachability search has to visit M
        # "from below" as well as "from above" (plus, for larger n, a second root into S and random extra leaves)
        E |= {(0, 2), (1, 2), (2, 3), (0, 3)}
        if n >= 5:
            E.add((4, 3) if rng.random() < .5 else (4, 2))
        for i in range(5, n):
            E.add((rng.randrange(i), i))
    elif shape == "ring" and n >= 3:
        # 0 -> 1 -> ... -> n-1 and 0 -> n-1: the moral graph has the chordless cycle 0-1-...-(n-2)-0 of length n-1
        for i in range(n - 1):
            E.add((i, i + 1))
        E.add((0, n - 1))
    else:
        if shape == "gnp_dense":
            p = rng.choice([.7, .85, 1.0])
        p = p if p is not None else rng.choice([.25, .4, .6])
        for i in range(n):
            for j in range(i + 1, n):
                if rng.random() < p:
                    E.add((i, j))
    edges = sorted((perm[i], perm[j]) for i, j in E)
    return shape, edges


def all_dags(n):
    """all labelled DAGs on 0..n-1 as edge lists (543 for n=4, 29281 for n=5)"""
    pairs = [(i, j) for i in range(n) for j in range(n) if i != j]
    und = [(i, j) for i in range(n) for j in range(i + 1, n)]
    out = []
    for choice in itertools.product((0, 1, 2), repeat=len(und)):
        edges = []
        for (i, j), c in zip(und, choice):
            if c == 1:
                edges.append((i, j))
            elif c == 2:
                edges.append((j, i))
        if is_acyclic(n, edges):
            out.append(edges)
    return out


def is_acyclic(n, edges):
    indeg = [0] * n
    ch = [[] for _ in range(n)]
    for u, v in edges:
        indeg[v] += 1
        ch[u].append(v)
    st = [i for i in range(n) if indeg[i] == 0]
    seen = 0
    while st:
        u = st.pop()
        seen += 1
        for v in ch[u]:
            indeg[v] -= 1
            if indeg[v] == 0:
                st.append(v)
    return seen == n


def topo_order(n, edges):
    indeg = [0] * n
    ch = [[] for _ in range(n)]
    for u, v in edges:
        indeg[v] += 1
        ch[u].append(v)
    st = sorted(i for i in range(n) if indeg[i] == 0)
    out = []
    while st:
        u = st.pop(0)
        out.append(u)
        for v in sorted(ch[u]):
            indeg[v] -= 1
            if indeg[v] == 0:
                st.append(v)
    return out


# ----------------------------------------------------------------------------- Bayesian networks
def rand_bn(rng, nmin=1, nmax=6, maxcard=3, maxtable=400, name_kind=None, label_kind=None,
            dup=None, shape=None, max_parents=3, mincard=1, positive=False):
    """A random discrete BN case.
    case = {"nodes": [...], "edges": [[u,v]...] (by node *index*), "card": [...], "labels": [[...]...],
            "cpds": [{"child": i, "parents": [idx...], "table": [[str]...]}], "shape":...}
    `dup`: plant duplicated columns / tables so that evidence-reduced factors coincide."""
    n = rng.randint(nmin, nmax)
    shape, edges = rand_dag_edges(rng, n, shape)
    # cap in-degree
    par = {i: [] for i in range(n)}
    for u, v in edges:
        par[v].append(u)
    for v in par:
        if len(par[v]) > max_parents:
            par[v] = rng.sample(par[v], max_parents)
    edges = sorted((u, v) for v in par for u in par[v])
    names = node_names(rng, n, name_kind)
    card = []
    for i in range(n):
        c = rng.choice([1, 2, 2, 2, 3, 3, 4]) if mincard <= 1 else rng.choice([2, 2, 2, 3, 3, 4])
        card.append(max(mincard, min(c, maxcard)))
    lk = label_kind or rng.choice([None, None, "int", "str", "permint"])
    labels = [state_labels(rng, card[i], lk) for i in range(n)]
    dup = rng.random() < .3 if dup is None else dup
    cpds = []
    proto = {}
    for v in range(n):
        ps = list(par[v])
        rng.shuffle(ps)  # declared evidence order is arbitrary
        ncols = 1
        for p_ in ps:
            ncols *= card[p_]
        if ncols * card[v] > maxtable:
            ps = ps[:1]
            ncols = card[ps[0]] if ps else 1
        cols = []
        style = "generic" if positive else rng.choice([None, None, "generic", "zeros", "det"])
        for j in range(ncols):
            if dup and cols and rng.random() < .5:
                cols.append(list(rng.choice(cols)))
            elif dup and card[v] in proto and rng.random() < .6:
                cols.append(list(rng.choice(proto[card[v]])))
            else:
                cols.append(rand_dist(rng, card[v], style))
        proto.setdefault(card[v], []).extend(cols)
        table = [[rs(cols[j][i]) for j in range(ncols)] for i in range(card[v])]
        cpds.append({"child": v, "parents": ps, "table": table})
    edges = sorted((p_, c["child"]) for c in cpds for p_ in c["parents"])
    return {"nodes": names, "edges": [list(e) for e in edges], "card": card, "labels": labels, "cpds": cpds,
            "shape": shape}


def bn_to_pgmpy(case, cls=None):
    from pgmpy.models import BayesianNetwork
    from pgmpy.factors.discrete import TabularCPD
    names = [lab(x) for x in case["nodes"]]
    m = (cls or BayesianNetwork)()
    # the order in which nodes, edges and CPDs are inserted is not part of a network: every case gets its own (deterministic) order
    import random
    prng = random.Random(len(names) * 1009 + sum((i + 1) * (u * 31 + v) for i, (u, v) in enumerate(case["edges"])) + len(str(case["cpds"][0]["table"])) if case["cpds"] else 0)
    nodes_in, edges_in, cpds_in = list(names), [tuple(e) for e in case["edges"]], list(case["cpds"])
    if not case.get("keep_insertion_order"):
        prng.shuffle(nodes_in)
        prng.shuffle(edges_in)
        prng.shuffle(cpds_in)
    m.add_nodes_from(nodes_in)
    for u, v in edges_in:
        m.add_edge(names[u], names[v])
    past = None
    if not case.get("keep_insertion_order") and cpds_in and prng.random() < .35:
        # the network has a past: one variable first had another CPD (same shape), the model was validated and looked at, and
        # the CPD was then replaced through add_cpds.  Only the current CPDs are part of the network.
        cand = [c for c in cpds_in if len(c["table"]) > 1]
        if cand:
            past = prng.choice(cand)
    for c in cpds_in:
        if c is past:
            m.add_cpds(cpd_to_pgmpy(case, dict(c, table=list(reversed(c["table"])))))
        else:
            m.add_cpds(cpd_to_pgmpy(case, c))
    if past is not None:
        try:
            m.check_model()
        except Exception:  # noqa  (incomplete networks are validated by the streams themselves)
            pass
        for nm in nodes_in:
            m.get_cpds(nm)
        m.add_cpds(cpd_to_pgmpy(case, past))
    if case.get("latents"):
        # declared latent variables change nothing about the distribution: inference must treat them as ordinary hidden nodes
        m.latents = set(m.latents) | {names[v] for v in case["latents"]}
    return m


def cpd_to_pgmpy(case, c):
    from pgmpy.factors.discrete import TabularCPD
    names = [lab(x) for x in case["nodes"]]
    v = c["child"]
    ps = c["parents"]
    sn = {names[v]: [lab(x) for x in case["labels"][v]]}
    for p_ in ps:
        sn[names[p_]] = [lab(x) for x in case["labels"][p_]]
    table = [[float(Fraction(x)) for x in row] for row in c["table"]]
    return TabularCPD(names[v], case["card"][v], table,
                      evidence=[names[p_] for p_ in ps] if ps else None,
                      evidence_card=[case["card"][p_] for p_ in ps] if ps else None,
                      state_names=sn)


def bn_model_factors(case):
    """model-side factors: scope [child]+parents, C-order values"""
    fs = []
    for c in case["cpds"]:
        scope = [c["child"]] + list(c["parents"])
        card = [case["card"][v] for v in scope]
        vals = [x for row in c["table"] for x in row]
        fs.append({"scope": scope, "card": card, "vals": vals})
    return fs


def label_index(case, v, label):
    ls = [lab(x) for x in case["labels"][v]]
    return ls.index(lab(label))


# ----------------------------------------------------------------------------- factors
def rand_factor(rng, pool_vars, card, k=None, style=None):
    """random factor over a subset of pool_vars (indices); returns {"scope": [...], "vals": [...]} in a random axis order"""
    k = k if k is not None else rng.randint(1, min(3, len(pool_vars)))
    scope = rng.sample(pool_vars, k)
    n = 1
    for v in scope:
        n *= card[v]
    return {"scope": scope, "vals": [rs(x) for x in rand_vals(rng, n, style)]}


def factor_to_pgmpy(names, card, labels, f):
    from pgmpy.factors.discrete import DiscreteFactor
    sc = f["scope"]
    sn = {lab(names[v]): [lab(x) for x in labels[v]] for v in sc}
    return DiscreteFactor([lab(names[v]) for v in sc], [card[v] for v in sc],
                          [float(Fraction(x)) for x in f["vals"]], state_names=sn)


def factor_model(card, f):
    return {"scope": list(f["scope"]), "card": [card[v] for v in f["scope"]], "vals": list(f["vals"])}


def impl_factor_value(phi, names, labels, asg):
    """value of a pgmpy DiscreteFactor at {var index: state index}, via *its own* state-name maps"""
    pn = [lab(x) for x in names]
    idx = []
    for v in phi.variables:
        i = pn.index(v)
        idx.append(phi.name_to_no[v][lab(labels[i][asg[i]])])
    return float(phi.values[tuple(idx)])
