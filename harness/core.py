"""harness/core.py — shared plumbing: Lean driver, rationals, comparison, case results.

The Lean model is the oracle.  Every stream is a pair
    gen(rng, tier) -> case (a JSON-serialisable dict, self-contained = the replay)
    run(case, drv) -> Result
`run` executes the real pgmpy code from /repo and the Lean model (through the
driver) on the same case and compares property-level observables.
"""
from __future__ import annotations

import json
import math
import os
import subprocess
import sys
import hashlib
from fractions import Fraction

VERIF = os.path.dirname(os.path.dirname(os.path.abspath(__file__)))
LEAN_DIR = os.path.join(VERIF, "lean")
DRIVER_BIN = os.path.join(LEAN_DIR, ".lake", "build", "bin", "driver")

RTOL = 1e-9


# ----------------------------------------------------------------------------- rationals
def rs(x) -> str:
    """Fraction/int -> "p/q" string for the driver."""
    x = Fraction(x)
    return str(x.numerator) if x.denominator == 1 else f"{x.numerator}/{x.denominator}"


def fr(s) -> Fraction:
    if isinstance(s, (int, Fraction)):
        return Fraction(s)
    return Fraction(s)


def close(impl: float, model, tol: float = RTOL) -> bool:
    """|impl - model| <= tol * max(1, |model|); the only float comparison (DESIGN 2.3)."""
    m = float(model)
    try:
        v = float(impl)
    except Exception:
        return False
    if math.isnan(v) or math.isinf(v):
        return False
    return abs(v - m) <= tol * max(1.0, abs(m))


# ----------------------------------------------------------------------------- driver
class DriverError(RuntimeError):
    pass


class Driver:
    """Pipe to the native Lean driver (one JSON request per line, one reply per line)."""

    def __init__(self):
        if not os.path.exists(DRIVER_BIN):
            raise DriverError(f"driver binary missing: {DRIVER_BIN} (run setup / lake build)")
        self.p = subprocess.Popen([DRIVER_BIN], stdin=subprocess.PIPE, stdout=subprocess.PIPE,
                                  text=True, bufsize=1)
        self.n = 0

    def call(self, op: str, **kw):
        self.n += 1
        req = {"id": self.n, "op": op}
        req.update(kw)
        self.p.stdin.write(json.dumps(req) + "\n")
        self.p.stdin.flush()
        line = self.p.stdout.readline()
        if not line:
            raise DriverError(f"driver died on op {op}")
        rep = json.loads(line)
        if "error" in rep:
            raise DriverError(f"driver error on {op}: {rep['error']}")
        return rep["ok"]

    def close(self):
        try:
            self.p.stdin.close()
            self.p.wait(timeout=5)
        except Exception:
            self.p.kill()


# ----------------------------------------------------------------------------- results
class Result:
    __slots__ = ("status", "detail", "nontrivial", "tags")

    def __init__(self, status="ok", detail=None, nontrivial=True, tags=None):
        self.status = status          # ok | fail | skip
        self.detail = detail          # str / dict describing the disagreement
        self.nontrivial = nontrivial  # by the stream's stated rule
        self.tags = tags or {}        # distribution data (sizes, kinds, ...)


def ok(nontrivial=True, **tags):
    return Result("ok", None, nontrivial, tags)


def fail(detail, **tags):
    return Result("fail", detail, True, tags)


def skip(reason, **tags):
    return Result("skip", reason, False, tags)


def case_key(case) -> str:
    return hashlib.sha1(json.dumps(case, sort_keys=True, default=str).encode()).hexdigest()


# ----------------------------------------------------------------------------- model-side factor JSON
def mfactor(scope, card, vals):
    """model factor JSON: scope = var ids, vals = Fractions in C order"""
    return {"scope": list(scope), "card": list(card), "vals": [rs(v) for v in vals]}


def mvals(rep):
    return [Fraction(v) for v in rep["vals"]]


def ravel(card, idx):
    r = 0
    for c, i in zip(card, idx):
        r = r * c + i
    return r


def unravel(card, n):
    out = []
    for c in reversed(card):
        out.append(n % c)
        n //= c
    return list(reversed(out))


def model_value(rep, asg: dict):
    """value of a model factor reply at assignment {var id: state index}"""
    idx = [asg[v] for v in rep["scope"]]
    return Fraction(rep["vals"][ravel(rep["card"], idx)])


def all_assignments(scope, card):
    n = 1
    for c in card:
        n *= c
    for k in range(n):
        yield dict(zip(scope, unravel(card, k)))


def quiet_imports():
    import warnings
    import logging
    warnings.filterwarnings("ignore")
    logging.disable(logging.CRITICAL)
    os.environ.setdefault("PGMPY_VERIF", "1")
    try:
        from pgmpy.global_vars import config  # noqa
        config.set_show_progress(False)
    except Exception:
        pass
