import PgmVerif.Model.Basic
import PgmVerif.Model.Factor
import PgmVerif.Model.BN
import PgmVerif.Model.VE
import PgmVerif.Model.CPD
import PgmVerif.Model.Graph
import PgmVerif.Model.History
import PgmVerif.Model.Learn
