/-
  Model/PDAG.lean — specification side of constraint-based discovery (C12): the CPDAG of a DAG
  by enumeration of its Markov equivalence class, consistent extensions of a PDAG, and the
  Dor–Tarsi sink-removal algorithm of `PDAG.to_dag`.
-/
import PgmVerif.Model.Indep
import PgmVerif.Model.Search
namespace PgmVerif

structure PD where
  nodes : List Var
  directed : List (Var × Var)
  undirected : List (Var × Var)      -- each unordered pair once
deriving Inhabited

def normPair (e : Var × Var) : Var × Var := if e.1 < e.2 then e else (e.2, e.1)

/-- all orientations of an undirected edge list -/
def orientations : List (Var × Var) → List (List (Var × Var))
  | [] => [[]]
  | e :: es => let r := orientations es; r.map (e :: ·) ++ r.map ((e.2, e.1) :: ·)

/-- all DAGs with the same skeleton and the same v-structures as `g` (its Markov class) -/
def markovClass (g : DG) : List DG :=
  let vs := vStructures g
  ((orientations (skeleton g)).map (fun es => ({ nodes := g.nodes, edges := es } : DG))).filter
    (fun h => isAcyclicG h && sameSetBy (vStructures h) vs)

/-- CPDAG: an edge is directed iff it has that direction in every member of the class -/
def cpdagSpec (g : DG) : PD :=
  let cls := markovClass g
  let sk := skeleton g
  let dir := sk.filterMap (fun e =>
    if cls.all (fun h => h.hasEdge e.1 e.2) then some e
    else if cls.all (fun h => h.hasEdge e.2 e.1) then some (e.2, e.1) else none)
  { nodes := g.nodes, directed := dir,
    undirected := sk.filter (fun e => !(dir.contains e || dir.contains (e.2, e.1))) }

namespace PD
def skeleton (p : PD) : List (Var × Var) := ((p.directed ++ p.undirected).map normPair).eraseDups
def adj (p : PD) (a b : Var) : Bool := (p.skeleton).contains (normPair (a, b))
/-- v-structures among the directed edges -/
def vstructs (p : PD) : List (Var × Var × Var) :=
  (p.nodes.flatMap (fun c =>
    let ps := (p.directed.filter (fun e => e.2 == c)).map (·.1)
    ps.flatMap (fun a => ps.filterMap (fun b => if a < b && !p.adj a b then some (a, c, b) else none)))).eraseDups

/-- `d` is a consistent extension: acyclic, same skeleton, keeps every directed edge, creates
    no v-structure that the PDAG does not already have -/
def isExtension (p : PD) (d : DG) : Bool :=
  isAcyclicG d && sameSetBy (PgmVerif.skeleton d) p.skeleton && p.directed.all (fun e => d.hasEdge e.1 e.2)
    && sameSetBy (vStructures d) p.vstructs

def extensions (p : PD) : List DG :=
  ((orientations p.undirected).map (fun es => ({ nodes := p.nodes, edges := p.directed ++ es } : DG))).filter p.isExtension

def extendable (p : PD) : Bool := !(p.extensions).isEmpty

/-- Dor–Tarsi: repeatedly remove a node with no outgoing directed edge whose undirected
    neighbours are adjacent to all its other neighbours, orienting its undirected edges into it;
    `none` when no such node exists (the code then orients the rest arbitrarily) -/
def toDag (p : PD) : Option (List (Var × Var)) :=
  let rec go (fuel : Nat) (nodes : List Var) (dir und : List (Var × Var)) (acc : List (Var × Var)) :
      Option (List (Var × Var)) :=
    match fuel with
    | 0 => if nodes.isEmpty then some acc else none
    | f+1 =>
      if nodes.isEmpty then some acc else
      let isAdj (a b : Var) : Bool :=
        dir.contains (a, b) || dir.contains (b, a) || und.contains (normPair (a, b))
      let cand := nodes.find? (fun x =>
        let out := dir.any (fun e => e.1 == x)
        let uN := (und.filter (fun e => e.1 == x || e.2 == x)).map (fun e => if e.1 == x then e.2 else e.1)
        let allN := uN ++ (dir.filter (fun e => e.2 == x)).map (·.1)
        !out && uN.all (fun y => allN.all (fun z => y == z || isAdj y z)))
      match cand with
      | none => none
      | some x =>
        let newE := (und.filter (fun e => e.1 == x || e.2 == x)).map (fun e => if e.1 == x then (e.2, x) else (e.1, x))
        go f (nodes.filter (· != x)) (dir.filter (fun e => e.1 != x && e.2 != x))
          (und.filter (fun e => e.1 != x && e.2 != x)) (acc ++ newE)
  go p.nodes.length p.nodes p.directed (p.undirected.map normPair) p.directed
end PD

end PgmVerif
