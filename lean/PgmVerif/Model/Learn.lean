/-
  Model/Learn.lean — closed-form parameter learning: weighted counts, maximum likelihood,
  Bayesian (K2 / BDeu / Dirichlet) estimates, incremental update.
  A data row assigns a state index to every column (variable); `Asg` is reused for rows.
-/
import PgmVerif.Model.CPD
namespace PgmVerif

/-- a weighted data set: (row, weight) -/
abbrev Data := List (List Nat × Rat)

/-- row as an assignment: variable `v` is column `v` -/
def rowAsg (r : List Nat) : Asg := fun v => r.getD v 0

/-- does the row agree with `a` on the variables `vs`? -/
def rowMatches (vs : List Var) (a : Asg) (r : List Nat) : Bool := vs.all (fun v => r.getD v 0 == a v)

/-- weighted number of rows that agree with `a` on `vs` -/
def countAt (data : Data) (vs : List Var) (a : Asg) : Rat :=
  (data.map (fun p => if rowMatches vs a p.1 then p.2 else 0)).sum

/-- table of counts N(child, parents) with the CPD layout (child first) -/
def countsTable (data : Data) (K : Var → Nat) (child : Var) (parents : List Var) : Factor :=
  Factor.tabulate (child :: parents) ((child :: parents).map K) (countAt data (child :: parents))

/-- `estimate_cpd` of the ML estimator: all-zero columns are replaced by ones, then every column
    is normalised -/
def mleFrom (cnt : Factor) : Factor :=
  let s := columnSums cnt
  let filled := Factor.tabulate cnt.scope cnt.card (fun a => if s.den a = 0 then 1 else cnt.den a)
  CPD.colNormalize filled

def mle (data : Data) (K : Var → Nat) (child : Var) (parents : List Var) : Factor :=
  mleFrom (countsTable data K child parents)

/-- Bayesian estimate: (count + pseudo-count) normalised per column -/
def bayesFrom (cnt pseudo : Factor) : Factor := CPD.colNormalize (cnt.add pseudo)

def constTable (K : Var → Nat) (child : Var) (parents : List Var) (c : Rat) : Factor :=
  Factor.tabulate (child :: parents) ((child :: parents).map K) (fun _ => c)

def bayesK2 (data : Data) (K : Var → Nat) (child : Var) (parents : List Var) : Factor :=
  bayesFrom (countsTable data K child parents) (constTable K child parents 1)

/-- BDeu: every cell gets ess / (r · q) -/
def bayesBDeu (data : Data) (K : Var → Nat) (child : Var) (parents : List Var) (ess : Rat) : Factor :=
  let r := K child
  let q := (parents.map K).prod
  bayesFrom (countsTable data K child parents) (constTable K child parents (ess / ((r * q : Nat) : Rat)))

def bayesDirichlet (data : Data) (K : Var → Nat) (child : Var) (parents : List Var) (pseudo : Factor) : Factor :=
  bayesFrom (countsTable data K child parents) pseudo

/-- `fit_update`: Dirichlet prior = previous CPD scaled by the previous sample size -/
def fitUpdate (data : Data) (K : Var → Nat) (child : Var) (parents : List Var) (prev : Factor) (nPrev : Rat) : Factor :=
  bayesFrom (countsTable data K child parents)
    (Factor.tabulate prev.scope prev.card (fun a => prev.den a * nPrev))

end PgmVerif
