/-
  Model/Causal.lean — graphical criteria for causal adjustment, checked directly on paths (C13).
-/
import PgmVerif.Model.Graph
namespace PgmVerif
namespace DG

/-- all simple paths (in the skeleton) from `x` that end in `y` -/
def pathsBetween (g : DG) (x y : Var) : List (List Var) :=
  (simplePathsFrom g g.nodes.length [x]).filter (fun p => p.getLastD x == y && p.length ≥ 2)

/-- a path is blocked by `zs` iff it is not active (interior non-collider in Z, or a collider
    without observed descendant-or-self) -/
def pathBlocked (g : DG) (zs : List Var) (p : List Var) : Bool := !(trailActive g zs (g.ancestorsOf zs) p)

/-- back-door paths: paths from x to y whose first edge points INTO x -/
def backdoorPaths (g : DG) (x y : Var) : List (List Var) :=
  (g.pathsBetween x y).filter (fun p => match p with
    | _ :: b :: _ => g.hasEdge b x
    | _ => false)

/-- back-door criterion: no member of Z is a descendant of x, and Z blocks every back-door path -/
def backdoorOK (g : DG) (x y : Var) (zs : List Var) : Bool :=
  zs.all (fun z => z != x && z != y && !((g.descendantsOf [x]).contains z)) &&
  (g.backdoorPaths x y).all (g.pathBlocked zs)

/-- Z blocks every back-door path (without the descendant condition) -/
def blocksBackdoor (g : DG) (x y : Var) (zs : List Var) : Bool :=
  (g.backdoorPaths x y).all (g.pathBlocked zs)

def isDirectedPath (g : DG) : List Var → Bool
  | a :: b :: rest => g.hasEdge a b && isDirectedPath g (b :: rest)
  | _ => true

def directedPaths (g : DG) (x y : Var) : List (List Var) := (g.pathsBetween x y).filter g.isDirectedPath

/-- front-door criterion (Pearl): Z intercepts all directed paths x ⇝ y; no unblocked back-door
    path from x to any z; every back-door path from any z to y is blocked by {x} -/
def frontdoorOK (g : DG) (x y : Var) (zs : List Var) : Bool :=
  !(g.directedPaths x y).isEmpty &&
  (g.directedPaths x y).all (fun p => p.any (fun v => zs.contains v)) &&
  zs.all (fun z => (g.backdoorPaths x z).all (g.pathBlocked [])) &&
  zs.all (fun z => (g.backdoorPaths z y).all (g.pathBlocked [x]))

end DG
end PgmVerif
