/-
  Model/Search.lean — score-based structure search over an ABSTRACT decomposable local score
  `s : Var → List Var → Rat` (a function of the parent SET): the hill-climbing loop of
  `HillClimbSearch.estimate`, exhaustive search, and Chow–Liu tree orientation.
-/
import PgmVerif.Model.Graph
namespace PgmVerif

/-- local score table: for variable v, the entry at the bitmask of its parent set -/
structure ScoreTab where
  tab : List (List Rat)

def maskOf (ps : List Var) : Nat := (ps.eraseDups.map (fun p => 2 ^ p)).sum
def ScoreTab.local (s : ScoreTab) (v : Var) (ps : List Var) : Rat := (s.tab.getD v []).getD (maskOf ps) 0

def totalScore (s : ScoreTab) (g : DG) : Rat := (g.nodes.map (fun v => s.local v (g.parents v))).sum

inductive HOp
  | add (x y : Var) | rem (x y : Var) | flip (x y : Var)
deriving DecidableEq, Repr

structure HCOpts where
  maxIndeg : Option Nat
  black : List (Var × Var)
  white : Option (List (Var × Var))     -- none = everything allowed
  fixed : List (Var × Var)
  tabuLen : Nat
  eps : Rat
  maxIter : Nat

def HCOpts.isWhite (o : HCOpts) (e : Var × Var) : Bool :=
  match o.white with
  | none => true
  | some w => w.contains e

def HCOpts.indegOk (o : HCOpts) (n : Nat) : Bool :=
  match o.maxIndeg with
  | none => true
  | some m => n ≤ m

def hasPathG (g : DG) (a b : Var) : Bool := (g.descendantsOf [a]).contains b

def removeEdge (g : DG) (e : Var × Var) : DG := { g with edges := g.edges.filter (· != e) }
def addEdge (g : DG) (e : Var × Var) : DG := { g with edges := g.edges ++ [e] }

/-- the candidate operations with their score deltas — `_legal_operations` -/
def legalOps (s : ScoreTab) (o : HCOpts) (tabu : List HOp) (g : DG) : List (HOp × Rat) :=
  let pairs := g.nodes.flatMap (fun x => g.nodes.filterMap (fun y => if x != y then some (x, y) else none))
  let adds := pairs.filterMap (fun (x, y) =>
    if g.hasEdge x y || g.hasEdge y x then none
    else if hasPathG g y x then none
    else if tabu.contains (.add x y) || o.black.contains (x, y) || !o.isWhite (x, y) then none
    else
      let old := g.parents y
      if o.indegOk (old.length + 1) then some (HOp.add x y, s.local y (old ++ [x]) - s.local y old) else none)
  let rems := g.edges.filterMap (fun (x, y) =>
    if tabu.contains (.rem x y) || o.fixed.contains (x, y) then none
    else
      let old := g.parents y
      some (HOp.rem x y, s.local y (old.filter (· != x)) - s.local y old))
  let flips := g.edges.filterMap (fun (x, y) =>
    if hasPathG (removeEdge g (x, y)) x y then none
    else if tabu.contains (.flip x y) || tabu.contains (.flip y x) || o.fixed.contains (x, y)
        || o.black.contains (y, x) || !o.isWhite (y, x) then none
    else
      let ox := g.parents x
      let oy := g.parents y
      if o.indegOk (ox.length + 1) then
        some (HOp.flip x y, s.local x (ox ++ [y]) + s.local y (oy.filter (· != x)) - s.local x ox - s.local y oy)
      else none)
  adds ++ rems ++ flips

def bestOp : List (HOp × Rat) → Option (HOp × Rat)
  | [] => none
  | p :: ps => match bestOp ps with
    | none => some p
    | some q => if q.2 > p.2 then some q else some p

/-- are the two largest deltas equal? (the harness discards such cases: the implementation's
    choice then depends on set iteration order) -/
def hasTie (l : List (HOp × Rat)) : Bool :=
  match bestOp l with
  | none => false
  | some b => (l.filter (fun p => p.2 == b.2)).length > 1

def applyOp (g : DG) : HOp → DG
  | .add x y => addEdge g (x, y)
  | .rem x y => removeEdge g (x, y)
  | .flip x y => addEdge (removeEdge g (x, y)) (y, x)

def tabuPush (len : Nat) (tabu : List HOp) (e : HOp) : List HOp :=
  let t := tabu ++ [e]
  t.drop (t.length - len)

def tabuEntry : HOp → HOp
  | .add x y => .rem x y
  | .rem x y => .add x y
  | .flip x y => .flip x y

structure HCState where
  g : DG
  tabu : List HOp
  trace : List (HOp × Rat)
  tie : Bool

def hcLoop (s : ScoreTab) (o : HCOpts) : Nat → HCState → HCState
  | 0, st => st
  | fuel+1, st =>
    let ops := legalOps s o st.tabu st.g
    match bestOp ops with
    | none => st
    | some (op, d) =>
      if d < o.eps then st
      else hcLoop s o fuel { g := applyOp st.g op, tabu := tabuPush o.tabuLen st.tabu (tabuEntry op),
                             trace := st.trace ++ [(op, d)], tie := st.tie || hasTie ops }

def hillClimb (s : ScoreTab) (o : HCOpts) (start : DG) : HCState :=
  hcLoop s o o.maxIter { g := { start with edges := (start.edges ++ o.fixed).eraseDups }, tabu := [], trace := [], tie := false }

/-! ### exhaustive search -/

def isAcyclicG (g : DG) : Bool := g.nodes.all (fun v => !((g.children v).any (fun c => hasPathG g c v)))

def subsets {α : Type} : List α → List (List α)
  | [] => [[]]
  | x :: xs => let r := subsets xs; r ++ r.map (x :: ·)

def allDags (nodes : List Var) : List DG :=
  let pairs := nodes.flatMap (fun x => nodes.filterMap (fun y => if x != y then some (x, y) else none))
  ((subsets pairs).map (fun es => ({ nodes := nodes, edges := es } : DG))).filter isAcyclicG

def bestScore (s : ScoreTab) (nodes : List Var) : Rat := maxR ((allDags nodes).map (totalScore s))

/-! ### Chow–Liu: maximum-weight spanning tree and BFS orientation -/

/-- maximum weight over all spanning trees, by enumeration of edge subsets of size n−1 that
    connect everything (specification for ≤ 6 nodes) -/
def connectedU (nodes : List Var) (es : List (Var × Var)) : Bool :=
  match nodes with
  | [] => true
  | r :: _ =>
    let g : DG := { nodes := nodes, edges := es ++ es.map (fun e => (e.2, e.1)) }
    nodes.all (fun v => (g.descendantsOf [r]).contains v)

/-- BFS orientation away from `root` of an undirected tree given as an edge list -/
def orientFrom (nodes : List Var) (tree : List (Var × Var)) (root : Var) : List (Var × Var) :=
  let und := tree ++ tree.map (fun e => (e.2, e.1))
  let rec go (fuel : Nat) (frontier seen : List Var) (acc : List (Var × Var)) : List (Var × Var) :=
    match fuel with
    | 0 => acc
    | f+1 =>
      match frontier with
      | [] => acc
      | _ =>
        let newEdges := frontier.flatMap (fun u => (und.filter (fun e => e.1 == u && !seen.contains e.2)))
        let newNodes := (newEdges.map (·.2)).eraseDups
        go f newNodes (seen ++ newNodes) (acc ++ newEdges)
  go nodes.length [root] [root] []

end PgmVerif
