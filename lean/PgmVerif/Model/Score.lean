/-
  Model/Score.lean — decomposable structure scores in the exponential (rational) domain, and
  the LRU score cache as a state machine.
  K2, BDeu and BDs local scores are logs of rationals (ratios of factorials / rising
  factorials); BIC and AIC are log R − c·log N − pen with R rational.
-/
import PgmVerif.Model.Learn
namespace PgmVerif

def fact : Nat → Nat
  | 0 => 1
  | n+1 => (n+1) * fact n

/-- rising factorial b (b+1) … (b+n−1) = Γ(b+n)/Γ(b) -/
def rising (b : Rat) : Nat → Rat
  | 0 => 1
  | n+1 => rising b n * (b + n)

def natOf (q : Rat) : Nat := q.num.toNat

/-- counts N_jk for every parent configuration j (C order of `parents`) and every declared
    child state k, including configurations and states that never occur -/
def localCounts (data : Data) (K : Var → Nat) (child : Var) (parents : List Var) : List (List Nat) :=
  let pcs := parents.map K
  (allIdx pcs).map (fun j =>
    (List.range (K child)).map (fun k =>
      natOf (countAt data (child :: parents) (overrideL (fun _ => 0) (child :: parents) (k :: unravel pcs j)))))

def colTotal (col : List Nat) : Nat := col.sum

/-- K2: Π_j (r−1)!/(N_j+r−1)! · Π_k N_jk! -/
def k2Col (r : Nat) (col : List Nat) : Rat :=
  ((col.map (fun n => (fact n : Rat))).prod) / rising (r : Rat) (colTotal col)
def k2Exp (r : Nat) (cols : List (List Nat)) : Rat := (cols.map (k2Col r)).prod

/-- BDeu: Π_j Γ(α)/Γ(N_j+α) · Π_k Γ(N_jk+β)/Γ(β) with α = ess/q, β = ess/(r q) -/
def bdCol (alpha beta : Rat) (col : List Nat) : Rat :=
  ((col.map (fun n => rising beta n)).prod) / rising alpha (colTotal col)
def bdeuExp (ess : Rat) (r : Nat) (cols : List (List Nat)) : Rat :=
  let q := cols.length
  (cols.map (bdCol (ess / q) (ess / ((r * q : Nat) : Rat)))).prod

/-- BDs (Scutari 2016): as BDeu but the prior mass is spread over the observed parent
    configurations only -/
def bdsExp (ess : Rat) (r : Nat) (cols : List (List Nat)) : Rat :=
  let obs := cols.filter (fun c => colTotal c != 0)
  let q := obs.length
  (obs.map (bdCol (ess / q) (ess / ((r * q : Nat) : Rat)))).prod

def powR (x : Rat) : Nat → Rat
  | 0 => 1
  | n+1 => powR x n * x

/-- likelihood part of BIC/AIC: Π_j Π_k (N_jk/N_j)^N_jk (empty cells contribute 1) -/
def llCol (col : List Nat) : Rat :=
  let t := colTotal col
  (col.map (fun (n : Nat) => if n = 0 then (1 : Rat) else powR ((n : Rat) / (t : Rat)) n)).prod
def llExp (cols : List (List Nat)) : Rat := (cols.map llCol).prod

/-- number of free parameters q (r − 1) -/
def nParams (r : Nat) (cols : List (List Nat)) : Nat := cols.length * (r - 1)

/-! ### LRU cache (`ScoreCache.LRUCache`) -/

structure LRU (κ ν : Type) where
  maxSize : Nat
  entries : List (κ × ν)     -- least recently used first

namespace LRU
variable {κ ν : Type} [DecidableEq κ]

def lookup (c : LRU κ ν) (k : κ) : Option ν := (c.entries.find? (fun e => e.1 = k)).map (·.2)

/-- one call of the cached function -/
def call (f : κ → ν) (c : LRU κ ν) (k : κ) : LRU κ ν × ν :=
  match c.lookup k with
  | some v => ({ c with entries := c.entries.filter (fun e => e.1 ≠ k) ++ [(k, v)] }, v)
  | none =>
    let v := f k
    let kept := if c.entries.length ≥ c.maxSize then c.entries.drop 1 else c.entries
    ({ c with entries := kept ++ [(k, v)] }, v)

def run (f : κ → ν) (c : LRU κ ν) : List κ → LRU κ ν × List ν
  | [] => (c, [])
  | k :: ks => let (c', v) := call f c k; let (c'', vs) := run f c' ks; (c'', v :: vs)
end LRU

end PgmVerif
