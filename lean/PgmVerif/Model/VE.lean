/-
  Model/VE.lean — the variable-elimination algorithm of
  `VariableElimination._variable_elimination` (classic path): for each variable of the
  order multiply the working factors that mention it, sum it out, file the result.
-/
import PgmVerif.Model.BN
namespace PgmVerif

/-- one elimination step with combiner `elim` (sum or max) -/
def elimVarWith (elim : Factor → List Var → Factor) (fs : List Factor) (v : Var) : List Factor :=
  let uses := fs.filter (fun f => f.scope.contains v)
  let rest := fs.filter (fun f => !f.scope.contains v)
  if uses.isEmpty then rest else rest ++ [elim (Factor.productAll uses) [v]]

def elimVar := elimVarWith Factor.marginalize
def veRun (fs : List Factor) (order : List Var) : List Factor := order.foldl elimVar fs

/-- unnormalised result of VE over `order` after reducing every factor to the evidence -/
def veQueryU (fs : List Factor) (q : List Var) (ev : List (Var × Nat)) (order : List Var) : Factor :=
  let red := fs.map (fun f => f.reduce ev)
  ((Factor.productAll (veRun red order)).permuteAxes q)

def veQuery (fs : List Factor) (q : List Var) (ev : List (Var × Nat)) (order : List Var) : Factor :=
  (veQueryU fs q ev order).normalize

/-- max-product elimination (MAP over all non-evidence variables) -/
def veMaxRun (fs : List Factor) (order : List Var) : List Factor :=
  order.foldl (elimVarWith Factor.maximize) fs

end PgmVerif
