/-
  Model/Graph.lean — directed graphs as edge lists, fuel-bounded saturation, ancestors,
  d-separation by the (node, direction) reachability of `DAG.active_trail_nodes`, and the
  path-based specification of d-connection.
-/
import PgmVerif.Model.Basic
namespace PgmVerif

structure DG where
  nodes : List Var
  edges : List (Var × Var)
deriving Repr, Inhabited

namespace DG
def parents (g : DG) (v : Var) : List Var := (g.edges.filter (fun e => e.2 == v)).map (·.1)
def children (g : DG) (v : Var) : List Var := (g.edges.filter (fun e => e.1 == v)).map (·.2)
def hasEdge (g : DG) (u v : Var) : Bool := g.edges.contains (u, v)
def adjacent (g : DG) (u v : Var) : Bool := g.hasEdge u v || g.hasEdge v u
def neighbors (g : DG) (v : Var) : List Var := g.parents v ++ g.children v
end DG

/-! ### generic saturation (least fixed point by iteration with fuel) -/
section sat
variable {α : Type} [DecidableEq α]

def newElems (next : List α → List α) (S : List α) : List α :=
  ((next S).filter (fun x => !S.contains x)).eraseDups

/-- iterate `S := S ++ new(next S)` until nothing new appears (at most `fuel` rounds) -/
def saturate (next : List α → List α) : Nat → List α → List α
  | 0, S => S
  | n+1, S => match newElems next S with
    | [] => S
    | x :: xs => saturate next n (S ++ (x :: xs))
end sat

namespace DG

/-- `_get_ancestors_of`: the nodes of `zs` and all their ancestors -/
def ancestorsOf (g : DG) (zs : List Var) : List Var :=
  saturate (fun S => S.flatMap g.parents) (g.nodes.length + 1) zs.eraseDups

def descendantsOf (g : DG) (zs : List Var) : List Var :=
  saturate (fun S => S.flatMap g.children) (g.nodes.length + 1) zs.eraseDups

/-- a traversal state: node and direction (`true` = 'up': arrived from a child or start) -/
abbrev St := Var × Bool

/-- successor states of one state — the four rules of `active_trail_nodes` -/
def trailNext (g : DG) (obs anc : List Var) (s : St) : List St :=
  let n := s.1
  if s.2 then
    if obs.contains n then []
    else (g.parents n).map (fun p => (p, true)) ++ (g.children n).map (fun c => (c, false))
  else
    (if obs.contains n then [] else (g.children n).map (fun c => (c, false))) ++
    (if anc.contains n then (g.parents n).map (fun p => (p, true)) else [])

def reach (g : DG) (obs : List Var) (x : Var) : List St :=
  saturate (fun S => S.flatMap (g.trailNext obs (g.ancestorsOf obs))) (2 * g.nodes.length + 2) [(x, true)]

/-- `active_trail_nodes(x, observed=obs)[x]` (before latents are removed) -/
def activeNodes (g : DG) (obs : List Var) (x : Var) : List Var :=
  (((g.reach obs x).map (·.1)).filter (fun n => !obs.contains n)).eraseDups

def isDconnected (g : DG) (x y : Var) (obs : List Var) : Bool := (g.activeNodes obs x).contains y

/-! ### path-based specification -/

/-- all simple paths (as node lists, start first) from `x` in the skeleton, by DFS with fuel -/
def simplePathsFrom (g : DG) : Nat → List Var → List (List Var)
  | 0, path => [path.reverse]
  | fuel+1, path =>
    match path with
    | [] => []
    | cur :: _ =>
      path.reverse :: ((g.neighbors cur).eraseDups.filter (fun n => !path.contains n)).flatMap
        (fun n => simplePathsFrom g fuel (n :: path))

/-- is the (simple) trail active given `obs`?  every interior non-collider unobserved, every
    collider has an observed descendant-or-self; both end points unobserved -/
def trailActive (g : DG) (obs : List Var) (anc : List Var) : List Var → Bool
  | a :: b :: c :: rest =>
    let collider := g.hasEdge a b && g.hasEdge c b
    (if collider then anc.contains b else !obs.contains b) && trailActive g obs anc (b :: c :: rest)
  | _ => true

/-- nodes d-connected to `x` given `obs`, by the definition -/
def activeSpec (g : DG) (obs : List Var) (x : Var) : List Var :=
  if obs.contains x then [] else
  let anc := g.ancestorsOf obs
  let paths := simplePathsFrom g g.nodes.length [x]
  ((paths.filter (fun p => trailActive g obs anc p && !(obs.contains (p.getLastD x)))).map
    (fun p => p.getLastD x)).eraseDups

/-! ### derived graphs and sets -/

def markovBlanket (g : DG) (v : Var) : List Var :=
  let ch := g.children v
  ((ch ++ g.parents v ++ ch.flatMap g.parents).eraseDups).filter (fun w => w != v)

/-- moral graph edges (undirected, as ordered pairs u < v) -/
def moralEdges (g : DG) : List (Var × Var) :=
  let und := g.edges.map (fun e => if e.1 < e.2 then e else (e.2, e.1))
  let marry := g.nodes.flatMap (fun n =>
    let ps := g.parents n
    ps.flatMap (fun p => ps.filterMap (fun q => if p < q then some (p, q) else none)))
  (und ++ marry).eraseDups

def ancestralNodes (g : DG) (zs : List Var) : List Var := g.ancestorsOf zs

def subgraph (g : DG) (keep : List Var) : DG :=
  { nodes := g.nodes.filter keep.contains,
    edges := g.edges.filter (fun e => keep.contains e.1 && keep.contains e.2) }

/-- `minimal_dseparator(start, end)` following the code (latents replaced by their parents,
    greedy removal in the given iteration order of the candidate set) -/
def minimalDsep (g : DG) (latents : List Var) (x y : Var) : Option (List Var) :=
  let an := g.subgraph (g.ancestorsOf [x, y])
  let rec replace (fuel : Nat) (sep : List Var) : List Var :=
    match fuel with
    | 0 => sep
    | f+1 =>
      if sep.any latents.contains then
        replace f ((sep.flatMap (fun u => if latents.contains u then g.parents u else [u])).eraseDups)
      else sep
  let sep0 := replace (g.nodes.length + 1) ((g.parents x ++ g.parents y).eraseDups)
  let sep := sep0.filter (fun u => u != x && u != y)
  if an.isDconnected x y sep then none
  else some (sep.foldl (fun cur u =>
      if !(an.isDconnected x y (cur.filter (· != u))) then cur.filter (· != u) else cur) sep)

end DG
end PgmVerif
