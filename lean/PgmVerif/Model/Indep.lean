/-
  Model/Indep.lean — independence assertions, semi-graphoid closure, I-equivalence of DAGs and
  numerical conditional independence in an explicit joint table (C18).
-/
import PgmVerif.Model.BN
import PgmVerif.Model.Graph
namespace PgmVerif

def sortDedup (l : List Nat) : List Nat := (l.mergeSort (fun a b => decide (a ≤ b))).eraseDups

/-- an assertion X ⟂ Y | Z with X, Y, Z kept as sorted duplicate-free lists -/
structure IA where
  x : List Var
  y : List Var
  z : List Var
deriving DecidableEq, Repr, Inhabited

namespace IA
def mk' (x y z : List Var) : IA := { x := sortDedup x, y := sortDedup y, z := sortDedup z }
def swap (a : IA) : IA := { x := a.y, y := a.x, z := a.z }
/-- equality up to symmetry (`IndependenceAssertion.__eq__`) -/
def same (a b : IA) : Bool := a == b || a.swap == b
def valid (a : IA) : Bool := !a.x.isEmpty && !a.y.isEmpty

/-- decomposition and weak union applied to the right-hand set (one element at a time) -/
def shrinkRight (a : IA) : List IA :=
  if a.y.length ≤ 1 then [] else
  a.y.flatMap (fun e =>
    [ IA.mk' a.x (a.y.filter (· != e)) a.z,                  -- decomposition
      IA.mk' a.x (a.y.filter (· != e)) (e :: a.z) ])          -- weak union

def single (a : IA) : List IA := a.shrinkRight ++ a.swap.shrinkRight

def subsetL (a b : List Var) : Bool := a.all b.contains

/-- contraction, oriented: from  X ⟂ W | Z∪Y  and  X ⟂ Y | Z  infer  X ⟂ Y∪W | Z -/
def contract1 (a b : IA) : List IA :=
  -- a = (X ⟂ W | ZY), b = (X ⟂ Y | Z)
  if a.x == b.x && sortDedup (b.z ++ b.y) == a.z && !(b.y.any b.z.contains) then
    [IA.mk' a.x (a.y ++ b.y) b.z] else []

def pair (a b : IA) : List IA :=
  contract1 a b ++ contract1 a b.swap ++ contract1 a.swap b ++ contract1 a.swap b.swap
end IA

def memSame (S : List IA) (a : IA) : Bool := S.any (IA.same a)

/-- one round of consequences of the assertions in `S` -/
def sgStep (S : List IA) : List IA :=
  (S.flatMap IA.single ++ S.flatMap (fun a => S.flatMap (fun b => IA.pair a b))).filter IA.valid

def sgNew (S : List IA) : List IA :=
  (sgStep S).foldl (fun acc a => if memSame S a || memSame acc a then acc else acc ++ [a]) []

/-- semi-graphoid closure: iterate until no new assertion (up to symmetry) appears -/
def sgClosure : Nat → List IA → List IA
  | 0, S => S
  | n+1, S => match sgNew S with
    | [] => S
    | new => sgClosure n (S ++ new)

def entails (fuel : Nat) (S T : List IA) : Bool := T.all (memSame (sgClosure fuel S))

/-! ### I-equivalence -/

def skeleton (g : DG) : List (Var × Var) :=
  (g.edges.map (fun e => if e.1 < e.2 then e else (e.2, e.1))).eraseDups

/-- v-structures a → c ← b with a, b non-adjacent, as (min a b, c, max a b) -/
def vStructures (g : DG) : List (Var × Var × Var) :=
  (g.nodes.flatMap (fun c =>
    let ps := g.parents c
    ps.flatMap (fun a => ps.filterMap (fun b =>
      if a < b && !g.adjacent a b then some (a, c, b) else none)))).eraseDups

def sameSetBy {α : Type} [BEq α] (a b : List α) : Bool := a.all b.contains && b.all a.contains

def iEquivalent (g h : DG) : Bool :=
  sameSetBy (skeleton g) (skeleton h) && sameSetBy (vStructures g) (vStructures h)

/-! ### independence in a joint table -/

/-- X ⟂ Y | Z holds in the joint table `p` iff P(x,y,z) P(z) = P(x,z) P(y,z) for all states -/
def ciHolds (p : Factor) (xs ys zs : List Var) : Bool :=
  let keep (vs : List Var) := p.marginalize (p.scope.filter (fun v => !vs.contains v))
  let pxyz := keep (xs ++ ys ++ zs)
  let pz := keep zs
  let pxz := keep (xs ++ zs)
  let pyz := keep (ys ++ zs)
  (allIdx pxyz.card).all (fun i =>
    let a := asgOf pxyz.scope pxyz.card i
    pxyz.den a * pz.den a == pxz.den a * pyz.den a)

end PgmVerif
