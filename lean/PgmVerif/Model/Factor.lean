/-
  Model/Factor.lean — discrete factors as C-ordered tables with an explicit axis list,
  the layout of `pgmpy.factors.discrete.DiscreteFactor` (variables, cardinality, values).
  Every operation is defined through `tabulate` of its pointwise meaning, so that the
  `den_*` lemmas (Proofs/Factor.lean) give the textbook law for every axis order.
-/
import PgmVerif.Model.Basic
namespace PgmVerif

/-- every variable's state index is below its cardinality -/
def Bounded (K : Var → Nat) (a : Asg) : Prop := ∀ v, a v < K v

structure Factor where
  scope : List Var
  card  : List Nat
  vals  : Array Rat
deriving Repr, Inhabited

namespace Factor

/-- value at a full assignment (the *denotation*): the only observable used by theorems -/
def den (f : Factor) (a : Asg) : Rat :=
  f.vals.getD (ravel f.card (f.scope.map a)) 0

/-- well-formed w.r.t. the model's cardinalities `K`: distinct variables, the axis lengths are
    the variables' cardinalities, table of the right size -/
def WF (K : Var → Nat) (f : Factor) : Prop :=
  f.scope.Nodup ∧ f.card = f.scope.map K ∧ f.vals.size = f.card.prod

/-- assignment in range for this factor's own variables -/
def InR (f : Factor) (a : Asg) : Prop := InRange f.card (f.scope.map a)

def cardOf (f : Factor) (v : Var) : Nat := lookupD 1 v (f.scope.zip f.card)

/-- table of `fn` over `scope` with shape `card` -/
def tabulate (scope : List Var) (card : List Nat) (fn : Asg → Rat) : Factor :=
  { scope := scope, card := card,
    vals := Array.ofFn (n := card.prod) (fun i => fn (asgOf scope card i.val)) }

/-- variables of `g` that are not in `f`, with their cardinalities -/
def extra (f g : Factor) : List (Var × Nat) :=
  (g.scope.zip g.card).filter (fun p => !f.scope.contains p.1)

/-- combine two factors pointwise on the union scope (f's axes first, then g's new ones):
    the scope convention of `DiscreteFactor.product/sum` -/
def combine (op : Rat → Rat → Rat) (f g : Factor) : Factor :=
  let ex := extra f g
  tabulate (f.scope ++ ex.map (·.1)) (f.card ++ ex.map (·.2))
    (fun a => op (f.den a) (g.den a))

def product (f g : Factor) : Factor := combine (· * ·) f g
def add (f g : Factor) : Factor := combine (· + ·) f g

/-- division with numpy's conventions as used by `DiscreteFactor.divide`:
    0/0 = 0 (nan→0); x/0 with x≠0 is +inf in the code — here 0, flagged by `divInf`. -/
def divide (f g : Factor) : Factor :=
  tabulate f.scope f.card (fun a => if g.den a = 0 then 0 else f.den a / g.den a)

/-- flat positions where `divide` is +inf in the implementation -/
def divInf (f g : Factor) : List Nat :=
  (allIdx f.card).filter (fun i =>
    let a := asgOf f.scope f.card i
    g.den a = 0 && f.den a != 0)

/-- the (variable, cardinality) pairs of `f` whose variable is in `vs` / not in `vs` -/
def inside (f : Factor) (vs : List Var) : List (Var × Nat) :=
  (f.scope.zip f.card).filter (fun p => vs.contains p.1)
def outside (f : Factor) (vs : List Var) : List (Var × Nat) :=
  (f.scope.zip f.card).filter (fun p => !vs.contains p.1)

/-- fold `fn` over all joint states of the variables `vars` (shape `cards`), overriding `a` -/
def overStates (vars : List Var) (cards : List Nat) (a : Asg) (fn : Asg → Rat) : List Rat :=
  (allIdx cards).map (fun i => fn (overrideL a vars (unravel cards i)))

def marginalize (f : Factor) (vs : List Var) : Factor :=
  let ins := f.inside vs
  let out := f.outside vs
  tabulate (out.map (·.1)) (out.map (·.2))
    (fun a => sumR (overStates (ins.map (·.1)) (ins.map (·.2)) a f.den))

def maximize (f : Factor) (vs : List Var) : Factor :=
  let ins := f.inside vs
  let out := f.outside vs
  tabulate (out.map (·.1)) (out.map (·.2))
    (fun a => maxR (overStates (ins.map (·.1)) (ins.map (·.2)) a f.den))

/-- reduce to the context `ev` (variable, state index) -/
def reduce (f : Factor) (ev : List (Var × Nat)) : Factor :=
  let out := f.outside (ev.map (·.1))
  tabulate (out.map (·.1)) (out.map (·.2))
    (fun a => f.den (overrideL a (ev.map (·.1)) (ev.map (·.2))))

def total (f : Factor) : Rat := sumR f.vals.toList

def normalize (f : Factor) : Factor :=
  let t := f.total
  { f with vals := f.vals.map (fun x => x / t) }

/-- same function presented with another axis order (`newScope` a permutation of scope) -/
def permuteAxes (f : Factor) (newScope : List Var) : Factor :=
  tabulate newScope (newScope.map f.cardOf) f.den

/-- same function with the states of variable `v` listed in another order:
    new state `k` is old state `perm[k]` -/
def permuteStates (f : Factor) (v : Var) (perm : List Nat) : Factor :=
  tabulate f.scope f.card (fun a => f.den (fun w => if w = v then perm.getD (a v) 0 else a w))

/-- index of the first maximal entry of a list (`numpy.argmax`) -/
def argmaxList : List Rat → Nat
  | [] => 0
  | [_] => 0
  | x :: y :: ys => let k := argmaxList (y :: ys); if x < (y :: ys).getD k 0 then k + 1 else 0

/-- flat index of a maximal entry (first one) -/
def argmaxIdx (f : Factor) : Nat := argmaxList f.vals.toList

/-- decode a flat index into (variable, state index) pairs: `DiscreteFactor.assignment` -/
def assignment (f : Factor) (idx : Nat) : List (Var × Nat) :=
  f.scope.zip (unravel f.card idx)

def identity (scope : List Var) (card : List Nat) : Factor := tabulate scope card (fun _ => 1)

/-- n-ary product: left fold, as `factor_product` does with `reduce` -/
def productAll : List Factor → Factor
  | [] => tabulate [] [] (fun _ => 1)
  | f :: fs => fs.foldl product f

end Factor
end PgmVerif
