/-
  Model/History.lean — editing operations of `BayesianNetwork` as a state machine
  `step : BNState → BNOp → BNState × Out` (C15).  A rejected operation returns the state
  unchanged by construction.
-/
import PgmVerif.Model.Graph
import PgmVerif.Model.CPD
namespace PgmVerif

structure BNState where
  nodes : List Var
  edges : List (Var × Var)
  latents : List Var
  cpds : List Factor          -- scope = child :: evidence
deriving Inhabited

inductive BNOp
  | addNode (v : Var) (latent : Bool)
  | addEdge (u v : Var)
  | removeNode (v : Var)
  | addCpd (f : Factor)
  | removeCpd (v : Var)
  | doOp (vs : List Var)

inductive Out | ok | err
deriving DecidableEq, Repr

namespace BNState

def init : BNState := { nodes := [], edges := [], latents := [], cpds := [] }

def graph (s : BNState) : DG := { nodes := s.nodes, edges := s.edges }

def addIfAbsent (l : List Var) (v : Var) : List Var := if l.contains v then l else l ++ [v]

/-- `nx.has_path(self, v, u)` -/
def hasPath (s : BNState) (v u : Var) : Bool := (s.graph.descendantsOf [v]).contains u

def childOf (f : Factor) : Var := f.scope.headD 0

def cpdFor (s : BNState) (v : Var) : Option Factor := s.cpds.find? (fun f => childOf f == v)

def step (s : BNState) : BNOp → BNState × Out
  | .addNode v l =>
    ({ s with nodes := addIfAbsent s.nodes v, latents := if l then addIfAbsent s.latents v else s.latents }, .ok)
  | .addEdge u v =>
    if u == v then (s, .err)
    else if s.nodes.contains u && s.nodes.contains v && s.hasPath v u then (s, .err)
    else ({ s with nodes := addIfAbsent (addIfAbsent s.nodes u) v,
                   edges := if s.edges.contains (u, v) then s.edges else s.edges ++ [(u, v)] }, .ok)
  | .removeNode v =>
    if !s.nodes.contains v then (s, .err)
    else
      let cpds' := (s.cpds.filter (fun f => childOf f != v)).map
        (fun f => if f.scope.contains v && s.edges.contains (v, childOf f) then CPD.marginalize f [v] else f)
      ({ nodes := s.nodes.filter (· != v),
         edges := s.edges.filter (fun e => e.1 != v && e.2 != v),
         latents := s.latents.filter (· != v),
         cpds := cpds' }, .ok)
  | .addCpd f =>
    if f.scope.all s.nodes.contains then
      let c := childOf f
      if s.cpds.any (fun g => childOf g == c) then
        ({ s with cpds := s.cpds.map (fun g => if childOf g == c then f else g) }, .ok)
      else ({ s with cpds := s.cpds ++ [f] }, .ok)
    else (s, .err)
  | .removeCpd v =>
    if s.nodes.contains v && (s.cpdFor v).isSome then
      ({ s with cpds := s.cpds.filter (fun f => childOf f != v) }, .ok)
    else (s, .err)
  | .doOp vs =>
    if vs.all s.nodes.contains then
      ({ s with edges := s.edges.filter (fun e => !vs.contains e.2),
                cpds := s.cpds.map (fun f => if vs.contains (childOf f) then CPD.marginalize f (f.scope.drop 1) else f) }, .ok)
    else (s, .err)

def run (s : BNState) (ops : List BNOp) : BNState := ops.foldl (fun st op => (st.step op).1) s

end BNState
end PgmVerif
