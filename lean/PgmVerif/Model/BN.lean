/-
  Model/BN.lean — joint distribution of a list of factors/CPDs and the brute-force
  posterior: the *specification* of exact inference (C01, C02, C03, C13, C17).
-/
import PgmVerif.Model.Factor
namespace PgmVerif

/-- value of the product of all factors at a full assignment -/
def jointDen (fs : List Factor) (a : Asg) : Rat := prodR (fs.map (fun f => f.den a))

/-- explicit joint table over `vars` (shape `cards`) -/
def jointTable (fs : List Factor) (vars : List Var) (cards : List Nat) : Factor :=
  Factor.tabulate vars cards (jointDen fs)

/-- unnormalised P(q, e): reduce the joint to the evidence and sum out everything else;
    axes in the order of `q` -/
def posteriorU (fs : List Factor) (vars : List Var) (cards : List Nat)
    (q : List Var) (ev : List (Var × Nat)) : Factor :=
  let j := jointTable fs vars cards
  let r := j.reduce ev
  let m := r.marginalize (vars.filter (fun v => !q.contains v))
  m.permuteAxes q

/-- P(q | e) by multiplying everything, conditioning, summing out, normalising -/
def posterior (fs : List Factor) (vars : List Var) (cards : List Nat)
    (q : List Var) (ev : List (Var × Nat)) : Factor :=
  (posteriorU fs vars cards q ev).normalize

/-- probability of the evidence (for the generator's P(e) > 0 precondition) -/
def evidenceMass (fs : List Factor) (vars : List Var) (cards : List Nat)
    (ev : List (Var × Nat)) : Rat :=
  ((jointTable fs vars cards).reduce ev).total

/-- a CPD table: scope = child :: parents; column sums over the child axis -/
def columnSums (f : Factor) : Factor :=
  match f.scope with
  | [] => f
  | c :: _ => f.marginalize [c]

end PgmVerif
