/-
  Model/Gauss.lean — linear-Gaussian networks and multivariate-normal algebra over ℚ (C20).
  Matrices are lists of rows; the inverse is Gauss–Jordan elimination (executable, exact).
-/
import PgmVerif.Model.Basic
namespace PgmVerif

abbrev Mat := List (List Rat)

namespace Mat
def get (m : Mat) (i j : Nat) : Rat := (m.getD i []).getD j 0
def ofFn (r c : Nat) (f : Nat → Nat → Rat) : Mat := (List.range r).map (fun i => (List.range c).map (f i))
def rows (m : Mat) : Nat := m.length
def cols (m : Mat) : Nat := (m.headD []).length
def ident (n : Nat) : Mat := ofFn n n (fun i j => if i = j then 1 else 0)
def transpose (m : Mat) : Mat := ofFn m.cols m.rows (fun i j => m.get j i)
def mul (a b : Mat) : Mat := ofFn a.rows b.cols (fun i j => ((List.range a.cols).map (fun k => a.get i k * b.get k j)).sum)
def sub (a b : Mat) : Mat := ofFn a.rows a.cols (fun i j => a.get i j - b.get i j)
def add (a b : Mat) : Mat := ofFn a.rows a.cols (fun i j => a.get i j + b.get i j)
/-- sub-matrix with the given row and column indices (`np.ix_`) -/
def sub2 (m : Mat) (ri ci : List Nat) : Mat := ri.map (fun i => ci.map (fun j => m.get i j))

/-- Gauss–Jordan inverse on the augmented matrix [A | I] -/
def inverse (a : Mat) : Option Mat :=
  let n := a.rows
  let aug : Mat := ofFn n (2 * n) (fun i j => if j < n then a.get i j else (if j - n = i then 1 else 0))
  let step (st : Option Mat) (c : Nat) : Option Mat :=
    match st with
    | none => none
    | some m =>
      match (List.range n).find? (fun r => r ≥ c && m.get r c != 0) with
      | none => none
      | some p =>
        let m1 : Mat := (List.range n).map (fun r => if r = c then m.getD p [] else if r = p then m.getD c [] else m.getD r [])
        let piv := m1.get c c
        let rowc := (m1.getD c []).map (· / piv)
        some ((List.range n).map (fun r =>
          if r = c then rowc
          else let f := m1.get r c
               ((m1.getD r []).zip rowc).map (fun p => p.1 - f * p.2)))
  match (List.range n).foldl step (some aug) with
  | none => none
  | some m => some (m.map (fun row => row.drop n))
end Mat

/-- a linear-Gaussian network in a topological order: node i has intercept `b0[i]`, coefficients
    `coef i j` on its parents j < i and noise variance `var[i]` -/
structure LGBN where
  n : Nat
  b0 : List Rat
  coef : Mat          -- coef[i][j] = weight of parent j in the equation of node i
  var : List Rat

namespace LGBN
/-- means by recursive substitution along the topological order -/
def means (g : LGBN) : List Rat :=
  (List.range g.n).foldl (fun acc i =>
    acc ++ [g.b0.getD i 0 + ((List.range i).map (fun j => g.coef.get i j * acc.getD j 0)).sum]) []

/-- B[u][v] = weight of u in the equation of v -/
def bmat (g : LGBN) : Mat := Mat.ofFn g.n g.n (fun u v => g.coef.get v u)
def omega (g : LGBN) : Mat := Mat.ofFn g.n g.n (fun i j => if i = j then g.var.getD i 0 else 0)

/-- covariance (I−B)^{-T} Ω (I−B)^{-1} -/
def cov (g : LGBN) : Option Mat :=
  match ((Mat.ident g.n).sub g.bmat).inverse with
  | none => none
  | some inv => some ((inv.transpose.mul g.omega).mul inv)
end LGBN

/-- conditional of the block `a` given the block `b` observed at `xb` -/
def gaussCondition (mean : List Rat) (cov : Mat) (a b : List Nat) (xb : List Rat) : Option (List Rat × Mat) :=
  let saa := cov.sub2 a a
  let sab := cov.sub2 a b
  let sbb := cov.sub2 b b
  match sbb.inverse with
  | none => none
  | some sbbInv =>
    let k := sab.mul sbbInv
    let d : Mat := b.zip xb |>.map (fun p => [p.2 - mean.getD p.1 0])
    let shift := k.mul d
    some ((a.zip (List.range a.length)).map (fun p => mean.getD p.1 0 + shift.get p.2 0),
          saa.sub (k.mul sab.transpose))

/-- ordinary least squares with intercept by the normal equations; returns coefficients
    (intercept first) and the residual sum of squares -/
def ols (xs : Mat) (ys : List Rat) : Option (List Rat × Rat) :=
  let x1 : Mat := xs.map (fun r => (1 : Rat) :: r)
  let xt := x1.transpose
  match (xt.mul x1).inverse with
  | none => none
  | some inv =>
    let beta := (inv.mul (xt.mul (ys.map (fun y => [y])))).map (fun r => r.headD 0)
    let res := (x1.zip ys).map (fun p => p.2 - ((p.1.zip beta).map (fun q => q.1 * q.2)).sum)
    some (beta, (res.map (fun r => r * r)).sum)

end PgmVerif
