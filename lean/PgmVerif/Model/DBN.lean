/-
  Model/DBN.lean — two-slice dynamic Bayesian networks and their unrolling (C17).
  Slice variables are 0..k-1; node (v, t) has id t*k + v.  `cpd0` are the slice-0 CPDs (scopes
  over ids < k), `cpd1` the slice-1 CPDs (child id k+v; intra parents k+u, inter parents u).
-/
import PgmVerif.Model.BN
namespace PgmVerif

structure DBNTemplate where
  k : Nat
  cpd0 : List Factor
  cpd1 : List Factor

/-- the same table over variables shifted by `d` -/
def Factor.shift (d : Nat) (f : Factor) : Factor := { f with scope := f.scope.map (· + d) }

/-- factors of the ordinary Bayesian network obtained by unrolling the template for slices 0..T -/
def DBNTemplate.unroll (tm : DBNTemplate) (T : Nat) : List Factor :=
  tm.cpd0 ++ (List.range T).flatMap (fun t => tm.cpd1.map (Factor.shift (t * tm.k)))

def DBNTemplate.posterior (tm : DBNTemplate) (cards : List Nat) (T : Nat)
    (q : List Var) (ev : List (Var × Nat)) : Factor × Rat :=
  let n := (T + 1) * tm.k
  let vars := List.range n
  let cs := vars.map (fun i => cards.getD (i % tm.k) 1)
  let pu := posteriorU (tm.unroll T) vars cs q ev
  (pu.normalize, pu.total)

end PgmVerif
