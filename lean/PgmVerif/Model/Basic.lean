/-
  Model/Basic.lean — row-major index arithmetic and assignments.
  Core Lean only (no Mathlib) so that the driver can be compiled natively.
  Mirrors numpy's C-order layout used by `DiscreteFactor.values` and
  `TabularCPD.get_values` (first axis slowest).
-/
namespace PgmVerif

abbrev Var := Nat
/-- A full assignment: variable ↦ state index. -/
abbrev Asg := Var → Nat

/-- flat index of a multi-index `is` in a C-ordered array of shape `cs` -/
def ravel : List Nat → List Nat → Nat
  | [], _ => 0
  | _ :: _, [] => 0
  | _ :: cs, i :: is => i * cs.prod + ravel cs is

/-- multi-index of flat index `n` in a C-ordered array of shape `cs` -/
def unravel : List Nat → Nat → List Nat
  | [], _ => []
  | _ :: cs, n => (n / cs.prod) :: unravel cs (n % cs.prod)

/-- `is` is a valid multi-index for shape `cs` -/
def InRange : List Nat → List Nat → Prop
  | [], [] => True
  | c :: cs, i :: is => i < c ∧ InRange cs is
  | _, _ => False

instance : (cs is : List Nat) → Decidable (InRange cs is)
  | [], [] => isTrue trivial
  | c :: cs, i :: is =>
    match Nat.decLt i c, instDecidableInRange cs is with
    | isTrue h1, isTrue h2 => isTrue ⟨h1, h2⟩
    | isFalse h1, _ => isFalse (fun h => h1 h.1)
    | _, isFalse h2 => isFalse (fun h => h2 h.2)
  | [], _ :: _ => isFalse (fun h => h)
  | _ :: _, [] => isFalse (fun h => h)

/-- override `a` on the variables `vs` with the values `xs` (positional; later entries
    are shadowed by earlier ones) -/
def overrideL (a : Asg) : List Var → List Nat → Asg
  | v :: vs, x :: xs => fun w => if w = v then x else overrideL a vs xs w
  | _, _ => a

/-- the assignment that maps `scope[k]` to the k-th coordinate of flat index `idx`
    (0 elsewhere) -/
def asgOf (scope : List Var) (card : List Nat) (idx : Nat) : Asg :=
  overrideL (fun _ => 0) scope (unravel card idx)

/-- all flat indices of a shape -/
def allIdx (card : List Nat) : List Nat := List.range card.prod

def sumR (l : List Rat) : Rat := l.sum
def prodR (l : List Rat) : Rat := l.prod
/-- maximum of a list (0 for the empty list) -/
def maxR : List Rat → Rat
  | [] => 0
  | [x] => x
  | x :: y :: ys => let m := maxR (y :: ys); if x < m then m else x

/-- lookup in an association list, with default -/
def lookupD {β : Type} (d : β) (k : Nat) : List (Nat × β) → β
  | [] => d
  | (k', b) :: rest => if k = k' then b else lookupD d k rest

end PgmVerif
