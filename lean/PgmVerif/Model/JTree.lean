/-
  Model/JTree.lean — undirected graphs, chordality, clique trees (running intersection), and
  the belief-update message of `BeliefPropagation._update_beliefs`.
-/
import PgmVerif.Model.BN
import PgmVerif.Model.Graph
namespace PgmVerif

structure UG where
  nodes : List Var
  edges : List (Var × Var)
deriving Inhabited

namespace UG
def adj (g : UG) (u v : Var) : Bool := g.edges.contains (u, v) || g.edges.contains (v, u)
def nbrs (g : UG) (v : Var) : List Var := g.nodes.filter (fun w => w != v && g.adj v w)
def simplicial (g : UG) (v : Var) : Bool :=
  let ns := g.nbrs v
  ns.all (fun a => ns.all (fun b => a == b || g.adj a b))
def remove (g : UG) (v : Var) : UG :=
  { nodes := g.nodes.filter (· != v), edges := g.edges.filter (fun e => e.1 != v && e.2 != v) }

/-- chordal ⇔ simplicial vertices can be removed one after another until nothing is left -/
def isChordal (g : UG) : Bool :=
  let rec go (fuel : Nat) (g : UG) : Bool :=
    match fuel with
    | 0 => g.nodes.isEmpty
    | f+1 =>
      match g.nodes.find? g.simplicial with
      | none => g.nodes.isEmpty
      | some v => go f (g.remove v)
  go g.nodes.length g

def connected (g : UG) : Bool :=
  match g.nodes with
  | [] => true
  | r :: _ =>
    let d : DG := { nodes := g.nodes, edges := g.edges ++ g.edges.map (fun e => (e.2, e.1)) }
    let reach := d.descendantsOf [r]
    g.nodes.all reach.contains

/-- the fill-in graph of an elimination order (`triangulate(order=…)`) -/
def eliminate (g : UG) (order : List Var) : List (Var × Var) :=
  (order.foldl (fun (st : UG × List (Var × Var)) v =>
    let ns := st.1.nbrs v
    let fill := ns.flatMap (fun a => ns.filterMap (fun b => if a < b && !st.1.adj a b then some (a, b) else none))
    (({ st.1 with edges := st.1.edges ++ fill } : UG).remove v, st.2 ++ fill)) (g, [])).2
end UG

/-- a clique tree: cliques (variable lists) and tree edges between clique indices -/
structure CTree where
  cliques : List (List Var)
  edges : List (Nat × Nat)

namespace CTree
def asUG (t : CTree) : UG := { nodes := List.range t.cliques.length, edges := t.edges }
def isTree (t : CTree) : Bool :=
  t.asUG.connected && t.edges.length + 1 == t.cliques.length
    && t.edges.all (fun e => e.1 != e.2 && e.1 < t.cliques.length && e.2 < t.cliques.length)
/-- running intersection: for every variable, the cliques containing it are connected in the tree -/
def rip (t : CTree) : Bool :=
  let vars := (t.cliques.flatMap id).eraseDups
  vars.all (fun v =>
    let idx := (List.range t.cliques.length).filter (fun i => (t.cliques.getD i []).contains v)
    let sub : UG := { nodes := idx, edges := t.edges.filter (fun e => idx.contains e.1 && idx.contains e.2) }
    sub.connected)
def covers (t : CTree) (scopes : List (List Var)) : Bool :=
  scopes.all (fun s => t.cliques.any (fun c => s.all c.contains))
/-- every sepset is non-empty (`ClusterGraph.add_edge`) -/
def sepsetsNonempty (t : CTree) : Bool :=
  t.edges.all (fun e => (t.cliques.getD e.1 []).any (t.cliques.getD e.2 []).contains)
end CTree

/-- belief-update message i → j over sepset `S`: σ = Σ_{C_i∖S} β_i ; β_j ← β_j·σ/μ ; μ ← σ -/
def updateBelief (bi bj mu : Factor) (sep : List Var) : Factor × Factor :=
  let sigma := bi.marginalize (bi.scope.filter (fun v => !sep.contains v))
  (bj.product (sigma.divide mu), sigma)

end PgmVerif
