/-
  Model/IO.lean — table-layout contracts of the file formats (C09).  Only the layout is
  modelled; lexing and printing are not.
-/
import PgmVerif.Model.Basic
namespace PgmVerif

/-- column-major flattening of an r×c table (rows = child states, columns = parent
    configurations): BIF writes one row of child-state probabilities per parent configuration,
    XMLBIF uses `ravel(order='F')` -/
def flattenF (r c : Nat) (t : Nat → Nat → Rat) : List Rat :=
  (List.range c).flatMap (fun j => (List.range r).map (fun i => t i j))

/-- inverse: reshape with `order='F'` -/
def unflattenF (r : Nat) (l : List Rat) (i j : Nat) : Rat := l.getD (j * r + i) 0

/-- the UAI writer numbers a variable by its position in the list sorted by (cardinality, name) -/
def positionOf (sorted : List Nat) (v : Nat) : Nat := sorted.idxOf v

/-- round to 4 decimals (NET format) -/
def round4 (x : Rat) : Rat := ((x * 10000 + 1/2).floor : Int) / 10000

end PgmVerif
