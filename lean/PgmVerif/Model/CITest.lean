/-
  Model/CITest.lean — the stratified contingency-table statistic of the power-divergence family
  (C19), for an arbitrary cell function `cell O E`.  A data row is (x, y, stratum).
  Levels are those values below the bounds `kx`, `ky` that occur in the stratum.
-/
import PgmVerif.Model.Basic
namespace PgmVerif

structure CIRow where
  x : Nat
  y : Nat
  s : Nat          -- stratum code (joint state of the conditioning variables)
deriving DecidableEq, Repr

def cnt (rows : List CIRow) (p : CIRow → Bool) : Nat := rows.countP p

def obs (rows : List CIRow) (i j : Nat) : Nat := cnt rows (fun r => r.x == i && r.y == j)
def rowTot (rows : List CIRow) (i : Nat) : Nat := cnt rows (fun r => r.x == i)
def colTot (rows : List CIRow) (j : Nat) : Nat := cnt rows (fun r => r.y == j)

def levelsX (kx : Nat) (rows : List CIRow) : List Nat := (List.range kx).filter (fun i => rowTot rows i != 0)
def levelsY (ky : Nat) (rows : List CIRow) : List Nat := (List.range ky).filter (fun j => colTot rows j != 0)

def expectedAt (rows : List CIRow) (i j : Nat) : Rat :=
  ((rowTot rows i : Nat) : Rat) * ((colTot rows j : Nat) : Rat) / ((rows.length : Nat) : Rat)

/-- Yates' continuity correction as scipy applies it to 2×2 tables: move the observed count
    towards the expected one by min(1/2, |O − E|) -/
def yates (o e : Rat) : Rat :=
  let d := e - o
  let m := if d < 0 then (if -d < 1/2 then -d else 1/2) else (if d < 1/2 then d else 1/2)
  if d < 0 then o - m else o + m

/-- statistic of one table: Σ_i Σ_j cell(O_ij, E_ij) -/
def tableStat (cell : Rat → Rat → Rat) (kx ky : Nat) (rows : List CIRow) : Rat :=
  let lx := levelsX kx rows
  let ly := levelsY ky rows
  let corr := lx.length == 2 && ly.length == 2
  (lx.map (fun i => (ly.map (fun j =>
    let e := expectedAt rows i j
    let o : Rat := ((obs rows i j : Nat) : Rat)
    cell (if corr then yates o e else o) e)).sum)).sum

def tableDof (kx ky : Nat) (rows : List CIRow) : Nat :=
  ((levelsX kx rows).length - 1) * ((levelsY ky rows).length - 1)

def strata (ks : Nat) (rows : List CIRow) : List (List CIRow) :=
  ((List.range ks).map (fun s => rows.filter (fun r => r.s == s))).filter (fun l => !l.isEmpty)

/-- (statistic, degrees of freedom) summed over the strata -/
def stratified (cell : Rat → Rat → Rat) (kx ky ks : Nat) (rows : List CIRow) : Rat × Nat :=
  let ss := strata ks rows
  ((ss.map (tableStat cell kx ky)).sum, (ss.map (tableDof kx ky)).sum)

def cellPearson (o e : Rat) : Rat := (o - e) * (o - e) / e
def cellNeyman (o e : Rat) : Rat := (o - e) * (o - e) / o

/-- data with the roles of X and Y exchanged -/
def swapXY (rows : List CIRow) : List CIRow := rows.map (fun r => { x := r.y, y := r.x, s := r.s })

end PgmVerif
