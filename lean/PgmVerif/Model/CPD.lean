/-
  Model/CPD.lean — conditional probability tables (`pgmpy.factors.discrete.CPD.TabularCPD`):
  a factor whose first axis is the child, built from a 2-D array whose column j is the j-th
  parent configuration in C order of the declared evidence list; and model validation
  (`BayesianNetwork.check_model`).
-/
import PgmVerif.Model.BN
namespace PgmVerif

namespace CPD

/-- `TabularCPD(child, ccard, table, evidence=parents, evidence_card=pcards)`:
    `values.flatten()` of the 2-D array reshaped to (ccard, *pcards) -/
def ofTable (child : Var) (parents : List Var) (ccard : Nat) (pcards : List Nat)
    (table : List (List Rat)) : Factor :=
  { scope := child :: parents, card := ccard :: pcards, vals := table.flatten.toArray }

/-- `get_values()`: the table as (ccard × Π pcards) rows -/
def getValues (f : Factor) : List (List Rat) :=
  match f.card with
  | [] => [f.vals.toList]
  | c :: pcs =>
    (List.range c).map (fun i => (List.range pcs.prod).map (fun j => f.vals.getD (i * pcs.prod + j) 0))

/-- divide every column by its sum over the child axis (`TabularCPD.normalize`);
    a zero column stays zero here (NaN in the implementation; flagged by `zeroColumns`) -/
def colNormalize (f : Factor) : Factor :=
  let s := columnSums f
  Factor.tabulate f.scope f.card (fun a => if s.den a = 0 then 0 else f.den a / s.den a)

def zeroColumns (f : Factor) : Bool := (columnSums f).vals.any (fun x => x == 0)

/-- `TabularCPD.marginalize(parents)`: sum out, then renormalise the columns -/
def marginalize (f : Factor) (ps : List Var) : Factor := colNormalize (f.marginalize ps)
/-- `TabularCPD.reduce(values)`: slice, then renormalise the columns -/
def reduce (f : Factor) (ev : List (Var × Nat)) : Factor := colNormalize (f.reduce ev)
/-- `reorder_parents(new_order)` -/
def reorderParents (f : Factor) (newParents : List Var) : Factor :=
  match f.scope with
  | [] => f
  | c :: _ => f.permuteAxes (c :: newParents)

def absR (x : Rat) : Rat := if x < 0 then -x else x

/-- `is_valid_cpd`: numpy `allclose(colsums, 1, atol)` i.e. |s − 1| ≤ atol + rtol·1 -/
def isValid (tol : Rat) (f : Factor) : Bool :=
  (columnSums f).vals.all (fun s => decide (absR (s - 1) ≤ tol))

end CPD

/-- one node's entry for model validation -/
structure NodeSpec where
  node : Var
  graphParents : List Var
  cpd : Option Factor          -- scope = child :: evidence
  /-- state-name lists are abstracted to label ids per scope variable -/
  labels : List (List Nat)
deriving Inhabited

def sameSet (a b : List Nat) : Bool := a.all (b.contains ·) && b.all (a.contains ·)

inductive CheckErr | noCpd | parents | invalid | card | names
deriving Repr, DecidableEq

/-- first pass of `check_model`: every node has a CPD, whose evidence set is the graph parents and
    which is column-normalised within tolerance -/
def checkNode (tol : Rat) (n : NodeSpec) : Option CheckErr :=
  match n.cpd with
  | none => some .noCpd
  | some f =>
    match sameSet f.scope.tail n.graphParents, CPD.isValid tol f with
    | false, _ => some .parents
    | true, false => some .invalid
    | true, true => none

/-- own cardinality / labels of a node as declared by its CPD -/
def ownCard (ns : List NodeSpec) (v : Var) : Option (Nat × List Nat) :=
  match ns.find? (fun n => n.node == v) with
  | some n => match n.cpd with
    | some f => some (f.card.headD 0, n.labels.headD [])
    | none => none
  | none => none

/-- second pass: each parent axis has the parent's own cardinality and state names -/
def checkAxes (ns : List NodeSpec) (n : NodeSpec) : Option CheckErr :=
  match n.cpd with
  | none => none
  | some f =>
    let axes := (f.scope.zip (f.card.zip n.labels)).drop 1
    axes.findSome? (fun (p, c, l) =>
      match ownCard ns p with
      | some (pc, pl) => if pc != c then some CheckErr.card else if pl != l then some CheckErr.names else none
      | none => none)

def checkModel (tol : Rat) (ns : List NodeSpec) : Option CheckErr :=
  match ns.findSome? (checkNode tol) with
  | some e => some e
  | none => ns.findSome? (checkAxes ns)

end PgmVerif
