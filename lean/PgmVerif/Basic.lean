def hello := "world"
