/-
  Props/C12.lean — specification side of constraint-based discovery: what the extension
  predicate and the enumerated Markov class guarantee.
-/
import PgmVerif.Props.C11
import PgmVerif.Model.PDAG
import PgmVerif.Props.C08
import PgmVerif.Proofs.ToDag
import PgmVerif.Proofs.Meek
namespace PgmVerif
open Relation

/-- the decidable acyclicity check of the model is sound: no child of a node reaches back -/
theorem isAcyclicG_sound (g : DG) (hw : g.WFG) (h : isAcyclicG g = true) : Acyclic g.edges := by
  intro x hx
  obtain ⟨c, hxc, hcx⟩ := TransGen.head'_iff.mp hx
  unfold isAcyclicG at h
  rw [List.all_eq_true] at h
  have hxn : x ∈ g.nodes := (hw _ hxc).1
  have hcn : c ∈ g.nodes := (hw _ hxc).2
  have := h x hxn
  simp only [Bool.not_eq_true', List.any_eq_false] at this
  have hc : c ∈ g.children x := (g.mem_children x c).mpr hxc
  have hno := this c hc
  have := hasPathG_complete g hw c x hcn hcx
  rw [this] at hno
  exact absurd rfl hno

/-- **what an accepted extension is**: acyclic (as a Prop, not just the check), same skeleton,
    all directed edges kept, exactly the PDAG's v-structures -/
theorem C12_extension_sound (p : PD) (d : DG) (hw : d.WFG) (h : p.isExtension d = true) :
    Acyclic d.edges ∧ sameSetBy (skeleton d) p.skeleton = true ∧
    (∀ e ∈ p.directed, d.hasEdge e.1 e.2 = true) ∧ sameSetBy (vStructures d) p.vstructs = true := by
  unfold PD.isExtension at h
  simp only [Bool.and_eq_true, List.all_eq_true] at h
  obtain ⟨⟨⟨h1, h2⟩, h3⟩, h4⟩ := h
  exact ⟨isAcyclicG_sound d hw h1, h2, h3, h4⟩

/-- every member of the enumerated Markov class is acyclic and has the ground truth's
    v-structures -/
theorem C12_class_members (g h : DG) (hm : h ∈ markovClass g) :
    isAcyclicG h = true ∧ sameSetBy (vStructures h) (vStructures g) = true := by
  unfold markovClass at hm
  have := (List.mem_filter.mp hm).2
  simpa using this

/-- an edge directed in the spec CPDAG has that direction in every member of the class -/
theorem C12_cpdag_directed_sound (g : DG) (e : Var × Var) (he : e ∈ (cpdagSpec g).directed)
    (h : DG) (hm : h ∈ markovClass g) : h.hasEdge e.1 e.2 = true := by
  unfold cpdagSpec at he
  simp only at he
  obtain ⟨e0, _, hf⟩ := List.mem_filterMap.mp he
  split at hf
  · next hall =>
    simp only [Option.some.injEq] at hf
    rw [← hf]
    exact (List.all_eq_true.mp hall) h hm
  · split at hf
    · next hall =>
      simp only [Option.some.injEq] at hf
      rw [← hf]
      exact (List.all_eq_true.mp hall) h hm
    · cases hf

/-- **a true edge is never removed**: adjacent nodes of the ground-truth DAG are d-connected given EVERY
    conditioning set that contains neither of them (the edge itself is an active trail).  Hence a skeleton
    search that deletes an edge only after its d-separation oracle reported independence — every variant
    (orig / stable / parallel), every visiting order, every max_cond_vars — returns a supergraph of the true
    skeleton. -/
theorem C12_adjacent_never_separated (g : DG) (hg : g.WFG) (hac : Acyclic g.edges) (u v : Var)
    (hadj : (u, v) ∈ g.edges ∨ (v, u) ∈ g.edges) (obs : List Var) (hu : u ∉ obs) (hv : v ∉ obs) :
    g.isDconnected u v obs = true := by
  have hun : u ∈ g.nodes := by
    rcases hadj with h | h
    · exact (hg _ h).1
    · exact (hg _ h).2
  have hreach : ∃ d, (v, d) ∈ g.reach obs u := by
    rcases hadj with h | h
    · refine ⟨false, (C08_reach_iff_active_trail g hg hac obs u hun hu v false).mpr ⟨[v, u], rfl, rfl, ?_, ?_⟩⟩
      · exact Or.inl h
      · exact Or.inr ⟨rfl, h⟩
    · refine ⟨true, (C08_reach_iff_active_trail g hg hac obs u hun hu v true).mpr ⟨[v, u], rfl, rfl, ?_, ?_⟩⟩
      · exact Or.inr h
      · exact Or.inl ⟨rfl, h⟩
  obtain ⟨d, hd⟩ := hreach
  unfold DG.isDconnected DG.activeNodes
  rw [List.contains_iff_mem, List.mem_eraseDups, List.mem_filter]
  refine ⟨List.mem_map.mpr ⟨(v, d), hd, rfl⟩, ?_⟩
  simpa using hv

/-- an ancestor-or-self of a set reaches a member of the set along edges -/
theorem anc_reaches (g : DG) (zs : List Var) (n : Var) (h : Gen g.parents zs n) :
    ∃ z ∈ zs, n = z ∨ TransGen (Rel g.edges) n z := by
  induction h with
  | @base x hb => exact ⟨x, hb, Or.inl rfl⟩
  | @step x y _ hxy ih =>
    obtain ⟨z, hz, h⟩ := ih
    have hedge : Rel g.edges x y := (g.mem_parents x y).mp hxy
    rcases h with rfl | h
    · exact ⟨y, hz, Or.inr (TransGen.single hedge)⟩
    · exact ⟨z, hz, Or.inr (TransGen.head hedge h)⟩

/-- no descendant of `u` is an ancestor-or-self of a parent of `u` -/
theorem desc_not_anc_parents (g : DG) (hg : g.WFG) (hac : Acyclic g.edges) (u n : Var)
    (hdesc : TransGen (Rel g.edges) u n) (hn : n ∈ g.ancestorsOf (g.parents u)) : False := by
  have hz : ∀ z ∈ g.parents u, z ∈ g.nodes := fun z hz => (hg _ ((g.mem_parents z u).mp hz)).1
  obtain ⟨p, hp, h⟩ := anc_reaches g (g.parents u) n ((C08_ancestors_exact g hg (g.parents u) hz n).mp hn)
  have hpu : Rel g.edges p u := (g.mem_parents p u).mp hp
  rcases h with rfl | h
  · exact hac u (TransGen.tail hdesc hpu)
  · exact hac u (TransGen.tail (TransGen.trans hdesc h) hpu)

/-- **the parents of a node separate it from every non-descendant**: conditioning on pa(u), the traversal from
    `u` only ever reaches `u`, its (observed) parents, and descendants of `u` entered along an arrow -/
theorem C12_parents_separate (g : DG) (hg : g.WFG) (hac : Acyclic g.edges) (u v : Var) (hu : u ∈ g.nodes)
    (hne : v ≠ u) (hnd : ¬ TransGen (Rel g.edges) u v) : g.isDconnected u v (g.parents u) = false := by
  have hinv : ∀ s, Gen (g.trailNext (g.parents u) (g.ancestorsOf (g.parents u))) [(u, true)] s →
      s = (u, true) ∨ (s.2 = true ∧ s.1 ∈ g.parents u) ∨ (s.2 = false ∧ TransGen (Rel g.edges) u s.1) := by
    intro s hs
    induction hs with
    | @base x hb => exact Or.inl (List.mem_singleton.mp hb)
    | @step x y _ hxy ih =>
      obtain ⟨n, d⟩ := y
      have hm := (mem_trailNext g (g.parents u) (g.ancestorsOf (g.parents u)) n d x).mp hxy
      rcases ih with h | ⟨h1, h2⟩ | ⟨h1, h2⟩
      · -- from the start state
        have hn : n = u := congrArg Prod.fst h
        have hd : d = true := congrArg Prod.snd h
        subst hn; subst hd
        rcases hm with ⟨_, _, h3⟩ | ⟨h3, _⟩
        · rcases h3 with ⟨hx2, hE⟩ | ⟨hx2, hE⟩
          · exact Or.inr (Or.inl ⟨hx2, (g.mem_parents x.1 n).mpr hE⟩)
          · exact Or.inr (Or.inr ⟨hx2, TransGen.single hE⟩)
        · cases h3
      · -- from an observed parent: blocked
        simp only at h1 h2
        rcases hm with ⟨_, hno, _⟩ | ⟨h3, _⟩
        · exact absurd h2 hno
        · rw [h1] at h3; cases h3
      · -- from a descendant entered along an arrow
        simp only at h1 h2
        rcases hm with ⟨h3, _⟩ | ⟨_, h3⟩
        · rw [h1] at h3; cases h3
        · rcases h3 with ⟨_, hx2, hE⟩ | ⟨hanc, _, _⟩
          · exact Or.inr (Or.inr ⟨hx2, TransGen.tail h2 hE⟩)
          · exact absurd hanc (fun h' => desc_not_anc_parents g hg hac u n h2 h')
  cases hcon : g.isDconnected u v (g.parents u) with
  | false => rfl
  | true =>
    exfalso
    unfold DG.isDconnected DG.activeNodes at hcon
    rw [List.contains_iff_mem, List.mem_eraseDups, List.mem_filter] at hcon
    obtain ⟨hmem, hobs⟩ := hcon
    obtain ⟨s, hs, hsv⟩ := List.mem_map.mp hmem
    have hgen := (C08_reach_exact g hg (g.parents u) u hu s).mp hs
    rcases hinv s hgen with h | ⟨_, h2⟩ | ⟨_, h2⟩
    · exact hne (by rw [← hsv, h])
    · rw [hsv] at h2
      simp only [Bool.not_eq_true', List.contains_eq_mem, decide_eq_false_iff_not] at hobs
      exact hobs h2
    · rw [hsv] at h2; exact hnd h2

/-- **skeleton characterisation**: two distinct nodes are either joined by an edge — then no conditioning set
    separates them (`C12_adjacent_never_separated`) — or the parent set of one of them separates them.  Both
    parent sets survive in the adjacency sets of the level-wise search (true edges are never removed), so the
    search finds a separating set for exactly the non-adjacent pairs. -/
theorem C12_nonadjacent_separable (g : DG) (hg : g.WFG) (hac : Acyclic g.edges) (u v : Var)
    (hu : u ∈ g.nodes) (hv : v ∈ g.nodes) (hne : u ≠ v) :
    g.isDconnected u v (g.parents u) = false ∨ g.isDconnected v u (g.parents v) = false := by
  by_cases h : TransGen (Rel g.edges) u v
  · right
    apply C12_parents_separate g hg hac v u hv hne
    intro h'
    exact hac u (TransGen.trans h h')
  · left
    exact C12_parents_separate g hg hac u v hu (Ne.symm hne) h

/-- **converting a partially directed graph to a DAG never creates a directed cycle**: the model of `PDAG.to_dag`
    (repeatedly remove a node without outgoing directed edge whose undirected neighbourhood is complete, orienting its
    undirected edges into it) returns, whenever it succeeds, an acyclic edge set — for EVERY partially directed graph -/
theorem C12_toDag_acyclic (p : PD) (res : List (Var × Var))
    (hdir : ∀ e ∈ p.directed, e.1 ∈ p.nodes ∧ e.2 ∈ p.nodes)
    (hund : ∀ e ∈ p.undirected.map normPair, e.1 ∈ p.nodes ∧ e.2 ∈ p.nodes ∧ e.1 ≠ e.2)
    (h : p.toDag = some res) : Acyclic res :=
  PD.toDag_acyclic p res hdir hund h

/-- **`PDAG.to_dag` keeps every directed edge**: the result contains all directed edges of the PDAG, for EVERY
    partially directed graph on which the sink-removal loop succeeds (it only adds orientations of undirected edges) -/
theorem C12_toDag_keeps_directed (p : PD) (res : List (Var × Var)) (h : p.toDag = some res) :
    ∀ e ∈ p.directed, e ∈ res :=
  PD.toDag_keeps_directed p res h

/-- **`PDAG.to_dag` invents no adjacency**: every edge of the result is a directed edge of the PDAG or an orientation
    of one of its undirected edges (given as normalised pairs) - with `C12_toDag_keeps_directed`, the result has no
    adjacency the PDAG lacks and no directed edge reversed or dropped -/
theorem C12_toDag_only_orients (p : PD) (res : List (Var × Var)) (h : p.toDag = some res) :
    ∀ e ∈ res, e ∈ p.directed ∨ e ∈ p.undirected.map normPair ∨ (e.2, e.1) ∈ p.undirected.map normPair :=
  PD.toDag_only_orients p res h

/-- **`PDAG.to_dag` loses no adjacency**: every undirected edge of the PDAG appears in the result in one of its two
    orientations, whenever the loop succeeds - with the two theorems above, the result is an orientation of exactly the
    PDAG's adjacencies that keeps its directed edges, and by `C12_toDag_acyclic` it is a DAG -/
theorem C12_toDag_orients_all (p : PD) (res : List (Var × Var))
    (hund : ∀ e ∈ p.undirected.map normPair, e.1 ∈ p.nodes) (h : p.toDag = some res) :
    ∀ e ∈ p.undirected.map normPair, e ∈ res ∨ (e.2, e.1) ∈ res :=
  PD.toDag_orients_all p res hund h

/-- non-vacuity: the chain PDAG 0 - 1 - 2 is converted -/
example : (PD.mk [0, 1, 2] [] [(0, 1), (1, 2)]).toDag = some [(1, 0), (2, 1)] := by decide

example : (DG.mk [0, 1, 2] [(0, 2), (1, 2)]).WFG := by
  intro e he
  simp at he
  rcases he with rfl | rfl <;> decide

/-- **the orientation rules are sound** (Meek R1–R3, the rules `PC.skeleton_to_pdag` applies after the v-structures): in EVERY
    acyclic graph `E` — in particular in every member of the Markov equivalence class —
    * R1: a → b, b adjacent to c, a and c distinct and non-adjacent, a → b ← c not an unshielded collider of `E` ⇒ b → c;
    * R2: a → b → c with a adjacent to c ⇒ a → c;
    * R3: c → b ← d with c, d distinct and non-adjacent, a adjacent to b, c and d, c → a ← d not an unshielded collider ⇒ a → b.
    An edge that a rule orients therefore has that direction in all members: the rules never orient a reversible edge. -/
theorem C12_meek_rules_sound (E : List (Var × Var)) (hacyc : Acyclic E) :
    (∀ a b c, (a, b) ∈ E → AdjD E b c → a ≠ c → ¬ AdjD E a c → ¬ Collider E a b c → (b, c) ∈ E) ∧
    (∀ a b c, (a, b) ∈ E → (b, c) ∈ E → AdjD E a c → (a, c) ∈ E) ∧
    (∀ a b c d, (c, b) ∈ E → (d, b) ∈ E → AdjD E a b → AdjD E a c → AdjD E a d → c ≠ d → ¬ AdjD E c d →
      ¬ Collider E c a d → (a, b) ∈ E) :=
  ⟨fun a b c h1 h2 h3 h4 h5 => meek_rule1 E a b c h1 h2 h3 h4 h5,
   fun a b c h1 h2 h3 => meek_rule2 E hacyc a b c h1 h2 h3,
   fun a b c d h1 h2 h3 h4 h5 h6 h7 h8 => meek_rule3 E hacyc a b c d h1 h2 h3 h4 h5 h6 h7 h8⟩

/-- non-vacuity: the chain 0 → 1 → 2 meets the premises of R1 at (a, b, c) = (0, 1, 2) -/
example : (0, 1) ∈ [((0 : Var), (1 : Var)), (1, 2)] ∧ AdjD [((0 : Var), (1 : Var)), (1, 2)] 1 2 ∧
    ¬ AdjD [((0 : Var), (1 : Var)), (1, 2)] 0 2 ∧ ¬ Collider [((0 : Var), (1 : Var)), (1, 2)] 0 1 2 := by
  unfold Collider AdjD
  decide

end PgmVerif
