/-
  Props/C12.lean — specification side of constraint-based discovery: what the extension
  predicate and the enumerated Markov class guarantee.
-/
import PgmVerif.Props.C11
import PgmVerif.Model.PDAG
namespace PgmVerif
open Relation

/-- the decidable acyclicity check of the model is sound: no child of a node reaches back -/
theorem isAcyclicG_sound (g : DG) (hw : g.WFG) (h : isAcyclicG g = true) : Acyclic g.edges := by
  intro x hx
  obtain ⟨c, hxc, hcx⟩ := TransGen.head'_iff.mp hx
  unfold isAcyclicG at h
  rw [List.all_eq_true] at h
  have hxn : x ∈ g.nodes := (hw _ hxc).1
  have hcn : c ∈ g.nodes := (hw _ hxc).2
  have := h x hxn
  simp only [Bool.not_eq_true', List.any_eq_false] at this
  have hc : c ∈ g.children x := (g.mem_children x c).mpr hxc
  have hno := this c hc
  have := hasPathG_complete g hw c x hcn hcx
  rw [this] at hno
  exact absurd rfl hno

/-- **what an accepted extension is**: acyclic (as a Prop, not just the check), same skeleton,
    all directed edges kept, exactly the PDAG's v-structures -/
theorem C12_extension_sound (p : PD) (d : DG) (hw : d.WFG) (h : p.isExtension d = true) :
    Acyclic d.edges ∧ sameSetBy (skeleton d) p.skeleton = true ∧
    (∀ e ∈ p.directed, d.hasEdge e.1 e.2 = true) ∧ sameSetBy (vStructures d) p.vstructs = true := by
  unfold PD.isExtension at h
  simp only [Bool.and_eq_true, List.all_eq_true] at h
  obtain ⟨⟨⟨h1, h2⟩, h3⟩, h4⟩ := h
  exact ⟨isAcyclicG_sound d hw h1, h2, h3, h4⟩

/-- every member of the enumerated Markov class is acyclic and has the ground truth's
    v-structures -/
theorem C12_class_members (g h : DG) (hm : h ∈ markovClass g) :
    isAcyclicG h = true ∧ sameSetBy (vStructures h) (vStructures g) = true := by
  unfold markovClass at hm
  have := (List.mem_filter.mp hm).2
  simpa using this

/-- an edge directed in the spec CPDAG has that direction in every member of the class -/
theorem C12_cpdag_directed_sound (g : DG) (e : Var × Var) (he : e ∈ (cpdagSpec g).directed)
    (h : DG) (hm : h ∈ markovClass g) : h.hasEdge e.1 e.2 = true := by
  unfold cpdagSpec at he
  simp only at he
  obtain ⟨e0, _, hf⟩ := List.mem_filterMap.mp he
  split at hf
  · next hall =>
    simp only [Option.some.injEq] at hf
    rw [← hf]
    exact (List.all_eq_true.mp hall) h hm
  · split at hf
    · next hall =>
      simp only [Option.some.injEq] at hf
      rw [← hf]
      exact (List.all_eq_true.mp hall) h hm
    · cases hf

example : (DG.mk [0, 1, 2] [(0, 2), (1, 2)]).WFG := by
  intro e he
  simp at he
  rcases he with rfl | rfl <;> decide

end PgmVerif
