/-
  Props/C18.lean — independence reasoning: symmetry quotient, closure fixed point, the
  product test for conditional independence, I-equivalence as a relation.
-/
import PgmVerif.Model.Indep
import Mathlib.Tactic.FieldSimp
import Mathlib.Tactic.Ring
import Mathlib.Algebra.Order.Field.Rat
namespace PgmVerif

theorem IA.swap_swap (a : IA) : a.swap.swap = a := by cases a; rfl

/-- equality of assertions up to symmetry is an equivalence relation (what `__eq__` / `__hash__`
    of `IndependenceAssertion` implement) -/
theorem C18_same_equiv (a b c : IA) :
    IA.same a a = true ∧ (IA.same a b = true → IA.same b a = true) ∧
    (IA.same a b = true → IA.same b c = true → IA.same a c = true) := by
  refine ⟨by simp [IA.same], ?_, ?_⟩
  · intro h
    simp only [IA.same, Bool.or_eq_true, beq_iff_eq] at h ⊢
    rcases h with h | h
    · exact Or.inl h.symm
    · right; rw [← h, IA.swap_swap]
  · intro h1 h2
    simp only [IA.same, Bool.or_eq_true, beq_iff_eq] at h1 h2 ⊢
    rcases h1 with h1 | h1 <;> rcases h2 with h2 | h2
    · exact Or.inl (h1.trans h2)
    · right; rw [h1]; exact h2
    · right; rw [h1]; exact h2
    · left; rw [← h2, ← h1, IA.swap_swap]

/-- the closure contains the assertions it started from -/
theorem C18_closure_extensive : ∀ (fuel : Nat) (S : List IA) (a : IA), a ∈ S → a ∈ sgClosure fuel S
  | 0, _, _, h => h
  | n+1, S, a, h => by
    simp only [sgClosure]
    split
    · exact h
    · exact C18_closure_extensive n _ a (List.mem_append_left _ h)

theorem foldl_new_nonempty (S : List IA) : ∀ (l : List IA) (acc : List IA), acc ≠ [] →
    l.foldl (fun acc a => if memSame S a || memSame acc a then acc else acc ++ [a]) acc ≠ []
  | [], acc, h => h
  | a :: l, acc, h => by
    simp only [List.foldl_cons]
    split
    · exact foldl_new_nonempty S l acc h
    · exact foldl_new_nonempty S l _ (by simp)

theorem foldl_new_nil (S : List IA) : ∀ (l : List IA),
    l.foldl (fun acc a => if memSame S a || memSame acc a then acc else acc ++ [a]) [] = [] →
    ∀ a ∈ l, memSame S a = true
  | [], _, a, ha => by cases ha
  | b :: l, h, a, ha => by
    simp only [List.foldl_cons] at h
    by_cases hb : memSame S b = true
    · simp only [hb, Bool.true_or, if_true] at h
      rcases List.mem_cons.mp ha with e | e
      · rw [e]; exact hb
      · exact foldl_new_nil S l h a e
    · have hb' : memSame S b = false := by simpa using hb
      have hm : memSame [] b = false := by simp [memSame]
      simp only [hb', hm, Bool.or_self, Bool.false_eq_true, if_false, List.nil_append] at h
      exact absurd h (foldl_new_nonempty S l [b] (by simp))

/-- **closed under the semi-graphoid rules**: once the iteration has stabilised, every valid
    one-step consequence (symmetry, decomposition, weak union of one assertion; contraction of
    two) of members of the closure is already in it, up to symmetry -/
theorem C18_closure_closed (C : List IA) (hfix : sgNew C = []) (a : IA) (ha : a ∈ sgStep C) :
    memSame C a = true := by
  unfold sgNew at hfix
  exact foldl_new_nil C (sgStep C) hfix a ha

/-- the product test: P(x,y,z)·P(z) = P(x,z)·P(y,z) is exactly P(x,y | z) = P(x | z)·P(y | z)
    wherever P(z) > 0 (and holds trivially where P(z) = 0 since all terms vanish) -/
theorem C18_ci_product_form (pxyz pxz pyz pz : Rat) (hz : pz ≠ 0) :
    pxyz * pz = pxz * pyz ↔ pxyz / pz = (pxz / pz) * (pyz / pz) := by
  constructor
  · intro h
    field_simp
    exact h
  · intro h
    field_simp at h
    exact h

theorem sameSetBy_comm {α : Type} [BEq α] (a b : List α) : sameSetBy a b = sameSetBy b a := by
  unfold sameSetBy; exact Bool.and_comm _ _

theorem sameSetBy_refl {α : Type} [BEq α] [LawfulBEq α] (a : List α) : sameSetBy a a = true := by
  unfold sameSetBy
  simp

/-- I-equivalence (same skeleton, same v-structures with their collider) is reflexive and
    symmetric -/
theorem C18_iequiv_refl_symm (g h : DG) :
    iEquivalent g g = true ∧ iEquivalent g h = iEquivalent h g := by
  unfold iEquivalent
  refine ⟨by simp [sameSetBy_refl], ?_⟩
  rw [sameSetBy_comm (skeleton g), sameSetBy_comm (vStructures g)]

example : IA.same ⟨[1], [2, 3], []⟩ ⟨[2, 3], [1], []⟩ = true := by decide

end PgmVerif
