/-
  Props/C18.lean — independence reasoning: symmetry quotient, closure fixed point, the
  product test for conditional independence, I-equivalence as a relation.
-/
import PgmVerif.Model.Indep
import PgmVerif.Proofs.CI
import PgmVerif.Proofs.MassBound
import Mathlib.Tactic.FieldSimp
import Mathlib.Tactic.Ring
import Mathlib.Algebra.Order.Field.Rat
namespace PgmVerif

theorem IA.swap_swap (a : IA) : a.swap.swap = a := by cases a; rfl

/-- equality of assertions up to symmetry is an equivalence relation (what `__eq__` / `__hash__`
    of `IndependenceAssertion` implement) -/
theorem C18_same_equiv (a b c : IA) :
    IA.same a a = true ∧ (IA.same a b = true → IA.same b a = true) ∧
    (IA.same a b = true → IA.same b c = true → IA.same a c = true) := by
  refine ⟨by simp [IA.same], ?_, ?_⟩
  · intro h
    simp only [IA.same, Bool.or_eq_true, beq_iff_eq] at h ⊢
    rcases h with h | h
    · exact Or.inl h.symm
    · right; rw [← h, IA.swap_swap]
  · intro h1 h2
    simp only [IA.same, Bool.or_eq_true, beq_iff_eq] at h1 h2 ⊢
    rcases h1 with h1 | h1 <;> rcases h2 with h2 | h2
    · exact Or.inl (h1.trans h2)
    · right; rw [h1]; exact h2
    · right; rw [h1]; exact h2
    · left; rw [← h2, ← h1, IA.swap_swap]

/-- the closure contains the assertions it started from -/
theorem C18_closure_extensive : ∀ (fuel : Nat) (S : List IA) (a : IA), a ∈ S → a ∈ sgClosure fuel S
  | 0, _, _, h => h
  | n+1, S, a, h => by
    simp only [sgClosure]
    split
    · exact h
    · exact C18_closure_extensive n _ a (List.mem_append_left _ h)

theorem foldl_new_nonempty (S : List IA) : ∀ (l : List IA) (acc : List IA), acc ≠ [] →
    l.foldl (fun acc a => if memSame S a || memSame acc a then acc else acc ++ [a]) acc ≠ []
  | [], acc, h => h
  | a :: l, acc, h => by
    simp only [List.foldl_cons]
    split
    · exact foldl_new_nonempty S l acc h
    · exact foldl_new_nonempty S l _ (by simp)

theorem foldl_new_nil (S : List IA) : ∀ (l : List IA),
    l.foldl (fun acc a => if memSame S a || memSame acc a then acc else acc ++ [a]) [] = [] →
    ∀ a ∈ l, memSame S a = true
  | [], _, a, ha => by cases ha
  | b :: l, h, a, ha => by
    simp only [List.foldl_cons] at h
    by_cases hb : memSame S b = true
    · simp only [hb, Bool.true_or, if_true] at h
      rcases List.mem_cons.mp ha with e | e
      · rw [e]; exact hb
      · exact foldl_new_nil S l h a e
    · have hb' : memSame S b = false := by simpa using hb
      have hm : memSame [] b = false := by simp [memSame]
      simp only [hb', hm, Bool.or_self, Bool.false_eq_true, if_false, List.nil_append] at h
      exact absurd h (foldl_new_nonempty S l [b] (by simp))

/-- **closed under the semi-graphoid rules**: once the iteration has stabilised, every valid
    one-step consequence (symmetry, decomposition, weak union of one assertion; contraction of
    two) of members of the closure is already in it, up to symmetry -/
theorem C18_closure_closed (C : List IA) (hfix : sgNew C = []) (a : IA) (ha : a ∈ sgStep C) :
    memSame C a = true := by
  unfold sgNew at hfix
  exact foldl_new_nil C (sgStep C) hfix a ha

/-! ### minimality: nothing underivable enters the closure -/

/-- derivability from `S0` by the semi-graphoid rules as the model applies them (symmetry is built into
    `IA.single` / `IA.pair`, which also try the swapped premises) -/
inductive Derivable (S0 : List IA) : IA → Prop
  | base (a : IA) : a ∈ S0 → Derivable S0 a
  | single (a b : IA) : Derivable S0 a → b ∈ a.single → Derivable S0 b
  | pair (a b c : IA) : Derivable S0 a → Derivable S0 b → c ∈ IA.pair a b → Derivable S0 c

theorem foldl_new_subset (S : List IA) : ∀ (l acc : List IA) (x : IA),
    x ∈ l.foldl (fun acc a => if memSame S a || memSame acc a then acc else acc ++ [a]) acc →
    x ∈ acc ∨ x ∈ l
  | [], _, _, h => Or.inl h
  | b :: l, acc, x, h => by
    simp only [List.foldl_cons] at h
    split at h
    · rcases foldl_new_subset S l acc x h with h' | h'
      · exact Or.inl h'
      · exact Or.inr (List.mem_cons_of_mem _ h')
    · rcases foldl_new_subset S l _ x h with h' | h'
      · rcases List.mem_append.mp h' with h'' | h''
        · exact Or.inl h''
        · rw [List.mem_singleton.mp h'']; exact Or.inr List.mem_cons_self
      · exact Or.inr (List.mem_cons_of_mem _ h')

theorem mem_sgNew (S : List IA) (x : IA) (h : x ∈ sgNew S) : x ∈ sgStep S := by
  rcases foldl_new_subset S (sgStep S) [] x h with h' | h'
  · cases h'
  · exact h'

theorem sgStep_derivable (S0 S : List IA) (hS : ∀ a ∈ S, Derivable S0 a) (x : IA) (hx : x ∈ sgStep S) :
    Derivable S0 x := by
  unfold sgStep at hx
  have hx' := (List.mem_filter.mp hx).1
  rcases List.mem_append.mp hx' with h | h
  · obtain ⟨a, ha, hxa⟩ := List.mem_flatMap.mp h
    exact Derivable.single a x (hS a ha) hxa
  · obtain ⟨a, ha, h2⟩ := List.mem_flatMap.mp h
    obtain ⟨b, hb, hxab⟩ := List.mem_flatMap.mp h2
    exact Derivable.pair a b x (hS a ha) (hS b hb) hxab

/-- **soundness / minimality of the closure**: every assertion the iteration ever adds is derivable from the
    given assertions by decomposition, weak union, contraction and symmetry — for every fuel, i.e. at every
    stage of the iteration -/
theorem C18_closure_sound (S0 : List IA) : ∀ (fuel : Nat) (S : List IA), (∀ a ∈ S, Derivable S0 a) →
    ∀ a ∈ sgClosure fuel S, Derivable S0 a
  | 0, _, hS, a, ha => hS a ha
  | n+1, S, hS, a, ha => by
    simp only [sgClosure] at ha
    split at ha
    · exact hS a ha
    · rename_i new hnew
      apply C18_closure_sound S0 n _ _ a ha
      intro b hb
      rcases List.mem_append.mp hb with h | h
      · exact hS b h
      · exact sgStep_derivable S0 S hS b (mem_sgNew S b h)

theorem C18_closure_sound' (fuel : Nat) (S : List IA) (a : IA) (ha : a ∈ sgClosure fuel S) : Derivable S a :=
  C18_closure_sound S fuel S (fun b hb => Derivable.base b hb) a ha

/-! ### semantic soundness: whatever the closure contains holds in every distribution that satisfies the input -/

theorem mem_sortDedup (l : List Nat) (v : Nat) : v ∈ sortDedup l ↔ v ∈ l := by
  unfold sortDedup
  rw [List.mem_eraseDups, List.mem_mergeSort]

/-- the assertion holds in the joint table `P` over the variables `V` -/
def IA.Holds (K : Var → Nat) (V : List Var) (P : Asg → Rat) (a : IA) : Prop := CI K V P a.x a.y a.z
/-- the two sides of an assertion share no variable -/
def IA.Disj (a : IA) : Prop := ∀ v, v ∈ a.x → v ∉ a.y

theorem IA.holds_swap {K : Var → Nat} {V : List Var} {P : Asg → Rat} {a : IA} (h : a.Holds K V P) :
    a.swap.Holds K V P := CI_symm K V P a.x a.y a.z h
theorem IA.disj_swap {a : IA} (h : a.Disj) : a.swap.Disj := fun v hy hx => h v hx hy

theorem shrinkRight_sound (K : Var → Nat) (V : List Var) (P : Asg → Rat) (hP : NonnegB K P) (a b : IA)
    (ha : a.Holds K V P) (hd : a.Disj) (hb : b ∈ a.shrinkRight) : b.Holds K V P ∧ b.Disj := by
  unfold IA.shrinkRight at hb
  split at hb
  · cases hb
  · obtain ⟨e, he, hb⟩ := List.mem_flatMap.mp hb
    have hsub : ∀ v, v ∈ a.y.filter (· != e) → v ∈ a.y := fun v hv => (List.mem_filter.mp hv).1
    have hdisjB : ∀ v, v ∈ sortDedup a.x → v ∉ sortDedup (a.y.filter (· != e)) := by
      intro v hx hy
      exact hd v ((mem_sortDedup _ v).mp hx) (hsub v ((mem_sortDedup _ v).mp hy))
    simp only [List.mem_cons, List.not_mem_nil, or_false] at hb
    rcases hb with rfl | rfl
    · refine ⟨?_, hdisjB⟩
      unfold IA.Holds IA.mk'
      exact CI_congr K V P (fun v => (mem_sortDedup _ v).symm) (fun v => (mem_sortDedup _ v).symm)
        (fun v => (mem_sortDedup _ v).symm)
        (CI_decomposition K V P a.x a.y (a.y.filter (· != e)) a.z hsub hd ha)
    · refine ⟨?_, hdisjB⟩
      unfold IA.Holds IA.mk'
      have hwu := CI_weak_union K V P hP a.x a.y (a.y.filter (· != e)) [e] a.z (by
        intro v
        simp only [List.mem_filter, List.mem_singleton, bne_iff_ne, ne_eq]
        constructor
        · intro hv
          by_cases h' : v = e
          · exact Or.inr h'
          · exact Or.inl ⟨hv, h'⟩
        · rintro (⟨hv, _⟩ | rfl)
          · exact hv
          · exact he) hd ha
      exact CI_congr K V P (fun v => (mem_sortDedup _ v).symm) (fun v => (mem_sortDedup _ v).symm)
        (fun v => by rw [mem_sortDedup]; simp) hwu

theorem single_sound (K : Var → Nat) (V : List Var) (P : Asg → Rat) (hP : NonnegB K P) (a b : IA)
    (ha : a.Holds K V P) (hd : a.Disj) (hb : b ∈ a.single) : b.Holds K V P ∧ b.Disj := by
  unfold IA.single at hb
  rcases List.mem_append.mp hb with h | h
  · exact shrinkRight_sound K V P hP a b ha hd h
  · exact shrinkRight_sound K V P hP a.swap b (IA.holds_swap ha) (IA.disj_swap hd) h

theorem contract1_sound (K : Var → Nat) (V : List Var) (P : Asg → Rat) (hP : NonnegB K P) (a b c : IA)
    (ha : a.Holds K V P) (hda : a.Disj) (hb : b.Holds K V P) (hdb : b.Disj) (hc : c ∈ IA.contract1 a b) :
    c.Holds K V P ∧ c.Disj := by
  unfold IA.contract1 at hc
  split at hc
  · rename_i hcond
    simp only [Bool.and_eq_true, beq_iff_eq] at hcond
    obtain ⟨⟨hx, hz⟩, _⟩ := hcond
    rw [List.mem_singleton.mp hc]
    constructor
    · unfold IA.Holds IA.mk'
      have h1 : CI K V P a.x a.y (b.z ++ b.y) := by
        apply CI_congr K V P (fun _ => Iff.rfl) (fun _ => Iff.rfl) _ ha
        intro v; rw [← hz, mem_sortDedup]
      have h2 : CI K V P a.x b.y b.z := by
        have := hb; unfold IA.Holds at this; rw [← hx] at this; exact this
      exact CI_congr K V P (fun v => (mem_sortDedup _ v).symm) (fun v => (mem_sortDedup _ v).symm)
        (fun v => (mem_sortDedup _ v).symm) (CI_contraction K V P hP a.x b.y a.y b.z h1 h2)
    · intro v hvx hvy
      simp only [IA.mk'] at hvx hvy
      rw [mem_sortDedup] at hvx hvy
      rcases List.mem_append.mp hvy with h | h
      · exact hda v hvx h
      · exact hdb v (hx ▸ hvx) h
  · cases hc

theorem pair_sound (K : Var → Nat) (V : List Var) (P : Asg → Rat) (hP : NonnegB K P) (a b c : IA)
    (ha : a.Holds K V P) (hda : a.Disj) (hb : b.Holds K V P) (hdb : b.Disj) (hc : c ∈ IA.pair a b) :
    c.Holds K V P ∧ c.Disj := by
  unfold IA.pair at hc
  simp only [List.mem_append] at hc
  rcases hc with ((h | h) | h) | h
  · exact contract1_sound K V P hP a b c ha hda hb hdb h
  · exact contract1_sound K V P hP a b.swap c ha hda (IA.holds_swap hb) (IA.disj_swap hdb) h
  · exact contract1_sound K V P hP a.swap b c (IA.holds_swap ha) (IA.disj_swap hda) hb hdb h
  · exact contract1_sound K V P hP a.swap b.swap c (IA.holds_swap ha) (IA.disj_swap hda) (IA.holds_swap hb) (IA.disj_swap hdb) h

theorem derivable_sound (K : Var → Nat) (V : List Var) (P : Asg → Rat) (hP : NonnegB K P)
    (S0 : List IA) (h0 : ∀ a ∈ S0, a.Holds K V P ∧ a.Disj) (a : IA) (hder : Derivable S0 a) :
    a.Holds K V P ∧ a.Disj := by
  induction hder with
  | base a h => exact h0 a h
  | single a b _ hb ih => exact single_sound K V P hP a b ih.1 ih.2 hb
  | pair a b c _ _ hc iha ihb => exact pair_sound K V P hP a b c iha.1 iha.2 ihb.1 ihb.2 hc

/-- **the closure is semantically sound**: let `P` be ANY non-negative table over the variables `V` in which
    every given assertion holds (X and Y of each being disjoint). Then every assertion that the closure
    iteration ever produces holds in `P` too — independence reasoning never concludes something false. -/
theorem C18_closure_semantically_sound (K : Var → Nat) (V : List Var) (P : Asg → Rat) (hP : NonnegB K P)
    (S0 : List IA) (h0 : ∀ a ∈ S0, a.Holds K V P ∧ a.Disj) (fuel : Nat) (a : IA) (ha : a ∈ sgClosure fuel S0) :
    a.Holds K V P :=
  (derivable_sound K V P hP S0 h0 a (C18_closure_sound' fuel S0 a ha)).1

/-- non-vacuity: the uniform table over two binary variables satisfies 0 ⟂ 1 -/
example : (IA.mk [0] [1] []).Holds (fun _ => 2) [0, 1] (fun _ => 1) ∧ (IA.mk [0] [1] []).Disj ∧
    NonnegB (fun _ => 2) (fun _ => (1 : Rat)) := by
  refine ⟨?_, ?_, fun _ _ => by norm_num⟩
  · intro a _
    simp [marg, sumOut, sumVar, List.range_succ]
    norm_num
  · intro v hx hy
    have h1 : v = 0 := by simpa using hx
    have h2 : v = 1 := by simpa using hy
    rw [h1] at h2
    exact absurd h2 (by decide)

/-- the product test: P(x,y,z)·P(z) = P(x,z)·P(y,z) is exactly P(x,y | z) = P(x | z)·P(y | z)
    wherever P(z) > 0 (and holds trivially where P(z) = 0 since all terms vanish) -/
theorem C18_ci_product_form (pxyz pxz pyz pz : Rat) (hz : pz ≠ 0) :
    pxyz * pz = pxz * pyz ↔ pxyz / pz = (pxz / pz) * (pyz / pz) := by
  constructor
  · intro h
    field_simp
    exact h
  · intro h
    field_simp at h
    exact h

theorem sameSetBy_comm {α : Type} [BEq α] (a b : List α) : sameSetBy a b = sameSetBy b a := by
  unfold sameSetBy; exact Bool.and_comm _ _

theorem sameSetBy_refl {α : Type} [BEq α] [LawfulBEq α] (a : List α) : sameSetBy a a = true := by
  unfold sameSetBy
  simp

/-- I-equivalence (same skeleton, same v-structures with their collider) is reflexive and
    symmetric -/
theorem C18_iequiv_refl_symm (g h : DG) :
    iEquivalent g g = true ∧ iEquivalent g h = iEquivalent h g := by
  unfold iEquivalent
  refine ⟨by simp [sameSetBy_refl], ?_⟩
  rw [sameSetBy_comm (skeleton g), sameSetBy_comm (vStructures g)]

theorem sameSetBy_trans {α : Type} [BEq α] [LawfulBEq α] (a b c : List α)
    (h1 : sameSetBy a b = true) (h2 : sameSetBy b c = true) : sameSetBy a c = true := by
  unfold sameSetBy at *
  simp only [Bool.and_eq_true, List.all_eq_true, List.contains_iff_mem] at *
  exact ⟨fun x hx => h2.1 x (h1.1 x hx), fun x hx => h1.2 x (h2.2 x hx)⟩

/-- I-equivalence is transitive: with `C18_iequiv_refl_symm` it is an equivalence relation, so
    `is_iequivalent` must partition the DAGs over a node set into classes (the exhaustive stream
    compares the implementation's verdict, both ways round, with the model on every ordered pair of
    DAGs of up to 3 nodes and on random same-skeleton pairs of 4) -/
theorem C18_iequiv_trans (g h k : DG) (h1 : iEquivalent g h = true) (h2 : iEquivalent h k = true) :
    iEquivalent g k = true := by
  unfold iEquivalent at *
  simp only [Bool.and_eq_true] at *
  exact ⟨sameSetBy_trans _ _ _ h1.1 h2.1, sameSetBy_trans _ _ _ h1.2 h2.2⟩

example : IA.same ⟨[1], [2, 3], []⟩ ⟨[2, 3], [1], []⟩ = true := by decide


/-- the product test is homogeneous: a context of probability 1e-7 and the same context with probability 1/2 (every entry of the slice
    multiplied by the same non-zero number) get the same verdict, exactly - only a tolerance that is *absolute* can tell them apart -/
theorem C18_ci_scale_invariant (c pxyz pxz pyz pz : Rat) (hc : c ≠ 0) :
    (c * pxyz) * (c * pz) = (c * pxz) * (c * pyz) ↔ pxyz * pz = pxz * pyz := by
  have hcc : c * c ≠ 0 := mul_ne_zero hc hc
  constructor
  · intro h
    have h' : (c * c) * (pxyz * pz) = (c * c) * (pxz * pyz) := by
      calc (c * c) * (pxyz * pz) = (c * pxyz) * (c * pz) := by ring
        _ = (c * pxz) * (c * pyz) := h
        _ = (c * c) * (pxz * pyz) := by ring
    exact mul_left_cancel₀ hcc h'
  · intro h
    calc (c * pxyz) * (c * pz) = (c * c) * (pxyz * pz) := by ring
      _ = (c * c) * (pxz * pyz) := by rw [h]
      _ = (c * pxz) * (c * pyz) := by ring


theorem marg_const_mul (K : Var → Nat) (V : List Var) (c : Rat) (P : Asg → Rat) (S : List Var) (a : Asg) :
    marg K V (fun b => c * P b) S a = c * marg K V P S a := by
  unfold marg
  rw [sumOut_const_mul]

/-- **independence does not see the normalising constant**: a table and any non-zero multiple of it (the joint restricted to a
    context before and after `normalize`, however improbable the context) satisfy exactly the same statements X ⟂ Y | Z -/
theorem C18_ci_unnormalised (K : Var → Nat) (V : List Var) (P : Asg → Rat) (c : Rat) (hc : c ≠ 0) (X Y Z : List Var) :
    CI K V (fun b => c * P b) X Y Z ↔ CI K V P X Y Z := by
  unfold CI
  constructor
  · intro h a ha
    have := h a ha
    rw [marg_const_mul, marg_const_mul, marg_const_mul, marg_const_mul] at this
    exact (C18_ci_scale_invariant c _ _ _ _ hc).mp this
  · intro h a ha
    rw [marg_const_mul, marg_const_mul, marg_const_mul, marg_const_mul]
    exact (C18_ci_scale_invariant c _ _ _ _ hc).mpr (h a ha)

end PgmVerif
