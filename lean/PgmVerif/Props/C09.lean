/-
  Props/C09.lean — table-layout round trips of the file formats.
-/
import PgmVerif.Model.IO
import PgmVerif.Model.Generated
import Mathlib.Algebra.Order.Floor.Ring
import Mathlib.Algebra.Order.Field.Rat
import Mathlib.Data.Rat.Floor
import Mathlib.Data.List.Nodup
import Mathlib.Tactic.Linarith
import Mathlib.Tactic.FieldSimp
namespace PgmVerif

theorem flatMap_const_length (c r : Nat) (f : Nat → List Rat) (hf : ∀ j, (f j).length = r) :
    ((List.range c).flatMap f).length = c * r := by
  induction c with
  | zero => simp
  | succ c ih =>
    rw [List.range_succ, List.flatMap_append, List.length_append, ih]
    simp [hf, Nat.succ_mul]

/-- **entry position**: in the column-major layout entry (i, j) is at position j·rows + i -/
theorem C09_colmajor_entry (r c : Nat) (t : Nat → Nat → Rat) (i j : Nat) (hi : i < r) (hj : j < c) :
    (flattenF r c t).getD (j * r + i) 0 = t i j := by
  unfold flattenF
  induction c generalizing j with
  | zero => omega
  | succ c ih =>
    rw [List.range_succ, List.flatMap_append]
    have hlen : ((List.range c).flatMap (fun j => (List.range r).map (fun i => t i j))).length = c * r :=
      flatMap_const_length c r _ (fun _ => by simp)
    by_cases hjc : j < c
    · have hlt : j * r + i < c * r := by
        calc j * r + i < j * r + r := by omega
          _ = (j + 1) * r := by ring
          _ ≤ c * r := Nat.mul_le_mul_right _ hjc
      rw [List.getD_eq_getElem?_getD, List.getElem?_append_left (by rw [hlen]; exact hlt)]
      rw [← List.getD_eq_getElem?_getD]
      exact ih j hjc
    · have hjeq : j = c := by omega
      subst hjeq
      rw [List.getD_eq_getElem?_getD, List.getElem?_append_right (by rw [hlen]; omega), hlen]
      simp [hi]

/-- **round trip**: reshaping the column-major flattening gives back the table, for every shape -/
theorem C09_colmajor_roundtrip (r c : Nat) (t : Nat → Nat → Rat) (i j : Nat) (hi : i < r) (hj : j < c) :
    unflattenF r (flattenF r c t) i j = t i j := by
  unfold unflattenF
  exact C09_colmajor_entry r c t i j hi hj

/-- **UAI numbering is a bijection**: positions in a duplicate-free sorted list determine the
    variable, and naming the i-th variable `var_i` inverts the numbering -/
theorem C09_uai_index_bijection (sorted : List Nat) (hn : sorted.Nodup) :
    (∀ v ∈ sorted, positionOf sorted v < sorted.length ∧ sorted.getD (positionOf sorted v) 0 = v) ∧
    (∀ i, (h : i < sorted.length) → positionOf sorted (sorted[i]) = i) := by
  constructor
  · intro v hv
    unfold positionOf
    have hlt := List.idxOf_lt_length_iff.mpr hv
    refine ⟨hlt, ?_⟩
    rw [List.getD_eq_getElem?_getD, List.getElem?_eq_getElem hlt]
    simp
  · intro i h
    unfold positionOf
    exact hn.idxOf_getElem i h

/-- **NET's four decimals**: rounding moves a value by at most 5·10⁻⁵ -/
theorem C09_round4_bound (x : Rat) : |round4 x - x| ≤ 1 / 20000 := by
  unfold round4
  have h1 : ((⌊x * 10000 + 1/2⌋ : Int) : Rat) ≤ x * 10000 + 1/2 := Int.floor_le _
  have h2 : x * 10000 + 1/2 < ((⌊x * 10000 + 1/2⌋ : Int) : Rat) + 1 := Int.lt_floor_add_one _
  rw [abs_le]
  constructor
  · have : x - 1/20000 ≤ ((⌊x * 10000 + 1/2⌋ : Int) : Rat) / 10000 := by
      rw [le_div_iff₀ (by norm_num)]
      linarith
    change (-(1/20000) : Rat) ≤ ((Rat.floor (x * 10000 + 1/2) : Int) : Rat) / 10000 - x
    have e : (Rat.floor (x * 10000 + 1/2)) = ⌊x * 10000 + 1/2⌋ := rfl
    rw [e]
    linarith
  · have : ((⌊x * 10000 + 1/2⌋ : Int) : Rat) / 10000 ≤ x + 1/20000 := by
      rw [div_le_iff₀ (by norm_num)]
      linarith
    change ((Rat.floor (x * 10000 + 1/2) : Int) : Rat) / 10000 - x ≤ 1/20000
    have e : (Rat.floor (x * 10000 + 1/2)) = ⌊x * 10000 + 1/2⌋ := rfl
    rw [e]
    linarith

/-- **a second NET round trip is exact**: a value that already has four decimals is printed as itself, so
    write -> read -> write reproduces the first file's numbers exactly (only the first write rounds) -/
theorem C09_round4_idempotent (x : Rat) : round4 (round4 x) = round4 x := by
  unfold round4
  generalize (x * 10000 + 1/2).floor = n
  have e1 : ((n : Rat) / 10000 * 10000 + 1/2) = (n : Rat) + 1/2 := by ring
  rw [e1]
  have e2 : ((n : Rat) + 1/2).floor = n := by
    change ⌊(n : Rat) + 1/2⌋ = n
    rw [Int.floor_intCast_add]
    have : ⌊(1/2 : Rat)⌋ = 0 := by rw [Int.floor_eq_iff]; norm_num
    rw [this, add_zero]
  rw [e2]

example : flattenF 2 2 (fun i j => (i : Rat) + 10 * j) = [0, 1, 10, 11] := by
  simp [flattenF, List.range, List.range.loop]
  norm_num

/-- extraction tie: NETWriter prints tables with the 4 decimals that `round4` / `C09_round4_bound` assume -/
theorem C09_net_decimals_tie : Generated.netDecimals = some 4 := by decide

end PgmVerif
