/-
  Props/C20.lean — multivariate-normal algebra behind linear-Gaussian networks, over any field
  (Mathlib matrices).  The executable model (Model/Gauss.lean) computes with the same formulas
  on lists of rationals and validates its inverse on every call.
-/
import PgmVerif.Model.Gauss
import PgmVerif.Model.Generated
import Mathlib.LinearAlgebra.Matrix.NonsingularInverse
import Mathlib.LinearAlgebra.Matrix.SchurComplement
namespace PgmVerif
open Matrix

variable {n m : Type} [Fintype n] [DecidableEq n] [Fintype m] [DecidableEq m] {K : Type} [Field K]

/-- **structural equations ⇒ covariance**: with M = I − B invertible, Σ = M⁻ᵀ Ω M⁻¹ satisfies
    Mᵀ Σ M = Ω (the covariance of X = Bᵀ X + ε with Cov ε = Ω) -/
theorem C20_cov_fixed_point (M Ω : Matrix n n K) (hM : IsUnit M.det) :
    Mᵀ * ((M⁻¹)ᵀ * Ω * M⁻¹) * M = Ω := by
  have h1 : Mᵀ * (M⁻¹)ᵀ = 1 := by
    rw [← Matrix.transpose_mul, Matrix.nonsing_inv_mul M hM, Matrix.transpose_one]
  have h2 : M⁻¹ * M = 1 := Matrix.nonsing_inv_mul M hM
  calc Mᵀ * ((M⁻¹)ᵀ * Ω * M⁻¹) * M
      = (Mᵀ * (M⁻¹)ᵀ) * Ω * (M⁻¹ * M) := by simp only [Matrix.mul_assoc]
    _ = Ω := by rw [h1, h2, Matrix.one_mul, Matrix.mul_one]

/-- … and it is the only solution -/
theorem C20_cov_unique (M Ω S : Matrix n n K) (hM : IsUnit M.det) (hS : Mᵀ * S * M = Ω) :
    S = (M⁻¹)ᵀ * Ω * M⁻¹ := by
  have h1 : (M⁻¹)ᵀ * Mᵀ = 1 := by
    rw [← Matrix.transpose_mul, Matrix.mul_nonsing_inv M hM, Matrix.transpose_one]
  have h2 : M * M⁻¹ = 1 := Matrix.mul_nonsing_inv M hM
  rw [← hS]
  calc S = ((M⁻¹)ᵀ * Mᵀ) * S * (M * M⁻¹) := by rw [h1, h2, Matrix.one_mul, Matrix.mul_one]
    _ = (M⁻¹)ᵀ * (Mᵀ * S * M) * M⁻¹ := by simp only [Matrix.mul_assoc]

/-- **precision block**: for a covariance partitioned into blocks [[A, B], [C, D]] (missing block
    first) the top-left block of the precision matrix is the inverse of the Schur complement
    A − B D⁻¹ C built from the SUB-MATRICES -/
theorem C20_precision_block (A : Matrix m m K) (B : Matrix m n K) (C : Matrix n m K) (D : Matrix n n K)
    [Invertible D] [Invertible (A - B * ⅟D * C)] [Invertible (fromBlocks A B C D)] :
    (⅟(fromBlocks A B C D)).toBlocks₁₁ = ⅟(A - B * ⅟D * C) := by
  rw [Matrix.invOf_fromBlocks₂₂_eq]
  simp

/-- **conditional covariance is the Schur complement**: Σ_aa − Σ_ab Σ_bb⁻¹ Σ_ba is the inverse of
    the (a, a) block of the precision matrix -/
theorem C20_conditional_is_schur (A : Matrix m m K) (B : Matrix m n K) (C : Matrix n m K) (D : Matrix n n K)
    [Invertible D] [Invertible (A - B * ⅟D * C)] [Invertible (fromBlocks A B C D)] :
    (A - B * ⅟D * C) * (⅟(fromBlocks A B C D)).toBlocks₁₁ = 1 := by
  rw [C20_precision_block]
  exact mul_invOf_self _

/-- non-vacuity: an invertible 1×1 system meets the hypotheses of the covariance theorems -/
example : IsUnit (Matrix.det (!![2] : Matrix (Fin 1) (Fin 1) Rat)) := by
  simp

/-- extraction tie: `to_joint_gaussian` rounds mean and covariance to 8 decimals — the perturbation bound that the
    correspondence check of `predict` allows for is derived from this literal -/
theorem C20_round_tie : Generated.lgRoundDecimals = some 8 := by decide

end PgmVerif
