/-
  Props/C01.lean — exact posterior queries equal the conditional of the CPD-product joint,
  for EVERY elimination order.  (Helper lemmas: Proofs/SumProd, Proofs/VE, Proofs/Spec.)
-/
import PgmVerif.Proofs.Spec
import PgmVerif.Model.CPD
import PgmVerif.Props.C04
import PgmVerif.Proofs.MassBound
namespace PgmVerif
open Factor

/-- one step of the classic loop: multiplying the factors that mention `v` and summing `v` out
    leaves a factor list whose product is Σ_v of the old product -/
theorem C01_elim_step (K : Var → Nat) (fs : List Factor) (hfs : AllWF K fs) (v : Var)
    (hm : Mentioned fs v) (a : Asg) (ha : Bounded K a) :
    jointDen (elimVar fs v) a = ∑ x ∈ Finset.range (K v), jointDen fs (upd a v x) := by
  rw [(elimVar_spec K fs hfs v hm).2.1 a ha, sumVar_eq]

/-- sums over different variables commute: the nested sum does not depend on the order -/
theorem C01_sum_swap (K : Var → Nat) (l l' : List Var) (p : l.Perm l') (g : Asg → Rat) :
    sumOut K l g = sumOut K l' g := sumOut_perm K p g

/-- **variable elimination, any order**: after reducing every factor to the evidence and
    eliminating the variables of `order` (any duplicate-free list of unobserved variables that
    occur in the model), the product of the remaining factors is the evidence-reduced product
    of all factors summed over exactly those variables -/
theorem C01_ve_any_order (K : Var → Nat) (fs : List Factor) (ev : List (Var × Nat)) (order : List Var)
    (hfs : AllWF K fs) (hn : order.Nodup)
    (hord : ∀ v ∈ order, v ∉ ev.map (·.1) ∧ Mentioned fs v) (a : Asg) (ha : Bounded K a) :
    (productAll (veRun (fs.map (fun f => f.reduce ev)) order)).den a
      = sumOut K order (fun b => jointDen fs (overrideL b (ev.map (·.1)) (ev.map (·.2)))) a := by
  obtain ⟨hr1, hr2⟩ := reduce_map_spec K ev fs hfs
  have hm : ∀ v ∈ order, Mentioned (fs.map (fun f => f.reduce ev)) v :=
    fun v hv => mentioned_reduce K ev fs hfs v (hord v hv).1 (hord v hv).2
  obtain ⟨h1, h2⟩ := veRun_spec K order _ hr1 hn hm
  rw [(productAll_spec K _ h1).2.1 a ha, h2 a ha]
  exact sumOut_congr order hr2 a ha

theorem overrideL_bounded (K : Var → Nat) : ∀ (ev : List (Var × Nat)), (∀ p ∈ ev, p.2 < K p.1) →
    ∀ b, Bounded K b → Bounded K (overrideL b (ev.map (·.1)) (ev.map (·.2)))
  | [], _, b, hb => by simpa [overrideL] using hb
  | p :: ev, h, b, hb => by
    intro w
    simp only [List.map_cons, overrideL]
    by_cases e : w = p.1
    · simp [e, h p List.mem_cons_self]
    · simp only [e, if_false]
      exact overrideL_bounded K ev (fun q hq => h q (List.mem_cons_of_mem _ hq)) b hb w

/-- the specification — build the whole joint table, slice it at the evidence, sum out the
    other variables — written as the same nested sum -/
theorem C01_spec_nested (K : Var → Nat) (fs : List Factor) (vars : List Var) (ev : List (Var × Nat))
    (others : List Var) (hn : vars.Nodup) (hcov : ∀ f ∈ fs, ∀ v ∈ f.scope, v ∈ vars)
    (hev : ∀ p ∈ ev, p.2 < K p.1) (a : Asg) (ha : Bounded K a) :
    (((jointTable fs vars (vars.map K)).reduce ev).marginalize others).den a
      = sumOut K ((vars.filter (fun v => !(ev.map (·.1)).contains v)).filter (fun v => others.contains v))
          (fun b => jointDen fs (overrideL b (ev.map (·.1)) (ev.map (·.2)))) a := by
  obtain ⟨hJ, hJden⟩ := jointTable_spec K fs vars hn hcov
  have hR := wf_reduce K _ hJ ev
  rw [den_marginalize_nested K _ hR others a ha]
  have hsc : elimScope ((jointTable fs vars (vars.map K)).reduce ev) others
      = (vars.filter (fun v => !(ev.map (·.1)).contains v)).filter (fun v => others.contains v) := by
    unfold elimScope
    rw [reduce_eq K _ hJ]
    rfl
  rw [hsc]
  apply sumOut_congr
  · intro b hb
    rw [den_reduce K _ hJ ev b hb]
    exact hJden _ (overrideL_bounded K ev hev b hb)
  · exact ha

/-- **order independence / agreement with the specification**: for every order that is a
    permutation of the unobserved non-query variables, the VE result equals the brute-force
    conditional (before the common normalisation) -/
theorem C01_order_irrelevant (K : Var → Nat) (fs : List Factor) (vars : List Var) (ev : List (Var × Nat))
    (others order : List Var) (hfs : AllWF K fs) (hn : vars.Nodup)
    (hcov : ∀ f ∈ fs, ∀ v ∈ f.scope, v ∈ vars) (hev : ∀ p ∈ ev, p.2 < K p.1)
    (hperm : order.Perm ((vars.filter (fun v => !(ev.map (·.1)).contains v)).filter
      (fun v => others.contains v)))
    (hment : ∀ v ∈ order, Mentioned fs v) (a : Asg) (ha : Bounded K a) :
    (productAll (veRun (fs.map (fun f => f.reduce ev)) order)).den a
      = (((jointTable fs vars (vars.map K)).reduce ev).marginalize others).den a := by
  have hnd : order.Nodup := hperm.nodup_iff.mpr ((hn.filter _).filter _)
  have hord : ∀ v ∈ order, v ∉ ev.map (·.1) ∧ Mentioned fs v := by
    intro v hv
    have := (hperm.mem_iff.mp hv)
    have h1 := (List.mem_filter.mp (List.mem_filter.mp this).1).2
    exact ⟨by simpa using h1, hment v hv⟩
  rw [C01_ve_any_order K fs ev order hfs hnd hord a ha, C01_spec_nested K fs vars ev others hn hcov hev a ha,
    C01_sum_swap K _ _ hperm]

/-- **virtual evidence**: the auxiliary binary child `u` of `v` with rows (L, 1 − L), observed in
    state 0, contributes exactly the likelihood factor L(v) -/
theorem C01_virtual_evidence (K : Var → Nat) (u v : Var) (huv : u ≠ v) (hu : K u = 2) (L : List Rat)
    (hL : L.length = K v) (a : Asg) (ha : Bounded K a) :
    ((CPD.ofTable u [v] 2 [K v] [L, L.map (fun x => 1 - x)]).reduce [(u, 0)]).den a = L.getD (a v) 0 := by
  have hwf : (CPD.ofTable u [v] 2 [K v] [L, L.map (fun x => 1 - x)]).WF K := by
    refine ⟨?_, ?_, ?_⟩
    · simp [CPD.ofTable, huv]
    · simp [CPD.ofTable, hu]
    · simp [CPD.ofTable, hL]; omega
  rw [den_reduce K _ hwf [(u, 0)] a ha]
  simp only [List.map_cons, List.map_nil, overrideL]
  unfold den CPD.ofTable
  have hvu : v ≠ u := fun e => huv e.symm
  simp only [List.map_cons, List.map_nil, ravel, if_true, hvu, if_false, List.prod_cons, List.prod_nil]
  have hav : a v < L.length := by rw [hL]; exact ha v
  simp [Array.getD, List.getD_eq_getElem?_getD, hav, List.getElem_append_left]
  intro h; omega

/-- **barren leaf**: a normalised CPD of a variable that occurs nowhere else sums out to 1, so
    removing that node does not change any posterior of the others (ancestral pruning; the
    unobserved `__X` leaves left behind by virtual-evidence queries) -/
theorem C01_barren_leaf (K : Var → Nat) (c : Factor) (fs : List Factor) (u : Var)
    (hnorm : ∀ a, Bounded K a → sumVar K u c.den a = 1) (hu : ∀ f ∈ fs, u ∉ f.scope)
    (a : Asg) (ha : Bounded K a) :
    sumVar K u (jointDen (c :: fs)) a = jointDen fs a :=
  barren_leaf K c fs u hnorm hu a ha

/-! non-vacuity: a two-factor network, an order and a bounded state meeting the hypotheses -/
example : AllWF (fun _ => 2) [Factor.mk [0] [2] #[1/2, 1/2], Factor.mk [1, 0] [2, 2] #[1/3, 1/4, 2/3, 3/4]] ∧
    [0].Nodup ∧ Mentioned [Factor.mk [0] [2] #[1/2, 1/2], Factor.mk [1, 0] [2, 2] #[1/3, 1/4, 2/3, 3/4]] 0 := by
  refine ⟨?_, by decide, ⟨_, List.mem_cons_self, by decide⟩⟩
  intro f hf
  simp at hf
  rcases hf with rfl | rfl <;> exact ⟨by decide, by decide, by decide⟩


/-- **a likelihood is defined up to scale**: multiplying one factor of the product (a virtual-evidence likelihood, an unnormalised
    potential) by `c` multiplies the unnormalised answer of every sum-product query by `c` - which `C04_normalize_scale` then
    forgets: the normalised posterior is the same -/
theorem C01_likelihood_scale (K : Var → Nat) (g : Factor) (fs : List Factor) (c : Rat) (vs : List Var) (a : Asg) :
    sumOut K vs (jointDen (Factor.scale c g :: fs)) a = c * sumOut K vs (jointDen (g :: fs)) a := by
  have h : jointDen (Factor.scale c g :: fs) = fun b => c * jointDen (g :: fs) b := by
    funext b
    rw [jointDen_cons, jointDen_cons, scale_den, mul_assoc]
  rw [h, sumOut_const_mul]

end PgmVerif
