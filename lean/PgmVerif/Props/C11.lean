/-
  Props/C11.lean — hill climbing keeps the graph acyclic for every score table, option set and
  iteration bound; the chosen operation is the best one; early stop means local optimum.
-/
import PgmVerif.Proofs.Acyclic
import PgmVerif.Model.Search
import Mathlib.Algebra.Order.Field.Rat
namespace PgmVerif
open Relation

theorem gen_eraseDups' (step : Var → List Var) (S0 : List Var) (x : Var) (h : Gen step S0 x) :
    Gen step S0.eraseDups x := by
  induction h with
  | base hb => exact Gen.base (List.mem_eraseDups.mpr hb)
  | step _ hxy ih => exact Gen.step ih hxy

/-- the `has_path` saturation finds every directed path -/
theorem hasPathG_complete (g : DG) (hw : g.WFG) (v u : Var) (hv : v ∈ g.nodes)
    (h : ReflTransGen (Rel g.edges) v u) : hasPathG g v u = true := by
  unfold hasPathG DG.descendantsOf
  have hex := saturate_exact g.children g.nodes [v].eraseDups (g.nodes.length + 1)
    (fun x hx => by
      have : x = v := by simpa using List.mem_eraseDups.mp hx
      rw [this]; exact hv)
    (fun y _ x hx => (hw _ ((g.mem_children y x).mp hx)).2) (by omega) u
  have hg : Gen g.children [v].eraseDups u := gen_eraseDups' _ _ _ (gen_of_path g v u h)
  simpa using hex.mpr hg

theorem bestOp_spec : ∀ (l : List (HOp × Rat)) (b : HOp × Rat), bestOp l = some b →
    b ∈ l ∧ ∀ p ∈ l, p.2 ≤ b.2
  | [], b, h => by simp [bestOp] at h
  | p :: ps, b, h => by
    simp only [bestOp] at h
    cases hb : bestOp ps with
    | none =>
      rw [hb] at h
      simp only [Option.some.injEq] at h
      subst h
      have hnil : ps = [] := by
        cases ps with
        | nil => rfl
        | cons q qs =>
          simp only [bestOp] at hb
          cases h2 : bestOp qs <;> rw [h2] at hb <;> simp at hb
          split at hb <;> simp at hb
      subst hnil
      exact ⟨List.mem_cons_self, fun q hq => by simp at hq; rw [hq]⟩
    | some q =>
      rw [hb] at h
      obtain ⟨hq1, hq2⟩ := bestOp_spec ps q hb
      simp only at h
      split at h
      · next hgt =>
        simp only [Option.some.injEq] at h
        subst h
        refine ⟨List.mem_cons_of_mem _ hq1, ?_⟩
        intro r hr
        rcases List.mem_cons.mp hr with e | e
        · rw [e]; exact le_of_lt hgt
        · exact hq2 r e
      · next hng =>
        simp only [Option.some.injEq] at h
        subst h
        refine ⟨List.mem_cons_self, ?_⟩
        intro r hr
        rcases List.mem_cons.mp hr with e | e
        · rw [e]
        · exact le_trans (hq2 r e) (not_lt.mp hng)

/-- the selected operation is a candidate with maximal score delta -/
theorem C11_best_is_max (s : ScoreTab) (o : HCOpts) (tabu : List HOp) (g : DG) (b : HOp × Rat)
    (h : bestOp (legalOps s o tabu g) = some b) :
    b ∈ legalOps s o tabu g ∧ ∀ p ∈ legalOps s o tabu g, p.2 ≤ b.2 :=
  bestOp_spec _ b h

/-- what being a candidate means for acyclicity -/
inductive Legal (g : DG) : HOp → Prop
  | add {x y} : x ∈ g.nodes → y ∈ g.nodes → x ≠ y → hasPathG g y x = false → Legal g (.add x y)
  | rem {x y} : Legal g (.rem x y)
  | flip {x y} : (x, y) ∈ g.edges → hasPathG (removeEdge g (x, y)) x y = false → Legal g (.flip x y)

theorem legal_of_mem (s : ScoreTab) (o : HCOpts) (tabu : List HOp) (g : DG) (p : HOp × Rat)
    (h : p ∈ legalOps s o tabu g) : Legal g p.1 := by
  unfold legalOps at h
  simp only at h
  rcases List.mem_append.mp h with h | h
  · rcases List.mem_append.mp h with h | h
    · -- additions
      obtain ⟨⟨x, y⟩, hxy, hf⟩ := List.mem_filterMap.mp h
      obtain ⟨x', hx', hy'⟩ := List.mem_flatMap.mp hxy
      obtain ⟨y', hy'', hsome⟩ := List.mem_filterMap.mp hy'
      have hne : x' ≠ y' := by
        intro e; simp [e] at hsome
      have hpair : (x', y') = (x, y) := by
        have : (x' != y') = true := by simpa using hne
        simpa [this] using hsome
      cases hpair
      simp only at hf
      split at hf
      · cases hf
      · split at hf
        · cases hf
        · next hnp =>
          split at hf
          · cases hf
          · split at hf
            · simp only [Option.some.injEq] at hf
              rw [← hf]
              exact Legal.add hx' hy'' hne (by simpa using hnp)
            · cases hf
    · -- removals
      obtain ⟨⟨x, y⟩, _, hf⟩ := List.mem_filterMap.mp h
      simp only at hf
      split at hf
      · cases hf
      · simp only [Option.some.injEq] at hf
        rw [← hf]; exact Legal.rem
  · -- flips
    obtain ⟨⟨x, y⟩, hxy, hf⟩ := List.mem_filterMap.mp h
    simp only at hf
    split at hf
    · cases hf
    · next hnp =>
      split at hf
      · cases hf
      · split at hf
        · simp only [Option.some.injEq] at hf
          rw [← hf]
          exact Legal.flip hxy (by simpa using hnp)
        · cases hf

/-- applying a candidate operation keeps the graph well-formed and acyclic -/
theorem C11_apply_acyclic (g : DG) (hw : g.WFG) (hac : Acyclic g.edges) (op : HOp) (hl : Legal g op) :
    (applyOp g op).WFG ∧ Acyclic (applyOp g op).edges ∧ (applyOp g op).nodes = g.nodes := by
  cases hl with
  | @add x y hx hy hne hnp =>
    refine ⟨?_, ?_, rfl⟩
    · intro e he
      rcases List.mem_append.mp he with he | he
      · exact hw e he
      · have : e = (x, y) := by simpa using he
        subst this; exact ⟨hx, hy⟩
    · apply acyclic_add_edge g.edges x y hac
      intro hp
      have := hasPathG_complete g hw y x hy hp
      rw [this] at hnp; cases hnp
  | rem =>
    refine ⟨?_, acyclic_sub (fun e he => (List.mem_filter.mp he).1) hac, rfl⟩
    intro e he
    exact hw e (List.mem_filter.mp he).1
  | @flip x y hxy hnp =>
    have hw' : (removeEdge g (x, y)).WFG := fun e he => hw e (List.mem_filter.mp he).1
    have hac' : Acyclic (removeEdge g (x, y)).edges :=
      acyclic_sub (fun e he => (List.mem_filter.mp he).1) hac
    have hxn : x ∈ g.nodes := (hw _ hxy).1
    have hyn : y ∈ g.nodes := (hw _ hxy).2
    refine ⟨?_, ?_, rfl⟩
    · intro e he
      rcases List.mem_append.mp he with he | he
      · exact hw' e he
      · have : e = (y, x) := by simpa using he
        subst this; exact ⟨hyn, hxn⟩
    · apply acyclic_add_edge _ y x hac'
      intro hp
      have := hasPathG_complete (removeEdge g (x, y)) hw' x y hxn hp
      rw [this] at hnp; cases hnp

/-- **the search loop returns an acyclic graph** from every acyclic start, for every local
    score, black/white/fixed lists, in-degree bound, tabu length, epsilon and iteration bound -/
theorem C11_hc_acyclic (s : ScoreTab) (o : HCOpts) : ∀ (fuel : Nat) (st : HCState),
    st.g.WFG → Acyclic st.g.edges →
    (hcLoop s o fuel st).g.WFG ∧ Acyclic (hcLoop s o fuel st).g.edges ∧ (hcLoop s o fuel st).g.nodes = st.g.nodes
  | 0, st, hw, hac => ⟨hw, hac, rfl⟩
  | fuel+1, st, hw, hac => by
    simp only [hcLoop]
    cases hb : bestOp (legalOps s o st.tabu st.g) with
    | none => exact ⟨hw, hac, rfl⟩
    | some b =>
      simp only
      split
      · exact ⟨hw, hac, rfl⟩
      · have hmem := (bestOp_spec _ b hb).1
        have hl := legal_of_mem s o st.tabu st.g b hmem
        obtain ⟨h1, h2, h3⟩ := C11_apply_acyclic st.g hw hac b.1 hl
        obtain ⟨i1, i2, i3⟩ := C11_hc_acyclic s o fuel
          { g := applyOp st.g b.1, tabu := tabuPush o.tabuLen st.tabu (tabuEntry b.1),
            trace := st.trace ++ [(b.1, b.2)], tie := st.tie || hasTie (legalOps s o st.tabu st.g) } h1 h2
        exact ⟨i1, i2, by rw [i3]; exact h3⟩

/-- when the loop stops before using up its iterations, no candidate operation would improve
    the score by epsilon or more (a local optimum w.r.t. the final tabu list) -/
theorem C11_loop_stops_below_eps (s : ScoreTab) (o : HCOpts) : ∀ (fuel : Nat) (st : HCState),
    (hcLoop s o fuel st).trace.length < st.trace.length + fuel →
    ∀ p ∈ legalOps s o (hcLoop s o fuel st).tabu (hcLoop s o fuel st).g, p.2 < o.eps
  | 0, st, h => by simp [hcLoop] at h
  | fuel+1, st, h => by
    simp only [hcLoop] at h ⊢
    cases hb : bestOp (legalOps s o st.tabu st.g) with
    | none =>
      intro p hp
      simp only [hb] at hp
      cases hl : legalOps s o st.tabu st.g with
      | nil => rw [hl] at hp; cases hp
      | cons q qs =>
        rw [hl] at hb
        simp only [bestOp] at hb
        cases h2 : bestOp qs <;> rw [h2] at hb <;> simp at hb
        split at hb <;> simp at hb
    | some b =>
      rw [hb] at h
      simp only at h ⊢
      by_cases hd : b.2 < o.eps
      · simp only [hd, if_true] at h ⊢
        intro p hp
        exact lt_of_le_of_lt ((bestOp_spec _ b hb).2 p hp) hd
      · simp only [hd, if_false] at h ⊢
        apply C11_loop_stops_below_eps s o fuel
        simp only [List.length_append, List.length_cons, List.length_nil] at h ⊢
        omega

/-- non-vacuity: the empty start graph meets the hypotheses of `C11_hc_acyclic` -/
example : (DG.mk [0, 1, 2] []).WFG ∧ Acyclic (DG.mk [0, 1, 2] []).edges :=
  ⟨fun e he => (by cases he), acyclic_nil⟩

end PgmVerif
