/-
  Props/C11.lean — hill climbing keeps the graph acyclic for every score table, option set and
  iteration bound; the chosen operation is the best one; early stop means local optimum.
-/
import PgmVerif.Proofs.Acyclic
import PgmVerif.Model.Generated
import PgmVerif.Model.Search
import Mathlib.Algebra.Order.Field.Rat
import Mathlib.Tactic.Ring
import Mathlib.Tactic.Linarith
import Mathlib.Algebra.BigOperators.Group.List.Basic
import Mathlib.Algebra.Order.Ring.Rat
namespace PgmVerif
open Relation

theorem gen_eraseDups' (step : Var → List Var) (S0 : List Var) (x : Var) (h : Gen step S0 x) :
    Gen step S0.eraseDups x := by
  induction h with
  | base hb => exact Gen.base (List.mem_eraseDups.mpr hb)
  | step _ hxy ih => exact Gen.step ih hxy

/-- the `has_path` saturation finds every directed path -/
theorem hasPathG_complete (g : DG) (hw : g.WFG) (v u : Var) (hv : v ∈ g.nodes)
    (h : ReflTransGen (Rel g.edges) v u) : hasPathG g v u = true := by
  unfold hasPathG DG.descendantsOf
  have hex := saturate_exact g.children g.nodes [v].eraseDups (g.nodes.length + 1)
    (fun x hx => by
      have : x = v := by simpa using List.mem_eraseDups.mp hx
      rw [this]; exact hv)
    (fun y _ x hx => (hw _ ((g.mem_children y x).mp hx)).2) (by omega) u
  have hg : Gen g.children [v].eraseDups u := gen_eraseDups' _ _ _ (gen_of_path g v u h)
  simpa using hex.mpr hg

theorem bestOp_spec : ∀ (l : List (HOp × Rat)) (b : HOp × Rat), bestOp l = some b →
    b ∈ l ∧ ∀ p ∈ l, p.2 ≤ b.2
  | [], b, h => by simp [bestOp] at h
  | p :: ps, b, h => by
    simp only [bestOp] at h
    cases hb : bestOp ps with
    | none =>
      rw [hb] at h
      simp only [Option.some.injEq] at h
      subst h
      have hnil : ps = [] := by
        cases ps with
        | nil => rfl
        | cons q qs =>
          simp only [bestOp] at hb
          cases h2 : bestOp qs <;> rw [h2] at hb <;> simp at hb
          split at hb <;> simp at hb
      subst hnil
      exact ⟨List.mem_cons_self, fun q hq => by simp at hq; rw [hq]⟩
    | some q =>
      rw [hb] at h
      obtain ⟨hq1, hq2⟩ := bestOp_spec ps q hb
      simp only at h
      split at h
      · next hgt =>
        simp only [Option.some.injEq] at h
        subst h
        refine ⟨List.mem_cons_of_mem _ hq1, ?_⟩
        intro r hr
        rcases List.mem_cons.mp hr with e | e
        · rw [e]; exact le_of_lt hgt
        · exact hq2 r e
      · next hng =>
        simp only [Option.some.injEq] at h
        subst h
        refine ⟨List.mem_cons_self, ?_⟩
        intro r hr
        rcases List.mem_cons.mp hr with e | e
        · rw [e]
        · exact le_trans (hq2 r e) (not_lt.mp hng)

/-- the selected operation is a candidate with maximal score delta -/
theorem C11_best_is_max (s : ScoreTab) (o : HCOpts) (tabu : List HOp) (g : DG) (b : HOp × Rat)
    (h : bestOp (legalOps s o tabu g) = some b) :
    b ∈ legalOps s o tabu g ∧ ∀ p ∈ legalOps s o tabu g, p.2 ≤ b.2 :=
  bestOp_spec _ b h

/-- what being a candidate means for acyclicity -/
inductive Legal (g : DG) : HOp → Prop
  | add {x y} : x ∈ g.nodes → y ∈ g.nodes → x ≠ y → hasPathG g y x = false → Legal g (.add x y)
  | rem {x y} : (x, y) ∈ g.edges → Legal g (.rem x y)
  | flip {x y} : (x, y) ∈ g.edges → hasPathG (removeEdge g (x, y)) x y = false → Legal g (.flip x y)

theorem legal_of_mem (s : ScoreTab) (o : HCOpts) (tabu : List HOp) (g : DG) (p : HOp × Rat)
    (h : p ∈ legalOps s o tabu g) : Legal g p.1 := by
  unfold legalOps at h
  simp only at h
  rcases List.mem_append.mp h with h | h
  · rcases List.mem_append.mp h with h | h
    · -- additions
      obtain ⟨⟨x, y⟩, hxy, hf⟩ := List.mem_filterMap.mp h
      obtain ⟨x', hx', hy'⟩ := List.mem_flatMap.mp hxy
      obtain ⟨y', hy'', hsome⟩ := List.mem_filterMap.mp hy'
      have hne : x' ≠ y' := by
        intro e; simp [e] at hsome
      have hpair : (x', y') = (x, y) := by
        have : (x' != y') = true := by simpa using hne
        simpa [this] using hsome
      cases hpair
      simp only at hf
      split at hf
      · cases hf
      · split at hf
        · cases hf
        · next hnp =>
          split at hf
          · cases hf
          · split at hf
            · simp only [Option.some.injEq] at hf
              rw [← hf]
              exact Legal.add hx' hy'' hne (by simpa using hnp)
            · cases hf
    · -- removals
      obtain ⟨⟨x, y⟩, hxy, hf⟩ := List.mem_filterMap.mp h
      simp only at hf
      split at hf
      · cases hf
      · simp only [Option.some.injEq] at hf
        rw [← hf]; exact Legal.rem hxy
  · -- flips
    obtain ⟨⟨x, y⟩, hxy, hf⟩ := List.mem_filterMap.mp h
    simp only at hf
    split at hf
    · cases hf
    · next hnp =>
      split at hf
      · cases hf
      · split at hf
        · simp only [Option.some.injEq] at hf
          rw [← hf]
          exact Legal.flip hxy (by simpa using hnp)
        · cases hf

/-- applying a candidate operation keeps the graph well-formed and acyclic -/
theorem C11_apply_acyclic (g : DG) (hw : g.WFG) (hac : Acyclic g.edges) (op : HOp) (hl : Legal g op) :
    (applyOp g op).WFG ∧ Acyclic (applyOp g op).edges ∧ (applyOp g op).nodes = g.nodes := by
  cases hl with
  | @add x y hx hy hne hnp =>
    refine ⟨?_, ?_, rfl⟩
    · intro e he
      rcases List.mem_append.mp he with he | he
      · exact hw e he
      · have : e = (x, y) := by simpa using he
        subst this; exact ⟨hx, hy⟩
    · apply acyclic_add_edge g.edges x y hac
      intro hp
      have := hasPathG_complete g hw y x hy hp
      rw [this] at hnp; cases hnp
  | rem _ =>
    refine ⟨?_, acyclic_sub (fun e he => (List.mem_filter.mp he).1) hac, rfl⟩
    intro e he
    exact hw e (List.mem_filter.mp he).1
  | @flip x y hxy hnp =>
    have hw' : (removeEdge g (x, y)).WFG := fun e he => hw e (List.mem_filter.mp he).1
    have hac' : Acyclic (removeEdge g (x, y)).edges :=
      acyclic_sub (fun e he => (List.mem_filter.mp he).1) hac
    have hxn : x ∈ g.nodes := (hw _ hxy).1
    have hyn : y ∈ g.nodes := (hw _ hxy).2
    refine ⟨?_, ?_, rfl⟩
    · intro e he
      rcases List.mem_append.mp he with he | he
      · exact hw' e he
      · have : e = (y, x) := by simpa using he
        subst this; exact ⟨hyn, hxn⟩
    · apply acyclic_add_edge _ y x hac'
      intro hp
      have := hasPathG_complete (removeEdge g (x, y)) hw' x y hxn hp
      rw [this] at hnp; cases hnp

/-- **the search loop returns an acyclic graph** from every acyclic start, for every local
    score, black/white/fixed lists, in-degree bound, tabu length, epsilon and iteration bound -/
theorem C11_hc_acyclic (s : ScoreTab) (o : HCOpts) : ∀ (fuel : Nat) (st : HCState),
    st.g.WFG → Acyclic st.g.edges →
    (hcLoop s o fuel st).g.WFG ∧ Acyclic (hcLoop s o fuel st).g.edges ∧ (hcLoop s o fuel st).g.nodes = st.g.nodes
  | 0, st, hw, hac => ⟨hw, hac, rfl⟩
  | fuel+1, st, hw, hac => by
    simp only [hcLoop]
    cases hb : bestOp (legalOps s o st.tabu st.g) with
    | none => exact ⟨hw, hac, rfl⟩
    | some b =>
      simp only
      split
      · exact ⟨hw, hac, rfl⟩
      · have hmem := (bestOp_spec _ b hb).1
        have hl := legal_of_mem s o st.tabu st.g b hmem
        obtain ⟨h1, h2, h3⟩ := C11_apply_acyclic st.g hw hac b.1 hl
        obtain ⟨i1, i2, i3⟩ := C11_hc_acyclic s o fuel
          { g := applyOp st.g b.1, tabu := tabuPush o.tabuLen st.tabu (tabuEntry b.1),
            trace := st.trace ++ [(b.1, b.2)], tie := st.tie || hasTie (legalOps s o st.tabu st.g) } h1 h2
        exact ⟨i1, i2, by rw [i3]; exact h3⟩

/-- **iteration bound and tabu length**: the loop applies at most `max_iter` operations (the trace grows by at most
    the iteration budget) and the tabu list never holds more than `tabu_length` entries - for every score table,
    option set and start state -/
theorem C11_hc_budget (s : ScoreTab) (o : HCOpts) : ∀ (fuel : Nat) (st : HCState),
    st.tabu.length ≤ o.tabuLen →
    (hcLoop s o fuel st).trace.length ≤ st.trace.length + fuel ∧ (hcLoop s o fuel st).tabu.length ≤ o.tabuLen
  | 0, st, ht => ⟨by simp [hcLoop], by simpa [hcLoop] using ht⟩
  | fuel+1, st, ht => by
    simp only [hcLoop]
    cases hb : bestOp (legalOps s o st.tabu st.g) with
    | none => exact ⟨by simp, ht⟩
    | some b =>
      simp only
      split
      · exact ⟨by simp, ht⟩
      · have hpush : (tabuPush o.tabuLen st.tabu (tabuEntry b.1)).length ≤ o.tabuLen := by
          unfold tabuPush
          simp only [List.length_drop, List.length_append, List.length_cons, List.length_nil]
          omega
        obtain ⟨i1, i2⟩ := C11_hc_budget s o fuel
          { g := applyOp st.g b.1, tabu := tabuPush o.tabuLen st.tabu (tabuEntry b.1),
            trace := st.trace ++ [(b.1, b.2)], tie := st.tie || hasTie (legalOps s o st.tabu st.g) } hpush
        refine ⟨?_, i2⟩
        simp only [List.length_append, List.length_cons, List.length_nil] at i1
        omega

/-- when the loop stops before using up its iterations, no candidate operation would improve
    the score by epsilon or more (a local optimum w.r.t. the final tabu list) -/
theorem C11_loop_stops_below_eps (s : ScoreTab) (o : HCOpts) : ∀ (fuel : Nat) (st : HCState),
    (hcLoop s o fuel st).trace.length < st.trace.length + fuel →
    ∀ p ∈ legalOps s o (hcLoop s o fuel st).tabu (hcLoop s o fuel st).g, p.2 < o.eps
  | 0, st, h => by simp [hcLoop] at h
  | fuel+1, st, h => by
    simp only [hcLoop] at h ⊢
    cases hb : bestOp (legalOps s o st.tabu st.g) with
    | none =>
      intro p hp
      simp only [hb] at hp
      cases hl : legalOps s o st.tabu st.g with
      | nil => rw [hl] at hp; cases hp
      | cons q qs =>
        rw [hl] at hb
        simp only [bestOp] at hb
        cases h2 : bestOp qs <;> rw [h2] at hb <;> simp at hb
        split at hb <;> simp at hb
    | some b =>
      rw [hb] at h
      simp only at h ⊢
      by_cases hd : b.2 < o.eps
      · simp only [hd, if_true] at h ⊢
        intro p hp
        exact lt_of_le_of_lt ((bestOp_spec _ b hb).2 p hp) hd
      · simp only [hd, if_false] at h ⊢
        apply C11_loop_stops_below_eps s o fuel
        simp only [List.length_append, List.length_cons, List.length_nil] at h ⊢
        omega

/-! ### fixed / black / white lists -/

/-- what being a candidate means for the edge lists -/
def ListOk (o : HCOpts) : HOp → Prop
  | .add x y => o.black.contains (x, y) = false ∧ o.isWhite (x, y) = true
  | .rem x y => o.fixed.contains (x, y) = false
  | .flip x y => o.fixed.contains (x, y) = false ∧ o.black.contains (y, x) = false ∧ o.isWhite (y, x) = true

theorem listOk_of_mem (s : ScoreTab) (o : HCOpts) (tabu : List HOp) (g : DG) (p : HOp × Rat)
    (h : p ∈ legalOps s o tabu g) : ListOk o p.1 := by
  unfold legalOps at h
  simp only at h
  rcases List.mem_append.mp h with h | h
  · rcases List.mem_append.mp h with h | h
    · obtain ⟨⟨x, y⟩, _, hf⟩ := List.mem_filterMap.mp h
      simp only at hf
      split at hf
      · cases hf
      · split at hf
        · cases hf
        · split at hf
          · cases hf
          · next hcond =>
            split at hf
            · simp only [Option.some.injEq] at hf
              rw [← hf]
              simp only [Bool.or_eq_true, not_or, Bool.not_eq_true, Bool.not_eq_eq_eq_not, Bool.not_true,
                Bool.not_false] at hcond
              exact ⟨hcond.1.2, by simpa using hcond.2⟩
            · cases hf
    · obtain ⟨⟨x, y⟩, _, hf⟩ := List.mem_filterMap.mp h
      simp only at hf
      split at hf
      · cases hf
      · next hcond =>
        simp only [Option.some.injEq] at hf
        rw [← hf]
        simp only [Bool.or_eq_true, not_or, Bool.not_eq_true] at hcond
        exact hcond.2
  · obtain ⟨⟨x, y⟩, _, hf⟩ := List.mem_filterMap.mp h
    simp only at hf
    split at hf
    · cases hf
    · split at hf
      · cases hf
      · next hcond =>
        split at hf
        · simp only [Option.some.injEq] at hf
          rw [← hf]
          simp only [Bool.or_eq_true, not_or, Bool.not_eq_true, Bool.not_eq_eq_eq_not, Bool.not_true,
            Bool.not_false] at hcond
          exact ⟨hcond.1.1.2, hcond.1.2, by simpa using hcond.2⟩
        · cases hf

theorem mem_applyOp (g : DG) (op : HOp) (e : Var × Var) :
    e ∈ (applyOp g op).edges → e ∈ g.edges ∨
      (match op with | .add x y => e = (x, y) | .rem _ _ => False | .flip x y => e = (y, x)) := by
  cases op with
  | add x y =>
    intro h
    rcases List.mem_append.mp h with h | h
    · exact Or.inl h
    · exact Or.inr (by simpa using h)
  | rem x y => intro h; exact Or.inl (List.mem_filter.mp h).1
  | flip x y =>
    intro h
    rcases List.mem_append.mp h with h | h
    · exact Or.inl (List.mem_filter.mp h).1
    · exact Or.inr (by simpa using h)

theorem keeps_applyOp (o : HCOpts) (g : DG) (op : HOp) (hl : ListOk o op) (e : Var × Var)
    (hf : e ∈ o.fixed) (he : e ∈ g.edges) : e ∈ (applyOp g op).edges := by
  cases op with
  | add x y => exact List.mem_append_left _ he
  | rem x y =>
    refine List.mem_filter.mpr ⟨he, ?_⟩
    have : e ≠ (x, y) := by
      intro h; subst h
      have : o.fixed.contains (x, y) = true := by simpa using hf
      rw [hl] at this; cases this
    simpa using this
  | flip x y =>
    refine List.mem_append_left _ (List.mem_filter.mpr ⟨he, ?_⟩)
    have : e ≠ (x, y) := by
      intro h; subst h
      have : o.fixed.contains (x, y) = true := by simpa using hf
      rw [hl.1] at this; cases this
    simpa using this

/-- **the lists are honoured**: every fixed edge of the start graph is still present, and every
    edge of the result was in the start graph or is neither black-listed nor outside the white
    list — for every score table, tabu length, epsilon and iteration bound -/
theorem C11_hc_lists (s : ScoreTab) (o : HCOpts) : ∀ (fuel : Nat) (st : HCState),
    (∀ e ∈ o.fixed, e ∈ st.g.edges → e ∈ (hcLoop s o fuel st).g.edges) ∧
    (∀ e ∈ (hcLoop s o fuel st).g.edges, e ∈ st.g.edges ∨
        (o.black.contains e = false ∧ o.isWhite e = true))
  | 0, st => ⟨fun _ _ h => h, fun _ h => Or.inl h⟩
  | fuel+1, st => by
    simp only [hcLoop]
    cases hb : bestOp (legalOps s o st.tabu st.g) with
    | none => exact ⟨fun _ _ h => h, fun _ h => Or.inl h⟩
    | some b =>
      simp only
      split
      · exact ⟨fun _ _ h => h, fun _ h => Or.inl h⟩
      · have hmem := (bestOp_spec _ b hb).1
        have hl := listOk_of_mem s o st.tabu st.g b hmem
        obtain ⟨i1, i2⟩ := C11_hc_lists s o fuel
          { g := applyOp st.g b.1, tabu := tabuPush o.tabuLen st.tabu (tabuEntry b.1),
            trace := st.trace ++ [(b.1, b.2)], tie := st.tie || hasTie (legalOps s o st.tabu st.g) }
        constructor
        · intro e hf he
          exact i1 e hf (keeps_applyOp o st.g b.1 hl e hf he)
        · intro e he
          rcases i2 e he with h | h
          · rcases mem_applyOp st.g b.1 e h with h' | h'
            · exact Or.inl h'
            · right
              cases hop : b.1 with
              | add x y => rw [hop] at h' hl; simp only at h'; rw [h']; exact hl
              | rem x y => rw [hop] at h'; exact absurd h' id
              | flip x y => rw [hop] at h' hl; simp only at h'; rw [h']; exact ⟨hl.2.1, hl.2.2⟩
          · exact Or.inr h

/-! ### exact score deltas and monotonicity -/

/-- the score change the search attributes to an operation -/
def deltaOf (s : ScoreTab) (g : DG) : HOp → Rat
  | .add x y => s.local y (g.parents y ++ [x]) - s.local y (g.parents y)
  | .rem x y => s.local y ((g.parents y).filter (· != x)) - s.local y (g.parents y)
  | .flip x y => s.local x (g.parents x ++ [y]) + s.local y ((g.parents y).filter (· != x))
      - s.local x (g.parents x) - s.local y (g.parents y)

theorem delta_of_mem (s : ScoreTab) (o : HCOpts) (tabu : List HOp) (g : DG) (p : HOp × Rat)
    (h : p ∈ legalOps s o tabu g) : p.2 = deltaOf s g p.1 := by
  unfold legalOps at h
  simp only at h
  rcases List.mem_append.mp h with h | h
  · rcases List.mem_append.mp h with h | h
    · obtain ⟨⟨x, y⟩, _, hf⟩ := List.mem_filterMap.mp h
      simp only at hf
      split at hf
      · cases hf
      · split at hf
        · cases hf
        · split at hf
          · cases hf
          · split at hf
            · simp only [Option.some.injEq] at hf
              rw [← hf]; rfl
            · cases hf
    · obtain ⟨⟨x, y⟩, _, hf⟩ := List.mem_filterMap.mp h
      simp only at hf
      split at hf
      · cases hf
      · simp only [Option.some.injEq] at hf
        rw [← hf]; rfl
  · obtain ⟨⟨x, y⟩, _, hf⟩ := List.mem_filterMap.mp h
    simp only at hf
    split at hf
    · cases hf
    · split at hf
      · cases hf
      · split at hf
        · simp only [Option.some.injEq] at hf
          rw [← hf]; rfl
        · cases hf

theorem parents_addEdge (g : DG) (x y v : Var) :
    (addEdge g (x, y)).parents v = g.parents v ++ (if y = v then [x] else []) := by
  unfold addEdge DG.parents
  simp only [List.filter_append, List.map_append]
  congr 1
  by_cases h : y = v
  · simp [h]
  · simp [h]

theorem parents_removeEdge (g : DG) (x y v : Var) :
    (removeEdge g (x, y)).parents v = if y = v then (g.parents v).filter (· != x) else g.parents v := by
  unfold removeEdge DG.parents
  rw [List.filter_filter]
  by_cases h : y = v
  · subst h
    simp only [if_true]
    rw [List.filter_map, List.filter_filter]
    congr 1
    apply List.filter_congr
    intro e _
    obtain ⟨a, b⟩ := e
    rw [Bool.eq_iff_iff]
    simp only [Function.comp, Bool.and_eq_true, bne_iff_ne, ne_eq, Prod.mk.injEq, beq_iff_eq, not_and]
    constructor
    · rintro ⟨h1, h2⟩; exact ⟨fun ha => h2 ha h1, h1⟩
    · rintro ⟨h1, h2⟩; exact ⟨h2, fun ha _ => h1 ha⟩
  · simp only [h, if_false]
    congr 1
    apply List.filter_congr
    intro e _
    obtain ⟨a, b⟩ := e
    by_cases h2 : b = v
    · subst h2
      have : ¬ (a = x ∧ b = y) := fun hh => h hh.2.symm
      simp [this]
    · simp [h2]

theorem sum_change_one (l : List Var) (hn : l.Nodup) (y : Var) (hy : y ∈ l) (f f' : Var → Rat)
    (h : ∀ v, v ≠ y → f' v = f v) : (l.map f').sum = (l.map f).sum + (f' y - f y) := by
  induction l with
  | nil => cases hy
  | cons a l ih =>
    have hn' := List.nodup_cons.mp hn
    simp only [List.map_cons, List.sum_cons]
    by_cases e : a = y
    · subst e
      have : l.map f' = l.map f := List.map_congr_left (fun v hv => h v (fun e => hn'.1 (e ▸ hv)))
      rw [this]; ring
    · have hy' : y ∈ l := by
        rcases List.mem_cons.mp hy with h1 | h1
        · exact absurd h1.symm e
        · exact h1
      rw [ih hn'.2 hy', h a e]; ring

theorem totalScore_add (s : ScoreTab) (g : DG) (hn : g.nodes.Nodup) (x y : Var) (hy : y ∈ g.nodes) :
    totalScore s (addEdge g (x, y)) = totalScore s g + deltaOf s g (.add x y) := by
  unfold totalScore deltaOf
  show ((g.nodes).map (fun v => s.local v ((addEdge g (x, y)).parents v))).sum = _
  rw [sum_change_one g.nodes hn y hy (fun v => s.local v (g.parents v))
    (fun v => s.local v ((addEdge g (x, y)).parents v))
    (fun v hv => by simp only [parents_addEdge]; rw [if_neg (fun e => hv e.symm), List.append_nil])]
  simp only [parents_addEdge, if_true]

theorem totalScore_rem (s : ScoreTab) (g : DG) (hn : g.nodes.Nodup) (x y : Var) (hy : y ∈ g.nodes) :
    totalScore s (removeEdge g (x, y)) = totalScore s g + deltaOf s g (.rem x y) := by
  unfold totalScore deltaOf
  show ((g.nodes).map (fun v => s.local v ((removeEdge g (x, y)).parents v))).sum = _
  rw [sum_change_one g.nodes hn y hy (fun v => s.local v (g.parents v))
    (fun v => s.local v ((removeEdge g (x, y)).parents v))
    (fun v hv => by simp only [parents_removeEdge]; rw [if_neg (fun e => hv e.symm)])]
  simp only [parents_removeEdge, if_true]

/-- the end points an operation refers to are nodes of the graph (and distinct for a flip) -/
def EndOk (g : DG) : HOp → Prop
  | .add _ y => y ∈ g.nodes
  | .rem _ y => y ∈ g.nodes
  | .flip x y => x ∈ g.nodes ∧ y ∈ g.nodes ∧ x ≠ y

/-- **reported delta = score(after) − score(before)** for a decomposable score, for every
    operation (the node list has no duplicates and contains the edge's end points) -/
theorem C11_delta_exact (s : ScoreTab) (g : DG) (hn : g.nodes.Nodup) (op : HOp) (hend : EndOk g op) :
    totalScore s (applyOp g op) = totalScore s g + deltaOf s g op := by
  cases op with
  | add x y => exact totalScore_add s g hn x y hend
  | rem x y => exact totalScore_rem s g hn x y hend
  | flip x y =>
    obtain ⟨hx, hy, hxy⟩ := hend
    show totalScore s (addEdge (removeEdge g (x, y)) (y, x)) = _
    have hn' : (removeEdge g (x, y)).nodes.Nodup := hn
    rw [totalScore_add s (removeEdge g (x, y)) hn' y x hx, totalScore_rem s g hn x y hy]
    unfold deltaOf
    simp only [parents_removeEdge, if_neg (fun e : y = x => hxy e.symm)]
    ring

/-- **the score never decreases** when epsilon ≥ 0: the result's total score is at least the start
    graph's, for every decomposable local score -/
theorem C11_hc_monotone (s : ScoreTab) (o : HCOpts) (heps : 0 ≤ o.eps) : ∀ (fuel : Nat) (st : HCState),
    st.g.WFG → Acyclic st.g.edges → st.g.nodes.Nodup →
    totalScore s st.g ≤ totalScore s (hcLoop s o fuel st).g
  | 0, st, _, _, _ => le_refl _
  | fuel+1, st, hw, hac, hn => by
    simp only [hcLoop]
    cases hb : bestOp (legalOps s o st.tabu st.g) with
    | none => exact le_refl _
    | some b =>
      obtain ⟨op, d⟩ := b
      simp only
      split
      · exact le_refl _
      · next hnl =>
        have hmem := (bestOp_spec _ (op, d) hb).1
        have hl := legal_of_mem s o st.tabu st.g (op, d) hmem
        obtain ⟨h1, h2, h3⟩ := C11_apply_acyclic st.g hw hac op hl
        have hd := delta_of_mem s o st.tabu st.g (op, d) hmem
        have hend : EndOk st.g op := by
          cases hl with
          | add _ hy _ _ => exact hy
          | rem hxy => exact (hw _ hxy).2
          | @flip x y hxy _ =>
            refine ⟨(hw _ hxy).1, (hw _ hxy).2, ?_⟩
            intro e; subst e
            exact hac x (Relation.TransGen.single hxy)
        have hexact := C11_delta_exact s st.g hn op hend
        have ih := C11_hc_monotone s o heps fuel
          { g := applyOp st.g op, tabu := tabuPush o.tabuLen st.tabu (tabuEntry op),
            trace := st.trace ++ [(op, d)], tie := st.tie || hasTie (legalOps s o st.tabu st.g) }
          h1 h2 (by show (applyOp st.g op).nodes.Nodup; rw [h3]; exact hn)
        have hge : 0 ≤ d := le_trans heps (not_lt.mp hnl)
        have hd' : d = deltaOf s st.g op := hd
        calc totalScore s st.g ≤ totalScore s st.g + deltaOf s st.g op := by rw [← hd']; linarith
          _ = totalScore s (applyOp st.g op) := hexact.symm
          _ ≤ _ := ih

/-! ### the in-degree bound -/

/-- what being a candidate means for the in-degree limit -/
def IndegOk (o : HCOpts) (g : DG) : HOp → Prop
  | .add _ y => o.indegOk ((g.parents y).length + 1) = true
  | .rem _ _ => True
  | .flip x _ => o.indegOk ((g.parents x).length + 1) = true

theorem indegOk_of_mem (s : ScoreTab) (o : HCOpts) (tabu : List HOp) (g : DG) (p : HOp × Rat)
    (h : p ∈ legalOps s o tabu g) : IndegOk o g p.1 := by
  unfold legalOps at h
  simp only at h
  rcases List.mem_append.mp h with h | h
  · rcases List.mem_append.mp h with h | h
    · obtain ⟨⟨x, y⟩, _, hf⟩ := List.mem_filterMap.mp h
      simp only at hf
      split at hf
      · cases hf
      · split at hf
        · cases hf
        · split at hf
          · cases hf
          · split at hf
            · next hc =>
              simp only [Option.some.injEq] at hf
              rw [← hf]
              exact hc
            · cases hf
    · obtain ⟨⟨x, y⟩, _, hf⟩ := List.mem_filterMap.mp h
      simp only at hf
      split at hf
      · cases hf
      · simp only [Option.some.injEq] at hf
        rw [← hf]
        trivial
  · obtain ⟨⟨x, y⟩, _, hf⟩ := List.mem_filterMap.mp h
    simp only at hf
    split at hf
    · cases hf
    · split at hf
      · cases hf
      · split at hf
        · next hc =>
          simp only [Option.some.injEq] at hf
          rw [← hf]
          exact hc
        · cases hf

theorem indeg_applyOp (o : HCOpts) (m : Nat) (ho : o.maxIndeg = some m) (g : DG) (op : HOp)
    (hall : ∀ v, (g.parents v).length ≤ m) (hop : IndegOk o g op) :
    ∀ v, ((applyOp g op).parents v).length ≤ m := by
  have hdec : ∀ n, o.indegOk n = true → n ≤ m := by
    intro n hn
    unfold HCOpts.indegOk at hn
    rw [ho] at hn
    simpa using hn
  intro v
  cases op with
  | add x y =>
    show ((addEdge g (x, y)).parents v).length ≤ m
    rw [parents_addEdge]
    by_cases e : y = v
    · subst e
      have := hdec _ hop
      simpa using this
    · simpa [e] using hall v
  | rem x y =>
    show ((removeEdge g (x, y)).parents v).length ≤ m
    rw [parents_removeEdge]
    split
    · exact le_trans (List.length_filter_le _ _) (hall v)
    · exact hall v
  | flip x y =>
    show ((addEdge (removeEdge g (x, y)) (y, x)).parents v).length ≤ m
    rw [parents_addEdge, parents_removeEdge]
    have hshrink : (if y = v then (g.parents v).filter (· != x) else g.parents v).length ≤ (g.parents v).length := by
      split
      · exact List.length_filter_le _ _
      · exact Nat.le_refl _
    by_cases e : x = v
    · subst e
      have := hdec _ hop
      simp only [if_true, List.length_append, List.length_singleton]
      omega
    · simp only [e, if_false, List.append_nil]
      exact le_trans hshrink (hall v)

/-- **the in-degree limit is honoured**: with `max_indegree = m`, if no node of the start graph has more than `m`
    parents then no node of any graph the search visits — in particular of the result — has more than `m` parents,
    for every score table, tabu length, epsilon and iteration bound -/
theorem C11_hc_indegree (s : ScoreTab) (o : HCOpts) (m : Nat) (ho : o.maxIndeg = some m) : ∀ (fuel : Nat) (st : HCState),
    (∀ v, (st.g.parents v).length ≤ m) → ∀ v, ((hcLoop s o fuel st).g.parents v).length ≤ m
  | 0, _, h => h
  | fuel+1, st, h => by
    simp only [hcLoop]
    cases hb : bestOp (legalOps s o st.tabu st.g) with
    | none => exact h
    | some b =>
      simp only
      split
      · exact h
      · have hmem := (bestOp_spec _ b hb).1
        exact C11_hc_indegree s o m ho fuel _
          (indeg_applyOp o m ho st.g b.1 h (indegOk_of_mem s o st.tabu st.g b hmem))

/-- non-vacuity: an in-degree limit of 1 and a start graph with one edge meet the hypotheses -/
example : ∀ v, ((DG.mk [0, 1, 2] [(0, 1)]).parents v).length ≤ 1 := by
  intro v
  unfold DG.parents
  simp only [List.filter_cons, List.filter_nil]
  split <;> simp

/-- non-vacuity: the empty start graph meets the hypotheses of `C11_hc_acyclic` -/
example : (DG.mk [0, 1, 2] []).WFG ∧ Acyclic (DG.mk [0, 1, 2] []).edges :=
  ⟨fun e he => (by cases he), acyclic_nil⟩

/-- extraction tie: the defaults of `HillClimbSearch.estimate` (epsilon 1e-4, max_iter 1e6, tabu_length 100) under which the
    black-box streams run the implementation are the ones read from the source -/
theorem C11_defaults_tie :
    Generated.hcDefaults = [("epsilon", 1, 10000), ("max_iter", 1000000, 1), ("tabu_length", 100, 1)] := by decide


theorem sum_scale (c : Rat) : ∀ es : List ((Var × Var) × Rat),
    (es.map (fun e => c * e.2)).sum = c * (es.map (·.2)).sum
  | [] => by simp
  | e :: es => by simp [sum_scale c es, mul_add]

/-- a weight function on another positive scale ranks all edge sets (hence all spanning trees) the same way: the tree stream hands
    the implementation `c * w` and the specification `w` -/
theorem C11_tree_scale_invariant (c : Rat) (hc : 0 < c) (t1 t2 : List ((Var × Var) × Rat)) :
    (t1.map (·.2)).sum ≤ (t2.map (·.2)).sum ↔
    (t1.map (fun e => c * e.2)).sum ≤ (t2.map (fun e => c * e.2)).sum := by
  rw [sum_scale, sum_scale]
  exact (mul_le_mul_iff_of_pos_left hc).symm

end PgmVerif
