/-
  Props/C08.lean — d-separation: the saturation used by the model of `active_trail_nodes`
  and `_get_ancestors_of` computes exactly the least set closed under the traversal rules.
-/
import PgmVerif.Proofs.Closure
import PgmVerif.Proofs.DSep
import PgmVerif.Proofs.DSepSym
namespace PgmVerif
open DG

theorem C08_saturate_closed {α : Type} [DecidableEq α] (next : List α → List α) (U : List α)
    (hU : ∀ S, (∀ x, x ∈ S → x ∈ U) → ∀ x, x ∈ next S → x ∈ U)
    (fuel : Nat) (S : List α) (hS : ∀ x, x ∈ S → x ∈ U) (hf : U.length ≤ fuel) :
    Closed next (saturate next fuel S) :=
  saturate_closed next U hU fuel S hS (Nat.le_trans (missing_le U S) hf)

theorem C08_saturate_sound {α : Type} [DecidableEq α] (step : α → List α) (S0 : List α) (fuel : Nat) (x : α)
    (hx : x ∈ saturate (fun T => T.flatMap step) fuel S0) : Gen step S0 x :=
  saturate_sound step S0 fuel S0 (fun _ hy => Gen.base hy) x hx

/-- the universe of traversal states of a graph -/
def DG.states (g : DG) : List St := g.nodes.flatMap (fun n => [(n, true), (n, false)])

theorem DG.mem_states (g : DG) (s : St) : s ∈ g.states ↔ s.1 ∈ g.nodes := by
  unfold DG.states
  simp only [List.mem_flatMap, List.mem_cons, List.not_mem_nil, or_false]
  constructor
  · rintro ⟨n, hn, rfl | rfl⟩ <;> exact hn
  · intro h
    refine ⟨s.1, h, ?_⟩
    rcases s with ⟨n, b⟩
    cases b <;> simp

theorem DG.states_length (g : DG) : g.states.length = 2 * g.nodes.length := by
  unfold DG.states
  induction g.nodes with
  | nil => rfl
  | cons n ns ih => simp only [List.flatMap_cons, List.length_append, ih, List.length_cons, List.length_nil]; omega

/-- **the reachability computed for `active_trail_nodes` is exactly the least set of
    (node, direction) states containing (start, up) and closed under the four traversal
    rules** — for every graph, observed set and start node -/
theorem C08_reach_exact (g : DG) (hg : g.WFG) (obs : List Var) (x : Var) (hx : x ∈ g.nodes) (s : St) :
    s ∈ g.reach obs x ↔ Gen (g.trailNext obs (g.ancestorsOf obs)) [(x, true)] s := by
  unfold DG.reach
  apply saturate_exact _ g.states
  · intro y hy
    rw [List.mem_singleton.mp hy, DG.mem_states]; exact hx
  · intro y _ z hz
    rw [DG.mem_states]
    unfold DG.trailNext at hz
    have hp : ∀ p, p ∈ g.parents y.1 → p ∈ g.nodes := fun p h => (hg _ ((g.mem_parents p y.1).mp h)).1
    have hc : ∀ c, c ∈ g.children y.1 → c ∈ g.nodes := fun c h => (hg _ ((g.mem_children y.1 c).mp h)).2
    simp only at hz
    split at hz
    · split at hz
      · cases hz
      · rcases List.mem_append.mp hz with h | h
        · obtain ⟨p, hp', rfl⟩ := List.mem_map.mp h; exact hp p hp'
        · obtain ⟨c, hc', rfl⟩ := List.mem_map.mp h; exact hc c hc'
    · rcases List.mem_append.mp hz with h | h
      · split at h
        · cases h
        · obtain ⟨c, hc', rfl⟩ := List.mem_map.mp h; exact hc c hc'
      · split at h
        · obtain ⟨p, hp', rfl⟩ := List.mem_map.mp h; exact hp p hp'
        · cases h
  · rw [DG.states_length]; omega

/-- **d-separation answers match the path-based definition.**  For an acyclic graph and an
    unobserved start node `x`: the state `(y, d)` is reached by the traversal of
    `active_trail_nodes` iff there is a trail x = n₀ — n₁ — … — n_k = y (consecutive nodes adjacent,
    nodes may repeat) on which every interior non-collider is unobserved and every interior
    collider is an ancestor-or-self of an observed node (`C08_ancestors_exact`), `d` recording the
    direction of the last edge.  `ActiveRev` is that definition on the reversed node list. -/
theorem C08_reach_iff_active_trail (g : DG) (hg : g.WFG) (hac : Acyclic g.edges) (obs : List Var)
    (x : Var) (hx : x ∈ g.nodes) (hxo : x ∉ obs) (y : Var) (d : Bool) :
    (y, d) ∈ g.reach obs x ↔
      ∃ l : List Var, l.head? = some y ∧ l.getLast? = some x ∧
        DSep.ActiveRev g obs (g.ancestorsOf obs) l ∧ DSep.ArrDir g l d := by
  rw [C08_reach_exact g hg obs x hx (y, d)]
  constructor
  · intro h
    exact gen_to_trail g hac obs (g.ancestorsOf obs) x (y, d) h
  · rintro ⟨l, hh, hl, hact, harr⟩
    exact trail_to_gen g hac obs (g.ancestorsOf obs) x hxo l y d hh hl hact harr

/-- `_get_ancestors_of(zs)` = the nodes from which some member of `zs` is reachable along
    edges (reflexive-transitive closure of "parent of"), for every graph -/
theorem C08_ancestors_exact (g : DG) (hg : g.WFG) (zs : List Var) (hz : ∀ z ∈ zs, z ∈ g.nodes) (v : Var) :
    v ∈ g.ancestorsOf zs ↔ Gen g.parents zs v := by
  unfold DG.ancestorsOf
  have h := saturate_exact g.parents g.nodes zs.eraseDups (g.nodes.length + 1)
    (fun x hx => hz x (List.mem_eraseDups.mp hx))
    (fun y _ x hx => (hg _ ((g.mem_parents x y).mp hx)).1) (by omega) v
  rw [h]
  clear h
  constructor
  · intro hgen
    induction hgen with
    | base hb => exact Gen.base (List.mem_eraseDups.mp hb)
    | step _ hxy ih => exact Gen.step ih hxy
  · intro hgen
    induction hgen with
    | base hb => exact Gen.base (List.mem_eraseDups.mpr hb)
    | step _ hxy ih => exact Gen.step ih hxy

/-- Markov blanket = parents, children and the children's other parents -/
theorem C08_blanket_spec (g : DG) (v w : Var) :
    w ∈ g.markovBlanket v ↔
      w ≠ v ∧ (w ∈ g.children v ∨ w ∈ g.parents v ∨ ∃ c ∈ g.children v, w ∈ g.parents c) := by
  unfold DG.markovBlanket
  simp only [List.mem_filter, List.mem_eraseDups, List.mem_append, List.mem_flatMap, bne_iff_ne, ne_eq]
  constructor
  · rintro ⟨(h | h) | h, hne⟩
    · exact ⟨hne, Or.inl h⟩
    · exact ⟨hne, Or.inr (Or.inl h)⟩
    · exact ⟨hne, Or.inr (Or.inr h)⟩
  · rintro ⟨hne, h | h | h⟩
    · exact ⟨Or.inl (Or.inl h), hne⟩
    · exact ⟨Or.inl (Or.inr h), hne⟩
    · exact ⟨Or.inr h, hne⟩

example : (DG.mk [0, 1, 2] [(0, 2), (1, 2)]).WFG ∧ 0 ∈ (DG.mk [0, 1, 2] [(0, 2), (1, 2)]).nodes := by
  refine ⟨?_, by decide⟩
  intro e he
  simp at he
  rcases he with rfl | rfl <;> decide

theorem dconn_one_way (g : DG) (hg : g.WFG) (hac : Acyclic g.edges) (obs : List Var)
    (x y : Var) (hx : x ∈ g.nodes) (hy : y ∈ g.nodes) (hxo : x ∉ obs) (hyo : y ∉ obs)
    (h : ∃ d, (y, d) ∈ g.reach obs x) : ∃ d, (x, d) ∈ g.reach obs y := by
  obtain ⟨d, h⟩ := h
  obtain ⟨l, hh, hl, hact, _⟩ := (C08_reach_iff_active_trail g hg hac obs x hx hxo y d).mp h
  have hne : l ≠ [] := by intro e; subst e; simp at hh
  have hrev := DSep.activeRev_reverse g obs (g.ancestorsOf obs) l hact
  obtain ⟨d', hd'⟩ := DSep.arrDir_exists g obs (g.ancestorsOf obs) l.reverse (by simpa using hne) hrev
  exact ⟨d', (C08_reach_iff_active_trail g hg hac obs y hy hyo x d').mpr
    ⟨l.reverse, by simpa [List.head?_reverse] using hl, by simpa [List.getLast?_reverse] using hh, hrev, hd'⟩⟩

/-- **d-connection is symmetric**: for unobserved nodes `x`, `y` of any DAG and any observed set, the traversal
    of `active_trail_nodes` started at `x` reaches `y` iff started at `y` it reaches `x` (an active trail
    read backwards is active, `Proofs/DSepSym.lean`) -/
theorem C08_dconnection_symmetric (g : DG) (hg : g.WFG) (hac : Acyclic g.edges) (obs : List Var)
    (x y : Var) (hx : x ∈ g.nodes) (hy : y ∈ g.nodes) (hxo : x ∉ obs) (hyo : y ∉ obs) :
    (∃ d, (y, d) ∈ g.reach obs x) ↔ (∃ d, (x, d) ∈ g.reach obs y) :=
  ⟨dconn_one_way g hg hac obs x y hx hy hxo hyo, dconn_one_way g hg hac obs y x hy hx hyo hxo⟩

end PgmVerif
