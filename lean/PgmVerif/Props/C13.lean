/-
  Props/C13.lean — interventions: do-surgery on the model and the algebra of parent adjustment.
-/
import PgmVerif.Props.C15
import PgmVerif.Props.C02
import PgmVerif.Proofs.VE
import Mathlib.Tactic.FieldSimp
import Mathlib.Algebra.Order.Field.Rat
namespace PgmVerif
open BNState

/-- **do-surgery**: `do(vs)` keeps the nodes, removes exactly the edges into `vs`, leaves the CPD
    of every other node untouched and replaces the CPD of an intervened node by the
    column-normalised sum over its parents (a parent-free table) -/
theorem C13_do_surgery (s : BNState) (vs : List Var) (hv : vs.all s.nodes.contains = true) :
    (s.step (.doOp vs)).2 = Out.ok ∧
    (s.step (.doOp vs)).1.nodes = s.nodes ∧
    (∀ e, e ∈ (s.step (.doOp vs)).1.edges ↔ e ∈ s.edges ∧ e.2 ∉ vs) ∧
    (s.step (.doOp vs)).1.cpds = s.cpds.map (fun f =>
      if vs.contains (childOf f) then CPD.marginalize f (f.scope.drop 1) else f) := by
  simp only [step, hv, if_true]
  refine ⟨trivial, trivial, ?_, trivial⟩
  intro e
  simp [List.mem_filter]

/-- interventions never create a cycle -/
theorem C13_do_acyclic (s : BNState) (vs : List Var) (h : s.Inv) : (s.step (.doOp vs)).1.Inv :=
  C15_step_inv s (.doOp vs) h

/-- **parent adjustment, algebraic core** (partial): write the joint as P(x|z)·R with R the
    product of the other CPDs (the truncated factorisation).  If P(y,x,z) = c·t, P(x,z) = c·s and
    P(z) = s — i.e. the marginal of the non-descendants Z is not changed by the intervention,
    the graph-theoretic fact this file does NOT prove — then the adjustment term
    P(y | x, z)·P(z) is exactly the truncated-factorisation term t -/
theorem C13_parents_adjustment (pyxz pxz pz c t s : Rat) (h1 : pyxz = c * t) (h2 : pxz = c * s)
    (h3 : pz = s) (hc : c ≠ 0) (hs : s ≠ 0) : pyxz / pxz * pz = t := by
  rw [h1, h2, h3]
  field_simp

/-! ### parent adjustment = truncated factorisation, for every network -/

/-- **parent adjustment is exact.**  A Bayesian network is given as  `after ++ [cx] ++ before`:
    `cx` is the CPD of the intervened variable `x`; `after` lists the CPDs of `x`'s descendants,
    children first (the hypotheses are exactly those of `C05_joint_mass_one`: normalised, a later
    entry does not mention an earlier child, no child occurs in `cx` or `before`); `before` are the
    CPDs of the non-descendants, none of which mentions `x`.  `Y` are the outcome variables, `Z` the
    adjustment set, `O` all other variables, `W` those of `Y ++ O` that are not descendants.  With
    J = joint and R = product of all CPDs except `cx` (the truncated factorisation), the adjustment
    formula  Σ_z P(y | x, z) · P(z)  equals  Σ_{z, others} R — provided `cx` mentions only `x` and `Z`
    (i.e. `Z ⊇ pa(x)`, nothing in `Y ++ O` occurs in it) and the conditionals are defined
    (P(x | z) ≠ 0, P(z) ≠ 0). -/
theorem C13_parent_adjustment_exact (K : Var → Nat) (x : Var) (cx : Factor)
    (after : List (Var × Factor)) (before : List Factor) (Y Z O W : List Var)
    (hYO : ∀ v ∈ Y ++ O, v ∉ cx.scope)
    (hxnorm : ∀ a, Bounded K a → sumVar K x cx.den a = 1)
    (hxbefore : ∀ f ∈ before, x ∉ f.scope)
    (hnorm : ∀ p ∈ after, ∀ a, Bounded K a → sumVar K p.1 p.2.den a = 1)
    (hfresh : ∀ p ∈ after, ∀ f ∈ cx :: before, p.1 ∉ f.scope)
    (htopo : after.Pairwise (fun p q => p.1 ∉ q.2.scope))
    (hperm : (Y ++ O).Perm (after.map (·.1) ++ W))
    (hc : ∀ a, Bounded K a → cx.den a ≠ 0)
    (hs : ∀ a, Bounded K a → sumOut K (Y ++ O) (jointDen (after.map (·.2) ++ before)) a ≠ 0)
    (a : Asg) (ha : Bounded K a) :
    sumOut K Z (fun b =>
        sumOut K O (fun b' => cx.den b' * jointDen (after.map (·.2) ++ before) b') b
          / sumOut K (Y ++ O) (fun b' => cx.den b' * jointDen (after.map (·.2) ++ before) b') b
          * sumOut K (x :: (Y ++ O)) (fun b' => cx.den b' * jointDen (after.map (·.2) ++ before) b') b) a
      = sumOut K (Z ++ O) (jointDen (after.map (·.2) ++ before)) a := by
  set R := jointDen (after.map (·.2) ++ before) with hR
  -- cx ignores Y, O and the descendants
  have hcYO : IndepOf cx.den (Y ++ O) := fun b v y hv => den_upd_notin cx v (hYO v hv) b y
  have hcO : IndepOf cx.den O := fun b v y hv => hcYO b v y (List.mem_append_right _ hv)
  have hcA : IndepOf cx.den (after.map (·.1)) := by
    intro b v y hv
    obtain ⟨p, hp, rfl⟩ := List.mem_map.mp hv
    exact den_upd_notin cx p.1 (hfresh p hp cx List.mem_cons_self) b y
  have e1 : ∀ b, sumOut K O (fun b' => cx.den b' * R b') b = cx.den b * sumOut K O R b :=
    fun b => sumOut_mul_const K O cx.den R hcO b
  have e2 : ∀ b, sumOut K (Y ++ O) (fun b' => cx.den b' * R b') b = cx.den b * sumOut K (Y ++ O) R b :=
    fun b => sumOut_mul_const K (Y ++ O) cx.den R hcYO b
  -- summing the descendants out of R leaves the product of the non-descendants' CPDs
  have hleaves : EqB K (sumOut K (after.map (·.1)) R) (jointDen before) := by
    intro b hb
    exact leaves_sum_out K before after hnorm
      (fun p hp f hf => hfresh p hp f (List.mem_cons_of_mem _ hf)) htopo b hb
  -- P(z) = Σ_{y, others} R : the marginal of the non-descendants is not changed by the intervention
  have e3 : EqB K (sumOut K (x :: (Y ++ O)) (fun b' => cx.den b' * R b')) (sumOut K (Y ++ O) R) := by
    intro b hb
    have p1 : (x :: (Y ++ O)).Perm (after.map (·.1) ++ x :: W) :=
      (List.Perm.cons x hperm).trans List.perm_middle.symm
    rw [sumOut_perm K p1, sumOut_perm K hperm, sumOut_append, sumOut_append]
    simp only [sumOut]
    apply sumOut_congr W _ b hb
    intro b1 hb1
    have hJ : sumOut K (after.map (·.1)) (fun b' => cx.den b' * R b')
        = fun b' => cx.den b' * sumOut K (after.map (·.1)) R b' :=
      funext (fun b' => sumOut_mul_const K _ cx.den R hcA b')
    rw [hJ]
    have hstep : EqB K (fun b' => cx.den b' * sumOut K (after.map (·.1)) R b')
        (fun b' => jointDen before b' * cx.den b') := by
      intro b2 hb2
      show cx.den b2 * sumOut K (after.map (·.1)) R b2 = jointDen before b2 * cx.den b2
      rw [hleaves b2 hb2]; ring
    rw [sumVar_congr x hstep b1 hb1,
      sumVar_mul_const K x (jointDen before) cx.den (fun b' y => jointDen_upd_notin x before hxbefore b' y) b1,
      hxnorm b1 hb1, mul_one, hleaves b1 hb1]
  -- the adjustment term is the truncated-factorisation term, pointwise
  have hpt : EqB K (fun b =>
        sumOut K O (fun b' => cx.den b' * R b') b / sumOut K (Y ++ O) (fun b' => cx.den b' * R b') b
          * sumOut K (x :: (Y ++ O)) (fun b' => cx.den b' * R b') b) (sumOut K O R) := by
    intro b hb
    show sumOut K O (fun b' => cx.den b' * R b') b / sumOut K (Y ++ O) (fun b' => cx.den b' * R b') b
          * sumOut K (x :: (Y ++ O)) (fun b' => cx.den b' * R b') b = sumOut K O R b
    rw [e1 b, e2 b, e3 b hb]
    have h1 := hc b hb
    have h2 := hs b hb
    field_simp
  rw [sumOut_congr Z hpt a ha, ← sumOut_append, sumOut_perm K (List.perm_append_comm)]

/-! non-vacuity: the network Z → X (Z = variable 0, X = variable 1), intervention on X, adjustment
    set {Z}: every hypothesis of `C13_parent_adjustment_exact` holds -/
def nvPz : Factor := Factor.mk [0] [2] #[1/2, 1/2]
def nvPxz : Factor := Factor.mk [1, 0] [2, 2] #[1/4, 3/4, 3/4, 1/4]

theorem nvPz_ne (a : Asg) (ha : Bounded (fun _ => 2) a) : nvPz.den a ≠ 0 := by
  have h0 : a 0 < 2 := ha 0
  simp only [nvPz, Factor.den, List.map, ravel]
  have : a 0 = 0 ∨ a 0 = 1 := by omega
  rcases this with e | e <;> simp [e]

theorem nvPxz_ne (a : Asg) (ha : Bounded (fun _ => 2) a) : nvPxz.den a ≠ 0 := by
  have h0 : a 0 < 2 := ha 0
  have h1 : a 1 < 2 := ha 1
  simp only [nvPxz, Factor.den, List.map, ravel]
  have : a 0 = 0 ∨ a 0 = 1 := by omega
  have : a 1 = 0 ∨ a 1 = 1 := by omega
  rcases ‹a 0 = 0 ∨ a 0 = 1› with e | e <;> rcases ‹a 1 = 0 ∨ a 1 = 1› with e' | e' <;> simp [e, e']

theorem nvPxz_norm (a : Asg) (ha : Bounded (fun _ => 2) a) : sumVar (fun _ => 2) 1 nvPxz.den a = 1 := by
  have h0 : a 0 < 2 := ha 0
  have : a 0 = 0 ∨ a 0 = 1 := by omega
  simp only [sumVar, nvPxz, Factor.den, List.map, ravel, List.range_succ, List.range_zero, Factor.upd]
  rcases this with e | e <;> simp [e, Factor.upd] <;> norm_num

example (a : Asg) (ha : Bounded (fun _ => 2) a) :
    sumOut (fun _ => 2) [0] (fun b =>
        sumOut (fun _ => 2) [] (fun b' => nvPxz.den b' * jointDen ([] ++ [nvPz]) b') b
          / sumOut (fun _ => 2) ([] ++ []) (fun b' => nvPxz.den b' * jointDen ([] ++ [nvPz]) b') b
          * sumOut (fun _ => 2) (1 :: ([] ++ [])) (fun b' => nvPxz.den b' * jointDen ([] ++ [nvPz]) b') b) a
      = sumOut (fun _ => 2) ([0] ++ []) (jointDen ([] ++ [nvPz])) a :=
  C13_parent_adjustment_exact (fun _ => 2) 1 nvPxz [] [nvPz] [] [0] [] []
    (fun v hv => by cases hv) nvPxz_norm
    (fun f hf => by rw [List.mem_singleton.mp hf]; decide)
    (fun p hp => by cases hp) (fun p hp => by cases hp) List.Pairwise.nil (List.Perm.refl _)
    nvPxz_ne
    (fun b hb => by
      show jointDen ([] ++ [nvPz]) b ≠ 0
      rw [List.nil_append, jointDen_cons, jointDen_nil, mul_one]
      exact nvPz_ne b hb)
    a ha

example : BNState.init.Inv := ⟨fun e he => (by cases he), acyclic_nil⟩


/-- **interventions compose on the graph**: `do(vs)` followed by `do(ws)` leaves the nodes and removes exactly the edges into
    `vs ++ ws` - the same graph as the single intervention on both sets, in either order; in particular `do` is idempotent on the graph -/
theorem C13_do_compose_graph (s : BNState) (vs ws : List Var)
    (hv : vs.all s.nodes.contains = true) (hw : ws.all s.nodes.contains = true) :
    ((s.step (.doOp vs)).1.step (.doOp ws)).1.nodes = s.nodes ∧
    (∀ e, e ∈ ((s.step (.doOp vs)).1.step (.doOp ws)).1.edges ↔ e ∈ (s.step (.doOp (vs ++ ws))).1.edges) ∧
    (∀ e, e ∈ ((s.step (.doOp vs)).1.step (.doOp ws)).1.edges ↔ e ∈ ((s.step (.doOp ws)).1.step (.doOp vs)).1.edges) := by
  have h1 := C13_do_surgery s vs hv
  have h1' := C13_do_surgery s ws hw
  have hw' : ws.all (s.step (.doOp vs)).1.nodes.contains = true := by rw [h1.2.1]; exact hw
  have hv' : vs.all (s.step (.doOp ws)).1.nodes.contains = true := by rw [h1'.2.1]; exact hv
  have h2 := C13_do_surgery _ ws hw'
  have h2' := C13_do_surgery _ vs hv'
  have hvw : (vs ++ ws).all s.nodes.contains = true := by
    rw [List.all_append, hv, hw]; rfl
  have h3 := C13_do_surgery s (vs ++ ws) hvw
  refine ⟨by rw [h2.2.1, h1.2.1], fun e => ?_, fun e => ?_⟩
  · rw [h2.2.2.1 e, h1.2.2.1 e, h3.2.2.1 e, List.mem_append]
    tauto
  · rw [h2.2.2.1 e, h1.2.2.1 e, h2'.2.2.1 e, h1'.2.2.1 e]
    tauto

/-- **truncated factorisation, the table side**: after `do(vs)` on a model whose CPDs are CPD-shaped (`C15_cpd_bookkeeping`:
    every reachable state), the stored CPD of every intervened variable is a table over that variable alone - its
    parents are gone from the table as `C13_do_surgery` removes them from the graph - and all other CPDs are untouched -/
theorem C13_do_cpd_parentless (s : BNState) (vs : List Var) (hv : vs.all s.nodes.contains = true) (h : s.CpdInv) :
    (∀ g ∈ (s.step (.doOp vs)).1.cpds, childOf g ∈ vs → g.scope = [childOf g]) ∧
    (∀ f ∈ s.cpds, childOf f ∉ vs → f ∈ (s.step (.doOp vs)).1.cpds) := by
  simp only [BNState.step, hv, if_true]
  refine ⟨?_, ?_⟩
  · intro g hg hc
    obtain ⟨f, hf, rfl⟩ := List.mem_map.mp hg
    have hsh := (h.2 f hf).1
    by_cases hcv : vs.contains (childOf f) = true
    · simp only [hcv, if_true] at hc ⊢
      have hnot : childOf f ∉ f.scope.drop 1 := by
        obtain ⟨hne, _, hnod⟩ := hsh
        cases hsc : f.scope with
        | nil => exact absurd hsc hne
        | cons c rest =>
          rw [hsc] at hnod
          simpa [childOf, hsc] using (List.nodup_cons.mp hnod).1
      rw [(shaped_marg f _ hsh hnot).2]
      exact C15_do_parentless f hsh
    · simp only [hcv] at hc
      exact absurd (List.contains_iff_mem.mpr hc) hcv
  · intro f hf hc
    refine List.mem_map.mpr ⟨f, hf, ?_⟩
    simp only [List.contains_iff_mem, ite_eq_right_iff]
    intro hh; exact absurd hh hc

end PgmVerif
