/-
  Props/C13.lean — interventions: do-surgery on the model and the algebra of parent adjustment.
-/
import PgmVerif.Props.C15
import Mathlib.Tactic.FieldSimp
import Mathlib.Algebra.Order.Field.Rat
namespace PgmVerif
open BNState

/-- **do-surgery**: `do(vs)` keeps the nodes, removes exactly the edges into `vs`, leaves the CPD
    of every other node untouched and replaces the CPD of an intervened node by the
    column-normalised sum over its parents (a parent-free table) -/
theorem C13_do_surgery (s : BNState) (vs : List Var) (hv : vs.all s.nodes.contains = true) :
    (s.step (.doOp vs)).2 = Out.ok ∧
    (s.step (.doOp vs)).1.nodes = s.nodes ∧
    (∀ e, e ∈ (s.step (.doOp vs)).1.edges ↔ e ∈ s.edges ∧ e.2 ∉ vs) ∧
    (s.step (.doOp vs)).1.cpds = s.cpds.map (fun f =>
      if vs.contains (childOf f) then CPD.marginalize f (f.scope.drop 1) else f) := by
  simp only [step, hv, if_true]
  refine ⟨trivial, trivial, ?_, trivial⟩
  intro e
  simp [List.mem_filter]

/-- interventions never create a cycle -/
theorem C13_do_acyclic (s : BNState) (vs : List Var) (h : s.Inv) : (s.step (.doOp vs)).1.Inv :=
  C15_step_inv s (.doOp vs) h

/-- **parent adjustment, algebraic core** (partial): write the joint as P(x|z)·R with R the
    product of the other CPDs (the truncated factorisation).  If P(y,x,z) = c·t, P(x,z) = c·s and
    P(z) = s — i.e. the marginal of the non-descendants Z is not changed by the intervention,
    the graph-theoretic fact this file does NOT prove — then the adjustment term
    P(y | x, z)·P(z) is exactly the truncated-factorisation term t -/
theorem C13_parents_adjustment (pyxz pxz pz c t s : Rat) (h1 : pyxz = c * t) (h2 : pxz = c * s)
    (h3 : pz = s) (hc : c ≠ 0) (hs : s ≠ 0) : pyxz / pxz * pz = t := by
  rw [h1, h2, h3]
  field_simp

example : BNState.init.Inv := ⟨fun e he => (by cases he), acyclic_nil⟩

end PgmVerif
