/-
  Props/C06.lean — parameter learning returns the closed-form estimates.
-/
import PgmVerif.Props.C05
import PgmVerif.Proofs.VE
import PgmVerif.Model.Learn
import Mathlib.Algebra.BigOperators.Group.List.Basic
import Mathlib.Algebra.BigOperators.Field
namespace PgmVerif
open Factor

theorem rowMatches_congr (vs : List Var) (a b : Asg) (h : ∀ v ∈ vs, a v = b v) (r : List Nat) :
    rowMatches vs a r = rowMatches vs b r := by
  unfold rowMatches
  induction vs with
  | nil => rfl
  | cons v vs ih =>
    simp only [List.all_cons]
    rw [h v List.mem_cons_self, ih (fun w hw => h w (List.mem_cons_of_mem _ hw))]

/-- the count table denotes the weighted number of rows that agree with the assignment on
    child and parents -/
theorem C06_counts_den (data : Data) (K : Var → Nat) (child : Var) (parents : List Var)
    (hn : (child :: parents).Nodup) (a : Asg) (ha : Bounded K a) :
    (countsTable data K child parents).den a = countAt data (child :: parents) a ∧
    (countsTable data K child parents).WF K := by
  unfold countsTable
  refine ⟨?_, wf_tabulate K _ _ hn⟩
  apply den_tabulateK K _ _ a ha
  intro x y hxy
  unfold countAt
  congr 1
  apply List.map_congr_left
  intro p _
  rw [rowMatches_congr _ x y hxy]

/-- counts (hence every estimate below) do not depend on the order of the rows -/
theorem C06_counts_perm (data data' : Data) (p : data.Perm data') (vs : List Var) (a : Asg) :
    countAt data vs a = countAt data' vs a := by
  unfold countAt
  exact (p.map _).sum_eq

/-- … nor on the order in which the parents are listed -/
theorem C06_counts_parent_order (data : Data) (c : Var) (ps ps' : List Var) (p : ps.Perm ps') (a : Asg) :
    countAt data (c :: ps) a = countAt data (c :: ps') a := by
  unfold countAt
  congr 1
  apply List.map_congr_left
  intro r _
  have : rowMatches (c :: ps) a r.1 = rowMatches (c :: ps') a r.1 := by
    unfold rowMatches
    simp only [List.all_cons]
    congr 1
    exact p.all_eq
  rw [this]

/-- the column total of a CPD-shaped table does not depend on the child's state -/
theorem colsum_upd (K : Var → Nat) (f : Factor) (hf : f.WF K) (c : Var) (ps : List Var)
    (hs : f.scope = c :: ps) (a : Asg) (x : Nat) :
    (columnSums f).den (upd a c x) = (columnSums f).den a := by
  apply den_upd_notin
  unfold columnSums
  rw [hs]
  simp only
  rw [scope_marginalize K f hf]
  unfold keepScope
  intro h
  have := (List.mem_filter.mp h).2
  simp at this

/-- every column of a column-normalised table with non-zero total sums to one -/
theorem C06_fitted_valid (K : Var → Nat) (f : Factor) (hf : f.WF K) (c : Var) (ps : List Var)
    (hs : f.scope = c :: ps) (a : Asg) (ha : Bounded K a)
    (hne : sumVar K c f.den a ≠ 0) :
    sumVar K c (CPD.colNormalize f).den a = 1 := by
  have hcs : ∀ b, Bounded K b → (columnSums f).den b = sumVar K c f.den b := by
    intro b hb; rw [columnSums_den K f hf c ps hs b hb]; rfl
  rw [sumVar_eq]
  have hterm : ∀ x ∈ Finset.range (K c),
      (CPD.colNormalize f).den (upd a c x) = f.den (upd a c x) / sumVar K c f.den a := by
    intro x hx
    have hb := upd_bounded ha c x (Finset.mem_range.mp hx)
    rw [(C05_col_normalize K f hf c ps hs _ hb).1]
    simp only
    have e : sumR ((List.range (K c)).map (fun y => f.den (upd (upd a c x) c y))) = sumVar K c f.den a := by
      unfold sumVar sumR
      congr 1
      apply List.map_congr_left
      intro y _
      rw [upd_upd]
    rw [e, if_neg hne]
  rw [Finset.sum_congr rfl hterm, ← Finset.sum_div, ← sumVar_eq, div_self hne]

/-- ML estimate: count / column total, uniform for a parent configuration that never occurs -/
theorem C06_mle_closed_form (K : Var → Nat) (cnt : Factor) (hf : cnt.WF K) (c : Var) (ps : List Var)
    (hs : cnt.scope = c :: ps) (a : Asg) (ha : Bounded K a) :
    (mleFrom cnt).den a =
      (if sumVar K c cnt.den a = 0 then 1 / (K c : Rat) else cnt.den a / sumVar K c cnt.den a) := by
  unfold mleFrom
  simp only
  set filled := Factor.tabulate cnt.scope cnt.card
    (fun b => if (columnSums cnt).den b = 0 then 1 else cnt.den b) with hfilled
  have hfwf : filled.WF K := by
    rw [hfilled, hf.2.1]; exact wf_tabulate K _ _ hf.1
  have hfs : filled.scope = c :: ps := by rw [hfilled]; exact hs
  have hcs : ∀ b, Bounded K b → (columnSums cnt).den b = sumVar K c cnt.den b := by
    intro b hb; rw [columnSums_den K cnt hf c ps hs b hb]; rfl
  have hfden : ∀ b, Bounded K b →
      filled.den b = if sumVar K c cnt.den b = 0 then 1 else cnt.den b := by
    intro b hb
    rw [hfilled, hf.2.1, den_tabulateK K _ _ b hb, hcs b hb]
    intro x y hxy
    have h1 : cnt.den x = cnt.den y := den_dependsOn cnt x y hxy
    have h2 : (columnSums cnt).den x = (columnSums cnt).den y := by
      apply den_dependsOn
      intro v hv
      apply hxy
      unfold columnSums at hv
      rw [hs] at hv
      simp only at hv
      rw [scope_marginalize K cnt hf] at hv
      exact (List.mem_filter.mp hv).1
    simp only [h1, h2]
  have hsum_upd : ∀ x, sumVar K c cnt.den (upd a c x) = sumVar K c cnt.den a := by
    intro x
    unfold sumVar
    congr 1
    apply List.map_congr_left
    intro y _
    rw [upd_upd]
  rw [(C05_col_normalize K filled hfwf c ps hfs a ha).1]
  simp only
  have hfill_sum : sumR ((List.range (K c)).map (fun x => filled.den (upd a c x)))
      = if sumVar K c cnt.den a = 0 then (K c : Rat) else sumVar K c cnt.den a := by
    have : sumR ((List.range (K c)).map (fun x => filled.den (upd a c x)))
        = ∑ x ∈ Finset.range (K c), filled.den (upd a c x) := list_range_sum _ _
    rw [this]
    by_cases h0 : sumVar K c cnt.den a = 0
    · rw [if_pos h0]
      rw [Finset.sum_congr rfl (fun x hx => by
        rw [hfden _ (upd_bounded ha c x (Finset.mem_range.mp hx)), hsum_upd, if_pos h0])]
      simp
    · rw [if_neg h0]
      rw [Finset.sum_congr rfl (fun x hx => by
        rw [hfden _ (upd_bounded ha c x (Finset.mem_range.mp hx)), hsum_upd, if_neg h0])]
      rw [sumVar_eq]
  rw [hfill_sum, hfden a ha]
  have hKc : (K c : Rat) ≠ 0 := by
    have := ha c
    have : 0 < K c := by omega
    exact_mod_cast this.ne'
  by_cases h0 : sumVar K c cnt.den a = 0
  · simp [h0, hKc]
  · simp [h0]

/-- Bayesian estimate: (count + pseudo-count) / (column total of both) -/
theorem C06_bayes_closed_form (K : Var → Nat) (cnt pseudo : Factor) (hc : cnt.WF K) (hp : pseudo.WF K)
    (c : Var) (ps : List Var) (hs : cnt.scope = c :: ps) (hsp : ∀ v ∈ pseudo.scope, v ∈ cnt.scope)
    (a : Asg) (ha : Bounded K a)
    (hne : sumVar K c (fun b => cnt.den b + pseudo.den b) a ≠ 0) :
    (bayesFrom cnt pseudo).den a
      = (cnt.den a + pseudo.den a) / sumVar K c (fun b => cnt.den b + pseudo.den b) a := by
  unfold bayesFrom
  have hadd := wf_add K cnt pseudo hc hp
  have hsc : (cnt.add pseudo).scope = c :: ps := by
    unfold Factor.add
    rw [scope_combine K _ cnt pseudo hc hp]
    unfold unionScope
    have : pseudo.scope.filter (fun v => !cnt.scope.contains v) = [] := by
      apply List.filter_eq_nil_iff.mpr
      intro v hv
      simp [hsp v hv]
    rw [this, List.append_nil, hs]
  rw [(C05_col_normalize K _ hadd c ps hsc a ha).1]
  simp only
  have e : sumR ((List.range (K c)).map (fun x => (cnt.add pseudo).den (upd a c x)))
      = sumVar K c (fun b => cnt.den b + pseudo.den b) a := by
    unfold sumVar sumR
    congr 1
    apply List.map_congr_left
    intro x hx
    exact den_add K cnt pseudo hc hp _ (upd_bounded ha c x (List.mem_range.mp hx))
  rw [e, if_neg hne, den_add K cnt pseudo hc hp a ha]

example : (countsTable [([0, 1], 1), ([1, 1], 1), ([0, 1], 1)] (fun _ => 2) 0 [1]).WF (fun _ => 2) :=
  (C06_counts_den _ _ 0 [1] (by decide) (fun _ => 0) (fun _ => by show 0 < 2; omega)).2


/-- every row weight multiplied by `s` -/
def scaleWeights (s : Rat) (data : Data) : Data := data.map (fun p => (p.1, s * p.2))

theorem countAt_scale (s : Rat) (vs : List Var) (a : Asg) : ∀ data : Data,
    countAt (scaleWeights s data) vs a = s * countAt data vs a
  | [] => by simp [countAt, scaleWeights]
  | p :: data => by
    have ih := countAt_scale s vs a data
    unfold countAt scaleWeights at *
    simp only [List.map_cons, List.sum_cons]
    rw [ih, mul_add]
    congr 1
    split <;> simp

/-- **a prior of zero pseudo-counts is no prior**: on every parent configuration that occurs in the data the
    Bayesian estimate with all pseudo-counts 0 is the maximum-likelihood estimate -/
theorem C06_bayes_zero_prior (K : Var → Nat) (cnt pseudo : Factor) (hc : cnt.WF K) (hp : pseudo.WF K)
    (c : Var) (ps : List Var) (hs : cnt.scope = c :: ps) (hsp : ∀ v ∈ pseudo.scope, v ∈ cnt.scope)
    (a : Asg) (ha : Bounded K a) (hz : ∀ b, Bounded K b → pseudo.den b = 0)
    (hne : sumVar K c cnt.den a ≠ 0) :
    (bayesFrom cnt pseudo).den a = (mleFrom cnt).den a := by
  have hsum : sumVar K c (fun b => cnt.den b + pseudo.den b) a = sumVar K c cnt.den a := by
    rw [sumVar_eq, sumVar_eq]
    apply Finset.sum_congr rfl
    intro x hx
    rw [hz _ (upd_bounded ha c x (Finset.mem_range.mp hx)), add_zero]
  rw [C06_bayes_closed_form K cnt pseudo hc hp c ps hs hsp a ha (by rw [hsum]; exact hne),
      C06_mle_closed_form K cnt hc c ps hs a ha, hsum, if_neg hne, hz a ha, add_zero]

/-- **row weights matter only through their ratios**: multiplying every weight by the same non-zero number (weights given on the
    scale of 1e-12, or in thousands) leaves the maximum-likelihood CPD unchanged -/
theorem C06_mle_weight_scale (data : Data) (K : Var → Nat) (child : Var) (parents : List Var)
    (hn : (child :: parents).Nodup) (s : Rat) (hs : s ≠ 0) (a : Asg) (ha : Bounded K a) :
    (mle (scaleWeights s data) K child parents).den a = (mle data K child parents).den a := by
  have h1 := C06_counts_den data K child parents hn
  have h2 := C06_counts_den (scaleWeights s data) K child parents hn
  have hden : ∀ b, Bounded K b →
      (countsTable (scaleWeights s data) K child parents).den b = s * (countsTable data K child parents).den b := by
    intro b hb
    rw [(h2 b hb).1, (h1 b hb).1, countAt_scale]
  have hsum : sumVar K child (countsTable (scaleWeights s data) K child parents).den a
      = s * sumVar K child (countsTable data K child parents).den a := by
    rw [sumVar_eq, sumVar_eq, Finset.mul_sum]
    apply Finset.sum_congr rfl
    intro x hx
    exact hden _ (upd_bounded ha child x (Finset.mem_range.mp hx))
  unfold mle
  rw [C06_mle_closed_form K _ (h2 a ha).2 child parents rfl a ha,
      C06_mle_closed_form K _ (h1 a ha).2 child parents rfl a ha, hsum, hden a ha]
  by_cases h0 : sumVar K child (countsTable data K child parents).den a = 0
  · simp [h0]
  · rw [if_neg h0, if_neg (mul_ne_zero hs h0), mul_div_mul_left _ _ hs]

end PgmVerif
