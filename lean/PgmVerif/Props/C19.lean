/-
  Props/C19.lean — the stratified contingency-table statistic, for an arbitrary cell function.
-/
import PgmVerif.Model.CITest
import PgmVerif.Model.Generated
import Mathlib.Algebra.BigOperators.Group.List.Basic
import Mathlib.Algebra.Order.Field.Rat
import Mathlib.Data.List.Perm.Basic
import Mathlib.Tactic.Ring
import Mathlib.Tactic.Linarith
namespace PgmVerif

theorem sum_map_zero' {α : Type} (l : List α) : (l.map (fun _ => (0 : Rat))).sum = 0 := by
  induction l with
  | nil => rfl
  | cons _ _ ih => simp [ih]

theorem sum_map_add' {α : Type} (l : List α) (f g : α → Rat) :
    (l.map (fun x => f x + g x)).sum = (l.map f).sum + (l.map g).sum := by
  induction l with
  | nil => simp
  | cons a l ih => simp only [List.map_cons, List.sum_cons, ih]; ring

theorem sum_swap {α β : Type} (l1 : List α) (l2 : List β) (f : α → β → Rat) :
    (l1.map (fun i => (l2.map (fun j => f i j)).sum)).sum
      = (l2.map (fun j => (l1.map (fun i => f i j)).sum)).sum := by
  induction l1 with
  | nil => simp [sum_map_zero']
  | cons a l ih =>
    simp only [List.map_cons, List.sum_cons, ih]
    rw [← sum_map_add']

/-! ### exchanging X and Y -/

theorem obs_swap (rows : List CIRow) (i j : Nat) : obs (swapXY rows) j i = obs rows i j := by
  unfold obs cnt swapXY
  rw [List.countP_map]
  congr 1
  funext r
  simp [Bool.and_comm]

theorem rowTot_swap (rows : List CIRow) (j : Nat) : rowTot (swapXY rows) j = colTot rows j := by
  unfold rowTot colTot cnt swapXY
  rw [List.countP_map]; rfl

theorem colTot_swap (rows : List CIRow) (i : Nat) : colTot (swapXY rows) i = rowTot rows i := by
  unfold rowTot colTot cnt swapXY
  rw [List.countP_map]; rfl

theorem expected_swap (rows : List CIRow) (i j : Nat) :
    expectedAt (swapXY rows) j i = expectedAt rows i j := by
  unfold expectedAt
  rw [rowTot_swap, colTot_swap]
  simp only [swapXY, List.length_map]
  ring

theorem levels_swap (k : Nat) (rows : List CIRow) :
    levelsX k (swapXY rows) = levelsY k rows ∧ levelsY k (swapXY rows) = levelsX k rows := by
  unfold levelsX levelsY
  constructor
  · congr 1; funext i; rw [rowTot_swap]
  · congr 1; funext i; rw [colTot_swap]

theorem tableStat_swap (cell : Rat → Rat → Rat) (kx ky : Nat) (rows : List CIRow) :
    tableStat cell ky kx (swapXY rows) = tableStat cell kx ky rows := by
  unfold tableStat
  simp only [(levels_swap ky rows).1, (levels_swap kx rows).2]
  rw [sum_swap]
  apply congrArg
  apply List.map_congr_left
  intro i _
  apply congrArg
  apply List.map_congr_left
  intro j _
  rw [obs_swap, expected_swap, Bool.and_comm]

theorem tableDof_swap (kx ky : Nat) (rows : List CIRow) :
    tableDof ky kx (swapXY rows) = tableDof kx ky rows := by
  unfold tableDof
  rw [(levels_swap ky rows).1, (levels_swap kx rows).2, Nat.mul_comm]

theorem filter_swap (rows : List CIRow) (s : Nat) :
    (swapXY rows).filter (fun r => r.s == s) = swapXY (rows.filter (fun r => r.s == s)) := by
  unfold swapXY
  rw [List.filter_map]
  rfl

theorem strata_swap (ks : Nat) (rows : List CIRow) :
    strata ks (swapXY rows) = (strata ks rows).map swapXY := by
  unfold strata
  have h0 : (List.range ks).map (fun s => (swapXY rows).filter (fun r => r.s == s))
      = ((List.range ks).map (fun s => rows.filter (fun r => r.s == s))).map swapXY := by
    rw [List.map_map]
    apply List.map_congr_left
    intro s _
    exact filter_swap rows s
  rw [h0, List.filter_map]
  have h1 : ((fun l : List CIRow => !l.isEmpty) ∘ swapXY) = (fun l : List CIRow => !l.isEmpty) := by
    funext l; simp [swapXY]
  rw [h1]

/-- **symmetry in X and Y**: statistic and degrees of freedom do not change when the roles of the
    two tested variables are exchanged — for every cell function, i.e. every λ -/
theorem C19_symmetric (cell : Rat → Rat → Rat) (kx ky ks : Nat) (rows : List CIRow) :
    stratified cell ky kx ks (swapXY rows) = stratified cell kx ky ks rows := by
  unfold stratified
  simp only [strata_swap, List.map_map]
  congr 1
  · congr 1
    apply List.map_congr_left
    intro s _
    exact tableStat_swap cell kx ky s
  · congr 1
    apply List.map_congr_left
    intro s _
    exact tableDof_swap kx ky s

/-! ### row order -/

theorem tableStat_perm (cell : Rat → Rat → Rat) (kx ky : Nat) (r1 r2 : List CIRow) (p : r1.Perm r2) :
    tableStat cell kx ky r1 = tableStat cell kx ky r2 ∧ tableDof kx ky r1 = tableDof kx ky r2 := by
  have ho : ∀ i j, obs r1 i j = obs r2 i j := fun i j => p.countP_eq _
  have hr : ∀ i, rowTot r1 i = rowTot r2 i := fun i => p.countP_eq _
  have hc : ∀ j, colTot r1 j = colTot r2 j := fun j => p.countP_eq _
  have hx : levelsX kx r1 = levelsX kx r2 := by unfold levelsX; congr 1; funext i; rw [hr]
  have hy : levelsY ky r1 = levelsY ky r2 := by unfold levelsY; congr 1; funext j; rw [hc]
  have he : ∀ i j, expectedAt r1 i j = expectedAt r2 i j := by
    intro i j; unfold expectedAt; rw [hr, hc, p.length_eq]
  constructor
  · unfold tableStat
    simp only [hx, hy, ho, he]
  · unfold tableDof; rw [hx, hy]

/-- **row order is irrelevant**: any permutation of the data rows gives the same statistic and the
    same degrees of freedom -/
theorem C19_row_perm (cell : Rat → Rat → Rat) (kx ky ks : Nat) (r1 r2 : List CIRow) (p : r1.Perm r2) :
    stratified cell kx ky ks r1 = stratified cell kx ky ks r2 := by
  have hs : ∀ s : Nat, (r1.filter (fun r => r.s == s)).Perm (r2.filter (fun r => r.s == s)) :=
    fun s => p.filter _
  -- the lists of strata have pairwise permuted members and the same emptiness pattern
  have key : ∀ (l : List Nat),
      (((l.map (fun s => r1.filter (fun r => r.s == s))).filter (fun l => !l.isEmpty)).map (tableStat cell kx ky)
        = ((l.map (fun s => r2.filter (fun r => r.s == s))).filter (fun l => !l.isEmpty)).map (tableStat cell kx ky)) ∧
      (((l.map (fun s => r1.filter (fun r => r.s == s))).filter (fun l => !l.isEmpty)).map (tableDof kx ky)
        = ((l.map (fun s => r2.filter (fun r => r.s == s))).filter (fun l => !l.isEmpty)).map (tableDof kx ky)) := by
    intro l
    induction l with
    | nil => exact ⟨rfl, rfl⟩
    | cons s l ih =>
      have hp := hs s
      have hemp : (r1.filter (fun r => r.s == s)).isEmpty = (r2.filter (fun r => r.s == s)).isEmpty := by
        have := hp.length_eq
        cases h1 : r1.filter (fun r => r.s == s) <;> cases h2 : r2.filter (fun r => r.s == s) <;> simp_all
      have ht := tableStat_perm cell kx ky _ _ hp
      simp only [List.map_cons, List.filter_cons, hemp]
      split
      · simp only [List.map_cons, ht.1, ht.2, ih.1, ih.2]
        exact ⟨trivial, trivial⟩
      · exact ih
  unfold stratified strata
  simp only [(key (List.range ks)).1, (key (List.range ks)).2]

/-! ### exactly independent tables -/

theorem yates_self (e : Rat) : yates e e = e := by
  unfold yates
  simp

/-- **zero on independence**: if every observed count equals its expected count in every stratum
    and the cell function vanishes on the diagonal (true for the whole power-divergence
    family), the statistic is zero -/
theorem C19_zero_on_independent (cell : Rat → Rat → Rat) (hcell : ∀ e, cell e e = 0) (kx ky ks : Nat)
    (rows : List CIRow)
    (hind : ∀ s ∈ strata ks rows, ∀ i j, ((obs s i j : Nat) : Rat) = expectedAt s i j) :
    (stratified cell kx ky ks rows).1 = 0 := by
  unfold stratified
  simp only
  have : (strata ks rows).map (tableStat cell kx ky) = (strata ks rows).map (fun _ => (0 : Rat)) := by
    apply List.map_congr_left
    intro s hs
    unfold tableStat
    simp only
    have hz : ∀ i j, cell (if ((levelsX kx s).length == 2 && (levelsY ky s).length == 2) = true
        then yates ((obs s i j : Nat) : Rat) (expectedAt s i j) else ((obs s i j : Nat) : Rat)) (expectedAt s i j) = 0 := by
      intro i j
      rw [hind s hs i j, yates_self]
      simp [hcell]
    simp only [hz, sum_map_zero']
  rw [this, sum_map_zero']

/-! ### sign of the Pearson statistic -/

theorem list_sum_nonneg' : ∀ (l : List Rat), (∀ x ∈ l, 0 ≤ x) → 0 ≤ l.sum
  | [], _ => by simp
  | x :: xs, h => by
    rw [List.sum_cons]
    exact add_nonneg (h x List.mem_cons_self) (list_sum_nonneg' xs (fun y hy => h y (List.mem_cons_of_mem _ hy)))

theorem expectedAt_nonneg (rows : List CIRow) (i j : Nat) : 0 ≤ expectedAt rows i j := by
  unfold expectedAt
  apply div_nonneg
  · apply mul_nonneg <;> exact_mod_cast Nat.zero_le _
  · exact_mod_cast Nat.zero_le _

/-- one Pearson cell: (O − E)² / E is non-negative for a non-negative expected count, and vanishes for E > 0 exactly when O = E -/
theorem C19_pearson_cell (o e : Rat) (he : 0 ≤ e) :
    0 ≤ cellPearson o e ∧ (0 < e → (cellPearson o e = 0 ↔ o = e)) := by
  unfold cellPearson
  refine ⟨div_nonneg (mul_self_nonneg _) he, fun hpos => ?_⟩
  constructor
  · intro h
    have hne : e ≠ 0 := ne_of_gt hpos
    have : (o - e) * (o - e) = 0 := by
      rcases div_eq_zero_iff.mp h with h' | h'
      · exact h'
      · exact absurd h' hne
    have : o - e = 0 := by
      rcases mul_eq_zero.mp this with h' | h' <;> exact h'
    linarith
  · intro h
    rw [h]
    simp

/-- **the Pearson chi-square statistic is never negative**: for every data set, every number of strata and with or without Yates'
    correction (the correction only changes the observed value that enters the cell) -/
theorem C19_pearson_stat_nonneg (kx ky ks : Nat) (rows : List CIRow) :
    0 ≤ (stratified cellPearson kx ky ks rows).1 := by
  unfold stratified
  simp only
  apply list_sum_nonneg'
  intro x hx
  obtain ⟨s, _, rfl⟩ := List.mem_map.mp hx
  unfold tableStat
  simp only
  apply list_sum_nonneg'
  intro y hy
  obtain ⟨i, _, rfl⟩ := List.mem_map.mp hy
  apply list_sum_nonneg'
  intro z hz
  obtain ⟨j, _, rfl⟩ := List.mem_map.mp hz
  exact (C19_pearson_cell _ _ (expectedAt_nonneg s i j)).1

/-- **Yates' correction moves the observed count towards the expected one and never past it** (so a corrected
    Pearson cell is never larger than the uncorrected one, and a table with O = E stays at statistic 0) -/
theorem C19_yates_between (o e : Rat) :
    (o ≤ e → o ≤ yates o e ∧ yates o e ≤ e) ∧ (e ≤ o → e ≤ yates o e ∧ yates o e ≤ o) := by
  unfold yates
  simp only
  constructor <;> intro h <;> split_ifs <;> constructor <;> linarith

/-- extraction tie: the named wrappers hand the documented λ to the power-divergence test -/
theorem C19_lambda_tie : Generated.ciLambdaTable =
    [("chi_square", "pearson"), ("g_sq", "log-likelihood"), ("log_likelihood", "log-likelihood"),
     ("modified_log_likelihood", "mod-log-likelihood")] := by decide

example : cellPearson 3 3 = 0 ∧ cellNeyman 3 3 = 0 := by
  constructor <;> simp [cellPearson, cellNeyman]

end PgmVerif
