/-
  Props/C02.lean — belief propagation on a clique tree.
  The clique-tree measure is an invariant of EVERY belief-update message (hence of every
  schedule and iteration order); for two cliques calibration gives the exact marginals.
-/
import PgmVerif.Proofs.SumProd
import PgmVerif.Model.JTree
import Mathlib.Tactic.FieldSimp
import Mathlib.Tactic.LinearCombination
namespace PgmVerif
open Factor

/-- **measure invariant**, pointwise at any assignment: if  β_i · β_j · (other beliefs) =
    μ · (other sepsets) · F  before the message i → j, then after  β_j ← β_j·σ/μ, μ ← σ  the same
    identity holds with the new values (μ ≠ 0 at this assignment; where μ = 0 the code keeps
    0/0 = 0 and the support condition σ = 0 makes both sides vanish, second part) -/
theorem C02_update_preserves_measure (bi bj mu sigma restB restM F : Rat)
    (hinv : bi * bj * restB = mu * restM * F) :
    (mu ≠ 0 → bi * (bj * (sigma / mu)) * restB = sigma * restM * F) ∧
    (mu = 0 → sigma = 0 → bi * (bj * 0) * restB = sigma * restM * F) := by
  constructor
  · intro hmu
    field_simp
    linear_combination sigma * hinv
  · intro _ hs
    rw [hs]; ring

/-- **a calibrated tree is a fixed point of message passing, and a message sent twice counts once**: when the sender's
    marginal σ already equals the sepset belief μ, the update β_j ← β_j·σ/μ changes nothing (where μ = 0 the code's
    0/0 = 0 meets β_j = 0, the support condition); hence right after a message i → j (μ is now σ) a second copy of it
    multiplies β_j by σ/σ = 1 - the result of calibration does not depend on how often the schedule repeats an edge -/
theorem C02_calibrated_fixed_point (bj mu sigma : Rat) :
    (sigma = mu → mu ≠ 0 → bj * (sigma / mu) = bj) ∧
    (sigma = mu → mu = 0 → bj = 0 → bj * 0 = bj) ∧
    (sigma ≠ 0 → (bj * (sigma / mu)) * (sigma / sigma) = bj * (sigma / mu)) := by
  refine ⟨?_, ?_, ?_⟩
  · intro h hne
    rw [h, div_self hne, mul_one]
  · intro _ _ hb
    rw [hb, zero_mul]
  · intro hs
    rw [div_self hs, mul_one]

/-- `g` ignores the variables of `vs` -/
def IndepOf (g : Asg → Rat) (vs : List Var) : Prop := ∀ a v x, v ∈ vs → g (upd a v x) = g a

theorem sumOut_mul_const (K : Var → Nat) : ∀ (vs : List Var) (c g : Asg → Rat), IndepOf c vs →
    ∀ a, sumOut K vs (fun b => c b * g b) a = c a * sumOut K vs g a
  | [], _, _, _, _ => rfl
  | v :: vs, c, g, hc, a => by
    simp only [sumOut]
    have h1 : sumVar K v (fun b => c b * g b) = fun b => c b * sumVar K v g b := by
      funext b
      exact sumVar_mul_const K v c g (fun a' x => hc a' v x List.mem_cons_self) b
    rw [h1]
    exact sumOut_mul_const K vs c (sumVar K v g)
      (fun a' w x hw => hc a' w x (List.mem_cons_of_mem _ hw)) a

/-- after a message the receiver agrees with the (new) sepset belief, provided it agreed with
    the old one: Σ_{C_j∖S} β_j·σ/μ = σ -/
theorem C02_sepset_agreement_after_update (K : Var → Nat) (onlyJ : List Var) (bj mu sigma : Asg → Rat)
    (hmu : IndepOf mu onlyJ) (hsig : IndepOf sigma onlyJ)
    (hagree : ∀ a, sumOut K onlyJ bj a = mu a) (a : Asg) (hne : mu a ≠ 0) :
    sumOut K onlyJ (fun b => bj b * (sigma b / mu b)) a = sigma a := by
  have hc : IndepOf (fun b => sigma b / mu b) onlyJ := by
    intro a' v x hv
    simp only [hmu a' v x hv, hsig a' v x hv]
  have : (fun b => bj b * (sigma b / mu b)) = fun b => (sigma b / mu b) * bj b := by
    funext b; ring
  rw [this, sumOut_mul_const K onlyJ _ bj hc a, hagree a]
  field_simp

/-- **two cliques**: if the measure invariant holds (F = β₁β₂/μ) and the tree is calibrated
    (Σ_{C₂∖S} β₂ = μ), then β₁ is exactly the marginal of F over its clique -/
theorem C02_two_clique_exact (K : Var → Nat) (only2 : List Var) (b1 b2 mu F : Asg → Rat)
    (h1 : IndepOf b1 only2) (hmu : IndepOf mu only2)
    (hcal : ∀ a, sumOut K only2 b2 a = mu a)
    (hF : ∀ a, F a = b1 a * b2 a / mu a) (a : Asg) (hne : mu a ≠ 0) :
    sumOut K only2 F a = b1 a := by
  have hc : IndepOf (fun b => b1 b / mu b) only2 := by
    intro a' v x hv
    simp only [h1 a' v x hv, hmu a' v x hv]
  have : F = fun b => (b1 b / mu b) * b2 b := by
    funext b; rw [hF b]; ring
  rw [this, sumOut_mul_const K only2 _ b2 hc a, hcal a]
  field_simp

example : (2 : Rat) * 3 * 5 = 6 * 1 * 5 := by norm_num

/-! ### General trees: a calibrated clique tree carries the exact marginals

A rooted clique tree is given in a leaf-peeling order: `L = [cₙ, …, c₁]`, where `cᵢ` is a leaf of
the tree that remains after `cₙ … cᵢ₊₁` have been removed; `cᵢ.β` is its belief, `cᵢ.μ` the
sepset belief on its edge towards the rest and `cᵢ.priv = Cᵢ ∖ Sᵢ` its private variables (by the
running-intersection property they occur in no remaining clique or sepset).  Every tree with
the running-intersection property has such an order towards any chosen root `b0`. -/

structure Leaf where
  β : Asg → Rat
  μ : Asg → Rat
  priv : List Var

/-- the clique-tree measure  β₀ · ∏ᵢ βᵢ / μᵢ -/
def treeMeasure (b0 : Asg → Rat) : List Leaf → Asg → Rat
  | [] => b0
  | c :: rest => fun a => treeMeasure b0 rest a * (c.β a / c.μ a)

/-- leaf-peeling order + running intersection + calibration + positivity of the sepset beliefs -/
def Peelable (K : Var → Nat) (b0 : Asg → Rat) : List Leaf → Prop
  | [] => True
  | c :: rest =>
      IndepOf b0 c.priv ∧ (∀ d ∈ rest, IndepOf d.β c.priv ∧ IndepOf d.μ c.priv) ∧
      IndepOf c.μ c.priv ∧ (∀ a, sumOut K c.priv c.β a = c.μ a) ∧ (∀ a, c.μ a ≠ 0) ∧
      Peelable K b0 rest

theorem treeMeasure_indep (b0 : Asg → Rat) (vs : List Var) : ∀ (L : List Leaf), IndepOf b0 vs →
    (∀ d ∈ L, IndepOf d.β vs ∧ IndepOf d.μ vs) → IndepOf (treeMeasure b0 L) vs
  | [], h0, _ => h0
  | c :: rest, h0, hL => by
    intro a v x hv
    have ih := treeMeasure_indep b0 vs rest h0 (fun d hd => hL d (List.mem_cons_of_mem _ hd))
    have hc := hL c List.mem_cons_self
    simp only [treeMeasure, ih a v x hv, hc.1 a v x hv, hc.2 a v x hv]

/-- **calibrated tree ⇒ exact marginal** (Koller–Friedman Thm 10.4 / Lauritzen–Spiegelhalter): summing the
    clique-tree measure over every variable outside the root clique returns the root belief.  Since any
    clique can be taken as the root and the measure is invariant under every message
    (`C02_update_preserves_measure`), after calibration *every* clique belief is the marginal of the
    original factor product. -/
theorem C02_calibrated_tree_exact (K : Var → Nat) (b0 : Asg → Rat) : ∀ (L : List Leaf), Peelable K b0 L →
    sumOut K (L.flatMap Leaf.priv) (treeMeasure b0 L) = b0
  | [], _ => rfl
  | c :: rest, ⟨h0, hrest, hmu, hcal, hne, hP⟩ => by
    have hM : IndepOf (treeMeasure b0 rest) c.priv := treeMeasure_indep b0 c.priv rest h0 hrest
    have hinv : IndepOf (fun b => 1 / c.μ b) c.priv := by
      intro a v x hv; simp only [hmu a v x hv]
    have step : sumOut K c.priv (treeMeasure b0 (c :: rest)) = treeMeasure b0 rest := by
      funext a
      have e1 : treeMeasure b0 (c :: rest) = fun b => treeMeasure b0 rest b * ((fun b => c.β b / c.μ b) b) := rfl
      rw [e1, sumOut_mul_const K c.priv _ _ hM a]
      have e2 : (fun b => c.β b / c.μ b) = fun b => (1 / c.μ b) * c.β b := by funext b; ring
      rw [e2, sumOut_mul_const K c.priv _ _ hinv a, hcal a]
      have := hne a
      field_simp
    rw [List.flatMap_cons, sumOut_append, step]
    exact C02_calibrated_tree_exact K b0 rest hP

/-- with the measure invariant: if the tree measure equals the product `F` of the model's factors on every
    assignment, the root belief is the exact marginal of `F` -/
theorem C02_calibrated_tree_marginal (K : Var → Nat) (b0 F : Asg → Rat) (L : List Leaf) (hP : Peelable K b0 L)
    (hF : ∀ a, F a = treeMeasure b0 L a) : sumOut K (L.flatMap Leaf.priv) F = b0 := by
  have : F = treeMeasure b0 L := funext hF
  rw [this]; exact C02_calibrated_tree_exact K b0 L hP

/-- non-vacuity: a root with one calibrated leaf over a private binary variable -/
example : Peelable (fun _ => 2) (fun _ => 1)
    [{ β := fun a => if a 1 = 0 then 1/4 else 3/4, μ := fun _ => 1, priv := [1] }] := by
  refine ⟨fun _ _ _ _ => rfl, (fun d hd => by cases hd), fun _ _ _ _ => rfl, ?_, (fun _ => by norm_num), trivial⟩
  intro a
  simp [sumOut, sumVar, upd, List.range_succ]
  norm_num

/-! ### max-product: the max-calibrated tree (max_calibrate / MAP by belief propagation) -/

/-- max_{x < K v} g(a[v := x]) -/
def maxVar (K : Var → Nat) (v : Var) (g : Asg → Rat) : Asg → Rat :=
  fun a => maxR ((List.range (K v)).map (fun x => g (upd a v x)))

/-- maximise over the variables of the list, first one innermost -/
def maxOut (K : Var → Nat) : List Var → (Asg → Rat) → (Asg → Rat)
  | [], g => g
  | v :: vs, g => maxOut K vs (maxVar K v g)

theorem maxOut_append (K : Var → Nat) : ∀ (l l' : List Var) (g : Asg → Rat),
    maxOut K (l ++ l') g = maxOut K l' (maxOut K l g)
  | [], _, _ => rfl
  | v :: l, l', g => by simp only [List.cons_append, maxOut]; exact maxOut_append K l l' _

/-- a non-negative constant factors out of a maximum over a non-empty list -/
theorem maxR_map_mul_left {ι : Type} (l : List ι) (hl : l ≠ []) (c : Rat) (hc : 0 ≤ c) (f : ι → Rat) :
    maxR (l.map (fun y => c * f y)) = c * maxR (l.map f) := by
  have hne1 : l.map (fun y => c * f y) ≠ [] := by simpa using hl
  have hne2 : l.map f ≠ [] := by simpa using hl
  apply le_antisymm
  · obtain ⟨y0, _, hy0⟩ := List.mem_map.mp (maxR_mem _ hne1)
    rw [← hy0]
    exact mul_le_mul_of_nonneg_left (maxR_ge _ _ (List.mem_map.mpr ⟨y0, ‹_›, rfl⟩)) hc
  · obtain ⟨y1, hy1m, hy1⟩ := List.mem_map.mp (maxR_mem _ hne2)
    rw [← hy1]
    exact maxR_ge _ _ (List.mem_map.mpr ⟨y1, hy1m, rfl⟩)

theorem maxVar_mul_const (K : Var → Nat) (v : Var) (hK : 0 < K v) (c g : Asg → Rat)
    (hc : ∀ a x, c (upd a v x) = c a) (a : Asg) (hca : 0 ≤ c a) :
    maxVar K v (fun b => c b * g b) a = c a * maxVar K v g a := by
  unfold maxVar
  have : (List.range (K v)).map (fun x => c (upd a v x) * g (upd a v x))
      = (List.range (K v)).map (fun x => c a * g (upd a v x)) := by
    apply List.map_congr_left; intro x _; rw [hc]
  rw [this]
  exact maxR_map_mul_left _ (by simp; omega) (c a) hca _

theorem maxOut_mul_const (K : Var → Nat) : ∀ (vs : List Var) (c g : Asg → Rat), (∀ v ∈ vs, 0 < K v) →
    IndepOf c vs → (∀ a, 0 ≤ c a) → ∀ a, maxOut K vs (fun b => c b * g b) a = c a * maxOut K vs g a
  | [], _, _, _, _, _, _ => rfl
  | v :: vs, c, g, hK, hc, hpos, a => by
    simp only [maxOut]
    have h1 : maxVar K v (fun b => c b * g b) = fun b => c b * maxVar K v g b := by
      funext b
      exact maxVar_mul_const K v (hK v List.mem_cons_self) c g (fun a' x => hc a' v x List.mem_cons_self) b (hpos b)
    rw [h1]
    exact maxOut_mul_const K vs c (maxVar K v g) (fun w hw => hK w (List.mem_cons_of_mem _ hw))
      (fun a' w x hw => hc a' w x (List.mem_cons_of_mem _ hw)) hpos a

theorem treeMeasure_nonneg (b0 : Asg → Rat) (h0 : ∀ a, 0 ≤ b0 a) : ∀ (L : List Leaf),
    (∀ d ∈ L, ∀ a, 0 ≤ d.β a ∧ 0 < d.μ a) → ∀ a, 0 ≤ treeMeasure b0 L a
  | [], _, a => h0 a
  | c :: rest, hL, a => by
    simp only [treeMeasure]
    have ih := treeMeasure_nonneg b0 h0 rest (fun d hd => hL d (List.mem_cons_of_mem _ hd)) a
    obtain ⟨hb, hm⟩ := hL c List.mem_cons_self a
    exact mul_nonneg ih (div_nonneg hb (le_of_lt hm))

/-- leaf-peeling order + running intersection + MAX-calibration, non-negative beliefs, positive sepsets -/
def MaxPeelable (K : Var → Nat) (b0 : Asg → Rat) : List Leaf → Prop
  | [] => True
  | c :: rest =>
      IndepOf b0 c.priv ∧ (∀ d ∈ rest, IndepOf d.β c.priv ∧ IndepOf d.μ c.priv) ∧
      IndepOf c.μ c.priv ∧ (∀ a, maxOut K c.priv c.β a = c.μ a) ∧ (∀ v ∈ c.priv, 0 < K v) ∧
      MaxPeelable K b0 rest

/-- **max-calibrated tree ⇒ exact max-marginal**: maximising the clique-tree measure over every variable
    outside the root clique returns the root belief (the max-product analogue of
    `C02_calibrated_tree_exact`; what `max_calibrate` / `map_query` by belief propagation rely on) -/
theorem C02_max_calibrated_tree_exact (K : Var → Nat) (b0 : Asg → Rat) (h0 : ∀ a, 0 ≤ b0 a) : ∀ (L : List Leaf),
    (∀ d ∈ L, ∀ a, 0 ≤ d.β a ∧ 0 < d.μ a) → MaxPeelable K b0 L →
    maxOut K (L.flatMap Leaf.priv) (treeMeasure b0 L) = b0
  | [], _, _ => rfl
  | c :: rest, hL, ⟨hb0, hrest, hmu, hcal, hK, hP⟩ => by
    have hLr : ∀ d ∈ rest, ∀ a, 0 ≤ d.β a ∧ 0 < d.μ a := fun d hd => hL d (List.mem_cons_of_mem _ hd)
    have hM : IndepOf (treeMeasure b0 rest) c.priv := treeMeasure_indep b0 c.priv rest hb0 hrest
    have hMpos := treeMeasure_nonneg b0 h0 rest hLr
    have hc := hL c List.mem_cons_self
    have hinv : IndepOf (fun b => 1 / c.μ b) c.priv := by
      intro a v x hv; simp only [hmu a v x hv]
    have hinvpos : ∀ a, 0 ≤ 1 / c.μ a := fun a => le_of_lt (one_div_pos.mpr (hc a).2)
    have step : maxOut K c.priv (treeMeasure b0 (c :: rest)) = treeMeasure b0 rest := by
      funext a
      have e1 : treeMeasure b0 (c :: rest) = fun b => treeMeasure b0 rest b * ((fun b => c.β b / c.μ b) b) := rfl
      rw [e1, maxOut_mul_const K c.priv _ _ hK hM hMpos a]
      have e2 : (fun b => c.β b / c.μ b) = fun b => (1 / c.μ b) * c.β b := by funext b; ring
      rw [e2, maxOut_mul_const K c.priv _ _ hK hinv hinvpos a, hcal a]
      have := ne_of_gt (hc a).2
      field_simp
    rw [List.flatMap_cons, maxOut_append, step]
    exact C02_max_calibrated_tree_exact K b0 h0 rest hLr hP


end PgmVerif
