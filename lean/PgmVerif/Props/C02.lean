/-
  Props/C02.lean — belief propagation on a clique tree.
  The clique-tree measure is an invariant of EVERY belief-update message (hence of every
  schedule and iteration order); for two cliques calibration gives the exact marginals.
-/
import PgmVerif.Proofs.SumProd
import PgmVerif.Model.JTree
import Mathlib.Tactic.FieldSimp
import Mathlib.Tactic.LinearCombination
namespace PgmVerif
open Factor

/-- **measure invariant**, pointwise at any assignment: if  β_i · β_j · (other beliefs) =
    μ · (other sepsets) · F  before the message i → j, then after  β_j ← β_j·σ/μ, μ ← σ  the same
    identity holds with the new values (μ ≠ 0 at this assignment; where μ = 0 the code keeps
    0/0 = 0 and the support condition σ = 0 makes both sides vanish, second part) -/
theorem C02_update_preserves_measure (bi bj mu sigma restB restM F : Rat)
    (hinv : bi * bj * restB = mu * restM * F) :
    (mu ≠ 0 → bi * (bj * (sigma / mu)) * restB = sigma * restM * F) ∧
    (mu = 0 → sigma = 0 → bi * (bj * 0) * restB = sigma * restM * F) := by
  constructor
  · intro hmu
    field_simp
    linear_combination sigma * hinv
  · intro _ hs
    rw [hs]; ring

/-- `g` ignores the variables of `vs` -/
def IndepOf (g : Asg → Rat) (vs : List Var) : Prop := ∀ a v x, v ∈ vs → g (upd a v x) = g a

theorem sumOut_mul_const (K : Var → Nat) : ∀ (vs : List Var) (c g : Asg → Rat), IndepOf c vs →
    ∀ a, sumOut K vs (fun b => c b * g b) a = c a * sumOut K vs g a
  | [], _, _, _, _ => rfl
  | v :: vs, c, g, hc, a => by
    simp only [sumOut]
    have h1 : sumVar K v (fun b => c b * g b) = fun b => c b * sumVar K v g b := by
      funext b
      exact sumVar_mul_const K v c g (fun a' x => hc a' v x List.mem_cons_self) b
    rw [h1]
    exact sumOut_mul_const K vs c (sumVar K v g)
      (fun a' w x hw => hc a' w x (List.mem_cons_of_mem _ hw)) a

/-- after a message the receiver agrees with the (new) sepset belief, provided it agreed with
    the old one: Σ_{C_j∖S} β_j·σ/μ = σ -/
theorem C02_sepset_agreement_after_update (K : Var → Nat) (onlyJ : List Var) (bj mu sigma : Asg → Rat)
    (hmu : IndepOf mu onlyJ) (hsig : IndepOf sigma onlyJ)
    (hagree : ∀ a, sumOut K onlyJ bj a = mu a) (a : Asg) (hne : mu a ≠ 0) :
    sumOut K onlyJ (fun b => bj b * (sigma b / mu b)) a = sigma a := by
  have hc : IndepOf (fun b => sigma b / mu b) onlyJ := by
    intro a' v x hv
    simp only [hmu a' v x hv, hsig a' v x hv]
  have : (fun b => bj b * (sigma b / mu b)) = fun b => (sigma b / mu b) * bj b := by
    funext b; ring
  rw [this, sumOut_mul_const K onlyJ _ bj hc a, hagree a]
  field_simp

/-- **two cliques**: if the measure invariant holds (F = β₁β₂/μ) and the tree is calibrated
    (Σ_{C₂∖S} β₂ = μ), then β₁ is exactly the marginal of F over its clique -/
theorem C02_two_clique_exact (K : Var → Nat) (only2 : List Var) (b1 b2 mu F : Asg → Rat)
    (h1 : IndepOf b1 only2) (hmu : IndepOf mu only2)
    (hcal : ∀ a, sumOut K only2 b2 a = mu a)
    (hF : ∀ a, F a = b1 a * b2 a / mu a) (a : Asg) (hne : mu a ≠ 0) :
    sumOut K only2 F a = b1 a := by
  have hc : IndepOf (fun b => b1 b / mu b) only2 := by
    intro a' v x hv
    simp only [h1 a' v x hv, hmu a' v x hv]
  have : F = fun b => (b1 b / mu b) * b2 b := by
    funext b; rw [hF b]; ring
  rw [this, sumOut_mul_const K only2 _ b2 hc a, hcal a]
  field_simp

example : (2 : Rat) * 3 * 5 = 6 * 1 * 5 := by norm_num

end PgmVerif
