/-
  Props/C15.lean — a Bayesian network stays acyclic under ANY history of editing operations,
  and a rejected operation leaves it unchanged.
-/
import PgmVerif.Proofs.Acyclic
import PgmVerif.Model.History
namespace PgmVerif
open Relation BNState

/-- structural invariant: edges stay inside the node set and there is no directed cycle -/
def BNState.Inv (s : BNState) : Prop := s.graph.WFG ∧ Acyclic s.edges

theorem mem_addIfAbsent (l : List Var) (v w : Var) : w ∈ addIfAbsent l v ↔ w ∈ l ∨ w = v := by
  unfold addIfAbsent
  split
  · next h =>
    have hv : v ∈ l := by simpa using h
    constructor
    · exact Or.inl
    · rintro (h | h)
      · exact h
      · exact h ▸ hv
  · simp

theorem gen_eraseDups (step : Var → List Var) (S0 : List Var) (x : Var) (h : Gen step S0 x) :
    Gen step S0.eraseDups x := by
  induction h with
  | base hb => exact Gen.base (List.mem_eraseDups.mpr hb)
  | step _ hxy ih => exact Gen.step ih hxy

/-- `has_path` finds every path between two nodes of the graph -/
theorem hasPath_complete (s : BNState) (hw : s.graph.WFG) (v u : Var) (hv : v ∈ s.nodes)
    (h : ReflTransGen (Rel s.edges) v u) : s.hasPath v u = true := by
  unfold hasPath DG.descendantsOf
  have hex := saturate_exact s.graph.children s.graph.nodes [v].eraseDups (s.graph.nodes.length + 1)
    (fun x hx => by
      have : x = v := by simpa using List.mem_eraseDups.mp hx
      rw [this]; exact hv)
    (fun y _ x hx => (hw _ ((s.graph.mem_children y x).mp hx)).2) (by omega) u
  have hg : Gen s.graph.children [v].eraseDups u := gen_eraseDups _ _ _ (gen_of_path s.graph v u h)
  simpa using hex.mpr hg

theorem no_path_of_fresh (E : List (Var × Var)) (nodes : List Var)
    (hw : ∀ e ∈ E, e.1 ∈ nodes ∧ e.2 ∈ nodes) (v u : Var) (hne : u ≠ v)
    (hfresh : u ∉ nodes ∨ v ∉ nodes) : ¬ ReflTransGen (Rel E) v u := by
  intro h
  rcases hfresh with hu | hv
  · rcases ReflTransGen.cases_tail h with e | ⟨b, _, hbu⟩
    · exact hne e
    · exact hu (hw _ hbu).2
  · rcases ReflTransGen.cases_head h with e | ⟨b, hvb, _⟩
    · exact hne e.symm
    · exact hv (hw _ hvb).1

/-- every editing operation preserves the invariant -/
theorem C15_step_inv (s : BNState) (op : BNOp) (h : s.Inv) : (s.step op).1.Inv := by
  obtain ⟨hw, hac⟩ := h
  cases op with
  | addNode v l =>
    refine ⟨?_, hac⟩
    intro e he
    have := hw e he
    exact ⟨(mem_addIfAbsent _ _ _).mpr (Or.inl this.1), (mem_addIfAbsent _ _ _).mpr (Or.inl this.2)⟩
  | addEdge u v =>
    simp only [step]
    split
    · exact ⟨hw, hac⟩
    · next hne =>
      have hne' : u ≠ v := by simpa using hne
      split
      · exact ⟨hw, hac⟩
      · next hguard =>
        have hnodes : ∀ w, w ∈ s.nodes → w ∈ addIfAbsent (addIfAbsent s.nodes u) v := fun w hw' =>
          (mem_addIfAbsent _ _ _).mpr (Or.inl ((mem_addIfAbsent _ _ _).mpr (Or.inl hw')))
        have hu : u ∈ addIfAbsent (addIfAbsent s.nodes u) v :=
          (mem_addIfAbsent _ _ _).mpr (Or.inl ((mem_addIfAbsent _ _ _).mpr (Or.inr rfl)))
        have hv : v ∈ addIfAbsent (addIfAbsent s.nodes u) v := (mem_addIfAbsent _ _ _).mpr (Or.inr rfl)
        have hno : ¬ ReflTransGen (Rel s.edges) v u := by
          by_cases hin : u ∈ s.nodes ∧ v ∈ s.nodes
          · intro hp
            have := hasPath_complete s hw v u hin.2 hp
            apply hguard
            simp [hin.1, hin.2, this]
          · apply no_path_of_fresh s.edges s.nodes hw v u hne'
            by_cases h1 : u ∈ s.nodes
            · exact Or.inr (fun h2 => hin ⟨h1, h2⟩)
            · exact Or.inl h1
        split
        · refine ⟨?_, hac⟩
          intro e he
          exact ⟨hnodes _ (hw e he).1, hnodes _ (hw e he).2⟩
        · refine ⟨?_, acyclic_add_edge s.edges u v hac hno⟩
          intro e he
          rcases List.mem_append.mp he with he | he
          · exact ⟨hnodes _ (hw e he).1, hnodes _ (hw e he).2⟩
          · have : e = (u, v) := by simpa using he
            subst this
            exact ⟨hu, hv⟩
  | removeNode v =>
    simp only [step]
    split
    · exact ⟨hw, hac⟩
    · refine ⟨?_, acyclic_sub (fun e he => (List.mem_filter.mp he).1) hac⟩
      intro e he
      obtain ⟨he1, he2⟩ := List.mem_filter.mp he
      have h12 : e.1 ≠ v ∧ e.2 ≠ v := by simpa using he2
      exact ⟨List.mem_filter.mpr ⟨(hw e he1).1, by simpa using h12.1⟩,
             List.mem_filter.mpr ⟨(hw e he1).2, by simpa using h12.2⟩⟩
  | addCpd f =>
    simp only [step]
    split
    · split <;> exact ⟨hw, hac⟩
    · exact ⟨hw, hac⟩
  | removeCpd v =>
    simp only [step]
    split <;> exact ⟨hw, hac⟩
  | doOp vs =>
    simp only [step]
    split
    · refine ⟨?_, acyclic_sub (fun e he => (List.mem_filter.mp he).1) hac⟩
      intro e he
      exact hw e (List.mem_filter.mp he).1
    · exact ⟨hw, hac⟩

/-- **no directed cycle after any history** of add_node / add_edge / remove_node / add_cpds /
    remove_cpds / do, with valid or invalid arguments, starting from the empty model -/
theorem C15_bn_acyclic (ops : List BNOp) : Acyclic (BNState.init.run ops).edges := by
  have : ∀ (ops : List BNOp) (s : BNState), s.Inv → (s.run ops).Inv := by
    intro ops
    induction ops with
    | nil => intro s h; exact h
    | cons op ops ih => intro s h; exact ih _ (C15_step_inv s op h)
  exact (this ops BNState.init ⟨fun e he => (by cases he), acyclic_nil⟩).2

/-- a rejected operation leaves the model unchanged -/
theorem C15_reject_unchanged (s : BNState) (op : BNOp) (h : (s.step op).2 = Out.err) :
    (s.step op).1 = s := by
  cases op with
  | addNode v l => simp [step] at h
  | addEdge u v =>
    by_cases h1 : (u == v) = true
    · simp [step, h1]
    · by_cases h2 : (s.nodes.contains u && s.nodes.contains v && s.hasPath v u) = true
      · simp only [step, h1, h2]; rfl
      · simp only [step, h1, h2] at h; simp at h
  | removeNode v =>
    by_cases h1 : (!s.nodes.contains v) = true
    · simp only [step, h1]; rfl
    · simp only [step, h1] at h; simp at h
  | addCpd f =>
    by_cases h1 : f.scope.all s.nodes.contains = true
    · simp only [step, h1, if_true] at h
      split at h <;> simp at h
    · simp only [step, h1]; rfl
  | removeCpd v =>
    by_cases h1 : (s.nodes.contains v && (s.cpdFor v).isSome) = true
    · simp only [step, h1] at h; simp at h
    · simp only [step, h1]; rfl
  | doOp vs =>
    by_cases h1 : vs.all s.nodes.contains = true
    · simp only [step, h1] at h; simp at h
    · simp only [step, h1]; rfl

/-- `do(vs)` removes exactly the edges into the intervened nodes and keeps the node set -/
theorem C15_do_edges (s : BNState) (vs : List Var) (hv : vs.all s.nodes.contains = true) (e : Var × Var) :
    (e ∈ (s.step (.doOp vs)).1.edges ↔ e ∈ s.edges ∧ e.2 ∉ vs) ∧ (s.step (.doOp vs)).1.nodes = s.nodes := by
  simp only [step, hv, if_true]
  simp [List.mem_filter]

example : (BNState.init.run [.addEdge 0 1, .addEdge 1 2, .addEdge 2 0]).edges = [(0, 1), (1, 2)] := by decide

/-- bookkeeping invariant: the node list, the edge list and the latent list hold no entry twice
    (a `DiGraph` has no parallel edges) and every latent variable is a node of the graph -/
def BNState.Book (s : BNState) : Prop :=
  s.nodes.Nodup ∧ s.edges.Nodup ∧ s.latents.Nodup ∧ ∀ v ∈ s.latents, v ∈ s.nodes

theorem nodup_addIfAbsent (l : List Var) (v : Var) (h : l.Nodup) : (addIfAbsent l v).Nodup := by
  unfold addIfAbsent
  split
  · exact h
  · next hc =>
    have hv : v ∉ l := by simpa using hc
    exact List.nodup_append.mpr ⟨h, (by simp), by
      intro a ha b hb
      have : b = v := by simpa using hb
      subst this
      intro e; subst e; exact hv ha⟩

theorem C15_step_book (s : BNState) (op : BNOp) (h : s.Book) : (s.step op).1.Book := by
  obtain ⟨hn, he, hl, hsub⟩ := h
  cases op with
  | addNode v l =>
    simp only [step]
    refine ⟨nodup_addIfAbsent _ _ hn, he, ?_, ?_⟩
    · split
      · exact nodup_addIfAbsent _ _ hl
      · exact hl
    · intro w hw
      split at hw
      · rcases (mem_addIfAbsent _ _ _).mp hw with hw | hw
        · exact (mem_addIfAbsent _ _ _).mpr (Or.inl (hsub w hw))
        · exact (mem_addIfAbsent _ _ _).mpr (Or.inr hw)
      · exact (mem_addIfAbsent _ _ _).mpr (Or.inl (hsub w hw))
  | addEdge u v =>
    simp only [step]
    split
    · exact ⟨hn, he, hl, hsub⟩
    · split
      · exact ⟨hn, he, hl, hsub⟩
      · refine ⟨nodup_addIfAbsent _ _ (nodup_addIfAbsent _ _ hn), ?_, hl, ?_⟩
        · split
          · exact he
          · next hc =>
            have hv : (u, v) ∉ s.edges := by simpa using hc
            exact List.nodup_append.mpr ⟨he, (by simp), by
              intro a ha b hb
              have : b = (u, v) := by simpa using hb
              subst this
              intro e; subst e; exact hv ha⟩
        · intro w hw
          exact (mem_addIfAbsent _ _ _).mpr (Or.inl ((mem_addIfAbsent _ _ _).mpr (Or.inl (hsub w hw))))
  | removeNode v =>
    simp only [step]
    split
    · exact ⟨hn, he, hl, hsub⟩
    · refine ⟨hn.filter _, he.filter _, hl.filter _, ?_⟩
      intro w hw
      obtain ⟨h1, h2⟩ := List.mem_filter.mp hw
      exact List.mem_filter.mpr ⟨hsub w h1, h2⟩
  | addCpd f =>
    simp only [step]
    split
    · split <;> exact ⟨hn, he, hl, hsub⟩
    · exact ⟨hn, he, hl, hsub⟩
  | removeCpd v =>
    simp only [step]
    split <;> exact ⟨hn, he, hl, hsub⟩
  | doOp vs =>
    simp only [step]
    split
    · exact ⟨hn, he.filter _, hl, hsub⟩
    · exact ⟨hn, he, hl, hsub⟩

/-- **after any history** no node, edge or latent is held twice and every latent variable is still a
    node: `remove_node` takes the variable out of `latents` too, and nothing else can separate them -/
theorem C15_bookkeeping (ops : List BNOp) : (BNState.init.run ops).Book := by
  have : ∀ (ops : List BNOp) (s : BNState), s.Book → (s.run ops).Book := by
    intro ops
    induction ops with
    | nil => intro s h; exact h
    | cons op ops ih => intro s h; exact ih _ (C15_step_book s op h)
  exact this ops BNState.init ⟨List.nodup_nil, List.nodup_nil, List.nodup_nil, fun v hv => by cases hv⟩

example : (BNState.init.run [.addNode 3 true, .addEdge 3 1, .removeNode 3]).latents = [] := by decide

end PgmVerif
