/-
  Props/C15.lean — a Bayesian network stays acyclic under ANY history of editing operations,
  and a rejected operation leaves it unchanged.
-/
import PgmVerif.Proofs.Acyclic
import PgmVerif.Model.History
namespace PgmVerif
open Relation BNState

/-- structural invariant: edges stay inside the node set and there is no directed cycle -/
def BNState.Inv (s : BNState) : Prop := s.graph.WFG ∧ Acyclic s.edges

theorem mem_addIfAbsent (l : List Var) (v w : Var) : w ∈ addIfAbsent l v ↔ w ∈ l ∨ w = v := by
  unfold addIfAbsent
  split
  · next h =>
    have hv : v ∈ l := by simpa using h
    constructor
    · exact Or.inl
    · rintro (h | h)
      · exact h
      · exact h ▸ hv
  · simp

theorem gen_eraseDups (step : Var → List Var) (S0 : List Var) (x : Var) (h : Gen step S0 x) :
    Gen step S0.eraseDups x := by
  induction h with
  | base hb => exact Gen.base (List.mem_eraseDups.mpr hb)
  | step _ hxy ih => exact Gen.step ih hxy

/-- `has_path` finds every path between two nodes of the graph -/
theorem hasPath_complete (s : BNState) (hw : s.graph.WFG) (v u : Var) (hv : v ∈ s.nodes)
    (h : ReflTransGen (Rel s.edges) v u) : s.hasPath v u = true := by
  unfold hasPath DG.descendantsOf
  have hex := saturate_exact s.graph.children s.graph.nodes [v].eraseDups (s.graph.nodes.length + 1)
    (fun x hx => by
      have : x = v := by simpa using List.mem_eraseDups.mp hx
      rw [this]; exact hv)
    (fun y _ x hx => (hw _ ((s.graph.mem_children y x).mp hx)).2) (by omega) u
  have hg : Gen s.graph.children [v].eraseDups u := gen_eraseDups _ _ _ (gen_of_path s.graph v u h)
  simpa using hex.mpr hg

theorem no_path_of_fresh (E : List (Var × Var)) (nodes : List Var)
    (hw : ∀ e ∈ E, e.1 ∈ nodes ∧ e.2 ∈ nodes) (v u : Var) (hne : u ≠ v)
    (hfresh : u ∉ nodes ∨ v ∉ nodes) : ¬ ReflTransGen (Rel E) v u := by
  intro h
  rcases hfresh with hu | hv
  · rcases ReflTransGen.cases_tail h with e | ⟨b, _, hbu⟩
    · exact hne e
    · exact hu (hw _ hbu).2
  · rcases ReflTransGen.cases_head h with e | ⟨b, hvb, _⟩
    · exact hne e.symm
    · exact hv (hw _ hvb).1

/-- every editing operation preserves the invariant -/
theorem C15_step_inv (s : BNState) (op : BNOp) (h : s.Inv) : (s.step op).1.Inv := by
  obtain ⟨hw, hac⟩ := h
  cases op with
  | addNode v l =>
    refine ⟨?_, hac⟩
    intro e he
    have := hw e he
    exact ⟨(mem_addIfAbsent _ _ _).mpr (Or.inl this.1), (mem_addIfAbsent _ _ _).mpr (Or.inl this.2)⟩
  | addEdge u v =>
    simp only [step]
    split
    · exact ⟨hw, hac⟩
    · next hne =>
      have hne' : u ≠ v := by simpa using hne
      split
      · exact ⟨hw, hac⟩
      · next hguard =>
        have hnodes : ∀ w, w ∈ s.nodes → w ∈ addIfAbsent (addIfAbsent s.nodes u) v := fun w hw' =>
          (mem_addIfAbsent _ _ _).mpr (Or.inl ((mem_addIfAbsent _ _ _).mpr (Or.inl hw')))
        have hu : u ∈ addIfAbsent (addIfAbsent s.nodes u) v :=
          (mem_addIfAbsent _ _ _).mpr (Or.inl ((mem_addIfAbsent _ _ _).mpr (Or.inr rfl)))
        have hv : v ∈ addIfAbsent (addIfAbsent s.nodes u) v := (mem_addIfAbsent _ _ _).mpr (Or.inr rfl)
        have hno : ¬ ReflTransGen (Rel s.edges) v u := by
          by_cases hin : u ∈ s.nodes ∧ v ∈ s.nodes
          · intro hp
            have := hasPath_complete s hw v u hin.2 hp
            apply hguard
            simp [hin.1, hin.2, this]
          · apply no_path_of_fresh s.edges s.nodes hw v u hne'
            by_cases h1 : u ∈ s.nodes
            · exact Or.inr (fun h2 => hin ⟨h1, h2⟩)
            · exact Or.inl h1
        split
        · refine ⟨?_, hac⟩
          intro e he
          exact ⟨hnodes _ (hw e he).1, hnodes _ (hw e he).2⟩
        · refine ⟨?_, acyclic_add_edge s.edges u v hac hno⟩
          intro e he
          rcases List.mem_append.mp he with he | he
          · exact ⟨hnodes _ (hw e he).1, hnodes _ (hw e he).2⟩
          · have : e = (u, v) := by simpa using he
            subst this
            exact ⟨hu, hv⟩
  | removeNode v =>
    simp only [step]
    split
    · exact ⟨hw, hac⟩
    · refine ⟨?_, acyclic_sub (fun e he => (List.mem_filter.mp he).1) hac⟩
      intro e he
      obtain ⟨he1, he2⟩ := List.mem_filter.mp he
      have h12 : e.1 ≠ v ∧ e.2 ≠ v := by simpa using he2
      exact ⟨List.mem_filter.mpr ⟨(hw e he1).1, by simpa using h12.1⟩,
             List.mem_filter.mpr ⟨(hw e he1).2, by simpa using h12.2⟩⟩
  | addCpd f =>
    simp only [step]
    split
    · split <;> exact ⟨hw, hac⟩
    · exact ⟨hw, hac⟩
  | removeCpd v =>
    simp only [step]
    split <;> exact ⟨hw, hac⟩
  | doOp vs =>
    simp only [step]
    split
    · refine ⟨?_, acyclic_sub (fun e he => (List.mem_filter.mp he).1) hac⟩
      intro e he
      exact hw e (List.mem_filter.mp he).1
    · exact ⟨hw, hac⟩

/-- **no directed cycle after any history** of add_node / add_edge / remove_node / add_cpds /
    remove_cpds / do, with valid or invalid arguments, starting from the empty model -/
theorem C15_bn_acyclic (ops : List BNOp) : Acyclic (BNState.init.run ops).edges := by
  have : ∀ (ops : List BNOp) (s : BNState), s.Inv → (s.run ops).Inv := by
    intro ops
    induction ops with
    | nil => intro s h; exact h
    | cons op ops ih => intro s h; exact ih _ (C15_step_inv s op h)
  exact (this ops BNState.init ⟨fun e he => (by cases he), acyclic_nil⟩).2

/-- a rejected operation leaves the model unchanged -/
theorem C15_reject_unchanged (s : BNState) (op : BNOp) (h : (s.step op).2 = Out.err) :
    (s.step op).1 = s := by
  cases op with
  | addNode v l => simp [step] at h
  | addEdge u v =>
    by_cases h1 : (u == v) = true
    · simp [step, h1]
    · by_cases h2 : (s.nodes.contains u && s.nodes.contains v && s.hasPath v u) = true
      · simp only [step, h1, h2]; rfl
      · simp only [step, h1, h2] at h; simp at h
  | removeNode v =>
    by_cases h1 : (!s.nodes.contains v) = true
    · simp only [step, h1]; rfl
    · simp only [step, h1] at h; simp at h
  | addCpd f =>
    by_cases h1 : f.scope.all s.nodes.contains = true
    · simp only [step, h1, if_true] at h
      split at h <;> simp at h
    · simp only [step, h1]; rfl
  | removeCpd v =>
    by_cases h1 : (s.nodes.contains v && (s.cpdFor v).isSome) = true
    · simp only [step, h1] at h; simp at h
    · simp only [step, h1]; rfl
  | doOp vs =>
    by_cases h1 : vs.all s.nodes.contains = true
    · simp only [step, h1] at h; simp at h
    · simp only [step, h1]; rfl

/-- `do(vs)` removes exactly the edges into the intervened nodes and keeps the node set -/
theorem C15_do_edges (s : BNState) (vs : List Var) (hv : vs.all s.nodes.contains = true) (e : Var × Var) :
    (e ∈ (s.step (.doOp vs)).1.edges ↔ e ∈ s.edges ∧ e.2 ∉ vs) ∧ (s.step (.doOp vs)).1.nodes = s.nodes := by
  simp only [step, hv, if_true]
  simp [List.mem_filter]

example : (BNState.init.run [.addEdge 0 1, .addEdge 1 2, .addEdge 2 0]).edges = [(0, 1), (1, 2)] := by decide

/-- bookkeeping invariant: the node list, the edge list and the latent list hold no entry twice
    (a `DiGraph` has no parallel edges) and every latent variable is a node of the graph -/
def BNState.Book (s : BNState) : Prop :=
  s.nodes.Nodup ∧ s.edges.Nodup ∧ s.latents.Nodup ∧ ∀ v ∈ s.latents, v ∈ s.nodes

theorem nodup_addIfAbsent (l : List Var) (v : Var) (h : l.Nodup) : (addIfAbsent l v).Nodup := by
  unfold addIfAbsent
  split
  · exact h
  · next hc =>
    have hv : v ∉ l := by simpa using hc
    exact List.nodup_append.mpr ⟨h, (by simp), by
      intro a ha b hb
      have : b = v := by simpa using hb
      subst this
      intro e; subst e; exact hv ha⟩

theorem C15_step_book (s : BNState) (op : BNOp) (h : s.Book) : (s.step op).1.Book := by
  obtain ⟨hn, he, hl, hsub⟩ := h
  cases op with
  | addNode v l =>
    simp only [step]
    refine ⟨nodup_addIfAbsent _ _ hn, he, ?_, ?_⟩
    · split
      · exact nodup_addIfAbsent _ _ hl
      · exact hl
    · intro w hw
      split at hw
      · rcases (mem_addIfAbsent _ _ _).mp hw with hw | hw
        · exact (mem_addIfAbsent _ _ _).mpr (Or.inl (hsub w hw))
        · exact (mem_addIfAbsent _ _ _).mpr (Or.inr hw)
      · exact (mem_addIfAbsent _ _ _).mpr (Or.inl (hsub w hw))
  | addEdge u v =>
    simp only [step]
    split
    · exact ⟨hn, he, hl, hsub⟩
    · split
      · exact ⟨hn, he, hl, hsub⟩
      · refine ⟨nodup_addIfAbsent _ _ (nodup_addIfAbsent _ _ hn), ?_, hl, ?_⟩
        · split
          · exact he
          · next hc =>
            have hv : (u, v) ∉ s.edges := by simpa using hc
            exact List.nodup_append.mpr ⟨he, (by simp), by
              intro a ha b hb
              have : b = (u, v) := by simpa using hb
              subst this
              intro e; subst e; exact hv ha⟩
        · intro w hw
          exact (mem_addIfAbsent _ _ _).mpr (Or.inl ((mem_addIfAbsent _ _ _).mpr (Or.inl (hsub w hw))))
  | removeNode v =>
    simp only [step]
    split
    · exact ⟨hn, he, hl, hsub⟩
    · refine ⟨hn.filter _, he.filter _, hl.filter _, ?_⟩
      intro w hw
      obtain ⟨h1, h2⟩ := List.mem_filter.mp hw
      exact List.mem_filter.mpr ⟨hsub w h1, h2⟩
  | addCpd f =>
    simp only [step]
    split
    · split <;> exact ⟨hn, he, hl, hsub⟩
    · exact ⟨hn, he, hl, hsub⟩
  | removeCpd v =>
    simp only [step]
    split <;> exact ⟨hn, he, hl, hsub⟩
  | doOp vs =>
    simp only [step]
    split
    · exact ⟨hn, he.filter _, hl, hsub⟩
    · exact ⟨hn, he, hl, hsub⟩

/-- **after any history** no node, edge or latent is held twice and every latent variable is still a
    node: `remove_node` takes the variable out of `latents` too, and nothing else can separate them -/
theorem C15_bookkeeping (ops : List BNOp) : (BNState.init.run ops).Book := by
  have : ∀ (ops : List BNOp) (s : BNState), s.Book → (s.run ops).Book := by
    intro ops
    induction ops with
    | nil => intro s h; exact h
    | cons op ops ih => intro s h; exact ih _ (C15_step_book s op h)
  exact this ops BNState.init ⟨List.nodup_nil, List.nodup_nil, List.nodup_nil, fun v hv => by cases hv⟩

example : (BNState.init.run [.addNode 3 true, .addEdge 3 1, .removeNode 3]).latents = [] := by decide

/-! ### CPD bookkeeping: at most one CPD per variable, each for a node of the graph -/

/-- a table with a non-empty duplicate-free scope and one cardinality per scope variable
    (what `TabularCPD.__init__` guarantees) -/
def Shaped (f : Factor) : Prop := f.scope ≠ [] ∧ f.scope.length = f.card.length ∧ f.scope.Nodup

def BNOp.Shaped : BNOp → Prop
  | .addCpd f => PgmVerif.Shaped f
  | _ => True

/-- `TabularCPD.marginalize` over variables other than the child keeps the child in front -/
theorem shaped_marg (f : Factor) (ps : List Var) (h : Shaped f) (hc : childOf f ∉ ps) :
    Shaped (CPD.marginalize f ps) ∧ childOf (CPD.marginalize f ps) = childOf f := by
  obtain ⟨hne, hlen, hnd⟩ := h
  have hs : (CPD.marginalize f ps).scope = (f.outside ps).map (·.1) := rfl
  have hk : (CPD.marginalize f ps).card = (f.outside ps).map (·.2) := rfl
  have hsub : ((f.outside ps).map (·.1)).Sublist f.scope := by
    have h1 : (f.outside ps).Sublist (f.scope.zip f.card) := List.filter_sublist
    have h2 := h1.map (·.1)
    rwa [List.map_fst_zip (by omega)] at h2
  have hnd' : ((f.outside ps).map (·.1)).Nodup := hsub.nodup hnd
  cases hsc : f.scope with
  | nil => exact absurd hsc hne
  | cons c rest =>
    cases hcd : f.card with
    | nil => rw [hsc, hcd] at hlen; simp at hlen
    | cons k krest =>
      have hcc : childOf f = c := by simp [childOf, hsc]
      have hcn : c ∉ ps := by rw [hcc] at hc; exact hc
      have hout : f.outside ps = (c, k) :: (rest.zip krest).filter (fun p => !ps.contains p.1) := by
        unfold Factor.outside; rw [hsc, hcd]; simp [List.filter_cons, hcn]
      refine ⟨⟨?_, ?_, ?_⟩, ?_⟩
      · rw [hs, hout]; simp
      · rw [hs, hk]; simp
      · rw [hs]; exact hnd'
      · rw [hcc]; simp [childOf, hs, hout]

def BNState.CpdInv (s : BNState) : Prop :=
  (s.cpds.map childOf).Nodup ∧ ∀ f ∈ s.cpds, Shaped f ∧ childOf f ∈ s.nodes

theorem map_child_keep (l : List Factor) (g : Factor → Factor)
    (hg : ∀ f ∈ l, childOf (g f) = childOf f) : (l.map g).map childOf = l.map childOf := by
  rw [List.map_map]
  exact List.map_congr_left (fun f hf => hg f hf)

theorem C15_step_cpds (s : BNState) (op : BNOp) (hop : op.Shaped) (h : s.CpdInv) :
    (s.step op).1.CpdInv := by
  obtain ⟨hnd, hall⟩ := h
  cases op with
  | addNode v l =>
    exact ⟨hnd, fun f hf => ⟨(hall f hf).1, (mem_addIfAbsent _ _ _).mpr (Or.inl (hall f hf).2)⟩⟩
  | addEdge u v =>
    simp only [step]
    split
    · exact ⟨hnd, hall⟩
    · split
      · exact ⟨hnd, hall⟩
      · exact ⟨hnd, fun f hf => ⟨(hall f hf).1,
          (mem_addIfAbsent _ _ _).mpr (Or.inl ((mem_addIfAbsent _ _ _).mpr (Or.inl (hall f hf).2)))⟩⟩
  | removeNode v =>
    simp only [step]
    split
    · exact ⟨hnd, hall⟩
    · have hkeep : ∀ f ∈ s.cpds.filter (fun f => childOf f != v),
          Shaped (if f.scope.contains v && s.edges.contains (v, childOf f) then CPD.marginalize f [v] else f) ∧
          childOf (if f.scope.contains v && s.edges.contains (v, childOf f) then CPD.marginalize f [v] else f)
            = childOf f := by
        intro f hf
        obtain ⟨hf1, hf2⟩ := List.mem_filter.mp hf
        have hne : childOf f ≠ v := by simpa using hf2
        split
        · exact shaped_marg f [v] (hall f hf1).1 (by simpa using hne)
        · exact ⟨(hall f hf1).1, rfl⟩
      refine ⟨?_, ?_⟩
      · show (((s.cpds.filter (fun f => childOf f != v)).map _).map childOf).Nodup
        rw [map_child_keep _ _ (fun f hf => (hkeep f hf).2)]
        exact ((List.filter_sublist (l := s.cpds)).map childOf).nodup hnd
      · intro g hg
        obtain ⟨f, hf, rfl⟩ := List.mem_map.mp hg
        obtain ⟨hf1, hf2⟩ := List.mem_filter.mp hf
        refine ⟨(hkeep f hf).1, ?_⟩
        rw [(hkeep f hf).2]
        exact List.mem_filter.mpr ⟨(hall f hf1).2, hf2⟩
  | addCpd f =>
    have hsf : Shaped f := hop
    simp only [step]
    split
    · next hin =>
      have hcin : childOf f ∈ s.nodes := by
        obtain ⟨hne, _, _⟩ := hsf
        cases hsc : f.scope with
        | nil => exact absurd hsc hne
        | cons c rest =>
          rw [hsc] at hin
          have : c ∈ s.nodes := by
            have h2 : (s.nodes.contains c && rest.all s.nodes.contains) = true := by simpa using hin
            have h3 : s.nodes.contains c = true := (Bool.and_eq_true _ _ ▸ h2).1
            exact List.contains_iff_mem.mp h3
          simpa [childOf, hsc] using this
      split
      · have hk : ∀ g ∈ s.cpds, childOf (if childOf g == childOf f then f else g) = childOf g := by
          intro g _
          split
          · next he => exact (by simpa using he : childOf g = childOf f).symm
          · rfl
        refine ⟨?_, ?_⟩
        · show ((s.cpds.map _).map childOf).Nodup
          rw [map_child_keep _ _ hk]; exact hnd
        · intro g hg
          obtain ⟨g0, hg0, rfl⟩ := List.mem_map.mp hg
          split
          · exact ⟨hsf, hcin⟩
          · exact hall g0 hg0
      · next hany =>
        refine ⟨?_, ?_⟩
        · show ((s.cpds ++ [f]).map childOf).Nodup
          rw [List.map_append]
          refine List.nodup_append.mpr ⟨hnd, by simp, ?_⟩
          intro a ha b hb e
          have hb' : b = childOf f := by simpa using hb
          subst e; subst hb'
          obtain ⟨g, hg, hge⟩ := List.mem_map.mp ha
          apply hany
          exact List.any_eq_true.mpr ⟨g, hg, by simpa using hge⟩
        · intro g hg
          rcases List.mem_append.mp hg with hg | hg
          · exact hall g hg
          · have : g = f := by simpa using hg
            subst this; exact ⟨hsf, hcin⟩
    · exact ⟨hnd, hall⟩
  | removeCpd v =>
    simp only [step]
    split
    · exact ⟨((List.filter_sublist (l := s.cpds)).map childOf).nodup hnd,
        fun f hf => hall f (List.mem_filter.mp hf).1⟩
    · exact ⟨hnd, hall⟩
  | doOp vs =>
    simp only [step]
    split
    · have hkeep : ∀ f ∈ s.cpds,
          Shaped (if vs.contains (childOf f) then CPD.marginalize f (f.scope.drop 1) else f) ∧
          childOf (if vs.contains (childOf f) then CPD.marginalize f (f.scope.drop 1) else f) = childOf f := by
        intro f hf
        split
        · refine shaped_marg f _ (hall f hf).1 ?_
          obtain ⟨hne, _, hnod⟩ := (hall f hf).1
          cases hsc : f.scope with
          | nil => exact absurd hsc hne
          | cons c rest =>
            rw [hsc] at hnod
            simpa [childOf, hsc] using (List.nodup_cons.mp hnod).1
        · exact ⟨(hall f hf).1, rfl⟩
      refine ⟨?_, ?_⟩
      · show ((s.cpds.map _).map childOf).Nodup
        rw [map_child_keep _ _ (fun f hf => (hkeep f hf).2)]; exact hnd
      · intro g hg
        obtain ⟨f, hf, rfl⟩ := List.mem_map.mp hg
        refine ⟨(hkeep f hf).1, ?_⟩
        rw [(hkeep f hf).2]
        exact (hall f hf).2
    · exact ⟨hnd, hall⟩

/-- **after any history** whose `add_cpds` arguments are CPD-shaped there is at most one CPD per variable
    and every stored CPD belongs to a node that is still in the graph, child variable in front:
    `add_cpds` replaces, `remove_node` deletes the node's CPD and keeps the children's CPDs theirs,
    `do` keeps the intervened variable's CPD its own -/
theorem C15_cpd_bookkeeping (ops : List BNOp) (hops : ∀ op ∈ ops, op.Shaped) :
    (BNState.init.run ops).CpdInv := by
  have : ∀ (ops : List BNOp) (s : BNState), (∀ op ∈ ops, op.Shaped) → s.CpdInv → (s.run ops).CpdInv := by
    intro ops
    induction ops with
    | nil => intro s _ h; exact h
    | cons op ops ih =>
      intro s ho h
      exact ih _ (fun o hmem => ho o (List.mem_cons_of_mem _ hmem))
        (C15_step_cpds s op (ho op List.mem_cons_self) h)
  exact this ops BNState.init hops ⟨List.nodup_nil, fun f hf => by cases hf⟩

-- non-vacuity: a CPD-shaped table, and a history in which a CPD is replaced and its node removed
example : Shaped { scope := [1, 0], card := [2, 2], vals := #[1, 0, 0, 1] } :=
  ⟨by simp, by simp, by decide⟩
example : ((BNState.init.run [.addEdge 0 1,
    .addCpd { scope := [1, 0], card := [2, 2], vals := #[1, 0, 0, 1] },
    .addCpd { scope := [1, 0], card := [2, 2], vals := #[0, 1, 1, 0] },
    .addCpd { scope := [0], card := [2], vals := #[1, 0] },
    .removeNode 0]).cpds.map childOf) = [1] := by decide

/-- `remove_node(v)`: the CPD of a child of `v`, marginalised over `v`, no longer mentions `v` -/
theorem C15_remove_forgets (f : Factor) (v : Var) : v ∉ (CPD.marginalize f [v]).scope := by
  have hs : (CPD.marginalize f [v]).scope = (f.outside [v]).map (·.1) := rfl
  rw [hs]
  intro hmem
  obtain ⟨p, hp, hpv⟩ := List.mem_map.mp hmem
  have := (List.mem_filter.mp hp).2
  simp [hpv] at this

/-- `do(X)`: the CPD of an intervened variable becomes a table over that variable alone -/
theorem C15_do_parentless (f : Factor) (h : Shaped f) :
    (CPD.marginalize f (f.scope.drop 1)).scope = [childOf f] := by
  obtain ⟨hne, hlen, hnd⟩ := h
  have hs : (CPD.marginalize f (f.scope.drop 1)).scope = (f.outside (f.scope.drop 1)).map (·.1) := rfl
  rw [hs]
  cases hsc : f.scope with
  | nil => exact absurd hsc hne
  | cons c rest =>
    cases hcd : f.card with
    | nil => rw [hsc, hcd] at hlen; simp at hlen
    | cons k krest =>
      rw [hsc] at hnd
      have hc : c ∉ rest := (List.nodup_cons.mp hnd).1
      have hrest : (rest.zip krest).filter (fun p => !rest.contains p.1) = [] := by
        apply List.filter_eq_nil_iff.mpr
        intro p hp
        have : p.1 ∈ rest := (List.of_mem_zip hp).1
        simp [this]
      unfold Factor.outside
      rw [hsc, hcd]
      simp [hc, childOf, hsc]
      intro a b hab
      exact (List.of_mem_zip hab).1

/-- **every reachable state is structurally consistent** - the three invariants together, for ANY history of the six
    editing operations from the empty model (valid or invalid arguments, `add_cpds` arguments CPD-shaped): edges join
    nodes of the graph and form no directed cycle; no node, edge or latent is held twice and latents are nodes; there
    is at most one CPD per variable, each for a node still in the graph with its child variable in front -/
theorem C15_reachable_consistent (ops : List BNOp) (hops : ∀ op ∈ ops, op.Shaped) :
    (BNState.init.run ops).Inv ∧ (BNState.init.run ops).Book ∧ (BNState.init.run ops).CpdInv := by
  have hinv : ∀ (ops : List BNOp) (s : BNState), s.Inv → (s.run ops).Inv := by
    intro ops
    induction ops with
    | nil => intro s h; exact h
    | cons op ops ih => intro s h; exact ih _ (C15_step_inv s op h)
  exact ⟨hinv ops BNState.init ⟨fun e he => (by cases he), acyclic_nil⟩,
    C15_bookkeeping ops, C15_cpd_bookkeeping ops hops⟩

end PgmVerif
