/-
  Props/C04.lean — property theorems for C04 (factor algebra is pointwise and independent of
  axis order).  Helper lemmas live in Proofs/Factor.lean; this file only states the property.
  `K` is the model's cardinality function, `WF K f` says `f` is a table over distinct
  variables with those cardinalities, `Bounded K a` that `a` is a genuine joint state.
-/
import PgmVerif.Proofs.Factor
import Mathlib.Algebra.BigOperators.Group.List.Basic
namespace PgmVerif
open Factor

theorem prod_map_pos (K : Var → Nat) (hpos : ∀ v, 0 < K v) : ∀ vs : List Var, 0 < (vs.map K).prod
  | [] => by simp
  | v :: vs => by
    simp only [List.map_cons, List.prod_cons]
    exact Nat.mul_pos (hpos v) (prod_map_pos K hpos vs)

/-- product is the pointwise product on the union scope -/
theorem C04_den_product (K : Var → Nat) (f g : Factor) (hf : f.WF K) (hg : g.WF K)
    (a : Asg) (ha : Bounded K a) :
    (product f g).den a = f.den a * g.den a ∧
    (∀ v, v ∈ (product f g).scope ↔ v ∈ f.scope ∨ v ∈ g.scope) := by
  refine ⟨den_product K f g hf hg a ha, fun v => ?_⟩
  unfold product
  rw [scope_combine K _ f g hf hg]
  exact mem_unionScope f g v

theorem C04_den_add (K : Var → Nat) (f g : Factor) (hf : f.WF K) (hg : g.WF K)
    (a : Asg) (ha : Bounded K a) : (add f g).den a = f.den a + g.den a :=
  den_add K f g hf hg a ha

/-- division is the pointwise quotient with 0/0 = 0; x/0 (x ≠ 0) is flagged +inf by `divInf` -/
theorem C04_den_divide (K : Var → Nat) (f g : Factor) (hf : f.WF K)
    (hsub : ∀ v ∈ g.scope, v ∈ f.scope) (a : Asg) (ha : Bounded K a) :
    (divide f g).den a = if g.den a = 0 then 0 else f.den a / g.den a :=
  den_divide K f g hf hsub a ha

/-- marginalisation sums over every joint state of the eliminated variables exactly once:
    the summation list is indexed by `tuples`, which enumerates exactly the in-range
    multi-indices without repetition (`mem_tuples_of_inRange`, `inRange_of_mem_tuples`,
    `tuples_nodup`) -/
theorem C04_den_marginalize (K : Var → Nat) (f : Factor) (hf : f.WF K) (vs : List Var)
    (a : Asg) (ha : Bounded K a) :
    (marginalize f vs).den a
      = (((allIdx ((elimScope f vs).map K)).map (unravel ((elimScope f vs).map K))).map
          (fun xs => f.den (overrideL a (elimScope f vs) xs))).sum
    ∧ (∀ v, v ∈ (marginalize f vs).scope ↔ v ∈ f.scope ∧ v ∉ vs) := by
  constructor
  · rw [den_marginalize K f hf vs a ha]
    simp [sumR, overStates, List.map_map, Function.comp_def]
  · intro v
    rw [scope_marginalize K f hf]
    simp [keepScope, List.mem_filter]

/-- maximisation returns a value of the table over the eliminated variables that is ≥ all others -/
theorem C04_den_maximize (K : Var → Nat) (f : Factor) (hf : f.WF K) (vs : List Var)
    (a : Asg) (ha : Bounded K a) (hpos : ∀ v, 0 < K v) :
    (∀ xs, InRange ((elimScope f vs).map K) xs →
        f.den (overrideL a (elimScope f vs) xs) ≤ (maximize f vs).den a) ∧
    (∃ xs, InRange ((elimScope f vs).map K) xs ∧
        (maximize f vs).den a = f.den (overrideL a (elimScope f vs) xs)) := by
  rw [den_maximize K f hf vs a ha]
  constructor
  · intro xs hxs
    apply maxR_ge
    unfold overStates
    refine List.mem_map.mpr ⟨ravel ((elimScope f vs).map K) xs, ?_, ?_⟩
    · simp [allIdx, ravel_lt _ _ hxs]
    · rw [unravel_ravel _ _ hxs]
  · have hne : overStates (elimScope f vs) ((elimScope f vs).map K) a f.den ≠ [] := by
      unfold overStates allIdx
      have : 0 < ((elimScope f vs).map K).prod := prod_map_pos K hpos _
      intro h
      have := congrArg List.length h
      simp at this
      omega
    have hm := maxR_mem _ hne
    unfold overStates at hm
    obtain ⟨i, hi, he⟩ := List.mem_map.mp hm
    refine ⟨unravel _ i, unravel_inRange _ i (by simpa [allIdx] using hi), ?_⟩
    unfold overStates
    exact he.symm

theorem C04_den_reduce (K : Var → Nat) (f : Factor) (hf : f.WF K) (ev : List (Var × Nat))
    (a : Asg) (ha : Bounded K a) :
    (reduce f ev).den a = f.den (overrideL a (ev.map (·.1)) (ev.map (·.2))) :=
  den_reduce K f hf ev a ha

/-- normalisation divides by the sum over all joint states -/
theorem C04_den_normalize (K : Var → Nat) (f : Factor) (hf : f.WF K) (a : Asg) :
    (normalize f).den a
      = f.den a / ((allIdx f.card).map (fun i => f.den (asgOf f.scope f.card i))).sum := by
  rw [den_normalize, total_eq K f hf]; rfl

/-- the result of a binary operation does not depend on the axis order in which either operand
    is presented -/
theorem C04_axis_order_irrelevant (K : Var → Nat) (f g : Factor) (hf : f.WF K) (hg : g.WF K)
    (nf ng : List Var) (hnf : nf.Nodup) (hng : ng.Nodup)
    (hf1 : ∀ v, v ∈ nf ↔ v ∈ f.scope) (hg1 : ∀ v, v ∈ ng ↔ v ∈ g.scope)
    (a : Asg) (ha : Bounded K a) :
    (product (permuteAxes f nf) (permuteAxes g ng)).den a = (product f g).den a ∧
    (add (permuteAxes f nf) (permuteAxes g ng)).den a = (add f g).den a := by
  have wf' := wf_permuteAxes K f hf nf hnf (fun v hv => (hf1 v).mp hv)
  have wg' := wf_permuteAxes K g hg ng hng (fun v hv => (hg1 v).mp hv)
  have df := den_permuteAxes K f hf nf (fun v hv => (hf1 v).mp hv) (fun v hv => (hf1 v).mpr hv) a ha
  have dg := den_permuteAxes K g hg ng (fun v hv => (hg1 v).mp hv) (fun v hv => (hg1 v).mpr hv) a ha
  rw [den_product K _ _ wf' wg' a ha, den_add K _ _ wf' wg' a ha, den_product K f g hf hg a ha,
    den_add K f g hf hg a ha, df, dg]
  exact ⟨rfl, rfl⟩

theorem C04_product_comm (K : Var → Nat) (f g : Factor) (hf : f.WF K) (hg : g.WF K)
    (a : Asg) (ha : Bounded K a) : (product f g).den a = (product g f).den a := by
  rw [den_product K f g hf hg a ha, den_product K g f hg hf a ha, mul_comm]

theorem C04_product_assoc (K : Var → Nat) (f g h : Factor) (hf : f.WF K) (hg : g.WF K) (hh : h.WF K)
    (a : Asg) (ha : Bounded K a) :
    (product (product f g) h).den a = (product f (product g h)).den a := by
  rw [den_product K _ h (wf_product K f g hf hg) hh a ha, den_product K f g hf hg a ha,
    den_product K f _ hf (wf_product K g h hg hh) a ha, den_product K g h hg hh a ha, mul_assoc]

theorem C04_wf_product (K : Var → Nat) (f g : Factor) (hf : f.WF K) (hg : g.WF K) :
    (product f g).WF K ∧ (add f g).WF K ∧ (divide f g).WF K :=
  ⟨wf_product K f g hf hg, wf_add K f g hf hg, wf_divide K f g hf⟩

theorem C04_wf_marginalize (K : Var → Nat) (f : Factor) (hf : f.WF K) (vs : List Var)
    (ev : List (Var × Nat)) :
    (marginalize f vs).WF K ∧ (maximize f vs).WF K ∧ (reduce f ev).WF K ∧ (normalize f).WF K :=
  ⟨wf_marginalize K f hf vs, wf_maximize K f hf vs, wf_reduce K f hf ev, wf_normalize K f hf⟩

/-! non-vacuity: a concrete well-formed factor and a bounded assignment exist -/
example : (Factor.mk [3, 1] [2, 3] #[1, 2, 3, 4, 5, 6]).WF (fun v => if v = 3 then 2 else 3) ∧
    Bounded (fun v => if v = 3 then 2 else 3) (fun v => if v = 3 then 1 else 2) := by
  refine ⟨⟨by decide, by decide, by decide⟩, ?_⟩
  intro v
  by_cases h : v = 3 <;> simp [h]


/-- a scalar as a factor over no variables (how `phi * k`, `phi + k` are modelled) -/
def Factor.scalar (k : Rat) : Factor := { scope := [], card := [], vals := #[k] }

theorem scalar_wf (K : Var → Nat) (k : Rat) : (Factor.scalar k).WF K := by
  refine ⟨List.nodup_nil, rfl, ?_⟩
  simp [Factor.scalar]

theorem scalar_den (k : Rat) (a : Asg) : (Factor.scalar k).den a = k := by
  simp [Factor.scalar, Factor.den, ravel]

/-- multiplying by the scalar k scales every entry, adding it shifts every entry, and neither changes the scope;
    in particular 1 and 0 are neutral: `phi * 1` and `phi + 0` denote `phi` -/
theorem C04_scalar_ops (K : Var → Nat) (f : Factor) (hf : f.WF K) (k : Rat) (a : Asg) (ha : Bounded K a) :
    (product f (Factor.scalar k)).den a = f.den a * k ∧
    (add f (Factor.scalar k)).den a = f.den a + k ∧
    (∀ v, v ∈ (product f (Factor.scalar k)).scope ↔ v ∈ f.scope) := by
  have h := C04_den_product K f (Factor.scalar k) hf (scalar_wf K k) a ha
  refine ⟨by rw [h.1, scalar_den], ?_, fun v => ?_⟩
  · rw [C04_den_add K f (Factor.scalar k) hf (scalar_wf K k) a ha, scalar_den]
  · rw [h.2 v]; simp [Factor.scalar]

theorem C04_scalar_neutral (K : Var → Nat) (f : Factor) (hf : f.WF K) (a : Asg) (ha : Bounded K a) :
    (product f (Factor.scalar 1)).den a = f.den a ∧ (add f (Factor.scalar 0)).den a = f.den a := by
  have h := C04_scalar_ops K f hf
  exact ⟨by rw [(h 1 a ha).1, Rat.mul_one], by rw [(h 0 a ha).2.1, Rat.add_zero]⟩


/-- every entry multiplied by `c` -/
def Factor.scale (c : Rat) (f : Factor) : Factor := { f with vals := f.vals.map (c * ·) }

theorem scale_wf (K : Var → Nat) (c : Rat) (f : Factor) (hf : f.WF K) : (Factor.scale c f).WF K := by
  refine ⟨hf.1, hf.2.1, ?_⟩
  simp only [Factor.scale, Array.size_map]
  exact hf.2.2

theorem scale_den (c : Rat) (f : Factor) (a : Asg) : (Factor.scale c f).den a = c * f.den a := by
  unfold Factor.den Factor.scale
  simp only [Array.getD_eq_getD_getElem?, Array.getElem?_map]
  cases f.vals[ravel f.card (List.map a f.scope)]? <;> simp

theorem list_sum_map_mul (c : Rat) {α : Type} (h : α → Rat) : ∀ l : List α,
    (l.map (fun i => c * h i)).sum = c * (l.map h).sum
  | [] => by simp
  | x :: l => by simp [list_sum_map_mul c h l, mul_add]

/-- **normalising forgets the scale**: a table and any non-zero multiple of it normalise to the same table (likelihoods and
    unnormalised posteriors are defined up to a constant; a posterior with P(evidence) = 1e-300 is as good as any) -/
theorem C04_normalize_scale (K : Var → Nat) (f : Factor) (hf : f.WF K) (c : Rat) (hc : c ≠ 0) (a : Asg) :
    (normalize (Factor.scale c f)).den a = (normalize f).den a := by
  rw [C04_den_normalize K _ (scale_wf K c f hf) a, C04_den_normalize K f hf a, scale_den]
  have hs : (Factor.scale c f).scope = f.scope := rfl
  have hk : (Factor.scale c f).card = f.card := rfl
  rw [hs, hk]
  have : (fun i => (Factor.scale c f).den (asgOf f.scope f.card i)) = (fun i => c * f.den (asgOf f.scope f.card i)) := by
    funext i; exact scale_den c f _
  rw [this, list_sum_map_mul c (fun i => f.den (asgOf f.scope f.card i))]
  exact mul_div_mul_left _ _ hc

/-- **dividing and multiplying back**: `(phi / psi) * psi` is `phi` wherever `psi` is non-zero and 0 where
    `psi` is 0 (numpy's 0/0 -> 0 as used by `divide`) - the identity a belief-update message relies on
    when it replaces a sepset belief -/
theorem C04_divide_product_cancel (K : Var → Nat) (f g : Factor) (hf : f.WF K) (hg : g.WF K)
    (hsub : ∀ v ∈ g.scope, v ∈ f.scope) (a : Asg) (ha : Bounded K a) :
    (product (divide f g) g).den a = if g.den a = 0 then 0 else f.den a := by
  rw [(C04_den_product K (divide f g) g (wf_divide K f g hf) hg a ha).1,
      C04_den_divide K f g hf hsub a ha]
  split
  · simp
  · next hne => exact div_mul_cancel₀ _ hne

theorem overrideL_perm (a : Asg) {ev ev' : List (Var × Nat)} (p : ev.Perm ev') :
    (ev.map (·.1)).Nodup → ∀ w, overrideL a (ev.map (·.1)) (ev.map (·.2)) w
      = overrideL a (ev'.map (·.1)) (ev'.map (·.2)) w := by
  induction p with
  | nil => intro _ _; rfl
  | cons x _ ih =>
    intro hn w
    simp only [List.map_cons, overrideL]
    rw [ih (List.nodup_cons.mp (by simpa using hn)).2 w]
  | swap x y l =>
    intro hn w
    have hne : y.1 ≠ x.1 := by
      have := (List.nodup_cons.mp (by simpa using hn : (y.1 :: x.1 :: l.map (·.1)).Nodup)).1
      intro e; apply this; simp [e]
    simp only [List.map_cons, overrideL]
    by_cases h1 : w = x.1
    · have : w ≠ y.1 := fun e => hne (e ▸ h1)
      simp [h1, Ne.symm hne]
    · simp [h1]
  | trans p1 _ ih1 ih2 =>
    intro hn w
    rw [ih1 hn w, ih2 ((p1.map (·.1)).nodup_iff.mp hn) w]

/-- **the order in which evidence is given is irrelevant**: reducing to the same (variable, state) pairs listed in
    any order (a dict, a list of tuples, whatever iteration order) gives the same table -/
theorem C04_reduce_order_irrelevant (K : Var → Nat) (f : Factor) (hf : f.WF K) (ev ev' : List (Var × Nat))
    (p : ev.Perm ev') (hn : (ev.map (·.1)).Nodup) (a : Asg) (ha : Bounded K a) :
    (reduce f ev).den a = (reduce f ev').den a := by
  rw [C04_den_reduce K f hf ev a ha, C04_den_reduce K f hf ev' a ha]
  congr 1
  funext w
  exact overrideL_perm a p hn w

/-- **the variables to eliminate are a set**: `marginalize` / `maximize` called with the same variables in another
    order (or listed twice) return the very same table, entry for entry -/
theorem C04_eliminate_set (f : Factor) (vs vs' : List Var) (h : ∀ v, v ∈ vs ↔ v ∈ vs') :
    marginalize f vs = marginalize f vs' ∧ maximize f vs = maximize f vs' := by
  have hc : ∀ v, vs.contains v = vs'.contains v := by
    intro v; rw [Bool.eq_iff_iff]; simp [h v]
  unfold marginalize maximize Factor.inside Factor.outside
  simp only [hc]
  trivial

/-- **a normalised table sums to one** over all joint states whenever the total is not zero (a posterior exists
    iff P(evidence) ≠ 0) -/
theorem C04_normalize_sums_to_one (K : Var → Nat) (f : Factor) (hf : f.WF K)
    (hT : ((allIdx f.card).map (fun i => f.den (asgOf f.scope f.card i))).sum ≠ 0) :
    ((allIdx f.card).map (fun i => (normalize f).den (asgOf f.scope f.card i))).sum = 1 := by
  have e : (fun i => (normalize f).den (asgOf f.scope f.card i))
      = (fun i => (1 / ((allIdx f.card).map (fun i => f.den (asgOf f.scope f.card i))).sum)
          * f.den (asgOf f.scope f.card i)) := by
    funext i
    rw [C04_den_normalize K f hf]
    rw [div_eq_mul_inv, one_div, mul_comm]
  rw [e, list_sum_map_mul _ (fun i => f.den (asgOf f.scope f.card i))]
  exact one_div_mul_cancel hT

end PgmVerif
