/-
  Props/C03.lean — MAP: the flat argmax of a table, decoded through the cardinalities, is an
  in-range joint state of exactly the table's variables at which the table is maximal.
  With C01 (the VE result denotes the exact posterior) this is "MAP returns a maximiser".
-/
import PgmVerif.Proofs.Factor
import PgmVerif.Proofs.VEMax
namespace PgmVerif
open Factor

theorem argmaxList_spec : ∀ (l : List Rat), l ≠ [] →
    argmaxList l < l.length ∧ ∀ i, i < l.length → l.getD i 0 ≤ l.getD (argmaxList l) 0
  | [x], _ => by
    refine ⟨by simp [argmaxList], ?_⟩
    intro i hi
    have : i = 0 := by simpa using hi
    subst this
    simp [argmaxList]
  | x :: y :: ys, _ => by
    obtain ⟨h1, h2⟩ := argmaxList_spec (y :: ys) (by simp)
    simp only [argmaxList]
    split
    · next hlt =>
      refine ⟨by simpa using h1, ?_⟩
      intro i hi
      cases i with
      | zero => simpa using le_of_lt hlt
      | succ j =>
        have := h2 j (by simpa using hi)
        simpa using this
    · next hnl =>
      refine ⟨by simp, ?_⟩
      intro i hi
      cases i with
      | zero => simp
      | succ j =>
        have := h2 j (by simpa using hi)
        have h3 := not_lt.mp hnl
        simp only [List.getD_cons_succ, List.getD_cons_zero]
        exact le_trans this h3

/-- the flat argmax is a valid index at which the table is maximal -/
theorem C03_argmax_is_max (f : Factor) (hne : f.vals.size ≠ 0) :
    argmaxIdx f < f.vals.size ∧ ∀ i, i < f.vals.size → f.vals.getD i 0 ≤ f.vals.getD (argmaxIdx f) 0 := by
  have hl : f.vals.toList ≠ [] := by
    intro h
    apply hne
    have := congrArg List.length h
    simpa using this
  obtain ⟨h1, h2⟩ := argmaxList_spec f.vals.toList hl
  unfold argmaxIdx
  refine ⟨by simpa using h1, ?_⟩
  intro i hi
  have := h2 i (by simpa using hi)
  have h1' : argmaxList f.vals.toList < f.vals.size := by simpa using h1
  simp only [List.getD_eq_getElem?_getD, Array.getElem?_toList] at this
  simp only [Array.getD, hi, h1', dite_true]
  simpa [Array.getElem?_eq_getElem, hi, h1'] using this

/-- decoding a flat index (`DiscreteFactor.assignment`): exactly the scope variables, each with
    an in-range state, and the table's value at the decoded state is the indexed entry -/
theorem C03_argmax_decode (K : Var → Nat) (f : Factor) (hf : f.WF K) (idx : Nat) (hi : idx < f.card.prod)
    (a0 : Asg) :
    (f.assignment idx).map (·.1) = f.scope ∧
    (∀ p ∈ f.assignment idx, p.2 < K p.1) ∧
    f.den (overrideL a0 f.scope (unravel f.card idx)) = f.vals.getD idx 0 := by
  have hlen : (unravel f.card idx).length = f.scope.length := by
    rw [unravel_length, hf.2.1, List.length_map]
  refine ⟨?_, ?_, ?_⟩
  · unfold assignment
    rw [List.map_fst_zip]
    omega
  · intro p hp
    unfold assignment at hp
    have hr := unravel_inRange f.card idx hi
    rw [hf.2.1] at hr hp
    -- walk down scope / unravel together
    have : ∀ (vs : List Var) (xs : List Nat), InRange (vs.map K) xs → ∀ q ∈ vs.zip xs, q.2 < K q.1 := by
      intro vs
      induction vs with
      | nil => intro xs _ q hq; simp at hq
      | cons v vs ih =>
        intro xs hxs q hq
        cases xs with
        | nil => simp at hq
        | cons x xs =>
          rcases List.mem_cons.mp hq with e | e
          · subst e; exact hxs.1
          · exact ih xs hxs.2 q e
    exact this _ _ hr p hp
  · unfold den
    rw [overrideL_map a0 f.scope _ hf.1 hlen, ravel_unravel _ _ hi]

/-- **MAP is a maximiser**: the state decoded from the argmax of a well-formed non-empty table
    is at least as large as the table's value at every genuine joint state -/
theorem C03_map_is_maximiser (K : Var → Nat) (f : Factor) (hf : f.WF K) (hne : f.card.prod ≠ 0)
    (a0 a : Asg) (ha : Bounded K a) :
    f.den a ≤ f.den (overrideL a0 f.scope (unravel f.card (argmaxIdx f))) := by
  have hsz : f.vals.size ≠ 0 := by rw [hf.2.2]; exact hne
  obtain ⟨h1, h2⟩ := C03_argmax_is_max f hsz
  rw [(C03_argmax_decode K f hf (argmaxIdx f) (by rw [← hf.2.2]; exact h1) a0).2.2]
  unfold den
  have hin : InRange f.card (f.scope.map a) := by rw [hf.2.1]; exact inRange_map K a ha _
  have hlt := ravel_lt _ _ hin
  exact h2 _ (by rw [hf.2.2]; exact hlt)

/-- **max-product variable elimination, any order**: for well-formed non-negative factors (CPDs, or CPDs reduced to the
    evidence), maximising out the variables of ANY duplicate-free `order` the way `map_query` / `max_marginal` do
    (multiply the working factors that mention the variable, maximise it out, file the result) leaves factors whose
    product is  max over exactly those variables of the product of all factors — so the arg max decoded by
    `C03_argmax_decode` from the final table is a maximiser of the exact (unnormalised) posterior, whatever the order -/
theorem C03_max_elimination_any_order (K : Var → Nat) (fs : List Factor) (order : List Var)
    (hfs : AllWF K fs) (hnn : NonnegF K fs) (hn : order.Nodup)
    (hord : ∀ v ∈ order, Mentioned fs v ∧ 0 < K v) (a : Asg) (ha : Bounded K a) :
    jointDen (veMaxRun fs order) a = maxOut K order (jointDen fs) a :=
  (veMaxRun_spec K order fs hfs hnn hn hord).2 a ha

example : (Factor.mk [0, 1] [2, 2] #[1/10, 4/10, 3/10, 2/10]).WF (fun _ => 2) ∧
    (Factor.mk [0, 1] [2, 2] #[1/10, 4/10, 3/10, 2/10]).card.prod ≠ 0 :=
  ⟨⟨by decide, by decide, by decide⟩, by decide⟩


theorem getD_map_mul (c : Rat) (l : List Rat) (k : Nat) :
    (l.map (c * ·)).getD k 0 = c * l.getD k 0 := by
  simp only [List.getD_eq_getElem?_getD, List.getElem?_map]
  cases l[k]? <;> simp

/-- **normalising does not move the argmax**: multiplying every entry by the same positive number (1 / P(evidence), however small
    P(evidence) is) leaves the first maximal index where it was -/
theorem C03_argmax_scale_invariant (c : Rat) (hc : 0 < c) : ∀ l : List Rat,
    argmaxList (l.map (c * ·)) = argmaxList l
  | [] => rfl
  | [_] => rfl
  | x :: y :: ys => by
    have ih := C03_argmax_scale_invariant c hc (y :: ys)
    simp only [List.map_cons] at ih ⊢
    unfold argmaxList
    simp only
    rw [ih]
    have hg := getD_map_mul c (y :: ys) (argmaxList (y :: ys))
    simp only [List.map_cons] at hg
    rw [hg]
    by_cases h : x < (y :: ys).getD (argmaxList (y :: ys)) 0
    · rw [if_pos h, if_pos (mul_lt_mul_of_pos_left h hc)]
    · rw [if_neg h, if_neg (fun h' => h (lt_of_mul_lt_mul_left h' (le_of_lt hc)))]

end PgmVerif
