/-
  Props/C07.lean — laws of the samplers, given that every primitive draw has the law it is
  handed (numpy's generator is outside the proof).
-/
import PgmVerif.Proofs.VE
import Mathlib.Tactic.FieldSimp
namespace PgmVerif
open Factor

/-- **Gibbs kernel is local**: the full conditional of `v` given all other variables, computed
    from the whole joint, equals the normalised product of only those factors that mention `v`
    (what `GibbsSampling` builds its transition models from) -/
theorem C07_gibbs_kernel_local (K : Var → Nat) (fs : List Factor) (v : Var) (a : Asg) (x : Nat)
    (hne : jointDen (fs.filter (fun f => !f.scope.contains v)) a ≠ 0) :
    jointDen fs (upd a v x) / sumVar K v (jointDen fs) a
      = jointDen (fs.filter (fun f => f.scope.contains v)) (upd a v x)
        / sumVar K v (jointDen (fs.filter (fun f => f.scope.contains v))) a := by
  have hrest : ∀ b y, jointDen (fs.filter (fun f => !f.scope.contains v)) (upd b v y)
      = jointDen (fs.filter (fun f => !f.scope.contains v)) b :=
    fun b y => jointDen_upd_notin v _ (fun f hf => by simpa using (List.mem_filter.mp hf).2) b y
  have hsplit : ∀ b, jointDen fs b = jointDen (fs.filter (fun f => !f.scope.contains v)) b
      * jointDen (fs.filter (fun f => f.scope.contains v)) b := by
    intro b; rw [jointDen_filter (fun f => f.scope.contains v) fs b]; ring
  have hsum : sumVar K v (jointDen fs) a
      = jointDen (fs.filter (fun f => !f.scope.contains v)) a
        * sumVar K v (jointDen (fs.filter (fun f => f.scope.contains v))) a := by
    have : jointDen fs = fun b => jointDen (fs.filter (fun f => !f.scope.contains v)) b
        * jointDen (fs.filter (fun f => f.scope.contains v)) b := by funext b; exact hsplit b
    rw [this]
    exact sumVar_mul_const K v _ _ hrest a
  rw [hsum, hsplit (upd a v x), hrest a x]
  by_cases h0 : sumVar K v (jointDen (fs.filter (fun f => f.scope.contains v))) a = 0
  · rw [h0, mul_zero, div_zero, div_zero]
  · field_simp

/-- **likelihood weighting**: joint(row) = (Π over evidence variables of their CPD entry) ×
    (Π over sampled variables of their CPD entry); the first product is the weight the sampler
    attaches, the second the probability with which it proposes the row -/
theorem C07_lw_weight (cpds : List Factor) (isEv : Factor → Bool) (a : Asg) :
    jointDen cpds a = jointDen (cpds.filter isEv) a * jointDen (cpds.filter (fun f => !isEv f)) a :=
  jointDen_filter isEv cpds a

/-- a row in which some variable takes a state of conditional probability zero has joint mass
    zero: forward / rejection sampling never produce it -/
theorem C07_zero_mass (cpds : List Factor) (c : Factor) (hc : c ∈ cpds) (a : Asg) (h0 : c.den a = 0) :
    jointDen cpds a = 0 := by
  induction cpds with
  | nil => cases hc
  | cons f fs ih =>
    rw [jointDen_cons]
    rcases List.mem_cons.mp hc with e | e
    · rw [← e, h0, zero_mul]
    · rw [ih e, mul_zero]

/-- one step of ancestral sampling: extending a partial row by a draw from the next CPD column
    multiplies its mass by that CPD entry (so after all steps the mass is the joint) -/
theorem C07_forward_step (done : List Factor) (c : Factor) (a : Asg) :
    jointDen (done ++ [c]) a = jointDen done a * c.den a := by
  rw [jointDen_append, jointDen_cons, jointDen_nil, mul_one]

example : jointDen [Factor.mk [0] [2] #[1/2, 1/2]] (fun _ => 0) = 1/2 := by
  simp [jointDen, prodR, Factor.den, ravel]

end PgmVerif
