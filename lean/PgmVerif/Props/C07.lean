/-
  Props/C07.lean — laws of the samplers, given that every primitive draw has the law it is
  handed (numpy's generator is outside the proof).
-/
import PgmVerif.Proofs.VE
import PgmVerif.Proofs.Sample
import Mathlib.Tactic.FieldSimp
import Mathlib.Algebra.BigOperators.Field
namespace PgmVerif
open Factor

/-- **Gibbs kernel is local**: the full conditional of `v` given all other variables, computed
    from the whole joint, equals the normalised product of only those factors that mention `v`
    (what `GibbsSampling` builds its transition models from) -/
theorem C07_gibbs_kernel_local (K : Var → Nat) (fs : List Factor) (v : Var) (a : Asg) (x : Nat)
    (hne : jointDen (fs.filter (fun f => !f.scope.contains v)) a ≠ 0) :
    jointDen fs (upd a v x) / sumVar K v (jointDen fs) a
      = jointDen (fs.filter (fun f => f.scope.contains v)) (upd a v x)
        / sumVar K v (jointDen (fs.filter (fun f => f.scope.contains v))) a := by
  have hrest : ∀ b y, jointDen (fs.filter (fun f => !f.scope.contains v)) (upd b v y)
      = jointDen (fs.filter (fun f => !f.scope.contains v)) b :=
    fun b y => jointDen_upd_notin v _ (fun f hf => by simpa using (List.mem_filter.mp hf).2) b y
  have hsplit : ∀ b, jointDen fs b = jointDen (fs.filter (fun f => !f.scope.contains v)) b
      * jointDen (fs.filter (fun f => f.scope.contains v)) b := by
    intro b; rw [jointDen_filter (fun f => f.scope.contains v) fs b]; ring
  have hsum : sumVar K v (jointDen fs) a
      = jointDen (fs.filter (fun f => !f.scope.contains v)) a
        * sumVar K v (jointDen (fs.filter (fun f => f.scope.contains v))) a := by
    have : jointDen fs = fun b => jointDen (fs.filter (fun f => !f.scope.contains v)) b
        * jointDen (fs.filter (fun f => f.scope.contains v)) b := by funext b; exact hsplit b
    rw [this]
    exact sumVar_mul_const K v _ _ hrest a
  rw [hsum, hsplit (upd a v x), hrest a x]
  by_cases h0 : sumVar K v (jointDen (fs.filter (fun f => f.scope.contains v))) a = 0
  · rw [h0, mul_zero, div_zero, div_zero]
  · field_simp

/-- **the Gibbs kernel is a distribution**: the full conditional of `v` (any non-negative or signed weight function `g`,
    e.g. the product of the factors mentioning `v`), divided by its total over the states of `v`, sums to one -/
theorem C07_gibbs_kernel_normalised (K : Var → Nat) (g : Asg → Rat) (v : Var) (a : Asg)
    (hne : sumVar K v g a ≠ 0) :
    sumVar K v (fun b => g b / sumVar K v g a) a = 1 := by
  rw [sumVar_eq]
  rw [← Finset.sum_div, ← sumVar_eq, div_self hne]

/-- **likelihood weighting**: joint(row) = (Π over evidence variables of their CPD entry) ×
    (Π over sampled variables of their CPD entry); the first product is the weight the sampler
    attaches, the second the probability with which it proposes the row -/
theorem C07_lw_weight (cpds : List Factor) (isEv : Factor → Bool) (a : Asg) :
    jointDen cpds a = jointDen (cpds.filter isEv) a * jointDen (cpds.filter (fun f => !isEv f)) a :=
  jointDen_filter isEv cpds a

/-- a row in which some variable takes a state of conditional probability zero has joint mass
    zero: forward / rejection sampling never produce it -/
theorem C07_zero_mass (cpds : List Factor) (c : Factor) (hc : c ∈ cpds) (a : Asg) (h0 : c.den a = 0) :
    jointDen cpds a = 0 := by
  induction cpds with
  | nil => cases hc
  | cons f fs ih =>
    rw [jointDen_cons]
    rcases List.mem_cons.mp hc with e | e
    · rw [← e, h0, zero_mul]
    · rw [ih e, mul_zero]

/-- one step of ancestral sampling: extending a partial row by a draw from the next CPD column
    multiplies its mass by that CPD entry (so after all steps the mass is the joint) -/
theorem C07_forward_step (done : List Factor) (c : Factor) (a : Asg) :
    jointDen (done ++ [c]) a = jointDen done a * c.den a := by
  rw [jointDen_append, jointDen_cons, jointDen_nil, mul_one]

/-! ### the law of the whole sampler (Proofs/Sample.lean) -/

/-- **forward sampling follows the joint**: composing the per-variable draws in a topological order
    gives a law whose outcomes are exactly the rows that assign each variable one of its states,
    each exactly once, with mass Π_i CPD_i(row) = joint(row) -/
theorem C07_forward_law (K : Var → Nat) (L : List (Var × Factor)) (a0 : Asg) (hL : Topo L) :
    (∀ o ∈ forwardLaw K L [(a0, 1)], o.2 = jointDen (L.map Prod.snd) o.1 ∧
        ∀ w, w ∉ L.map Prod.fst → o.1 w = a0 w) ∧
    (∀ b : Asg, (∀ w, w ∉ L.map Prod.fst → b w = a0 w) → (∀ w ∈ L.map Prod.fst, b w < K w) →
        (b, jointDen (L.map Prod.snd) b) ∈ forwardLaw K L [(a0, 1)]) ∧
    ((forwardLaw K L [(a0, 1)]).map Prod.fst).Nodup := by
  refine ⟨?_, ?_, forwardLaw_nodup K L a0 hL⟩
  · intro o ho
    obtain ⟨o0, h0, hm, hag⟩ := forwardLaw_mass K L _ hL o ho
    simp only [List.mem_singleton] at h0
    subst h0
    exact ⟨by rw [hm]; ring, hag⟩
  · intro b hb hK
    obtain ⟨q, hq⟩ := forwardLaw_complete K L _ hL (a0, 1) List.mem_cons_self b hb hK
    obtain ⟨o0, h0, hm, _⟩ := forwardLaw_mass K L _ hL _ hq
    have h0' := List.mem_singleton.mp h0
    subst h0'
    have : q = jointDen (L.map Prod.snd) b := by simpa using hm
    rw [← this]; exact hq

/-- **rejection sampling**: the accepted outcomes are exactly the forward outcomes that agree with
    the evidence, with their joint masses — so the accepted rows follow joint(row)/P(evidence), the
    posterior, and always agree with the evidence -/
theorem C07_rejection_law (K : Var → Nat) (L : List (Var × Factor)) (a0 : Asg) (hL : Topo L)
    (ev : List (Var × Nat)) (o : Asg × Rat)
    (ho : o ∈ (forwardLaw K L [(a0, 1)]).filter (fun o => ev.all (fun e => o.1 e.1 == e.2))) :
    o.2 = jointDen (L.map Prod.snd) o.1 ∧ ∀ e ∈ ev, o.1 e.1 = e.2 := by
  obtain ⟨h1, h2⟩ := List.mem_filter.mp ho
  refine ⟨((C07_forward_law K L a0 hL).1 o h1).1, ?_⟩
  intro e he
  have := List.all_eq_true.mp h2 e he
  simpa using this

theorem jointDen_filter_pairs (P : Var × Factor → Bool) : ∀ (L : List (Var × Factor)) (a : Asg),
    jointDen (L.map Prod.snd) a =
      jointDen ((L.filter P).map Prod.snd) a * jointDen ((L.filter (fun p => !P p)).map Prod.snd) a
  | [], a => by simp [jointDen_nil]
  | p :: rest, a => by
    have ih := jointDen_filter_pairs P rest a
    by_cases h : P p = true
    · simp only [List.map_cons, List.filter_cons, h, if_true, Bool.not_true, Bool.false_eq_true, if_false, jointDen_cons]
      rw [ih]; ring
    · have h' : P p = false := by simpa using h
      simp only [List.map_cons, List.filter_cons, h', Bool.false_eq_true, if_false, Bool.not_false, if_true, jointDen_cons]
      rw [ih]; ring

/-- **likelihood weighting, whole sampler**: every weighted sample carries the evidence values, its
    weight is the product of the evidence variables' CPD entries given the sampled parents, and
    proposal mass × weight = joint(row) -/
theorem C07_lw_law (K : Var → Nat) (ev : Var → Option Nat) (L : List (Var × Factor)) (a0 : Asg) (hL : Topo L)
    (o : Asg × Rat × Rat) (ho : o ∈ lwLaw K ev L [(a0, 1, 1)]) :
    o.2.2 = jointDen ((L.filter (fun p => (ev p.1).isSome)).map Prod.snd) o.1 ∧
    o.2.1 * o.2.2 = jointDen (L.map Prod.snd) o.1 ∧
    (∀ p ∈ L, ∀ e, ev p.1 = some e → o.1 p.1 = e) := by
  obtain ⟨o0, h0, hw, hm, _, hev⟩ := lwLaw_spec K ev L _ hL o ho
  simp only [List.mem_singleton] at h0
  subst h0
  refine ⟨by rw [hw]; ring, ?_, hev⟩
  rw [hw, hm, jointDen_filter_pairs (fun p => (ev p.1).isSome) L o.1]
  ring

/-- non-vacuity: a two-node network A → B in topological order -/
example : Topo [(0, Factor.mk [0] [2] #[1/2, 1/2]), (1, Factor.mk [1, 0] [2, 2] #[1/4, 3/4, 3/4, 1/4])] := by
  refine ⟨?_, ?_, trivial⟩
  · intro q hq
    simp only [List.mem_singleton] at hq
    subst hq
    decide
  · intro q hq; cases hq

example : (forwardLaw (fun _ => 2) [(0, Factor.mk [0] [2] #[1/2, 1/2])] [((fun _ => 0), 1)]).length = 2 := by
  simp [forwardLaw, extendLaw, List.range_succ]

example : jointDen [Factor.mk [0] [2] #[1/2, 1/2]] (fun _ => 0) = 1/2 := by
  simp [jointDen, prodR, Factor.den, ravel]


/-- **sampling around supplied values** (`partial_samples`, `do`, fixed evidence): with the supplied variables held at their values,
    every outcome carries exactly those values, and its mass is the product of the CPD entries of the variables that were *drawn*
    (given their parents' values in the same row - supplied or drawn) -/
theorem C07_partial_law (K : Var → Nat) (given : Var → Option Nat) (L : List (Var × Factor)) (a0 : Asg) (hL : Topo L)
    (o : Asg × Rat × Rat) (ho : o ∈ lwLaw K given L [(a0, 1, 1)]) :
    o.2.1 = jointDen ((L.filter (fun p => !(given p.1).isSome)).map Prod.snd) o.1 ∧
    (∀ p ∈ L, ∀ e, given p.1 = some e → o.1 p.1 = e) := by
  obtain ⟨o0, h0, _, hm, _, hev⟩ := lwLaw_spec K given L _ hL o ho
  simp only [List.mem_singleton] at h0
  subst h0
  exact ⟨by rw [hm]; ring, hev⟩

end PgmVerif
