/-
  Props/C14.lean — conversions: factor-to-clique bookkeeping and the moral graph.
-/
import PgmVerif.Proofs.VE
import PgmVerif.Model.JTree
import PgmVerif.Proofs.Elim
import PgmVerif.Proofs.Chordal
namespace PgmVerif
open Factor

theorem list_range_prod (n : Nat) (f : Nat → Rat) :
    ((List.range n).map f).prod = ∏ i ∈ Finset.range n, f i := by
  induction n with
  | zero => simp
  | succ n ih => rw [List.range_succ, List.map_append, List.prod_append, ih, Finset.prod_range_succ]; simp

/-- product over the factors that the bookkeeping assigns to clique `c` -/
def cliqueProd (l : List (Factor × Nat)) (a : Asg) (c : Nat) : Rat :=
  ((l.filter (fun p => p.2 = c)).map (fun p => p.1.den a)).prod

/-- **each factor is used exactly once**: if every factor *position* is assigned to one clique
    index below `m`, the product of the clique potentials (each the product of its assigned
    factors) is the product of all factors — also when several factors are equal -/
theorem C14_each_factor_once (m : Nat) : ∀ (l : List (Factor × Nat)), (∀ p ∈ l, p.2 < m) → ∀ a : Asg,
    ((List.range m).map (cliqueProd l a)).prod = jointDen (l.map (·.1)) a
  | [], _, a => by
    have : cliqueProd [] a = fun _ => 1 := by funext c; simp [cliqueProd]
    rw [this, List.map_nil, jointDen_nil, list_range_prod]
    simp
  | p :: l, h, a => by
    have ih := C14_each_factor_once m l (fun q hq => h q (List.mem_cons_of_mem _ hq)) a
    have hp : p.2 < m := h p List.mem_cons_self
    rw [List.map_cons, jointDen_cons, ← ih, list_range_prod, list_range_prod]
    have hsplit : ∀ c, cliqueProd (p :: l) a c = (if p.2 = c then p.1.den a else 1) * cliqueProd l a c := by
      intro c
      unfold cliqueProd
      by_cases e : p.2 = c
      · simp [List.filter_cons, e]
      · simp [List.filter_cons, e]
    rw [Finset.prod_congr rfl (fun c _ => hsplit c), Finset.prod_mul_distrib]
    congr 1
    rw [Finset.prod_ite_eq]
    simp [hp]

/-- **moral graph**: every CPD family (a node with its parents) is a clique of the moral graph,
    so every factor of the converted network fits the graph -/
theorem C14_moral_covers_family (g : DG) (c : Var) (hc : c ∈ g.nodes) (u v : Var)
    (hu : u = c ∨ u ∈ g.parents c) (hv : v = c ∨ v ∈ g.parents c) (hlt : u < v) :
    (u, v) ∈ g.moralEdges := by
  unfold DG.moralEdges
  simp only [List.mem_eraseDups, List.mem_append]
  have hpar : ∀ p, p ∈ g.parents c → (p, c) ∈ g.edges := by
    intro p hp
    unfold DG.parents at hp
    obtain ⟨e, he, rfl⟩ := List.mem_map.mp hp
    obtain ⟨he1, he2⟩ := List.mem_filter.mp he
    have : e.2 = c := by simpa using he2
    rw [← this]; exact he1
  rcases hu with rfl | hu
  · rcases hv with rfl | hv
    · exact absurd hlt (Nat.lt_irrefl _)
    · -- (u = c, v parent): undirected edge (v, c) normalised to (c, v)
      left
      refine List.mem_map.mpr ⟨(v, u), hpar v hv, ?_⟩
      have : ¬ v < u := Nat.lt_asymm hlt
      simp [this]
  · rcases hv with rfl | hv
    · left
      refine List.mem_map.mpr ⟨(u, v), hpar u hu, ?_⟩
      simp [hlt]
    · right
      refine List.mem_flatMap.mpr ⟨c, hc, ?_⟩
      refine List.mem_flatMap.mpr ⟨u, hu, ?_⟩
      refine List.mem_filterMap.mpr ⟨v, hv, ?_⟩
      simp [hlt]

/-- **moralisation adds nothing else**: an edge of the moral graph is an edge of the DAG (in one of
    the two directions) or joins two parents of a common child -/
theorem C14_moral_only_family (g : DG) (u v : Var) (h : (u, v) ∈ g.moralEdges) :
    (u, v) ∈ g.edges ∨ (v, u) ∈ g.edges ∨
      ∃ c ∈ g.nodes, u ∈ g.parents c ∧ v ∈ g.parents c ∧ u < v := by
  unfold DG.moralEdges at h
  simp only [List.mem_eraseDups, List.mem_append] at h
  rcases h with h | h
  · obtain ⟨e, he, heq⟩ := List.mem_map.mp h
    obtain ⟨e1, e2⟩ := e
    split at heq
    · left
      have : e1 = u ∧ e2 = v := by simpa using heq
      rw [← this.1, ← this.2]; exact he
    · right; left
      have : e2 = u ∧ e1 = v := by simpa using heq
      rw [← this.1, ← this.2]; exact he
  · right; right
    obtain ⟨c, hc, h⟩ := List.mem_flatMap.mp h
    obtain ⟨p, hp, h⟩ := List.mem_flatMap.mp h
    obtain ⟨q, hq, h⟩ := List.mem_filterMap.mp h
    split at h
    · next hlt =>
      have : p = u ∧ q = v := by simpa using h
      rw [← this.1, ← this.2]
      exact ⟨c, hc, hp, hq, hlt⟩
    · simp at h

/-- BN → MN keeps the list of factors, so the joint (and Z = Σ joint) is unchanged whatever
    order the factors are stored in -/
theorem C14_bn_to_mn_measure (cpds factors : List Factor) (h : factors.Perm cpds) (a : Asg) :
    jointDen factors a = jointDen cpds a := by
  unfold jointDen prodR
  exact (h.map _).prod_eq

/-- **every elimination order triangulates**: in the graph `g` + the fill-in edges that the model of
    `triangulate(order=…)` / the heuristics' deletion loop produces, the order itself is a perfect elimination
    ordering — whenever `order = pre ++ v :: post`, any two vertices of `post` adjacent to `v` are adjacent to each
    other.  (Existence of a perfect elimination ordering is equivalent to chordality — Fulkerson–Gross; the
    executable `isChordal` validates each implementation output per case.) -/
theorem C14_elimination_is_perfect (g : UG) (pre : List Var) (v : Var) (post : List Var)
    (hnd : (pre ++ v :: post).Nodup) (hin : ∀ w ∈ pre ++ v :: post, w ∈ g.nodes)
    (a b : Var) (ha : a ∈ post) (hb : b ∈ post) (hab : a ≠ b)
    (hva : UG.AdjE (g.edges ++ g.eliminate (pre ++ v :: post)) v a)
    (hvb : UG.AdjE (g.edges ++ g.eliminate (pre ++ v :: post)) v b) :
    UG.AdjE (g.edges ++ g.eliminate (pre ++ v :: post)) a b := by
  rw [UG.eliminate_eq] at *
  exact UG.elimination_order_is_perfect pre g v post hnd hin a b ha hb hab hva hvb

/-- **the graph filled in by any elimination order is chordal**: with `E = g.edges ++ g.eliminate order` (what
    `triangulate` returns), every cycle `f 0, …, f (n-1), f 0` of length `n ≥ 4` on distinct eliminated vertices has a chord —
    two positions that are not neighbours on the cycle and are adjacent in `E`.  (Perfect elimination ordering ⇒ chordal, the
    direction of Fulkerson–Gross that the junction-tree construction relies on, applied to `C14_elimination_is_perfect`.) -/
theorem C14_filled_graph_chordal (g : UG) (order : List Var) (hnd : order.Nodup) (hin : ∀ w ∈ order, w ∈ g.nodes)
    (f : Nat → Var) (n : Nat) (hn : 4 ≤ n)
    (hc : UG.Cycle (UG.AdjE (g.edges ++ g.eliminate order)) f n) (hmem : ∀ i, i < n → f i ∈ order) :
    UG.HasChord (UG.AdjE (g.edges ++ g.eliminate order)) f n := by
  refine UG.peo_cycle_has_chord _ (fun _ _ h => h.symm) order ?_ f n hn hc hmem
  refine UG.peo_of_splits _ order ?_ order [] rfl
  intro pre v post e a b ha hb hab hva hvb
  subst e
  exact C14_elimination_is_perfect g pre v post hnd hin a b ha hb hab hva hvb

/-- non-vacuity: the 4-cycle 0-1-2-3 is a `Cycle` of its own filled graph (order 0,1,2,3), so the theorem yields a chord there -/
example : UG.Cycle (UG.AdjE ((UG.mk [0, 1, 2, 3] [(0, 1), (1, 2), (2, 3), (0, 3)]).edges ++
    (UG.mk [0, 1, 2, 3] [(0, 1), (1, 2), (2, 3), (0, 3)]).eliminate [0, 1, 2, 3])) (fun k => k) 4 := by
  refine ⟨fun i j _ _ h => h, ?_, ?_⟩
  · intro k hk
    have : k = 0 ∨ k = 1 ∨ k = 2 := by omega
    rcases this with rfl | rfl | rfl <;> (unfold UG.AdjE; decide)
  · unfold UG.AdjE; decide

/-- non-vacuity: eliminating the 4-cycle 0-1-2-3 in the order 0,1,2,3 adds the chord (1,3) -/
example : (UG.mk [0, 1, 2, 3] [(0, 1), (1, 2), (2, 3), (0, 3)]).eliminate [0, 1, 2, 3] = [(1, 3)] := by decide

example : (DG.mk [0, 1, 2] [(0, 2), (1, 2)]).moralEdges = [(0, 2), (1, 2), (0, 1)] := by decide

end PgmVerif
