/-
  Props/C17.lean — unrolling a two-slice template is slice-wise renaming.
-/
import PgmVerif.Proofs.Factor
import PgmVerif.Props.C01
import PgmVerif.Model.DBN
import Mathlib.Data.List.Nodup
namespace PgmVerif
open Factor

/-- the CPD of slice t in the unrolled network denotes the template CPD at the assignment shifted
    by t·k: (f shifted by d).den a = f.den (v ↦ a (v + d)) -/
theorem C17_shift_den (d : Nat) (f : Factor) (a : Asg) :
    (f.shift d).den a = f.den (fun v => a (v + d)) := by
  unfold Factor.shift den
  simp [List.map_map, Function.comp_def]

/-- unrolling one more slice appends one more shifted copy of the slice-1 CPDs and changes
    nothing else (so the template's CPDs are exposed unchanged in every slice) -/
theorem C17_unroll_slices (tm : DBNTemplate) (T : Nat) :
    tm.unroll 0 = tm.cpd0 ∧
    tm.unroll (T + 1) = tm.unroll T ++ tm.cpd1.map (Factor.shift (T * tm.k)) := by
  constructor
  · simp [DBNTemplate.unroll]
  · unfold DBNTemplate.unroll
    rw [List.range_succ, List.flatMap_append]
    simp [List.append_assoc]

/-- **stationarity of the unrolled network**: shifting composes, so the CPD that slice t+1 gets is the CPD of slice t
    moved one slice further - every slice carries the same transition tables -/
theorem C17_shift_add (d e t k : Nat) (f : Factor) :
    (f.shift d).shift e = f.shift (d + e) ∧ (f.shift (t * k)).shift k = f.shift ((t + 1) * k) := by
  have h : ∀ d e, (f.shift d).shift e = f.shift (d + e) := by
    intro d e
    unfold Factor.shift
    simp [List.map_map, Function.comp_def, Nat.add_assoc]
  exact ⟨h d e, by rw [h, Nat.succ_mul]⟩

/-- **a longer horizon only appends**: the factors of the network unrolled to T are a prefix of those of the network
    unrolled to T + n - unrolling further never alters the CPDs of earlier slices -/
theorem C17_unroll_prefix (tm : DBNTemplate) (T n : Nat) : ∃ rest, tm.unroll (T + n) = tm.unroll T ++ rest := by
  induction n with
  | zero => exact ⟨[], by simp⟩
  | succ n ih =>
    obtain ⟨r, hr⟩ := ih
    refine ⟨r ++ tm.cpd1.map (Factor.shift ((T + n) * tm.k)), ?_⟩
    rw [← Nat.add_assoc, (C17_unroll_slices tm (T + n)).2, hr, List.append_assoc]

/-- shifted CPDs are well-formed for the unrolled network's cardinalities -/
theorem C17_unroll_wf (K : Var → Nat) (d : Nat) (f : Factor) (hf : f.WF (fun v => K (v + d))) :
    (f.shift d).WF K := by
  obtain ⟨h1, h2, h3⟩ := hf
  refine ⟨?_, ?_, h3⟩
  · unfold Factor.shift
    exact h1.map (fun a b h => Nat.add_right_cancel h)
  · unfold Factor.shift
    simp only [List.map_map]
    rw [h2]
    rfl

/-- ids of the variables of slices 0..T in slice order, without the kept (query / evidence) ones -/
def sliceOrder (k T : Nat) (keep : List Var) : List Var :=
  (List.range ((T + 1) * k)).filter (fun i => !keep.contains i)

theorem sliceOrder_nodup (k T : Nat) (keep : List Var) : (sliceOrder k T keep).Nodup :=
  List.Nodup.filter _ List.nodup_range

/-- **slice-wise elimination of the unrolled network is exact**: for a well-formed template, any evidence and
    any set of kept variables, variable elimination in slice order (slice 0 first, then slice 1, …) leaves the
    evidence-reduced product of ALL unrolled CPDs summed over exactly the eliminated variables — for every
    number of slices T.  (Instance of `C01_ve_any_order`; the forward pass of `DBNInference` computes the same
    sums through its start / 1.5-slice junction trees.) -/
theorem C17_slicewise_elimination_exact (K : Var → Nat) (tm : DBNTemplate) (T : Nat) (ev : List (Var × Nat))
    (keep : List Var) (hwf : AllWF K (tm.unroll T)) (hkeep : ∀ p ∈ ev, p.1 ∈ keep)
    (hment : ∀ v ∈ sliceOrder tm.k T keep, Mentioned (tm.unroll T) v) (a : Asg) (ha : Bounded K a) :
    (productAll (veRun ((tm.unroll T).map (fun f => f.reduce ev)) (sliceOrder tm.k T keep))).den a
      = sumOut K (sliceOrder tm.k T keep)
          (fun b => jointDen (tm.unroll T) (overrideL b (ev.map (·.1)) (ev.map (·.2)))) a := by
  apply C01_ve_any_order K (tm.unroll T) ev (sliceOrder tm.k T keep) hwf (sliceOrder_nodup tm.k T keep) _ a ha
  intro v hv
  refine ⟨?_, hment v hv⟩
  intro hmem
  obtain ⟨p, hp, rfl⟩ := List.mem_map.mp hmem
  have := (List.mem_filter.mp hv).2
  simp only [Bool.not_eq_true', List.contains_eq_mem, decide_eq_false_iff_not] at this
  exact this (hkeep p hp)


/-- non-vacuity: a template CPD that is well-formed for the shifted cardinalities -/
example : (Factor.mk [1, 0] [2, 2] #[9/10, 1/10, 1/10, 9/10]).WF (fun v => (fun _ => 2) (v + 1)) :=
  ⟨by decide, by decide, by decide⟩

end PgmVerif
