/-
  Props/C17.lean — unrolling a two-slice template is slice-wise renaming.
-/
import PgmVerif.Proofs.Factor
import PgmVerif.Model.DBN
import Mathlib.Data.List.Nodup
namespace PgmVerif
open Factor

/-- the CPD of slice t in the unrolled network denotes the template CPD at the assignment shifted
    by t·k: (f shifted by d).den a = f.den (v ↦ a (v + d)) -/
theorem C17_shift_den (d : Nat) (f : Factor) (a : Asg) :
    (f.shift d).den a = f.den (fun v => a (v + d)) := by
  unfold Factor.shift den
  simp [List.map_map, Function.comp_def]

/-- unrolling one more slice appends one more shifted copy of the slice-1 CPDs and changes
    nothing else (so the template's CPDs are exposed unchanged in every slice) -/
theorem C17_unroll_slices (tm : DBNTemplate) (T : Nat) :
    tm.unroll 0 = tm.cpd0 ∧
    tm.unroll (T + 1) = tm.unroll T ++ tm.cpd1.map (Factor.shift (T * tm.k)) := by
  constructor
  · simp [DBNTemplate.unroll]
  · unfold DBNTemplate.unroll
    rw [List.range_succ, List.flatMap_append]
    simp [List.append_assoc]

/-- shifted CPDs are well-formed for the unrolled network's cardinalities -/
theorem C17_unroll_wf (K : Var → Nat) (d : Nat) (f : Factor) (hf : f.WF (fun v => K (v + d))) :
    (f.shift d).WF K := by
  obtain ⟨h1, h2, h3⟩ := hf
  refine ⟨?_, ?_, h3⟩
  · unfold Factor.shift
    exact h1.map (fun a b h => Nat.add_right_cancel h)
  · unfold Factor.shift
    simp only [List.map_map]
    rw [h2]
    rfl

/-- non-vacuity: a template CPD that is well-formed for the shifted cardinalities -/
example : (Factor.mk [1, 0] [2, 2] #[9/10, 1/10, 1/10, 9/10]).WF (fun v => (fun _ => 2) (v + 1)) :=
  ⟨by decide, by decide, by decide⟩

end PgmVerif
