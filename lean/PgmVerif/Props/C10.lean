/-
  Props/C10.lean — structure scores: cache transparency, count invariance, closed-form terms
  of configurations that never occur.
-/
import PgmVerif.Props.C06
import PgmVerif.Model.Generated
import PgmVerif.Model.Score
import PgmVerif.Proofs.ScoreEq
namespace PgmVerif

/-! ### the LRU cache returns the base scorer's numbers, for every history -/

namespace LRU
variable {κ ν : Type} [DecidableEq κ]

/-- every stored value is the function's value at its key, and the size bound holds -/
def Inv (f : κ → ν) (c : LRU κ ν) : Prop :=
  (∀ e ∈ c.entries, e.2 = f e.1) ∧ c.entries.length ≤ max c.maxSize 1

theorem lookup_sound (f : κ → ν) (c : LRU κ ν) (h : Inv f c) (k : κ) (v : ν)
    (hl : c.lookup k = some v) : v = f k := by
  unfold lookup at hl
  cases hf : c.entries.find? (fun e => e.1 = k) with
  | none => simp [hf] at hl
  | some e =>
    simp only [hf, Option.map_some, Option.some.injEq] at hl
    have hmem := List.mem_of_find?_eq_some hf
    have hk : e.1 = k := by simpa using List.find?_some hf
    rw [← hl, h.1 e hmem, hk]

theorem call_spec (f : κ → ν) (c : LRU κ ν) (h : Inv f c) (hm : 1 ≤ c.maxSize) (k : κ) :
    (call f c k).2 = f k ∧ Inv f (call f c k).1 ∧ (call f c k).1.maxSize = c.maxSize := by
  unfold call
  cases hl : c.lookup k with
  | some v =>
    have hv := lookup_sound f c h k v hl
    refine ⟨hv, ⟨?_, ?_⟩, rfl⟩
    · intro e he
      rcases List.mem_append.mp he with he | he
      · exact h.1 e (List.mem_filter.mp he).1
      · have : e = (k, v) := by simpa using he
        rw [this]; exact hv
    · -- the key was present, so filtering removes at least one entry
      simp only [List.length_append, List.length_cons, List.length_nil]
      have hpres : ∃ e ∈ c.entries, e.1 = k := by
        unfold lookup at hl
        cases hf : c.entries.find? (fun e => e.1 = k) with
        | none => simp [hf] at hl
        | some e => exact ⟨e, List.mem_of_find?_eq_some hf, by simpa using List.find?_some hf⟩
      obtain ⟨e, he, hek⟩ := hpres
      have hlt : (c.entries.filter (fun e => e.1 ≠ k)).length < c.entries.length := by
        apply List.length_filter_lt_length_iff_exists.mpr
        exact ⟨e, he, by simp [hek]⟩
      have := h.2
      omega
  | none =>
    refine ⟨rfl, ⟨?_, ?_⟩, rfl⟩
    · intro e he
      simp only at he
      rcases List.mem_append.mp he with he | he
      · split at he
        · exact h.1 e (List.mem_of_mem_drop he)
        · exact h.1 e he
      · have : e = (k, f k) := by simpa using he
        rw [this]
    · simp only [List.length_append, List.length_cons, List.length_nil]
      have := h.2
      split
      · next hge => simp only [List.length_drop]; omega
      · next hlt => omega

end LRU

/-- **cache transparency**: for every call history and every `max_size ≥ 1`, the cached scorer
    returns exactly what the uncached scorer returns -/
theorem C10_cache_transparent {κ ν : Type} [DecidableEq κ] (f : κ → ν) (m : Nat) (hm : 1 ≤ m)
    (keys : List κ) :
    (LRU.run f { maxSize := m, entries := [] } keys).2 = keys.map f := by
  have : ∀ (keys : List κ) (c : LRU κ ν), LRU.Inv f c → 1 ≤ c.maxSize →
      (LRU.run f c keys).2 = keys.map f := by
    intro keys
    induction keys with
    | nil => intro c _ _; rfl
    | cons k ks ih =>
      intro c hc hmc
      obtain ⟨h1, h2, h3⟩ := LRU.call_spec f c hc hmc k
      simp only [LRU.run, List.map_cons]
      rw [ih _ h2 (by rw [h3]; exact hmc), h1]
  exact this keys _ ⟨fun e he => (by cases he), Nat.zero_le _⟩ hm

/-- … and never holds more than `max_size` entries -/
theorem C10_cache_bounded {κ ν : Type} [DecidableEq κ] (f : κ → ν) (m : Nat) (hm : 1 ≤ m)
    (keys : List κ) :
    (LRU.run f { maxSize := m, entries := [] } keys).1.entries.length ≤ m := by
  have : ∀ (keys : List κ) (c : LRU κ ν), LRU.Inv f c → 1 ≤ c.maxSize →
      LRU.Inv f (LRU.run f c keys).1 ∧ (LRU.run f c keys).1.maxSize = c.maxSize := by
    intro keys
    induction keys with
    | nil => intro c hc _; exact ⟨hc, rfl⟩
    | cons k ks ih =>
      intro c hc hmc
      obtain ⟨_, h2, h3⟩ := LRU.call_spec f c hc hmc k
      simp only [LRU.run]
      obtain ⟨i1, i2⟩ := ih _ h2 (by rw [h3]; exact hmc)
      exact ⟨i1, by rw [i2, h3]⟩
  obtain ⟨h1, h2⟩ := this keys { maxSize := m, entries := ([] : List (κ × ν)) }
    ⟨fun e he => (by cases he), Nat.zero_le _⟩ hm
  have := h1.2
  rw [h2] at this
  simp only at this
  omega

/-! ### counts -/

/-- the table of counts every score is computed from is invariant under row permutation -/
theorem C10_counts_row_perm (data data' : Data) (p : data.Perm data') (K : Var → Nat) (child : Var)
    (parents : List Var) : localCounts data K child parents = localCounts data' K child parents := by
  unfold localCounts
  simp only
  apply List.map_congr_left
  intro j _
  apply List.map_congr_left
  intro k _
  rw [C06_counts_perm data data' p]

/-! ### closed-form terms of unobserved configurations -/

theorem fact_pos (n : Nat) : 0 < fact n := by
  induction n with
  | zero => decide
  | succ n ih => simp only [fact]; exact Nat.mul_pos (Nat.succ_pos n) ih

theorem colTotal_replicate (r : Nat) : colTotal (List.replicate r 0) = 0 := by
  unfold colTotal; simp

/-- K2: a parent configuration that never occurs contributes the factor 1
    ((r−1)!/(r−1)! · Π 0!), i.e. the term 0 to the log score -/
theorem C10_unobserved_config_k2 (r : Nat) : k2Col r (List.replicate r 0) = 1 := by
  unfold k2Col
  rw [colTotal_replicate]
  simp [rising, fact]

/-- BDeu / BDs: likewise Γ(α)/Γ(α) · Π Γ(β)/Γ(β) = 1 -/
theorem C10_unobserved_config_bd (alpha beta : Rat) (r : Nat) : bdCol alpha beta (List.replicate r 0) = 1 := by
  unfold bdCol
  rw [colTotal_replicate]
  simp [rising]

/-- the rising factorial satisfies the Gamma recurrence Γ(b+n+1) = (b+n) Γ(b+n): it is the
    rational Γ(b+n)/Γ(b) in which the published scores are expressed -/
theorem C10_rising_gamma (b : Rat) (n : Nat) :
    rising b 0 = 1 ∧ rising b (n + 1) = rising b n * (b + n) ∧ rising 1 n = (fact n : Rat) := by
  refine ⟨rfl, rfl, ?_⟩
  induction n with
  | zero => simp [rising, fact]
  | succ n ih =>
    simp only [rising, fact, ih]
    push_cast
    ring

/-- **scores do not depend on how the states or the parent configurations are numbered**: the K2 and BD column terms
    are invariant under permuting the counts within a column (relabelling the child's states), and the K2 score under
    permuting the columns (relabelling / reordering parent configurations) -/
theorem C10_state_order_irrelevant (r : Nat) (alpha beta : Rat) (col col' : List Nat) (p : col.Perm col')
    (cols cols' : List (List Nat)) (q : cols.Perm cols') :
    k2Col r col = k2Col r col' ∧ bdCol alpha beta col = bdCol alpha beta col' ∧ k2Exp r cols = k2Exp r cols' := by
  refine ⟨?_, ?_, ?_⟩
  · unfold k2Col colTotal
    rw [(p.map _).prod_eq, p.sum_eq]
  · unfold bdCol colTotal
    rw [(p.map _).prod_eq, p.sum_eq]
  · unfold k2Exp
    rw [(q.map _).prod_eq]

/-! ### score equivalence across a covered edge (Proofs/ScoreEq.lean)

X and Y have the same other parents (q joint configurations); `N j x y` are the counts.  Chickering (1995):
two DAGs are Markov equivalent iff one is reached from the other by a sequence of covered-edge reversals, so
these three identities are the whole algebraic content of "BDeu, BIC and AIC assign identical scores to
Markov-equivalent DAGs"; the graph-theoretic chain itself is not proved here. -/

/-- BDeu: local score of X | Pa times local score of Y | Pa ∪ {X} is symmetric in X and Y -/
theorem C10_bdeu_covered_edge (ess : Rat) (hess : 0 < ess) (q rx ry : Nat) (hq : 0 < q) (hrx : 0 < rx) (hry : 0 < ry)
    (N : Nat → Nat → Nat → Nat) :
    bdeuExp ess rx (colsX q rx ry N) * bdeuExp ess ry (colsYgX q rx ry N)
      = bdeuExp ess ry (colsX q ry rx (fun j y x => N j x y)) * bdeuExp ess rx (colsYgX q ry rx (fun j y x => N j x y)) :=
  bdeu_covered_edge ess hess q rx ry hq hrx hry N

/-- BIC / AIC: the maximised likelihood is symmetric, including empty cells and empty rows -/
theorem C10_loglik_covered_edge (q rx ry : Nat) (N : Nat → Nat → Nat → Nat) :
    llExp (colsX q rx ry N) * llExp (colsYgX q rx ry N)
      = llExp (colsX q ry rx (fun j y x => N j x y)) * llExp (colsYgX q ry rx (fun j y x => N j x y)) :=
  ll_covered_edge q rx ry N

/-- BIC / AIC: so is the number of free parameters, hence the penalty -/
theorem C10_nparams_covered_edge (q rx ry : Nat) (hrx : 0 < rx) (hry : 0 < ry) (N : Nat → Nat → Nat → Nat) :
    nParams rx (colsX q rx ry N) + nParams ry (colsYgX q rx ry N)
      = nParams ry (colsX q ry rx (fun j y x => N j x y)) + nParams rx (colsYgX q ry rx (fun j y x => N j x y)) :=
  nParams_covered_edge q rx ry hrx hry N

/-- non-vacuity / sanity: a concrete 2x2 table, both orientations, same BDeu value -/
example : bdeuExp 1 2 (colsX 1 2 2 (fun _ x y => x + 2 * y)) * bdeuExp 1 2 (colsYgX 1 2 2 (fun _ x y => x + 2 * y)) =
    bdeuExp 1 2 (colsX 1 2 2 (fun _ y x => x + 2 * y)) * bdeuExp 1 2 (colsYgX 1 2 2 (fun _ y x => x + 2 * y)) :=
  C10_bdeu_covered_edge 1 (by norm_num) 1 2 2 (by norm_num) (by norm_num) (by norm_num) _

example : (LRU.run (fun k : Nat => k * k) { maxSize := 2, entries := [] } [1, 2, 1, 3, 2]).2 = [1, 4, 1, 9, 4] := by
  decide

/-- extraction tie: default cache size (≥ 1, as `C10_cache_transparent` requires) and default equivalent sample sizes -/
theorem C10_defaults_tie :
    Generated.scoreDefaults = [("LRUCache.max_size", 10000), ("ScoreCache.max_size", 10000), ("BDeuScore.ess", 10), ("BDsScore.ess", 10)] := by
  decide

end PgmVerif
