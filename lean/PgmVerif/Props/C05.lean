/-
  Props/C05.lean — CPD tables keep their column meaning; validation accepts exactly the
  column-normalised tables.
-/
import PgmVerif.Proofs.VE
import PgmVerif.Proofs.MassBound
import Mathlib.Tactic.Linarith
import Mathlib.Tactic.NormNum
import PgmVerif.Model.CPD
import PgmVerif.Model.Generated
namespace PgmVerif
open Factor

/-! ### layout of the 2-D table -/

theorem flatten_getD (n : Nat) : ∀ (t : List (List Rat)), (∀ r ∈ t, r.length = n) →
    ∀ (i j : Nat), i < t.length → j < n →
    t.flatten.getD (i * n + j) 0 = (t.getD i []).getD j 0
  | [], _, i, _, hi, _ => by simp at hi
  | r :: rs, h, 0, j, _, hj => by
    have hr : r.length = n := h r List.mem_cons_self
    simp [List.getD_eq_getElem?_getD, List.getElem?_append_left (by omega : j < r.length)]
  | r :: rs, h, i + 1, j, hi, hj => by
    have hr : r.length = n := h r List.mem_cons_self
    have ih := flatten_getD n rs (fun r' hr' => h r' (List.mem_cons_of_mem _ hr')) i j
      (by simpa using hi) hj
    have e : (i + 1) * n + j = r.length + (i * n + j) := by rw [hr]; ring
    simp only [List.flatten_cons, List.getD_eq_getElem?_getD] at ih ⊢
    rw [e, List.getElem?_append_right (by omega)]
    simpa using ih

/-- **column meaning**: entry (i, j) of the 2-D array is P(child = i | j-th parent configuration
    in C order of the declared evidence list) -/
theorem C05_column_meaning (child : Var) (parents : List Var) (ccard : Nat) (pcards : List Nat)
    (table : List (List Rat)) (hrows : table.length = ccard)
    (hcols : ∀ r ∈ table, r.length = pcards.prod) (a : Asg)
    (hc : a child < ccard) (hp : InRange pcards (parents.map a)) :
    (CPD.ofTable child parents ccard pcards table).den a
      = (table.getD (a child) []).getD (ravel pcards (parents.map a)) 0 := by
  have hj := ravel_lt pcards _ hp
  unfold den CPD.ofTable
  simp only [List.map_cons, ravel]
  rw [← flatten_getD pcards.prod table hcols (a child) _ (by omega) hj]
  simp [Array.getD, List.getD_eq_getElem?_getD]
  split <;> simp_all

/-- `get_values()` gives back the 2-D array the CPD was built from -/
theorem C05_get_values (child : Var) (parents : List Var) (ccard : Nat) (pcards : List Nat)
    (table : List (List Rat)) (hrows : table.length = ccard)
    (hcols : ∀ r ∈ table, r.length = pcards.prod) :
    CPD.getValues (CPD.ofTable child parents ccard pcards table) = table := by
  unfold CPD.getValues CPD.ofTable
  simp only
  apply List.ext_getElem
  · simp [hrows]
  · intro i h1 h2
    simp only [List.getElem_map, List.getElem_range]
    have hi : i < table.length := h2
    apply List.ext_getElem
    · simp [hcols _ (List.getElem_mem hi)]
    · intro j h3 h4
      have hj : j < pcards.prod := by simpa using h3
      simp only [List.getElem_map, List.getElem_range]
      have := flatten_getD pcards.prod table hcols i j hi hj
      have hsz : i * pcards.prod + j < table.flatten.toArray.size := by
        have : table.flatten.length = table.length * pcards.prod := by
          rw [List.length_flatten]
          have : table.map List.length = List.replicate table.length pcards.prod := by
            apply List.ext_getElem
            · simp
            · intro k hk _
              simp only [List.getElem_map, List.getElem_replicate]
              exact hcols _ (List.getElem_mem _)
          rw [this]; simp
        simp only [List.size_toArray, this]
        calc i * pcards.prod + j < i * pcards.prod + pcards.prod := by omega
          _ = (i + 1) * pcards.prod := by ring
          _ ≤ table.length * pcards.prod := Nat.mul_le_mul_right _ hi
      have e1 : table.flatten.toArray.getD (i * pcards.prod + j) 0
          = table.flatten.getD (i * pcards.prod + j) 0 := by
        simp [Array.getD, List.getD_eq_getElem?_getD]
        split <;> simp_all
      rw [e1, this]
      simp [List.getD_eq_getElem?_getD, List.getElem?_eq_getElem hi, List.getElem?_eq_getElem h4]

/-! ### transformations preserve P(child | parents) -/

/-- reordering the parents changes the layout, not the conditional distribution -/
theorem C05_reorder_parents (K : Var → Nat) (f : Factor) (hf : f.WF K) (c : Var) (ps np : List Var)
    (hs : f.scope = c :: ps) (hn : (c :: np).Nodup) (hperm : ∀ v, v ∈ np ↔ v ∈ ps)
    (a : Asg) (ha : Bounded K a) :
    (CPD.reorderParents f np).den a = f.den a ∧ (CPD.reorderParents f np).scope = c :: np ∧
    (CPD.reorderParents f np).WF K := by
  unfold CPD.reorderParents
  rw [hs]
  simp only
  have hsub : ∀ v ∈ c :: np, v ∈ f.scope := by
    intro v hv; rw [hs]
    rcases List.mem_cons.mp hv with h | h
    · exact h ▸ List.mem_cons_self
    · exact List.mem_cons_of_mem _ ((hperm v).mp h)
  have hsup : ∀ v ∈ f.scope, v ∈ c :: np := by
    intro v hv; rw [hs] at hv
    rcases List.mem_cons.mp hv with h | h
    · exact h ▸ List.mem_cons_self
    · exact List.mem_cons_of_mem _ ((hperm v).mpr h)
  refine ⟨den_permuteAxes K f hf _ hsub hsup a ha, ?_, wf_permuteAxes K f hf _ hn hsub⟩
  rw [permuteAxes_eq K f hf _ hsub]; rfl

theorem columnSums_den (K : Var → Nat) (f : Factor) (hf : f.WF K) (c : Var) (ps : List Var)
    (hs : f.scope = c :: ps) (a : Asg) (ha : Bounded K a) :
    (columnSums f).den a = sumR ((List.range (K c)).map (fun x => f.den (upd a c x))) := by
  unfold columnSums
  rw [hs]
  simp only
  exact den_marginalize_one K f hf c (by rw [hs]; exact List.mem_cons_self) a ha

/-- column normalisation divides each entry by its column's sum over the child states -/
theorem C05_col_normalize (K : Var → Nat) (f : Factor) (hf : f.WF K) (c : Var) (ps : List Var)
    (hs : f.scope = c :: ps) (a : Asg) (ha : Bounded K a) :
    (CPD.colNormalize f).den a =
      (let s := sumR ((List.range (K c)).map (fun x => f.den (upd a c x)))
       if s = 0 then 0 else f.den a / s) ∧ (CPD.colNormalize f).WF K := by
  unfold CPD.colNormalize
  simp only
  constructor
  · rw [hf.2.1]
    rw [den_tabulateK K _ _ a ha]
    · rw [columnSums_den K f hf c ps hs a ha]
    · intro x y hxy
      have h1 : f.den x = f.den y := den_dependsOn f x y hxy
      have h2 : (columnSums f).den x = (columnSums f).den y := by
        apply den_dependsOn
        intro v hv
        apply hxy
        unfold columnSums at hv
        rw [hs] at hv
        simp only at hv
        rw [scope_marginalize K f hf] at hv
        exact (List.mem_filter.mp hv).1
      simp only [h1, h2]
  · rw [hf.2.1]; exact wf_tabulate K _ _ hf.1

/-- marginalising parents out of a CPD = summing them out and renormalising each column -/
theorem C05_marginalize (K : Var → Nat) (f : Factor) (hf : f.WF K) (c : Var) (ps vs : List Var)
    (hs : f.scope = c :: ps) (hc : c ∉ vs) (a : Asg) (ha : Bounded K a) :
    (CPD.marginalize f vs).den a =
      (let g := f.marginalize vs
       let s := sumR ((List.range (K c)).map (fun x => g.den (upd a c x)))
       if s = 0 then 0 else g.den a / s) := by
  unfold CPD.marginalize
  have hg := wf_marginalize K f hf vs
  have hsc : (f.marginalize vs).scope = c :: ps.filter (fun v => !vs.contains v) := by
    rw [scope_marginalize K f hf, keepScope, hs, List.filter_cons]
    simp [hc]
  exact (C05_col_normalize K _ hg c _ hsc a ha).1

/-- reducing parents of a CPD = slicing and renormalising each column -/
theorem C05_reduce (K : Var → Nat) (f : Factor) (hf : f.WF K) (c : Var) (ps : List Var)
    (ev : List (Var × Nat)) (hs : f.scope = c :: ps) (hc : c ∉ ev.map (·.1))
    (a : Asg) (ha : Bounded K a) :
    (CPD.reduce f ev).den a =
      (let g := f.reduce ev
       let s := sumR ((List.range (K c)).map (fun x => g.den (upd a c x)))
       if s = 0 then 0 else g.den a / s) := by
  unfold CPD.reduce
  have hg := wf_reduce K f hf ev
  have hsc : (f.reduce ev).scope = c :: ps.filter (fun v => !(ev.map (·.1)).contains v) := by
    rw [reduce_eq K f hf]
    show keepScope f _ = _
    rw [keepScope, hs, List.filter_cons]
    simp only [List.contains_eq_mem, hc, decide_false, Bool.not_false, if_true]
  exact (C05_col_normalize K _ hg c _ hsc a ha).1

/-! ### validity -/

/-- an accepted CPD has every column sum within the tolerance of 1 -/
theorem C05_valid_sound (K : Var → Nat) (tol : Rat) (f : Factor) (hf : f.WF K) (c : Var) (ps : List Var)
    (hs : f.scope = c :: ps) (hv : CPD.isValid tol f = true) (a : Asg) (ha : Bounded K a) :
    CPD.absR (sumR ((List.range (K c)).map (fun x => f.den (upd a c x))) - 1) ≤ tol := by
  rw [← columnSums_den K f hf c ps hs a ha]
  unfold CPD.isValid at hv
  rw [Array.all_eq_true] at hv
  have hcs : (columnSums f).WF K := by
    unfold columnSums; rw [hs]; exact wf_marginalize K f hf [c]
  have hin : InRange (columnSums f).card ((columnSums f).scope.map a) := by
    rw [hcs.2.1]; exact inRange_map K a ha _
  have hlt := ravel_lt _ _ hin
  rw [← hcs.2.2] at hlt
  have := hv _ hlt
  unfold den
  simp only [Array.getD, hlt, dite_true]
  simpa using this

/-- a CPD all of whose column sums are within the tolerance is accepted -/
theorem C05_valid_complete (K : Var → Nat) (hK : ∀ v, 0 < K v) (tol : Rat) (f : Factor) (hf : f.WF K)
    (c : Var) (ps : List Var) (hs : f.scope = c :: ps)
    (h : ∀ a, Bounded K a →
      CPD.absR (sumR ((List.range (K c)).map (fun x => f.den (upd a c x))) - 1) ≤ tol) :
    CPD.isValid tol f = true := by
  have hcs : (columnSums f).WF K := by
    unfold columnSums; rw [hs]; exact wf_marginalize K f hf [c]
  unfold CPD.isValid
  rw [Array.all_eq_true]
  intro i hi
  -- the i-th column is the column of some bounded assignment
  let g := columnSums f
  let a : Asg := fun w => if w ∈ g.scope then asgOf g.scope g.card i w else 0
  have hiP : i < g.card.prod := by rw [← hcs.2.2]; exact hi
  have hmap : g.scope.map a = unravel g.card i := by
    rw [← scope_map_asgOf K g hcs i]
    apply List.map_congr_left
    intro w hw
    simp [a, hw]
  have hb : Bounded K a := by
    intro w
    by_cases hw : w ∈ g.scope
    · have hr := unravel_inRange g.card i hiP
      rw [← hmap, hcs.2.1] at hr
      -- pick the coordinate of w
      have : ∀ (vs : List Var), InRange (vs.map K) (vs.map a) → w ∈ vs → a w < K w := by
        intro vs
        induction vs with
        | nil => intro _ h; cases h
        | cons u us ih =>
          intro hr hm
          rcases List.mem_cons.mp hm with e | e
          · subst e; exact hr.1
          · exact ih hr.2 e
      exact this _ hr hw
    · simp [a, hw]; exact hK w
  have := h a hb
  rw [← columnSums_den K f hf c ps hs a hb] at this
  have hd : g.den a = g.vals[i] := by
    show g.vals.getD (ravel g.card (g.scope.map a)) 0 = _
    rw [hmap, ravel_unravel _ _ hiP]
    exact dif_pos hi
  rw [hd] at this
  simpa using this

/-- `check_model` accepts exactly when every node passes both passes: it has a CPD whose
    evidence set equals the graph parents and whose columns are normalised within tolerance,
    and every parent axis carries the parent's own cardinality and state names -/
theorem C05_check_model_iff (tol : Rat) (ns : List NodeSpec) :
    checkModel tol ns = none ↔
      (∀ n ∈ ns, ∃ f, n.cpd = some f ∧ sameSet f.scope.tail n.graphParents = true ∧
          CPD.isValid tol f = true) ∧
      (∀ n ∈ ns, checkAxes ns n = none) := by
  unfold checkModel
  have hnode : ∀ n : NodeSpec, checkNode tol n = none ↔
      ∃ f, n.cpd = some f ∧ sameSet f.scope.tail n.graphParents = true ∧ CPD.isValid tol f = true := by
    intro n
    unfold checkNode
    cases hc : n.cpd with
    | none => simp
    | some f =>
      simp only
      cases h1 : sameSet f.scope.tail n.graphParents <;> cases h2 : CPD.isValid tol f <;> simp [h1, h2]
  constructor
  · intro h
    cases h1 : ns.findSome? (checkNode tol) with
    | some e => simp [h1] at h
    | none =>
      simp only [h1] at h
      rw [List.findSome?_eq_none_iff] at h1 h
      exact ⟨fun n hn => (hnode n).mp (h1 n hn), h⟩
  · rintro ⟨h1, h2⟩
    have : ns.findSome? (checkNode tol) = none := by
      rw [List.findSome?_eq_none_iff]
      exact fun n hn => (hnode n).mpr (h1 n hn)
    simp only [this]
    rw [List.findSome?_eq_none_iff]
    exact h2

/-- **a validated network's joint sums to one** (exact column sums): list the CPDs children-first
    (reverse topological order), so that the child of each CPD occurs in no later CPD of the list;
    if every CPD is normalised over its child, summing the product of all CPDs over all variables
    gives 1 — for every graph shape and every cardinality -/
theorem C05_joint_mass_one (K : Var → Nat) (cpds : List (Var × Factor))
    (hnorm : ∀ p ∈ cpds, ∀ a, Bounded K a → sumVar K p.1 p.2.den a = 1)
    (htopo : cpds.Pairwise (fun p q => p.1 ∉ q.2.scope))
    (a : Asg) (ha : Bounded K a) :
    sumOut K (cpds.map (·.1)) (jointDen (cpds.map (·.2))) a = 1 := by
  have := leaves_sum_out K [] cpds hnorm (fun _ _ f hf => by cases hf) htopo a ha
  rw [List.append_nil] at this
  rw [this, jointDen_nil]

/-- **joint mass of a network that passes validation with tolerance `t`**: `check_model` accepts a CPD whose columns sum to 1
    within `t` (`is_valid_cpd`, `atol`; the literal is pinned by `C05_atol_tie`).  For non-negative CPDs listed children-first,
    `|column sum − 1| ≤ t` for every column of every CPD gives  `(1−t)^n ≤ Σ_all ∏ CPDs ≤ (1+t)^n`  for the `n`-node network —
    the exact statement `C05_joint_mass_one` is the case `t = 0`. -/
theorem C05_joint_mass_within_tolerance (K : Var → Nat) (t : Rat) (ht1 : t ≤ 1) (cpds : List (Var × Factor))
    (hcol : ∀ p ∈ cpds, ∀ a, Bounded K a → |sumVar K p.1 p.2.den a - 1| ≤ t)
    (hnn : NonnegF K (cpds.map (·.2)))
    (htopo : cpds.Pairwise (fun p q => p.1 ∉ q.2.scope))
    (a : Asg) (ha : Bounded K a) :
    (1 - t) ^ cpds.length ≤ sumOut K (cpds.map (·.1)) (jointDen (cpds.map (·.2))) a ∧
    sumOut K (cpds.map (·.1)) (jointDen (cpds.map (·.2))) a ≤ (1 + t) ^ cpds.length := by
  refine joint_mass_bounds K (1 - t) (1 + t) (by linarith) cpds ?_ hnn htopo a ha
  intro p hp b hb
  have := abs_le.mp (hcol p hp b hb)
  constructor <;> linarith [this.1, this.2]

/-- non-vacuity of the tolerance statement: a CPD whose column sums are 1.005 and 0.995 is within t = 1/100 and not exact -/
example : |(1005 / 1000 : Rat) - 1| ≤ 1 / 100 ∧ |(995 / 1000 : Rat) - 1| ≤ 1 / 100 ∧ (1005 / 1000 : Rat) ≠ 1 := by
  refine ⟨?_, ?_, ?_⟩ <;> norm_num [abs_le]

/-- extraction tie: the `atol` literal in `DiscreteFactor.is_valid_cpd` is the documented 0.01 -/
theorem C05_atol_tie : Generated.validCpdAtol = some (1, 100) := by decide

/-! non-vacuity: a concrete CPD meets the hypotheses -/
example : (CPD.ofTable 0 [1] 2 [2] [[1/2, 1/3], [1/2, 2/3]]).WF (fun _ => 2) ∧
    (CPD.ofTable 0 [1] 2 [2] [[1/2, 1/3], [1/2, 2/3]]).scope = 0 :: [1] ∧ Bounded (fun _ => 2) (fun _ => 1) := by
  refine ⟨⟨by decide, by decide, by decide⟩, rfl, fun _ => by show 1 < 2; omega⟩

end PgmVerif
