/-
  Props/C16.lean — representation independence and engine histories.
-/
import PgmVerif.Props.C01
import Mathlib.Algebra.BigOperators.Group.List.Basic
namespace PgmVerif
open Factor

/-- the joint denotation depends only on the multiset of factors (insertion order of CPDs /
    factors is irrelevant) -/
theorem C16_perm_invariant (fs gs : List Factor) (p : fs.Perm gs) (a : Asg) :
    jointDen fs a = jointDen gs a := by
  unfold jointDen prodR
  exact (p.map _).prod_eq

/-- the order in which variables are summed out is irrelevant (any elimination order, any
    iteration order of a set) -/
theorem C16_sumOut_perm (K : Var → Nat) (l l' : List Var) (p : l.Perm l') (g : Asg → Rat) (a : Asg) :
    sumOut K l g a = sumOut K l' g a := by rw [sumOut_perm K p g]

/-- a factor whose variables are renamed by `π` -/
def Factor.rename (π : Var → Var) (f : Factor) : Factor := { f with scope := f.scope.map π }

/-- renaming variables commutes with denotation: the renamed table at `a` is the original table
    at `a ∘ π` -/
theorem C16_rename_den (π : Var → Var) (f : Factor) (a : Asg) :
    (f.rename π).den a = f.den (a ∘ π) := by
  unfold Factor.rename den
  simp [List.map_map]

/-- **renaming and renaming back is the identity**: a table carried to other variable names (strings, ints, tuples -
    any injective relabelling with left inverse ρ) and back is the very same table -/
theorem C16_rename_roundtrip (π ρ : Var → Var) (h : ∀ v, ρ (π v) = v) (f : Factor) :
    (f.rename π).rename ρ = f := by
  unfold Factor.rename
  simp [List.map_map, Function.comp_def, h]

theorem C16_rename_joint (π : Var → Var) (fs : List Factor) (a : Asg) :
    jointDen (fs.map (Factor.rename π)) a = jointDen fs (a ∘ π) := by
  unfold jointDen
  rw [List.map_map]
  congr 1
  apply List.map_congr_left
  intro f _
  exact C16_rename_den π f a

/-- **engine history**: after any number of virtual-evidence queries the engine is bound to the
    original network plus unobserved leaf CPDs `__X` (each normalised, each on a fresh
    variable that occurs in no other factor).  Summing those leaves out gives back the original
    joint, so every later answer equals a fresh engine's answer. -/
theorem C16_engine_history (K : Var → Nat) (fs : List Factor) (leaves : List (Var × Factor))
    (hnorm : ∀ p ∈ leaves, ∀ a, Bounded K a → sumVar K p.1 p.2.den a = 1)
    (hfresh : ∀ p ∈ leaves, ∀ f ∈ fs, p.1 ∉ f.scope)
    (hpair : leaves.Pairwise (fun p q => p.1 ∉ q.2.scope))
    (a : Asg) (ha : Bounded K a) :
    sumOut K (leaves.map (·.1)) (jointDen (leaves.map (·.2) ++ fs)) a = jointDen fs a :=
  leaves_sum_out K fs leaves hnorm hfresh hpair a ha

example : ([Factor.mk [0] [2] #[1, 2], Factor.mk [1] [2] #[3, 4]] : List Factor).Perm
    [Factor.mk [1] [2] #[3, 4], Factor.mk [0] [2] #[1, 2]] := List.Perm.swap _ _ _

end PgmVerif
