import PgmVerif.Props.C04
open PgmVerif
#print axioms PgmVerif.C04_den_product
#print axioms PgmVerif.C04_den_add
#print axioms PgmVerif.C04_den_divide
#print axioms PgmVerif.C04_den_marginalize
#print axioms PgmVerif.C04_den_maximize
#print axioms PgmVerif.C04_den_reduce
#print axioms PgmVerif.C04_den_normalize
#print axioms PgmVerif.C04_axis_order_irrelevant
#print axioms PgmVerif.C04_product_comm
#print axioms PgmVerif.C04_product_assoc
#print axioms PgmVerif.C04_wf_product
#print axioms PgmVerif.C04_wf_marginalize
#print axioms PgmVerif.unravel_ravel
#print axioms PgmVerif.ravel_unravel
#print axioms PgmVerif.C04_scalar_ops
#print axioms PgmVerif.C04_scalar_neutral
#print axioms PgmVerif.C04_normalize_scale
#print axioms PgmVerif.C04_divide_product_cancel
#print axioms PgmVerif.C04_reduce_order_irrelevant
#print axioms PgmVerif.C04_eliminate_set
#print axioms PgmVerif.C04_normalize_sums_to_one
