import PgmVerif.Props.C15
open PgmVerif
#print axioms PgmVerif.C15_step_inv
#print axioms PgmVerif.C15_bn_acyclic
#print axioms PgmVerif.C15_reject_unchanged
#print axioms PgmVerif.C15_do_edges
#print axioms PgmVerif.acyclic_add_edge
#print axioms PgmVerif.hasPath_complete
#print axioms PgmVerif.C15_step_book
#print axioms PgmVerif.C15_bookkeeping
#print axioms PgmVerif.shaped_marg
#print axioms PgmVerif.C15_step_cpds
#print axioms PgmVerif.C15_cpd_bookkeeping
#print axioms PgmVerif.C15_remove_forgets
#print axioms PgmVerif.C15_do_parentless
#print axioms PgmVerif.C15_reachable_consistent
