import PgmVerif.Props.C12
open PgmVerif
#print axioms PgmVerif.C12_extension_sound
#print axioms PgmVerif.C12_cpdag_directed_sound
#print axioms PgmVerif.C12_class_members
#print axioms PgmVerif.isAcyclicG_sound
#print axioms PgmVerif.C12_adjacent_never_separated
#print axioms PgmVerif.C12_parents_separate
#print axioms PgmVerif.C12_nonadjacent_separable
#print axioms PgmVerif.C12_toDag_acyclic
#print axioms PgmVerif.C12_toDag_keeps_directed
#print axioms PgmVerif.C12_toDag_only_orients
#print axioms PgmVerif.C12_toDag_orients_all
#print axioms PgmVerif.C12_meek_rules_sound
