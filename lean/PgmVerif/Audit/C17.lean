import PgmVerif.Props.C17
open PgmVerif
#print axioms PgmVerif.C17_shift_den
#print axioms PgmVerif.C17_unroll_slices
#print axioms PgmVerif.C17_shift_add
#print axioms PgmVerif.C17_unroll_prefix
#print axioms PgmVerif.C17_unroll_wf
#print axioms PgmVerif.C17_slicewise_elimination_exact
