import PgmVerif.Props.C14
open PgmVerif
#print axioms PgmVerif.C14_each_factor_once
#print axioms PgmVerif.C14_moral_covers_family
#print axioms PgmVerif.C14_moral_only_family
#print axioms PgmVerif.C14_bn_to_mn_measure
#print axioms PgmVerif.C14_elimination_is_perfect
#print axioms PgmVerif.C14_filled_graph_chordal
