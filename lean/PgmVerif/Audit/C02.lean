import PgmVerif.Props.C02
open PgmVerif
#print axioms PgmVerif.C02_update_preserves_measure
#print axioms PgmVerif.C02_calibrated_fixed_point
#print axioms PgmVerif.C02_two_clique_exact
#print axioms PgmVerif.C02_sepset_agreement_after_update
#print axioms PgmVerif.C02_calibrated_tree_exact
#print axioms PgmVerif.C02_calibrated_tree_marginal
#print axioms PgmVerif.C02_max_calibrated_tree_exact
