import PgmVerif.Props.C11
open PgmVerif
#print axioms PgmVerif.C11_apply_acyclic
#print axioms PgmVerif.C11_hc_acyclic
#print axioms PgmVerif.C11_best_is_max
#print axioms PgmVerif.C11_loop_stops_below_eps
#print axioms PgmVerif.C11_hc_lists
#print axioms PgmVerif.C11_delta_exact
#print axioms PgmVerif.C11_hc_monotone
#print axioms PgmVerif.C11_hc_indegree
#print axioms PgmVerif.C11_hc_budget
#print axioms PgmVerif.C11_defaults_tie
#print axioms PgmVerif.C11_tree_scale_invariant
