import PgmVerif.Props.C10
open PgmVerif
#print axioms PgmVerif.C10_cache_transparent
#print axioms PgmVerif.C10_cache_bounded
#print axioms PgmVerif.C10_counts_row_perm
#print axioms PgmVerif.C10_unobserved_config_k2
#print axioms PgmVerif.C10_unobserved_config_bd
#print axioms PgmVerif.C10_rising_gamma
#print axioms PgmVerif.C10_state_order_irrelevant
#print axioms PgmVerif.C10_bdeu_covered_edge
#print axioms PgmVerif.C10_loglik_covered_edge
#print axioms PgmVerif.C10_nparams_covered_edge
#print axioms PgmVerif.C10_defaults_tie
