import PgmVerif.Props.C07
open PgmVerif
#print axioms PgmVerif.C07_gibbs_kernel_local
#print axioms PgmVerif.C07_gibbs_kernel_normalised
#print axioms PgmVerif.C07_lw_weight
#print axioms PgmVerif.C07_zero_mass
#print axioms PgmVerif.C07_forward_step
#print axioms PgmVerif.C07_forward_law
#print axioms PgmVerif.C07_rejection_law
#print axioms PgmVerif.C07_lw_law
#print axioms PgmVerif.C07_partial_law
