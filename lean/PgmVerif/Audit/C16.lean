import PgmVerif.Props.C16
open PgmVerif
#print axioms PgmVerif.C16_perm_invariant
#print axioms PgmVerif.C16_rename_den
#print axioms PgmVerif.C16_rename_roundtrip
#print axioms PgmVerif.C16_rename_joint
#print axioms PgmVerif.C16_engine_history
#print axioms PgmVerif.C16_sumOut_perm
