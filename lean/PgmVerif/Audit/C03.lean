import PgmVerif.Props.C03
open PgmVerif
#print axioms PgmVerif.C03_argmax_is_max
#print axioms PgmVerif.C03_argmax_decode
#print axioms PgmVerif.C03_map_is_maximiser
#print axioms PgmVerif.C03_max_elimination_any_order
#print axioms PgmVerif.C03_argmax_scale_invariant
