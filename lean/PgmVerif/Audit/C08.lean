import PgmVerif.Props.C08
open PgmVerif
#print axioms PgmVerif.C08_saturate_closed
#print axioms PgmVerif.C08_saturate_sound
#print axioms PgmVerif.C08_reach_exact
#print axioms PgmVerif.C08_reach_iff_active_trail
#print axioms PgmVerif.C08_ancestors_exact
#print axioms PgmVerif.C08_blanket_spec
#print axioms PgmVerif.DSep.activeRev_reverse
#print axioms PgmVerif.C08_dconnection_symmetric
