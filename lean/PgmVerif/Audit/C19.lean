import PgmVerif.Props.C19
open PgmVerif
#print axioms PgmVerif.C19_symmetric
#print axioms PgmVerif.C19_row_perm
#print axioms PgmVerif.C19_zero_on_independent
#print axioms PgmVerif.C19_lambda_tie
#print axioms PgmVerif.C19_pearson_cell
#print axioms PgmVerif.C19_pearson_stat_nonneg
#print axioms PgmVerif.C19_yates_between
