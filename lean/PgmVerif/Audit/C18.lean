import PgmVerif.Props.C18
open PgmVerif
#print axioms PgmVerif.C18_same_equiv
#print axioms PgmVerif.C18_closure_extensive
#print axioms PgmVerif.C18_closure_closed
#print axioms PgmVerif.C18_ci_product_form
#print axioms PgmVerif.C18_iequiv_refl_symm
