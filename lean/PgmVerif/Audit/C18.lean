import PgmVerif.Props.C18
open PgmVerif
#print axioms PgmVerif.C18_same_equiv
#print axioms PgmVerif.C18_closure_extensive
#print axioms PgmVerif.C18_closure_closed
#print axioms PgmVerif.C18_ci_product_form
#print axioms PgmVerif.C18_iequiv_refl_symm
#print axioms PgmVerif.C18_iequiv_trans
#print axioms PgmVerif.C18_closure_sound
#print axioms PgmVerif.C18_closure_semantically_sound
#print axioms PgmVerif.CI_decomposition
#print axioms PgmVerif.CI_weak_union
#print axioms PgmVerif.CI_contraction
#print axioms PgmVerif.C18_ci_scale_invariant
#print axioms PgmVerif.C18_ci_unnormalised
