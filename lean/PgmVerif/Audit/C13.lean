import PgmVerif.Props.C13
open PgmVerif
#print axioms PgmVerif.C13_do_surgery
#print axioms PgmVerif.C13_do_acyclic
#print axioms PgmVerif.C13_parents_adjustment
#print axioms PgmVerif.C13_parent_adjustment_exact
#print axioms PgmVerif.C13_do_compose_graph
#print axioms PgmVerif.C13_do_cpd_parentless
