import PgmVerif.Props.C20
open PgmVerif
#print axioms PgmVerif.C20_cov_fixed_point
#print axioms PgmVerif.C20_cov_unique
#print axioms PgmVerif.C20_conditional_is_schur
#print axioms PgmVerif.C20_precision_block
#print axioms PgmVerif.C20_round_tie
