import PgmVerif.Props.C01
open PgmVerif
#print axioms PgmVerif.C01_ve_any_order
#print axioms PgmVerif.C01_order_irrelevant
#print axioms PgmVerif.C01_elim_step
#print axioms PgmVerif.C01_sum_swap
#print axioms PgmVerif.C01_virtual_evidence
#print axioms PgmVerif.C01_barren_leaf
#print axioms PgmVerif.C01_likelihood_scale
