import PgmVerif.Props.C05
open PgmVerif
#print axioms PgmVerif.C05_column_meaning
#print axioms PgmVerif.C05_get_values
#print axioms PgmVerif.C05_reorder_parents
#print axioms PgmVerif.C05_col_normalize
#print axioms PgmVerif.C05_marginalize
#print axioms PgmVerif.C05_reduce
#print axioms PgmVerif.C05_valid_sound
#print axioms PgmVerif.C05_valid_complete
#print axioms PgmVerif.C05_check_model_iff
#print axioms PgmVerif.C05_atol_tie
#print axioms PgmVerif.C05_joint_mass_one
#print axioms PgmVerif.C05_joint_mass_within_tolerance
