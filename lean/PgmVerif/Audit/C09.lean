import PgmVerif.Props.C09
open PgmVerif
#print axioms PgmVerif.C09_colmajor_roundtrip
#print axioms PgmVerif.C09_colmajor_entry
#print axioms PgmVerif.C09_uai_index_bijection
#print axioms PgmVerif.C09_round4_bound
#print axioms PgmVerif.C09_round4_idempotent
#print axioms PgmVerif.C09_net_decimals_tie
