import PgmVerif.Props.C06
open PgmVerif
#print axioms PgmVerif.C06_counts_den
#print axioms PgmVerif.C06_counts_perm
#print axioms PgmVerif.C06_counts_parent_order
#print axioms PgmVerif.C06_mle_closed_form
#print axioms PgmVerif.C06_bayes_closed_form
#print axioms PgmVerif.C06_fitted_valid
#print axioms PgmVerif.C06_mle_weight_scale
#print axioms PgmVerif.C06_bayes_zero_prior
