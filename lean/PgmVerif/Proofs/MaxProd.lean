/-
  Proofs/MaxProd.lean — maximisation over the states of variables at the level of functions
  `Asg → Rat` (the max-product analogue of Proofs/SumProd.lean) and the max-calibrated clique tree.
-/
import PgmVerif.Props.C02
namespace PgmVerif
open Factor

/-- max_{x < K v} g(a[v := x]) -/
def maxVar (K : Var → Nat) (v : Var) (g : Asg → Rat) : Asg → Rat :=
  fun a => maxR ((List.range (K v)).map (fun x => g (upd a v x)))

/-- maximise over the variables of the list, first one innermost -/
def maxOut (K : Var → Nat) : List Var → (Asg → Rat) → (Asg → Rat)
  | [], g => g
  | v :: vs, g => maxOut K vs (maxVar K v g)

theorem maxOut_append (K : Var → Nat) : ∀ (l l' : List Var) (g : Asg → Rat),
    maxOut K (l ++ l') g = maxOut K l' (maxOut K l g)
  | [], _, _ => rfl
  | v :: l, l', g => by simp only [List.cons_append, maxOut]; exact maxOut_append K l l' _

/-- a non-negative constant factors out of a maximum over a non-empty list -/
theorem maxR_map_mul_left {ι : Type} (l : List ι) (hl : l ≠ []) (c : Rat) (hc : 0 ≤ c) (f : ι → Rat) :
    maxR (l.map (fun y => c * f y)) = c * maxR (l.map f) := by
  have hne1 : l.map (fun y => c * f y) ≠ [] := by simpa using hl
  have hne2 : l.map f ≠ [] := by simpa using hl
  apply le_antisymm
  · obtain ⟨y0, _, hy0⟩ := List.mem_map.mp (maxR_mem _ hne1)
    rw [← hy0]
    exact mul_le_mul_of_nonneg_left (maxR_ge _ _ (List.mem_map.mpr ⟨y0, ‹_›, rfl⟩)) hc
  · obtain ⟨y1, hy1m, hy1⟩ := List.mem_map.mp (maxR_mem _ hne2)
    rw [← hy1]
    exact maxR_ge _ _ (List.mem_map.mpr ⟨y1, hy1m, rfl⟩)

theorem maxVar_mul_const (K : Var → Nat) (v : Var) (hK : 0 < K v) (c g : Asg → Rat)
    (hc : ∀ a x, c (upd a v x) = c a) (a : Asg) (hca : 0 ≤ c a) :
    maxVar K v (fun b => c b * g b) a = c a * maxVar K v g a := by
  unfold maxVar
  have : (List.range (K v)).map (fun x => c (upd a v x) * g (upd a v x))
      = (List.range (K v)).map (fun x => c a * g (upd a v x)) := by
    apply List.map_congr_left; intro x _; rw [hc]
  rw [this]
  exact maxR_map_mul_left _ (by simp; omega) (c a) hca _

theorem maxOut_mul_const (K : Var → Nat) : ∀ (vs : List Var) (c g : Asg → Rat), (∀ v ∈ vs, 0 < K v) →
    IndepOf c vs → (∀ a, 0 ≤ c a) → ∀ a, maxOut K vs (fun b => c b * g b) a = c a * maxOut K vs g a
  | [], _, _, _, _, _, _ => rfl
  | v :: vs, c, g, hK, hc, hpos, a => by
    simp only [maxOut]
    have h1 : maxVar K v (fun b => c b * g b) = fun b => c b * maxVar K v g b := by
      funext b
      exact maxVar_mul_const K v (hK v List.mem_cons_self) c g (fun a' x => hc a' v x List.mem_cons_self) b (hpos b)
    rw [h1]
    exact maxOut_mul_const K vs c (maxVar K v g) (fun w hw => hK w (List.mem_cons_of_mem _ hw))
      (fun a' w x hw => hc a' w x (List.mem_cons_of_mem _ hw)) hpos a

theorem treeMeasure_nonneg (b0 : Asg → Rat) (h0 : ∀ a, 0 ≤ b0 a) : ∀ (L : List Leaf),
    (∀ d ∈ L, ∀ a, 0 ≤ d.β a ∧ 0 < d.μ a) → ∀ a, 0 ≤ treeMeasure b0 L a
  | [], _, a => h0 a
  | c :: rest, hL, a => by
    simp only [treeMeasure]
    have ih := treeMeasure_nonneg b0 h0 rest (fun d hd => hL d (List.mem_cons_of_mem _ hd)) a
    obtain ⟨hb, hm⟩ := hL c List.mem_cons_self a
    exact mul_nonneg ih (div_nonneg hb (le_of_lt hm))

/-- leaf-peeling order + running intersection + MAX-calibration, non-negative beliefs, positive sepsets -/
def MaxPeelable (K : Var → Nat) (b0 : Asg → Rat) : List Leaf → Prop
  | [] => True
  | c :: rest =>
      IndepOf b0 c.priv ∧ (∀ d ∈ rest, IndepOf d.β c.priv ∧ IndepOf d.μ c.priv) ∧
      IndepOf c.μ c.priv ∧ (∀ a, maxOut K c.priv c.β a = c.μ a) ∧ (∀ v ∈ c.priv, 0 < K v) ∧
      MaxPeelable K b0 rest

/-- **max-calibrated tree ⇒ exact max-marginal**: maximising the clique-tree measure over every variable
    outside the root clique returns the root belief (the max-product analogue of
    `C02_calibrated_tree_exact`; what `max_calibrate` / `map_query` by belief propagation rely on) -/
theorem max_calibrated_tree_exact (K : Var → Nat) (b0 : Asg → Rat) (h0 : ∀ a, 0 ≤ b0 a) : ∀ (L : List Leaf),
    (∀ d ∈ L, ∀ a, 0 ≤ d.β a ∧ 0 < d.μ a) → MaxPeelable K b0 L →
    maxOut K (L.flatMap Leaf.priv) (treeMeasure b0 L) = b0
  | [], _, _ => rfl
  | c :: rest, hL, ⟨hb0, hrest, hmu, hcal, hK, hP⟩ => by
    have hLr : ∀ d ∈ rest, ∀ a, 0 ≤ d.β a ∧ 0 < d.μ a := fun d hd => hL d (List.mem_cons_of_mem _ hd)
    have hM : IndepOf (treeMeasure b0 rest) c.priv := treeMeasure_indep b0 c.priv rest hb0 hrest
    have hMpos := treeMeasure_nonneg b0 h0 rest hLr
    have hc := hL c List.mem_cons_self
    have hinv : IndepOf (fun b => 1 / c.μ b) c.priv := by
      intro a v x hv; simp only [hmu a v x hv]
    have hinvpos : ∀ a, 0 ≤ 1 / c.μ a := fun a => le_of_lt (one_div_pos.mpr (hc a).2)
    have step : maxOut K c.priv (treeMeasure b0 (c :: rest)) = treeMeasure b0 rest := by
      funext a
      have e1 : treeMeasure b0 (c :: rest) = fun b => treeMeasure b0 rest b * ((fun b => c.β b / c.μ b) b) := rfl
      rw [e1, maxOut_mul_const K c.priv _ _ hK hM hMpos a]
      have e2 : (fun b => c.β b / c.μ b) = fun b => (1 / c.μ b) * c.β b := by funext b; ring
      rw [e2, maxOut_mul_const K c.priv _ _ hK hinv hinvpos a, hcal a]
      have := ne_of_gt (hc a).2
      field_simp
    rw [List.flatMap_cons, maxOut_append, step]
    exact max_calibrated_tree_exact K b0 h0 rest hLr hP

end PgmVerif
