/-
  Proofs/DBNFilter.lean — eliminating the unrolled network slice by slice (the elimination order that the
  interface / forward algorithm realises with its 1.5-slice clique trees) is exact.
-/
import PgmVerif.Props.C01
import PgmVerif.Props.C17
namespace PgmVerif
open Factor

/-- ids of the variables of slices 0..T in slice order, without the kept (query / evidence) ones -/
def sliceOrder (k T : Nat) (keep : List Var) : List Var :=
  (List.range ((T + 1) * k)).filter (fun i => !keep.contains i)

theorem sliceOrder_nodup (k T : Nat) (keep : List Var) : (sliceOrder k T keep).Nodup :=
  List.Nodup.filter _ List.nodup_range

/-- **slice-wise elimination of the unrolled network is exact**: for a well-formed template, any evidence and
    any set of kept variables, variable elimination in slice order (slice 0 first, then slice 1, …) leaves the
    evidence-reduced product of ALL unrolled CPDs summed over exactly the eliminated variables — for every
    number of slices T.  (Instance of `C01_ve_any_order`; the forward pass of `DBNInference` computes the same
    sums through its start / 1.5-slice junction trees.) -/
theorem slicewise_elimination_exact (K : Var → Nat) (tm : DBNTemplate) (T : Nat) (ev : List (Var × Nat))
    (keep : List Var) (hwf : AllWF K (tm.unroll T)) (hkeep : ∀ p ∈ ev, p.1 ∈ keep)
    (hment : ∀ v ∈ sliceOrder tm.k T keep, Mentioned (tm.unroll T) v) (a : Asg) (ha : Bounded K a) :
    (productAll (veRun ((tm.unroll T).map (fun f => f.reduce ev)) (sliceOrder tm.k T keep))).den a
      = sumOut K (sliceOrder tm.k T keep)
          (fun b => jointDen (tm.unroll T) (overrideL b (ev.map (·.1)) (ev.map (·.2)))) a := by
  apply C01_ve_any_order K (tm.unroll T) ev (sliceOrder tm.k T keep) hwf (sliceOrder_nodup tm.k T keep) _ a ha
  intro v hv
  refine ⟨?_, hment v hv⟩
  intro hmem
  obtain ⟨p, hp, rfl⟩ := List.mem_map.mp hmem
  have := (List.mem_filter.mp hv).2
  simp only [Bool.not_eq_true', List.contains_eq_mem, decide_eq_false_iff_not] at this
  exact this (hkeep p hp)

end PgmVerif
