/-
  Proofs/VE.lean — variable elimination over ANY order computes the sum of the factor product
  over the eliminated variables (the algorithm model of Model/VE.lean against the brute-force
  specification of Model/BN.lean).
-/
import PgmVerif.Model.VE
import PgmVerif.Proofs.SumProd
namespace PgmVerif
open Factor

def AllWF (K : Var → Nat) (fs : List Factor) : Prop := ∀ f ∈ fs, f.WF K
def Mentioned (fs : List Factor) (v : Var) : Prop := ∃ f ∈ fs, v ∈ f.scope

theorem jointDen_nil (a : Asg) : jointDen [] a = 1 := by simp [jointDen, prodR]
theorem jointDen_cons (f : Factor) (fs : List Factor) (a : Asg) :
    jointDen (f :: fs) a = f.den a * jointDen fs a := by simp [jointDen, prodR]
theorem jointDen_append (fs gs : List Factor) (a : Asg) :
    jointDen (fs ++ gs) a = jointDen fs a * jointDen gs a := by simp [jointDen, prodR]

theorem jointDen_filter (p : Factor → Bool) : ∀ (fs : List Factor) (a : Asg),
    jointDen fs a = jointDen (fs.filter p) a * jointDen (fs.filter (fun f => !p f)) a
  | [], a => by simp [jointDen_nil]
  | f :: fs, a => by
    rw [jointDen_cons, jointDen_filter p fs a]
    by_cases h : p f = true
    · simp [List.filter_cons, h, jointDen_cons]; ring
    · have h' : p f = false := by simpa using h
      simp [List.filter_cons, h', jointDen_cons]; ring

/-! ### n-ary product -/

theorem foldl_product (K : Var → Nat) : ∀ (fs : List Factor) (acc : Factor), acc.WF K → AllWF K fs →
    (fs.foldl product acc).WF K ∧
    (∀ a, Bounded K a → (fs.foldl product acc).den a = acc.den a * jointDen fs a) ∧
    (∀ v, v ∈ (fs.foldl product acc).scope ↔ v ∈ acc.scope ∨ Mentioned fs v)
  | [], acc, hacc, _ => by
    refine ⟨hacc, fun a _ => by simp [jointDen_nil], fun v => ?_⟩
    simp [Mentioned]
  | f :: fs, acc, hacc, hfs => by
    have hf : f.WF K := hfs f List.mem_cons_self
    have hfs' : AllWF K fs := fun g hg => hfs g (List.mem_cons_of_mem _ hg)
    have hp := wf_product K acc f hacc hf
    obtain ⟨h1, h2, h3⟩ := foldl_product K fs (product acc f) hp hfs'
    refine ⟨h1, ?_, ?_⟩
    · intro a ha
      simp only [List.foldl_cons]
      rw [h2 a ha, den_product K acc f hacc hf a ha, jointDen_cons]; ring
    · intro v
      simp only [List.foldl_cons]
      rw [h3 v]
      have : v ∈ (product acc f).scope ↔ v ∈ acc.scope ∨ v ∈ f.scope := by
        unfold product; rw [scope_combine K _ acc f hacc hf]; exact mem_unionScope acc f v
      rw [this]
      unfold Mentioned
      constructor
      · rintro ((h | h) | ⟨g, hg, hv⟩)
        · exact Or.inl h
        · exact Or.inr ⟨f, List.mem_cons_self, h⟩
        · exact Or.inr ⟨g, List.mem_cons_of_mem _ hg, hv⟩
      · rintro (h | ⟨g, hg, hv⟩)
        · exact Or.inl (Or.inl h)
        · rcases List.mem_cons.mp hg with e | e
          · subst e; exact Or.inl (Or.inr hv)
          · exact Or.inr ⟨g, e, hv⟩

theorem productAll_spec (K : Var → Nat) (fs : List Factor) (hfs : AllWF K fs) :
    (productAll fs).WF K ∧
    (∀ a, Bounded K a → (productAll fs).den a = jointDen fs a) ∧
    (∀ v, v ∈ (productAll fs).scope ↔ Mentioned fs v) := by
  cases fs with
  | nil =>
    refine ⟨?_, ?_, ?_⟩
    · exact wf_tabulate K [] _ List.nodup_nil
    · intro a _
      unfold productAll
      rw [den_tabulate [] [] _ a trivial, jointDen_nil]
    · intro v; simp [productAll, tabulate, Mentioned]
  | cons f fs =>
    have hf : f.WF K := hfs f List.mem_cons_self
    have hfs' : AllWF K fs := fun g hg => hfs g (List.mem_cons_of_mem _ hg)
    obtain ⟨h1, h2, h3⟩ := foldl_product K fs f hf hfs'
    refine ⟨h1, ?_, ?_⟩
    · intro a ha
      show (fs.foldl product f).den a = _
      rw [h2 a ha, jointDen_cons]
    · intro v
      show v ∈ (fs.foldl product f).scope ↔ _
      rw [h3 v]
      unfold Mentioned
      constructor
      · rintro (h | ⟨g, hg, hv⟩)
        · exact ⟨f, List.mem_cons_self, h⟩
        · exact ⟨g, List.mem_cons_of_mem _ hg, hv⟩
      · rintro ⟨g, hg, hv⟩
        rcases List.mem_cons.mp hg with e | e
        · subst e; exact Or.inl hv
        · exact Or.inr ⟨g, e, hv⟩

/-! ### one elimination step -/

theorem den_upd_notin (f : Factor) (v : Var) (hv : v ∉ f.scope) (a : Asg) (x : Nat) :
    f.den (upd a v x) = f.den a := by
  apply den_dependsOn f
  intro w hw
  have : w ≠ v := fun e => hv (e ▸ hw)
  simp [upd, this]

theorem jointDen_upd_notin (v : Var) : ∀ (fs : List Factor), (∀ f ∈ fs, v ∉ f.scope) →
    ∀ (a : Asg) (x : Nat), jointDen fs (upd a v x) = jointDen fs a
  | [], _, a, x => by simp [jointDen_nil]
  | f :: fs, h, a, x => by
    rw [jointDen_cons, jointDen_cons, den_upd_notin f v (h f List.mem_cons_self),
      jointDen_upd_notin v fs (fun g hg => h g (List.mem_cons_of_mem _ hg))]

theorem elimVar_spec (K : Var → Nat) (fs : List Factor) (hfs : AllWF K fs) (v : Var)
    (hm : Mentioned fs v) :
    AllWF K (elimVar fs v) ∧
    EqB K (jointDen (elimVar fs v)) (sumVar K v (jointDen fs)) ∧
    (∀ w, w ≠ v → Mentioned fs w → Mentioned (elimVar fs v) w) := by
  obtain ⟨f0, hf0, hv0⟩ := hm
  have huses_wf : AllWF K (fs.filter (fun f => f.scope.contains v)) :=
    fun f hf => hfs f (List.mem_filter.mp hf).1
  have hrest_wf : AllWF K (fs.filter (fun f => !f.scope.contains v)) :=
    fun f hf => hfs f (List.mem_filter.mp hf).1
  have hf0u : f0 ∈ fs.filter (fun f => f.scope.contains v) :=
    List.mem_filter.mpr ⟨hf0, by simpa using hv0⟩
  have hne : (fs.filter (fun f => f.scope.contains v)).isEmpty = false := by
    cases h : fs.filter (fun f => f.scope.contains v) with
    | nil => rw [h] at hf0u; cases hf0u
    | cons _ _ => rfl
  obtain ⟨hP, hPden, hPscope⟩ := productAll_spec K _ huses_wf
  have hvP : v ∈ (productAll (fs.filter (fun f => f.scope.contains v))).scope :=
    (hPscope v).mpr ⟨f0, hf0u, hv0⟩
  have hM := wf_marginalize K _ hP [v]
  have heq : elimVar fs v = fs.filter (fun f => !f.scope.contains v) ++
      [(productAll (fs.filter (fun f => f.scope.contains v))).marginalize [v]] := by
    unfold elimVar elimVarWith
    simp only [hne]
    rfl
  refine ⟨?_, ?_, ?_⟩
  · rw [heq]
    intro g hg
    rcases List.mem_append.mp hg with h | h
    · exact hrest_wf g h
    · rw [List.mem_singleton.mp h]; exact hM
  · intro a ha
    rw [heq, jointDen_append, jointDen_cons, jointDen_nil, mul_one,
      den_marginalize_one K _ hP v hvP a ha, sumVar_eq]
    unfold sumR
    rw [list_range_sum, Finset.mul_sum]
    apply Finset.sum_congr rfl
    intro x hx
    have hb := upd_bounded ha v x (Finset.mem_range.mp hx)
    rw [hPden _ hb, jointDen_filter (fun f => f.scope.contains v) fs (upd a v x)]
    rw [jointDen_upd_notin v (fs.filter (fun f => !f.scope.contains v))
      (fun f hf => by simpa using (List.mem_filter.mp hf).2) a x]
    ring
  · intro w hw ⟨g, hg, hwg⟩
    rw [heq]
    by_cases hgv : g.scope.contains v = true
    · refine ⟨_, List.mem_append_right _ (List.mem_singleton.mpr rfl), ?_⟩
      rw [scope_marginalize K _ hP]
      unfold keepScope
      refine List.mem_filter.mpr ⟨(hPscope w).mpr ⟨g, List.mem_filter.mpr ⟨hg, hgv⟩, hwg⟩, ?_⟩
      simp [hw]
    · exact ⟨g, List.mem_append_left _ (List.mem_filter.mpr ⟨hg, by simpa using hgv⟩), hwg⟩

/-! ### the whole run, any order -/

theorem veRun_spec (K : Var → Nat) : ∀ (order : List Var) (fs : List Factor), AllWF K fs →
    order.Nodup → (∀ v ∈ order, Mentioned fs v) →
    AllWF K (veRun fs order) ∧ EqB K (jointDen (veRun fs order)) (sumOut K order (jointDen fs))
  | [], fs, hfs, _, _ => ⟨hfs, fun _ _ => rfl⟩
  | v :: vs, fs, hfs, hn, hm => by
    obtain ⟨h1, h2, h3⟩ := elimVar_spec K fs hfs v (hm v List.mem_cons_self)
    have hn' := List.nodup_cons.mp hn
    have hm' : ∀ w ∈ vs, Mentioned (elimVar fs v) w := by
      intro w hw
      have : w ≠ v := fun e => hn'.1 (e ▸ hw)
      exact h3 w this (hm w (List.mem_cons_of_mem _ hw))
    obtain ⟨i1, i2⟩ := veRun_spec K vs (elimVar fs v) h1 hn'.2 hm'
    refine ⟨i1, ?_⟩
    intro a ha
    show jointDen (veRun (elimVar fs v) vs) a = sumOut K vs (sumVar K v (jointDen fs)) a
    rw [i2 a ha]
    exact sumOut_congr vs h2 a ha

/-! ### evidence -/

theorem reduce_map_spec (K : Var → Nat) (ev : List (Var × Nat)) : ∀ (fs : List Factor), AllWF K fs →
    AllWF K (fs.map (fun f => f.reduce ev)) ∧
    EqB K (jointDen (fs.map (fun f => f.reduce ev)))
      (fun a => jointDen fs (overrideL a (ev.map (·.1)) (ev.map (·.2))))
  | [], _ => by
    refine ⟨?_, ?_⟩
    · intro g hg; cases hg
    · intro a _; simp [jointDen_nil]
  | f :: fs, hfs => by
    have hf : f.WF K := hfs f List.mem_cons_self
    obtain ⟨h1, h2⟩ := reduce_map_spec K ev fs (fun g hg => hfs g (List.mem_cons_of_mem _ hg))
    refine ⟨?_, ?_⟩
    · intro g hg
      rcases List.mem_cons.mp hg with e | e
      · rw [e]; exact wf_reduce K f hf ev
      · exact h1 g e
    · intro a ha
      simp only [List.map_cons, jointDen_cons]
      rw [den_reduce K f hf ev a ha, h2 a ha]

theorem mentioned_reduce (K : Var → Nat) (ev : List (Var × Nat)) (fs : List Factor) (hfs : AllWF K fs)
    (v : Var) (hv : v ∉ ev.map (·.1)) (hm : Mentioned fs v) :
    Mentioned (fs.map (fun f => f.reduce ev)) v := by
  obtain ⟨f, hf, hvf⟩ := hm
  refine ⟨f.reduce ev, List.mem_map.mpr ⟨f, hf, rfl⟩, ?_⟩
  rw [reduce_eq K f (hfs f hf)]
  show v ∈ keepScope f _
  unfold keepScope
  exact List.mem_filter.mpr ⟨hvf, by simpa using hv⟩


/-! ### normalised leaves sum out to one -/

/-- a normalised CPD of a variable that occurs nowhere else sums out to 1 -/
theorem barren_leaf (K : Var → Nat) (c : Factor) (fs : List Factor) (u : Var)
    (hnorm : ∀ a, Bounded K a → sumVar K u c.den a = 1) (hu : ∀ f ∈ fs, u ∉ f.scope)
    (a : Asg) (ha : Bounded K a) :
    sumVar K u (jointDen (c :: fs)) a = jointDen fs a := by
  have : sumVar K u (jointDen (c :: fs)) a = sumVar K u (fun b => jointDen fs b * c.den b) a := by
    congr 1; funext b; rw [jointDen_cons, mul_comm]
  rw [this, sumVar_mul_const K u (jointDen fs) c.den (fun b x => jointDen_upd_notin u fs hu b x) a,
    hnorm a ha, mul_one]

/-- eliminating, one after another, variables whose (normalised) CPD is the only remaining
    factor that mentions them removes those CPDs from the product -/
theorem leaves_sum_out (K : Var → Nat) (fs : List Factor) :
    ∀ (leaves : List (Var × Factor)),
      (∀ p ∈ leaves, ∀ a, Bounded K a → sumVar K p.1 p.2.den a = 1) →
      (∀ p ∈ leaves, ∀ f ∈ fs, p.1 ∉ f.scope) →
      (leaves.Pairwise (fun p q => p.1 ∉ q.2.scope)) →
      ∀ a, Bounded K a →
        sumOut K (leaves.map (·.1)) (jointDen (leaves.map (·.2) ++ fs)) a = jointDen fs a
  | [], _, _, _, a, _ => rfl
  | p :: ps, hnorm, hfresh, hpair, a, ha => by
    have hp := List.pairwise_cons.mp hpair
    simp only [List.map_cons, List.cons_append, sumOut]
    have ih := leaves_sum_out K fs ps
      (fun q hq => hnorm q (List.mem_cons_of_mem _ hq))
      (fun q hq => hfresh q (List.mem_cons_of_mem _ hq)) hp.2
    rw [← ih a ha]
    apply sumOut_congr
    · intro b hb
      apply barren_leaf K p.2 _ p.1 (hnorm p List.mem_cons_self) _ b hb
      intro f hf
      rcases List.mem_append.mp hf with h | h
      · obtain ⟨q, hq, rfl⟩ := List.mem_map.mp h
        exact hp.1 q hq
      · exact hfresh p List.mem_cons_self f h
    · exact ha

end PgmVerif
