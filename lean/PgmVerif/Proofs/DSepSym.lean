/-
  Proofs/DSepSym.lean — an active trail read backwards is an active trail: d-connection is symmetric.
-/
import PgmVerif.Proofs.DSep
namespace PgmVerif
namespace DSep
variable (g : DG) (obs anc : List Var)

theorem adj_symm (a b : Var) : Adj g a b ↔ Adj g b a := by unfold Adj; exact Or.comm

theorem ok3_symm (a b c : Var) : Ok3 g obs anc a b c ↔ Ok3 g obs anc c b a := by
  unfold Ok3
  have : (E g a b ∧ E g c b) ↔ (E g c b ∧ E g a b) := And.comm
  rw [this]

/-- the index form of `ActiveRev` -/
def ActiveIdx (l : List Var) : Prop :=
  (∀ i (h : i + 1 < l.length), Adj g (l[i + 1]) (l[i])) ∧
  (∀ i (h : i + 2 < l.length), Ok3 g obs anc (l[i + 2]) (l[i + 1]) (l[i]))

theorem activeRev_iff_idx : ∀ l : List Var, ActiveRev g obs anc l ↔ ActiveIdx g obs anc l
  | [] => by simp [ActiveRev, ActiveIdx]
  | [_] => by simp [ActiveRev, ActiveIdx]
  | [b, a] => by
    simp only [ActiveRev, ActiveIdx]
    constructor
    · intro h
      refine ⟨fun i hi => ?_, fun i hi => absurd hi (by simp)⟩
      have : i = 0 := by simp at hi; omega
      subst this; exact h
    · intro h; exact h.1 0 (by simp)
  | c :: b :: a :: rest => by
    have ih := activeRev_iff_idx (b :: a :: rest)
    simp only [ActiveRev]
    rw [ih]
    unfold ActiveIdx
    constructor
    · rintro ⟨h1, h2, h3, h4⟩
      refine ⟨fun i hi => ?_, fun i hi => ?_⟩
      · cases i with
        | zero => exact h1
        | succ j => exact h3 j (by simpa using hi)
      · cases i with
        | zero => exact h2
        | succ j => exact h4 j (by simpa using hi)
    · rintro ⟨h1, h2⟩
      refine ⟨h1 0 (by simp), h2 0 (by simp), fun i hi => ?_, fun i hi => ?_⟩
      · exact h1 (i + 1) (by simpa using hi)
      · exact h2 (i + 1) (by simpa using hi)

theorem activeIdx_reverse (l : List Var) (h : ActiveIdx g obs anc l) : ActiveIdx g obs anc l.reverse := by
  obtain ⟨h1, h2⟩ := h
  refine ⟨fun i hi => ?_, fun i hi => ?_⟩
  · have hl : i + 1 < l.length := by simpa using hi
    rw [List.getElem_reverse, List.getElem_reverse]
    have := h1 (l.length - 1 - (i + 1)) (by omega)
    rw [adj_symm]
    have e : l.length - 1 - (i + 1) + 1 = l.length - 1 - i := by omega
    simpa [e] using this
  · have hl : i + 2 < l.length := by simpa using hi
    rw [List.getElem_reverse, List.getElem_reverse, List.getElem_reverse]
    have := h2 (l.length - 1 - (i + 2)) (by omega)
    rw [ok3_symm]
    have e1 : l.length - 1 - (i + 2) + 2 = l.length - 1 - i := by omega
    have e2 : l.length - 1 - (i + 2) + 1 = l.length - 1 - (i + 1) := by omega
    simpa [e1, e2] using this

/-- **an active trail read backwards is active** -/
theorem activeRev_reverse (l : List Var) (h : ActiveRev g obs anc l) : ActiveRev g obs anc l.reverse :=
  (activeRev_iff_idx g obs anc _).mpr (activeIdx_reverse g obs anc l ((activeRev_iff_idx g obs anc l).mp h))

/-- every active trail arrives at its head in some direction -/
theorem arrDir_exists : ∀ l : List Var, l ≠ [] → ActiveRev g obs anc l → ∃ d, ArrDir g l d
  | [], h, _ => absurd rfl h
  | [_], _, _ => ⟨true, rfl⟩
  | [b, a], _, h => by
    simp only [ActiveRev, Adj] at h
    rcases h with h | h
    · exact ⟨false, Or.inr ⟨rfl, h⟩⟩
    · exact ⟨true, Or.inl ⟨rfl, h⟩⟩
  | c :: b :: a :: rest, _, h => by
    simp only [ActiveRev, Adj] at h
    rcases h.1 with h1 | h1
    · exact ⟨false, Or.inr ⟨rfl, h1⟩⟩
    · exact ⟨true, Or.inl ⟨rfl, h1⟩⟩

end DSep
end PgmVerif
