/-
  Proofs/Spec.lean — the brute-force specification (`jointTable`, `posteriorU`) written as
  nested sums, so that it can be compared with what variable elimination computes.
-/
import PgmVerif.Proofs.VE
namespace PgmVerif
open Factor

theorem sum_range_mul (c P : Nat) (h : Nat → Nat → Rat) :
    ∑ i ∈ Finset.range (c * P), h (i / P) (i % P)
      = ∑ x ∈ Finset.range c, ∑ j ∈ Finset.range P, h x j := by
  induction c with
  | zero => simp
  | succ c ih =>
    rw [Nat.succ_mul, Finset.sum_range_add, ih, Finset.sum_range_succ]
    congr 1
    apply Finset.sum_congr rfl
    intro j hj
    have hjP : j < P := Finset.mem_range.mp hj
    have hP : 0 < P := by omega
    have h1 : (c * P + j) / P = c := by
      rw [Nat.add_comm, Nat.add_mul_div_right _ _ hP, Nat.div_eq_of_lt hjP, Nat.zero_add]
    have h2 : (c * P + j) % P = j := by
      rw [Nat.add_comm, Nat.add_mul_mod_self_right, Nat.mod_eq_of_lt hjP]
    rw [h1, h2]

theorem overrideL_cons_upd (a : Asg) (v : Var) (x : Nat) (I : List Var) (xs : List Nat) (hv : v ∉ I) :
    overrideL a (v :: I) (x :: xs) = overrideL (upd a v x) I xs := by
  funext w
  simp only [overrideL]
  by_cases e : w = v
  · subst e
    rw [overrideL_notin (upd a w x) I xs w hv]
    simp [upd]
  · simp only [e, if_false]
    by_cases hw : w ∈ I
    · -- both read the value from xs (or fall through identically)
      revert xs
      induction I with
      | nil => cases hw
      | cons u us ih =>
        intro xs
        cases xs with
        | nil => simp [overrideL, upd, e]
        | cons y ys =>
          simp only [overrideL]
          by_cases e2 : w = u
          · simp [e2]
          · simp only [e2, if_false]
            have hwu : w ∈ us := by
              rcases List.mem_cons.mp hw with h | h
              · exact absurd h e2
              · exact h
            exact ih (fun h => hv (List.mem_cons_of_mem _ h)) hwu ys
    · rw [overrideL_notin _ I xs w hw, overrideL_notin _ I xs w hw]
      simp [upd, e]

/-- summing a function over all joint states of a duplicate-free variable list (the C-order
    enumeration used by the tables) is the nested sum over the single variables -/
theorem overStates_nested (K : Var → Nat) : ∀ (I : List Var), I.Nodup → ∀ (fn : Asg → Rat) (a : Asg),
    sumR (overStates I (I.map K) a fn) = sumOut K I fn a
  | [], _, fn, a => by
    simp [overStates, allIdx, unravel, overrideL, sumR, sumOut]
  | v :: I, hn, fn, a => by
    have hn' := List.nodup_cons.mp hn
    have ih := overStates_nested K I hn'.2 fn
    simp only [sumOut]
    rw [← sumVar_sumOut, sumVar_eq]
    unfold overStates allIdx sumR
    simp only [List.map_cons, List.prod_cons, unravel]
    rw [list_range_sum,
      sum_range_mul (K v) (I.map K).prod
        (fun x j => fn (overrideL a (v :: I) (x :: unravel (I.map K) j)))]
    apply Finset.sum_congr rfl
    intro x _
    rw [← ih (upd a v x)]
    unfold overStates allIdx sumR
    rw [list_range_sum]
    apply Finset.sum_congr rfl
    intro j _
    rw [overrideL_cons_upd a v x I _ hn'.1]

/-- marginalisation of a table = nested sums over the eliminated variables -/
theorem den_marginalize_nested (K : Var → Nat) (f : Factor) (hf : f.WF K) (vs : List Var)
    (a : Asg) (ha : Bounded K a) :
    (marginalize f vs).den a = sumOut K (elimScope f vs) f.den a := by
  rw [den_marginalize K f hf vs a ha]
  exact overStates_nested K _ (hf.1.filter _) f.den a

/-- the explicit joint table denotes the product of the factors -/
theorem jointTable_spec (K : Var → Nat) (fs : List Factor) (vars : List Var) (hn : vars.Nodup)
    (hcov : ∀ f ∈ fs, ∀ v ∈ f.scope, v ∈ vars) :
    (jointTable fs vars (vars.map K)).WF K ∧
    (∀ a, Bounded K a → (jointTable fs vars (vars.map K)).den a = jointDen fs a) := by
  refine ⟨wf_tabulate K vars _ hn, fun a ha => ?_⟩
  unfold jointTable
  apply den_tabulateK K vars _ a ha
  intro x y hxy
  unfold jointDen
  congr 1
  apply List.map_congr_left
  intro f hf
  exact den_dependsOn f x y (fun v hv => hxy v (hcov f hf v hv))

end PgmVerif
