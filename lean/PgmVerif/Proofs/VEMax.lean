/-
  Proofs/VEMax.lean — max-product variable elimination (`map_query` / `max_marginal` of
  VariableElimination): eliminating variables by maximisation, in ANY order, leaves factors whose
  product is the maximum of the original product over exactly those variables.
-/
import PgmVerif.Proofs.VE
import PgmVerif.Props.C02
namespace PgmVerif
open Factor

def NonnegF (K : Var → Nat) (fs : List Factor) : Prop := ∀ f ∈ fs, ∀ a, Bounded K a → 0 ≤ f.den a

theorem jointDen_nonneg (K : Var → Nat) : ∀ (fs : List Factor), NonnegF K fs → ∀ a, Bounded K a → 0 ≤ jointDen fs a
  | [], _, a, _ => by rw [jointDen_nil]; exact zero_le_one
  | f :: fs, h, a, ha => by
    rw [jointDen_cons]
    exact mul_nonneg (h f List.mem_cons_self a ha)
      (jointDen_nonneg K fs (fun g hg => h g (List.mem_cons_of_mem _ hg)) a ha)

def elimVarMax := elimVarWith Factor.maximize

theorem veMaxRun_cons (fs : List Factor) (v : Var) (vs : List Var) :
    veMaxRun fs (v :: vs) = veMaxRun (elimVarMax fs v) vs := rfl

theorem elimVarMax_spec (K : Var → Nat) (fs : List Factor) (hfs : AllWF K fs) (hnn : NonnegF K fs) (v : Var)
    (hK : 0 < K v) (hm : Mentioned fs v) :
    AllWF K (elimVarMax fs v) ∧ NonnegF K (elimVarMax fs v) ∧
    EqB K (jointDen (elimVarMax fs v)) (maxVar K v (jointDen fs)) ∧
    (∀ w, w ≠ v → Mentioned fs w → Mentioned (elimVarMax fs v) w) := by
  obtain ⟨f0, hf0, hv0⟩ := hm
  have huses_wf : AllWF K (fs.filter (fun f => f.scope.contains v)) :=
    fun f hf => hfs f (List.mem_filter.mp hf).1
  have hrest_wf : AllWF K (fs.filter (fun f => !f.scope.contains v)) :=
    fun f hf => hfs f (List.mem_filter.mp hf).1
  have huses_nn : NonnegF K (fs.filter (fun f => f.scope.contains v)) :=
    fun f hf => hnn f (List.mem_filter.mp hf).1
  have hrest_nn : NonnegF K (fs.filter (fun f => !f.scope.contains v)) :=
    fun f hf => hnn f (List.mem_filter.mp hf).1
  have hf0u : f0 ∈ fs.filter (fun f => f.scope.contains v) :=
    List.mem_filter.mpr ⟨hf0, by simpa using hv0⟩
  have hne : (fs.filter (fun f => f.scope.contains v)).isEmpty = false := by
    cases h : fs.filter (fun f => f.scope.contains v) with
    | nil => rw [h] at hf0u; cases hf0u
    | cons _ _ => rfl
  obtain ⟨hP, hPden, hPscope⟩ := productAll_spec K _ huses_wf
  have hvP : v ∈ (productAll (fs.filter (fun f => f.scope.contains v))).scope :=
    (hPscope v).mpr ⟨f0, hf0u, hv0⟩
  have hM := wf_maximize K _ hP [v]
  have heq : elimVarMax fs v = fs.filter (fun f => !f.scope.contains v) ++
      [(productAll (fs.filter (fun f => f.scope.contains v))).maximize [v]] := by
    unfold elimVarMax elimVarWith
    simp only [hne]
    rfl
  have hrange : List.range (K v) ≠ [] := by
    intro h
    have := congrArg List.length h
    simp at this
    omega
  -- the new factor at a genuine state: the maximum over v of the product of the factors that mention v
  have hMden : ∀ a, Bounded K a →
      ((productAll (fs.filter (fun f => f.scope.contains v))).maximize [v]).den a
        = maxR ((List.range (K v)).map (fun x => jointDen (fs.filter (fun f => f.scope.contains v)) (upd a v x))) := by
    intro a ha
    rw [den_maximize_one K _ hP v hvP a ha]
    congr 1
    apply List.map_congr_left
    intro x hx
    exact hPden _ (upd_bounded ha v x (List.mem_range.mp hx))
  refine ⟨?_, ?_, ?_, ?_⟩
  · rw [heq]
    intro g hg
    rcases List.mem_append.mp hg with h | h
    · exact hrest_wf g h
    · rw [List.mem_singleton.mp h]; exact hM
  · rw [heq]
    intro g hg a ha
    rcases List.mem_append.mp hg with h | h
    · exact hrest_nn g h a ha
    · rw [List.mem_singleton.mp h, hMden a ha]
      have hne2 : (List.range (K v)).map (fun x => jointDen (fs.filter (fun f => f.scope.contains v)) (upd a v x)) ≠ [] := by
        intro h'; exact hrange (List.map_eq_nil_iff.mp h')
      obtain ⟨x, hx, hxe⟩ := List.mem_map.mp (maxR_mem _ hne2)
      rw [← hxe]
      exact jointDen_nonneg K _ huses_nn _ (upd_bounded ha v x (List.mem_range.mp hx))
  · intro a ha
    rw [heq, jointDen_append, jointDen_cons, jointDen_nil, mul_one, hMden a ha]
    unfold maxVar
    have hsplit : (List.range (K v)).map (fun x => jointDen fs (upd a v x))
        = (List.range (K v)).map (fun x => jointDen (fs.filter (fun f => !f.scope.contains v)) a
            * jointDen (fs.filter (fun f => f.scope.contains v)) (upd a v x)) := by
      apply List.map_congr_left
      intro x _
      rw [jointDen_filter (fun f => f.scope.contains v) fs (upd a v x),
        jointDen_upd_notin v (fs.filter (fun f => !f.scope.contains v))
          (fun f hf => by simpa using (List.mem_filter.mp hf).2) a x]
      ring
    rw [hsplit, maxR_map_mul_left _ hrange _ (jointDen_nonneg K _ hrest_nn a ha)]
  · intro w hw ⟨g, hg, hwg⟩
    rw [heq]
    by_cases hgv : g.scope.contains v = true
    · refine ⟨_, List.mem_append_right _ (List.mem_singleton.mpr rfl), ?_⟩
      have hsc : ((productAll (fs.filter (fun f => f.scope.contains v))).maximize [v]).scope
          = keepScope (productAll (fs.filter (fun f => f.scope.contains v))) [v] := by
        rw [maximize_eq K _ hP [v]]; rfl
      rw [hsc]
      unfold keepScope
      refine List.mem_filter.mpr ⟨(hPscope w).mpr ⟨g, List.mem_filter.mpr ⟨hg, hgv⟩, hwg⟩, ?_⟩
      simp [hw]
    · exact ⟨g, List.mem_append_left _ (List.mem_filter.mpr ⟨hg, by simpa using hgv⟩), hwg⟩

theorem maxVar_congr {K : Var → Nat} {g h : Asg → Rat} (v : Var) (e : EqB K g h) :
    EqB K (maxVar K v g) (maxVar K v h) := by
  intro a ha
  unfold maxVar
  congr 1
  apply List.map_congr_left
  intro x hx
  exact e _ (upd_bounded ha v x (List.mem_range.mp hx))

theorem maxOut_congr {K : Var → Nat} : ∀ (vs : List Var) {g h : Asg → Rat}, EqB K g h →
    EqB K (maxOut K vs g) (maxOut K vs h)
  | [], _, _, e => e
  | v :: vs, _, _, e => maxOut_congr vs (maxVar_congr v e)

/-- **max-product elimination, any order** -/
theorem veMaxRun_spec (K : Var → Nat) : ∀ (order : List Var) (fs : List Factor), AllWF K fs → NonnegF K fs →
    order.Nodup → (∀ v ∈ order, Mentioned fs v ∧ 0 < K v) →
    AllWF K (veMaxRun fs order) ∧ EqB K (jointDen (veMaxRun fs order)) (maxOut K order (jointDen fs))
  | [], fs, hfs, _, _, _ => ⟨hfs, fun _ _ => rfl⟩
  | v :: vs, fs, hfs, hnn, hn, hm => by
    obtain ⟨h1, h1n, h2, h3⟩ := elimVarMax_spec K fs hfs hnn v (hm v List.mem_cons_self).2 (hm v List.mem_cons_self).1
    have hn' := List.nodup_cons.mp hn
    have hm' : ∀ w ∈ vs, Mentioned (elimVarMax fs v) w ∧ 0 < K w := by
      intro w hw
      have : w ≠ v := fun e => hn'.1 (e ▸ hw)
      exact ⟨h3 w this (hm w (List.mem_cons_of_mem _ hw)).1, (hm w (List.mem_cons_of_mem _ hw)).2⟩
    obtain ⟨i1, i2⟩ := veMaxRun_spec K vs (elimVarMax fs v) h1 h1n hn'.2 hm'
    rw [veMaxRun_cons]
    refine ⟨i1, ?_⟩
    intro a ha
    show jointDen (veMaxRun (elimVarMax fs v) vs) a = maxOut K vs (maxVar K v (jointDen fs)) a
    rw [i2 a ha]
    exact maxOut_congr vs h2 a ha

end PgmVerif
