/-
  Proofs/MassBound.lean — the tolerance version of "a validated network has joint mass 1":
  if every CPD column sums to something in [lo, hi] (what `check_model` accepts with its tolerance),
  the joint mass of an n-node network lies in [lo^n, hi^n].
-/
import PgmVerif.Proofs.VE
import PgmVerif.Proofs.VEMax
import Mathlib.Algebra.Order.BigOperators.Group.Finset
namespace PgmVerif
open Factor

/-- pointwise order on genuine joint states -/
def LeB (K : Var → Nat) (g h : Asg → Rat) : Prop := ∀ a, Bounded K a → g a ≤ h a

theorem sumVar_mono {K : Var → Nat} {g h : Asg → Rat} (v : Var) (e : LeB K g h) :
    LeB K (sumVar K v g) (sumVar K v h) := by
  intro a ha
  rw [sumVar_eq, sumVar_eq]
  apply Finset.sum_le_sum
  intro x hx
  exact e _ (upd_bounded ha v x (Finset.mem_range.mp hx))

theorem sumOut_mono {K : Var → Nat} : ∀ (vs : List Var) {g h : Asg → Rat}, LeB K g h →
    LeB K (sumOut K vs g) (sumOut K vs h)
  | [], _, _, e => e
  | v :: vs, _, _, e => sumOut_mono vs (sumVar_mono v e)

theorem sumVar_const_mul (K : Var → Nat) (v : Var) (c : Rat) (g : Asg → Rat) :
    sumVar K v (fun b => c * g b) = fun a => c * sumVar K v g a := by
  funext a
  simp only [sumVar_eq]
  rw [Finset.mul_sum]

theorem sumOut_const_mul (K : Var → Nat) (c : Rat) : ∀ (vs : List Var) (g : Asg → Rat),
    sumOut K vs (fun b => c * g b) = fun a => c * sumOut K vs g a
  | [], _ => rfl
  | v :: vs, g => by
    simp only [sumOut]
    rw [sumVar_const_mul, sumOut_const_mul K c vs]

/-- **joint mass within the validation tolerance**: CPDs listed children-first, non-negative, every column sum in `[lo, hi]`
    with `0 ≤ lo` ⇒ the sum of the CPD product over all variables lies in `[lo^n, hi^n]` -/
theorem joint_mass_bounds (K : Var → Nat) (lo hi : Rat) (hlo : 0 ≤ lo) :
    ∀ (cpds : List (Var × Factor)),
      (∀ p ∈ cpds, ∀ a, Bounded K a → lo ≤ sumVar K p.1 p.2.den a ∧ sumVar K p.1 p.2.den a ≤ hi) →
      NonnegF K (cpds.map (·.2)) →
      cpds.Pairwise (fun p q => p.1 ∉ q.2.scope) →
      ∀ a, Bounded K a →
        lo ^ cpds.length ≤ sumOut K (cpds.map (·.1)) (jointDen (cpds.map (·.2))) a ∧
        sumOut K (cpds.map (·.1)) (jointDen (cpds.map (·.2))) a ≤ hi ^ cpds.length
  | [], _, _, _, a, _ => by simp [sumOut, jointDen_nil]
  | p :: ps, hcol, hnn, hpair, a, ha => by
    have hp := List.pairwise_cons.mp hpair
    have hnn' : NonnegF K (ps.map (·.2)) := fun f hf => hnn f (by simp only [List.map_cons]; exact List.mem_cons_of_mem _ hf)
    have ih := joint_mass_bounds K lo hi hlo ps (fun q hq => hcol q (List.mem_cons_of_mem _ hq)) hnn' hp.2 a ha
    have hhi : 0 ≤ hi := le_trans hlo (le_trans (hcol p List.mem_cons_self a ha).1 (hcol p List.mem_cons_self a ha).2)
    have hfresh : ∀ f ∈ ps.map (·.2), p.1 ∉ f.scope := by
      intro f hf
      obtain ⟨q, hq, rfl⟩ := List.mem_map.mp hf
      exact hp.1 q hq
    -- the innermost sum: rest of the product times the column sum of p
    have inner : ∀ b, sumVar K p.1 (jointDen (p.2 :: ps.map (·.2))) b
        = jointDen (ps.map (·.2)) b * sumVar K p.1 p.2.den b := by
      intro b
      have : sumVar K p.1 (jointDen (p.2 :: ps.map (·.2))) b
          = sumVar K p.1 (fun c => jointDen (ps.map (·.2)) c * p.2.den c) b := by
        congr 1; funext c; rw [jointDen_cons, mul_comm]
      rw [this, sumVar_mul_const K p.1 (jointDen (ps.map (·.2))) p.2.den
        (fun c x => jointDen_upd_notin p.1 _ hfresh c x) b]
    have lower : LeB K (fun b => lo * jointDen (ps.map (·.2)) b) (sumVar K p.1 (jointDen (p.2 :: ps.map (·.2)))) := by
      intro b hb
      show lo * jointDen (ps.map (·.2)) b ≤ sumVar K p.1 (jointDen (p.2 :: ps.map (·.2))) b
      rw [inner b, mul_comm lo]
      exact mul_le_mul_of_nonneg_left (hcol p List.mem_cons_self b hb).1 (jointDen_nonneg K _ hnn' b hb)
    have upper : LeB K (sumVar K p.1 (jointDen (p.2 :: ps.map (·.2)))) (fun b => hi * jointDen (ps.map (·.2)) b) := by
      intro b hb
      show sumVar K p.1 (jointDen (p.2 :: ps.map (·.2))) b ≤ hi * jointDen (ps.map (·.2)) b
      rw [inner b, mul_comm hi]
      exact mul_le_mul_of_nonneg_left (hcol p List.mem_cons_self b hb).2 (jointDen_nonneg K _ hnn' b hb)
    have l2 := sumOut_mono (ps.map (·.1)) lower a ha
    have u2 := sumOut_mono (ps.map (·.1)) upper a ha
    rw [sumOut_const_mul] at l2 u2
    simp only [List.map_cons, sumOut, List.length_cons, pow_succ]
    constructor
    · calc lo ^ ps.length * lo = lo * lo ^ ps.length := mul_comm _ _
        _ ≤ lo * sumOut K (ps.map (·.1)) (jointDen (ps.map (·.2))) a := mul_le_mul_of_nonneg_left ih.1 hlo
        _ ≤ _ := l2
    · calc _ ≤ hi * sumOut K (ps.map (·.1)) (jointDen (ps.map (·.2))) a := u2
        _ ≤ hi * hi ^ ps.length := mul_le_mul_of_nonneg_left ih.2 hhi
        _ = hi ^ ps.length * hi := mul_comm _ _

end PgmVerif
