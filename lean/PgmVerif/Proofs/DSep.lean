/-
  Proofs/DSep.lean — the (node, direction) rule system of `active_trail_nodes` is exactly the
  textbook definition of an active trail: a sequence of adjacent nodes in which every interior
  non-collider is unobserved and every interior collider is an ancestor-or-self of an observed
  node (nodes may repeat).
-/
import PgmVerif.Proofs.Acyclic
namespace PgmVerif
open Relation

namespace DSep
variable (g : DG) (obs anc : List Var)

def E (a b : Var) : Prop := (a, b) ∈ g.edges
def Adj (a b : Var) : Prop := E g a b ∨ E g b a

/-- the condition on an interior node `b` between `a` and `c` -/
def Ok3 (a b c : Var) : Prop :=
  ((E g a b ∧ E g c b) → b ∈ anc) ∧ (¬ (E g a b ∧ E g c b) → b ∉ obs)

/-- the trail, written backwards (head = current end point), is active -/
def ActiveRev : List Var → Prop
  | c :: b :: a :: rest => Adj g b c ∧ Ok3 g obs anc a b c ∧ ActiveRev (b :: a :: rest)
  | [b, a] => Adj g a b
  | _ => True

/-- direction in which the head was reached: `true` = against an arrow (from a child, or the
    start), `false` = along an arrow (from a parent) -/
def ArrDir : List Var → Bool → Prop
  | n :: prev :: _, d => (d = true ∧ E g n prev) ∨ (d = false ∧ E g prev n)
  | [_], d => d = true
  | [], _ => False

end DSep

open DSep

theorem no_two_cycle (g : DG) (hac : Acyclic g.edges) (a b : Var) (h1 : E g a b) (h2 : E g b a) : False :=
  hac a (TransGen.tail (TransGen.single h1) h2)

theorem mem_trailNext (g : DG) (obs anc : List Var) (n : Var) (d : Bool) (s : DG.St) :
    s ∈ g.trailNext obs anc (n, d) ↔
      (d = true ∧ n ∉ obs ∧ ((s.2 = true ∧ E g s.1 n) ∨ (s.2 = false ∧ E g n s.1))) ∨
      (d = false ∧ ((n ∉ obs ∧ s.2 = false ∧ E g n s.1) ∨ (n ∈ anc ∧ s.2 = true ∧ E g s.1 n))) := by
  obtain ⟨v, b⟩ := s
  have hpar : ∀ p, p ∈ g.parents n ↔ (p, n) ∈ g.edges := fun p => g.mem_parents p n
  have hch : ∀ c, c ∈ g.children n ↔ (n, c) ∈ g.edges := fun c => g.mem_children n c
  unfold DG.trailNext E
  by_cases ho : n ∈ obs <;> by_cases ha : n ∈ anc <;> cases d <;> cases b <;>
    simp [ho, ha, hpar, hch, List.mem_map]

/-- soundness: every derived state is the end of an active trail from `x` -/
theorem gen_to_trail (g : DG) (hac : Acyclic g.edges) (obs anc : List Var) (x : Var) (s : DG.St)
    (h : Gen (g.trailNext obs anc) [(x, true)] s) :
    ∃ l : List Var, l.head? = some s.1 ∧ l.getLast? = some x ∧ ActiveRev g obs anc l ∧ ArrDir g l s.2 := by
  induction h with
  | @base s0 hb =>
    have : s0 = (x, true) := by simpa using hb
    subst this
    exact ⟨[x], rfl, rfl, trivial, rfl⟩
  | @step s' y _ hs ih =>
    obtain ⟨n, d⟩ := y
    obtain ⟨l, hh, hl, hact, harr⟩ := ih
    -- l = n :: tail
    cases l with
    | nil => simp at hh
    | cons n' tl =>
      have hn : n' = n := by simpa using hh
      subst hn
      have hlast : (s'.1 :: n' :: tl).getLast? = some x := by
        rw [List.getLast?_cons_cons]; exact hl
      rcases (mem_trailNext g obs anc n' d s').mp hs with ⟨hd, hno, hcase⟩ | ⟨hd, hcase⟩
      · -- arrived at n' going up (or start); n' unobserved
        subst hd
        rcases hcase with ⟨hb, he⟩ | ⟨hb, he⟩
        · -- to a parent: up
          refine ⟨s'.1 :: n' :: tl, rfl, hlast, ?_, ?_⟩
          · cases tl with
            | nil => exact Or.inr he
            | cons prev rest =>
              refine ⟨Or.inr he, ⟨fun hc => ?_, fun _ => hno⟩, hact⟩
              -- not a collider: E n' prev holds, so E prev n' cannot
              rcases harr with ⟨_, hnp⟩ | ⟨hf, _⟩
              · exact absurd hc.1 (fun h => no_two_cycle g hac _ _ hnp h)
              · cases hf
          · rw [hb]; exact Or.inl ⟨rfl, he⟩
        · -- to a child: down
          refine ⟨s'.1 :: n' :: tl, rfl, hlast, ?_, ?_⟩
          · cases tl with
            | nil => exact Or.inl he
            | cons prev rest =>
              refine ⟨Or.inl he, ⟨fun hc => ?_, fun _ => hno⟩, hact⟩
              exact absurd hc.2 (fun h => no_two_cycle g hac _ _ he h)
          · rw [hb]; exact Or.inr ⟨rfl, he⟩
      · subst hd
        -- arrived at n' from a parent `prev`
        cases tl with
        | nil => exact absurd harr (by simp [ArrDir])
        | cons prev rest =>
          have hpe : E g prev n' := by
            rcases harr with ⟨hf, _⟩ | ⟨_, h⟩
            · cases hf
            · exact h
          rcases hcase with ⟨hno, hb, he⟩ | ⟨han, hb, he⟩
          · -- on to a child: chain, n' unobserved
            refine ⟨s'.1 :: n' :: prev :: rest, rfl, hlast, ⟨Or.inl he, ⟨fun hc => ?_, fun _ => hno⟩, hact⟩, ?_⟩
            · exact absurd hc.2 (fun h => no_two_cycle g hac _ _ he h)
            · rw [hb]; exact Or.inr ⟨rfl, he⟩
          · -- back up to a parent: collider, n' has an observed descendant-or-self
            refine ⟨s'.1 :: n' :: prev :: rest, rfl, hlast, ⟨Or.inr he, ⟨fun _ => han, fun hnc => ?_⟩, hact⟩, ?_⟩
            · exact absurd ⟨hpe, he⟩ hnc
            · rw [hb]; exact Or.inl ⟨rfl, he⟩

/-- completeness: the end of every active trail from an unobserved `x` is derived, with the
    direction of its last edge -/
theorem trail_to_gen (g : DG) (hac : Acyclic g.edges) (obs anc : List Var) (x : Var) (hx : x ∉ obs) :
    ∀ (l : List Var) (n : Var) (d : Bool), l.head? = some n → l.getLast? = some x →
      ActiveRev g obs anc l → ArrDir g l d → Gen (g.trailNext obs anc) [(x, true)] (n, d)
  | [], _, _, hh, _, _, _ => by simp at hh
  | [a], n, d, hh, hl, _, harr => by
    have h1 : a = n := by simpa using hh
    have h2 : a = x := by simpa using hl
    have h3 : d = true := harr
    subst h1 h3
    rw [h2]
    exact Gen.base List.mem_cons_self
  | [b, a], n, d, hh, hl, hact, harr => by
    have h1 : b = n := by simpa using hh
    have h2 : a = x := by simpa [List.getLast?] using hl
    subst h1 h2
    refine Gen.step (Gen.base List.mem_cons_self) ((mem_trailNext g obs anc a true (b, d)).mpr (Or.inl ⟨rfl, hx, ?_⟩))
    rcases harr with ⟨hd, he⟩ | ⟨hd, he⟩
    · exact Or.inl ⟨hd, he⟩
    · exact Or.inr ⟨hd, he⟩
  | c :: b :: a :: rest, n, d, hh, hl, hact, harr => by
    have h1 : c = n := by simpa using hh
    subst h1
    obtain ⟨_, hok, hact'⟩ := hact
    have hl' : (b :: a :: rest).getLast? = some x := by
      rw [List.getLast?_cons_cons] at hl; exact hl
    -- direction in which b was reached
    have hadj : Adj g a b := by
      cases rest with
      | nil => exact hact'
      | cons z zs => exact hact'.1
    rcases hadj with hab | hba
    · -- a → b : b reached going down
      have ib := trail_to_gen g hac obs anc x hx (b :: a :: rest) b false rfl hl' hact' (Or.inr ⟨rfl, hab⟩)
      refine Gen.step ib ((mem_trailNext g obs anc b false (c, d)).mpr (Or.inr ⟨rfl, ?_⟩))
      rcases harr with ⟨hd, he⟩ | ⟨hd, he⟩
      · -- c → b : collider at b
        exact Or.inr ⟨hok.1 ⟨hab, he⟩, hd, he⟩
      · -- b → c : chain
        refine Or.inl ⟨hok.2 (fun hc => no_two_cycle g hac _ _ he hc.2), hd, he⟩
    · -- b → a : b reached going up
      have ib := trail_to_gen g hac obs anc x hx (b :: a :: rest) b true rfl hl' hact' (Or.inl ⟨rfl, hba⟩)
      have hno : b ∉ obs := hok.2 (fun hc => no_two_cycle g hac _ _ hba hc.1)
      refine Gen.step ib ((mem_trailNext g obs anc b true (c, d)).mpr (Or.inl ⟨rfl, hno, ?_⟩))
      rcases harr with ⟨hd, he⟩ | ⟨hd, he⟩
      · exact Or.inl ⟨hd, he⟩
      · exact Or.inr ⟨hd, he⟩

end PgmVerif
