/-
  Proofs/Elim.lean — the fill-in graph produced by eliminating the vertices in ANY order has that
  order as a perfect elimination ordering: when a vertex is eliminated, its not yet eliminated
  neighbours in the FINAL graph are pairwise adjacent.  (A graph with a perfect elimination ordering
  is chordal — Fulkerson & Gross 1965; that classical equivalence is not re-proved here.)
-/
import PgmVerif.Model.JTree
import Mathlib.Data.List.Basic
namespace PgmVerif
namespace UG

/-- adjacency as a proposition on an edge list -/
def AdjE (E : List (Var × Var)) (u v : Var) : Prop := (u, v) ∈ E ∨ (v, u) ∈ E

theorem adj_iff (g : UG) (u v : Var) : g.adj u v = true ↔ AdjE g.edges u v := by
  unfold adj AdjE
  simp [List.contains_iff_mem]

theorem AdjE.symm {E : List (Var × Var)} {u v : Var} (h : AdjE E u v) : AdjE E v u := Or.symm h
theorem AdjE.mono {E E' : List (Var × Var)} {u v : Var} (h : AdjE E u v) (hsub : ∀ e ∈ E, e ∈ E') : AdjE E' u v :=
  h.elim (fun h => Or.inl (hsub _ h)) (fun h => Or.inr (hsub _ h))

/-- the fill-in edges created when `v` is eliminated from `g` -/
def fillOf (g : UG) (v : Var) : List (Var × Var) :=
  let ns := g.nbrs v
  ns.flatMap (fun a => ns.filterMap (fun b => if a < b && !g.adj a b then some (a, b) else none))

/-- the graph after eliminating `v` -/
def afterElim (g : UG) (v : Var) : UG := ({ g with edges := g.edges ++ g.fillOf v } : UG).remove v

/-- recursive form of `eliminate` -/
def elimRec : UG → List Var → List (Var × Var)
  | _, [] => []
  | g, v :: vs => g.fillOf v ++ elimRec (g.afterElim v) vs

theorem foldl_eliminate (order : List Var) : ∀ (g : UG) (acc : List (Var × Var)),
    (order.foldl (fun (st : UG × List (Var × Var)) v =>
      let ns := st.1.nbrs v
      let fill := ns.flatMap (fun a => ns.filterMap (fun b => if a < b && !st.1.adj a b then some (a, b) else none))
      (({ st.1 with edges := st.1.edges ++ fill } : UG).remove v, st.2 ++ fill)) (g, acc)).2 = acc ++ elimRec g order := by
  induction order with
  | nil => intro g acc; simp [elimRec]
  | cons v vs ih =>
    intro g acc
    simp only [List.foldl_cons]
    have := ih (g.afterElim v) (acc ++ g.fillOf v)
    simp only [afterElim, fillOf] at this ⊢
    rw [this]
    simp [elimRec, afterElim, fillOf, List.append_assoc]

theorem eliminate_eq (g : UG) (order : List Var) : g.eliminate order = elimRec g order := by
  unfold eliminate
  rw [foldl_eliminate order g []]
  simp

theorem mem_nbrs (g : UG) (v w : Var) : w ∈ g.nbrs v ↔ w ∈ g.nodes ∧ w ≠ v ∧ AdjE g.edges v w := by
  unfold nbrs
  rw [List.mem_filter]
  simp only [Bool.and_eq_true, bne_iff_ne, ne_eq, adj_iff]

theorem mem_fillOf (g : UG) (v : Var) (e : Var × Var) :
    e ∈ g.fillOf v ↔ e.1 ∈ g.nbrs v ∧ e.2 ∈ g.nbrs v ∧ e.1 < e.2 ∧ ¬ AdjE g.edges e.1 e.2 := by
  unfold fillOf
  simp only [List.mem_flatMap, List.mem_filterMap]
  constructor
  · rintro ⟨a, ha, b, hb, h⟩
    split at h
    · next hc =>
      simp only [Option.some.injEq] at h
      subst h
      simp only [Bool.and_eq_true, decide_eq_true_eq, Bool.not_eq_true'] at hc
      refine ⟨ha, hb, hc.1, ?_⟩
      intro hadj
      have := (adj_iff g a b).mpr hadj
      rw [this] at hc
      exact absurd hc.2 (by simp)
    · cases h
  · rintro ⟨h1, h2, h3, h4⟩
    refine ⟨e.1, h1, e.2, h2, ?_⟩
    have hna : g.adj e.1 e.2 = false := by
      cases hh : g.adj e.1 e.2 with
      | false => rfl
      | true => exact absurd ((adj_iff g e.1 e.2).mp hh) h4
    simp [h3, hna]

theorem afterElim_nodes (g : UG) (v : Var) (w : Var) : w ∈ (g.afterElim v).nodes ↔ w ∈ g.nodes ∧ w ≠ v := by
  unfold afterElim remove
  simp [List.mem_filter]

theorem afterElim_edges (g : UG) (v : Var) (e : Var × Var) :
    e ∈ (g.afterElim v).edges ↔ (e ∈ g.edges ∨ e ∈ g.fillOf v) ∧ e.1 ≠ v ∧ e.2 ≠ v := by
  unfold afterElim remove
  simp only [List.mem_filter, List.mem_append, Bool.and_eq_true, bne_iff_ne, ne_eq]

/-- fill-in edges only join vertices that are still present -/
theorem elimRec_nodes : ∀ (order : List Var) (g : UG) (e : Var × Var), e ∈ elimRec g order →
    e.1 ∈ g.nodes ∧ e.2 ∈ g.nodes
  | [], _, _, h => by cases h
  | v :: vs, g, e, h => by
    simp only [elimRec, List.mem_append] at h
    rcases h with h | h
    · obtain ⟨h1, h2, _, _⟩ := (mem_fillOf g v e).mp h
      exact ⟨((mem_nbrs g v e.1).mp h1).1, ((mem_nbrs g v e.2).mp h2).1⟩
    · obtain ⟨h1, h2⟩ := elimRec_nodes vs (g.afterElim v) e h
      exact ⟨((afterElim_nodes g v e.1).mp h1).1, ((afterElim_nodes g v e.2).mp h2).1⟩

/-- edges of the final (filled) graph -/
def finalEdges (g : UG) (order : List Var) : List (Var × Var) := g.edges ++ elimRec g order

/-- away from the eliminated vertex, the final graph of the remaining problem has the same adjacencies -/
theorem final_step (g : UG) (v : Var) (vs : List Var) (x y : Var) (hx : x ≠ v) (hy : y ≠ v) :
    AdjE (finalEdges g (v :: vs)) x y ↔ AdjE (finalEdges (g.afterElim v) vs) x y := by
  have key : ∀ a b, a ≠ v → b ≠ v →
      ((a, b) ∈ finalEdges g (v :: vs) ↔ (a, b) ∈ finalEdges (g.afterElim v) vs) := by
    intro a b ha hb
    unfold finalEdges
    simp only [elimRec, List.mem_append, afterElim_edges]
    constructor
    · rintro (h | h | h)
      · exact Or.inl ⟨Or.inl h, ha, hb⟩
      · exact Or.inl ⟨Or.inr h, ha, hb⟩
      · exact Or.inr h
    · rintro (⟨h | h, _, _⟩ | h)
      · exact Or.inl h
      · exact Or.inr (Or.inl h)
      · exact Or.inr (Or.inr h)
  unfold AdjE
  rw [key x y hx hy, key y x hy hx]

/-- **the elimination order is a perfect elimination ordering of the filled graph**: for every split
    `order = pre ++ v :: post`, any two later vertices adjacent to `v` in the final graph are adjacent
    to each other in the final graph -/
theorem elimination_order_is_perfect : ∀ (pre : List Var) (g : UG) (v : Var) (post : List Var),
    (pre ++ v :: post).Nodup → (∀ w ∈ pre ++ v :: post, w ∈ g.nodes) →
    ∀ a b, a ∈ post → b ∈ post → a ≠ b →
      AdjE (finalEdges g (pre ++ v :: post)) v a → AdjE (finalEdges g (pre ++ v :: post)) v b →
      AdjE (finalEdges g (pre ++ v :: post)) a b
  | [], g, v, post, hnd, hin, a, b, ha, hb, hab, hva, hvb => by
    simp only [List.nil_append] at *
    have hvpost : v ∉ post := (List.nodup_cons.mp hnd).1
    have hav : a ≠ v := fun e => hvpost (e ▸ ha)
    have hbv : b ≠ v := fun e => hvpost (e ▸ hb)
    -- edges at v in the final graph are original edges
    have orig : ∀ c, c ≠ v → AdjE (finalEdges g (v :: post)) v c → AdjE g.edges v c := by
      intro c hc h
      have nov : ∀ e ∈ elimRec g (v :: post), e.1 ≠ v ∧ e.2 ≠ v := by
        intro e he
        simp only [elimRec, List.mem_append] at he
        rcases he with he | he
        · obtain ⟨h1, h2, _, _⟩ := (mem_fillOf g v e).mp he
          exact ⟨((mem_nbrs g v e.1).mp h1).2.1, ((mem_nbrs g v e.2).mp h2).2.1⟩
        · obtain ⟨h1, h2⟩ := elimRec_nodes post (g.afterElim v) e he
          exact ⟨((afterElim_nodes g v e.1).mp h1).2, ((afterElim_nodes g v e.2).mp h2).2⟩
      unfold finalEdges at h
      rcases h with h | h
      · rcases List.mem_append.mp h with h | h
        · exact Or.inl h
        · exact absurd rfl (nov _ h).1
      · rcases List.mem_append.mp h with h | h
        · exact Or.inr h
        · exact absurd rfl (nov _ h).2
    have han : a ∈ g.nbrs v := (mem_nbrs g v a).mpr ⟨hin a (List.mem_cons_of_mem _ ha), hav, orig a hav hva⟩
    have hbn : b ∈ g.nbrs v := (mem_nbrs g v b).mpr ⟨hin b (List.mem_cons_of_mem _ hb), hbv, orig b hbv hvb⟩
    by_cases hadj : AdjE g.edges a b
    · exact hadj.mono (fun e he => by unfold finalEdges; exact List.mem_append_left _ he)
    · -- the pair is filled in when v is eliminated
      rcases Nat.lt_or_gt_of_ne hab with hlt | hgt
      · have : (a, b) ∈ g.fillOf v := (mem_fillOf g v (a, b)).mpr ⟨han, hbn, hlt, hadj⟩
        exact Or.inl (by unfold finalEdges; simp only [elimRec]; exact List.mem_append_right _ (List.mem_append_left _ this))
      · have hadj' : ¬ AdjE g.edges b a := fun h => hadj h.symm
        have : (b, a) ∈ g.fillOf v := (mem_fillOf g v (b, a)).mpr ⟨hbn, han, hgt, hadj'⟩
        exact Or.inr (by unfold finalEdges; simp only [elimRec]; exact List.mem_append_right _ (List.mem_append_left _ this))
  | u :: pre, g, v, post, hnd, hin, a, b, ha, hb, hab, hva, hvb => by
    simp only [List.cons_append] at *
    obtain ⟨hu, hnd'⟩ := List.nodup_cons.mp hnd
    have hvu : v ≠ u := fun e => hu (e ▸ by simp)
    have hau : a ≠ u := fun e => hu (e ▸ by simp [ha])
    have hbu : b ≠ u := fun e => hu (e ▸ by simp [hb])
    have hin' : ∀ w ∈ pre ++ v :: post, w ∈ (g.afterElim u).nodes := by
      intro w hw
      exact (afterElim_nodes g u w).mpr ⟨hin w (List.mem_cons_of_mem _ hw), fun e => hu (e ▸ hw)⟩
    rw [final_step g u _ a b hau hbu]
    apply elimination_order_is_perfect pre (g.afterElim u) v post hnd' hin' a b ha hb hab
    · exact (final_step g u _ v a hvu hau).mp hva
    · exact (final_step g u _ v b hvu hbu).mp hvb

end UG
end PgmVerif
