/-
  Proofs/Acyclic.lean — acyclicity of edge lists, and the lemma behind every cycle check in
  the code base: adding u→v to an acyclic graph keeps it acyclic when there is no path v ⇝ u.
-/
import PgmVerif.Proofs.Closure
import Mathlib.Logic.Relation
namespace PgmVerif
open Relation

def Rel (E : List (Var × Var)) : Var → Var → Prop := fun a b => (a, b) ∈ E

def Acyclic (E : List (Var × Var)) : Prop := ∀ x, ¬ TransGen (Rel E) x x

theorem acyclic_nil : Acyclic [] := by
  intro x h
  have : ∀ a b, TransGen (Rel []) a b → False := by
    intro a b h
    induction h with
    | single h => cases h
    | tail _ h _ => cases h
  exact this x x h

theorem acyclic_sub {E E' : List (Var × Var)} (hsub : ∀ e ∈ E', e ∈ E) (h : Acyclic E) : Acyclic E' := by
  intro x hx
  exact h x (TransGen.mono (fun a b hab => hsub (a, b) hab) x x hx)

/-- every path in `E + (u,v)` is a path in `E`, or passes through the new edge -/
theorem path_add_edge (E : List (Var × Var)) (u v : Var) (x y : Var)
    (h : TransGen (Rel (E ++ [(u, v)])) x y) :
    TransGen (Rel E) x y ∨ (ReflTransGen (Rel E) x u ∧ ReflTransGen (Rel E) v y) := by
  induction h with
  | @single b h =>
    rcases List.mem_append.mp h with h | h
    · exact Or.inl (TransGen.single h)
    · have : (x, b) = (u, v) := by simpa using h
      cases this
      exact Or.inr ⟨ReflTransGen.refl, ReflTransGen.refl⟩
  | @tail b c _ hbc ih =>
    rcases List.mem_append.mp hbc with hbc | hbc
    · rcases ih with ih | ⟨i1, i2⟩
      · exact Or.inl (TransGen.tail ih hbc)
      · exact Or.inr ⟨i1, ReflTransGen.tail i2 hbc⟩
    · have : (b, c) = (u, v) := by simpa using hbc
      cases this
      rcases ih with ih | ⟨i1, _⟩
      · exact Or.inr ⟨ih.to_reflTransGen, ReflTransGen.refl⟩
      · exact Or.inr ⟨i1, ReflTransGen.refl⟩

theorem acyclic_add_edge (E : List (Var × Var)) (u v : Var) (hE : Acyclic E)
    (hno : ¬ ReflTransGen (Rel E) v u) : Acyclic (E ++ [(u, v)]) := by
  intro x hx
  rcases path_add_edge E u v x x hx with h | ⟨h1, h2⟩
  · exact hE x h
  · exact hno (h2.trans h1)

/-- a path in the graph is found by the saturation that models `nx.has_path` -/
theorem gen_of_path (g : DG) (v u : Var) (h : ReflTransGen (Rel g.edges) v u) : Gen g.children [v] u := by
  induction h with
  | refl => exact Gen.base List.mem_cons_self
  | tail _ hbc ih =>
    refine Gen.step ih ?_
    unfold DG.children
    exact List.mem_map.mpr ⟨_, List.mem_filter.mpr ⟨hbc, by simp⟩, rfl⟩

end PgmVerif
