/-
  Proofs/ToDag.lean — the sink-removal procedure of `PDAG.to_dag` (Dor & Tarsi) always returns an
  ACYCLIC edge set: every edge of the result points into a node that was removed earlier than its
  source, because a node is only removed when it has no outgoing directed edge among the remaining
  nodes and its undirected edges are then oriented into it.
-/
import PgmVerif.Model.PDAG
import PgmVerif.Proofs.Acyclic
namespace PgmVerif
open Relation

namespace PD

/-- state invariant of the removal loop (`R` = nodes still present) -/
structure GoInv (R : List Var) (dir und acc : List (Var × Var)) : Prop where
  dirIn : ∀ e ∈ dir, e.1 ∈ R ∧ e.2 ∈ R
  undIn : ∀ e ∈ und, e.1 ∈ R ∧ e.2 ∈ R ∧ e.1 ≠ e.2
  /-- an edge of the result so far is still "live" or points into a removed node -/
  live : ∀ e ∈ acc, e ∈ dir ∨ e.2 ∉ R
  /-- removed nodes only reach removed nodes -/
  closed : ∀ a b, TransGen (Rel acc) a b → a ∉ R → b ∉ R
  /-- no cycle through a removed node -/
  acyc : ∀ x, x ∉ R → ¬ TransGen (Rel acc) x x

theorem closed_step {acc : List (Var × Var)} {S : Var → Prop}
    (h1 : ∀ a b, (a, b) ∈ acc → S a → S b) : ∀ a b, TransGen (Rel acc) a b → S a → S b := by
  intro a b hab
  induction hab with
  | single h => exact h1 _ _ h
  | tail _ h ih => intro ha; exact h1 _ _ h (ih ha)

/-- a path that only visits nodes satisfying `S`, in an edge list extended by edges whose sources do not
    satisfy `S`, is a path of the old edge list -/
theorem path_restrict {acc extra : List (Var × Var)} {S : Var → Prop}
    (hS : ∀ a b, (a, b) ∈ acc ++ extra → S a → S b) (hextra : ∀ e ∈ extra, ¬ S e.1) :
    ∀ a b, TransGen (Rel (acc ++ extra)) a b → S a → TransGen (Rel acc) a b := by
  intro a b hab
  induction hab with
  | single h =>
    intro ha
    rcases List.mem_append.mp h with h' | h'
    · exact TransGen.single h'
    · exact absurd ha (hextra _ h')
  | @tail c d hac h ih =>
    intro ha
    have hc : S c := closed_step (S := S) hS a c hac ha
    rcases List.mem_append.mp h with h' | h'
    · exact TransGen.tail (ih ha) h'
    · exact absurd hc (hextra _ h')

/-- one removal step preserves the invariant -/
theorem goInv_step (R : List Var) (dir und acc : List (Var × Var)) (x : Var) (hx : x ∈ R)
    (hout : ∀ e ∈ dir, e.1 ≠ x) (h : GoInv R dir und acc) :
    GoInv (R.filter (· != x)) (dir.filter (fun e => e.1 != x && e.2 != x))
      (und.filter (fun e => e.1 != x && e.2 != x))
      (acc ++ (und.filter (fun e => e.1 == x || e.2 == x)).map (fun e => if e.1 == x then (e.2, x) else (e.1, x))) := by
  have memR' : ∀ w, w ∈ R.filter (· != x) ↔ w ∈ R ∧ w ≠ x := by
    intro w; simp [List.mem_filter]
  -- sources of the new edges are remaining nodes different from x; their target is x
  have hnew : ∀ e ∈ (und.filter (fun e => e.1 == x || e.2 == x)).map (fun e => if e.1 == x then (e.2, x) else (e.1, x)),
      e.2 = x ∧ e.1 ∈ R ∧ e.1 ≠ x := by
    intro e he
    obtain ⟨u, hu, rfl⟩ := List.mem_map.mp he
    obtain ⟨hum, hux⟩ := List.mem_filter.mp hu
    obtain ⟨h1, h2, h3⟩ := h.undIn u hum
    by_cases e1 : u.1 = x
    · have hb : (u.1 == x) = true := by simpa using e1
      rw [if_pos hb]
      exact ⟨rfl, h2, fun e2 => h3 (e1.trans e2.symm)⟩
    · have hb : ¬ (u.1 == x) = true := by simpa using e1
      rw [if_neg hb]
      exact ⟨rfl, h1, e1⟩
  -- every edge out of a removed' node leads to a removed' node
  have hstep : ∀ a b, (a, b) ∈ acc ++ (und.filter (fun e => e.1 == x || e.2 == x)).map
        (fun e => if e.1 == x then (e.2, x) else (e.1, x)) →
      a ∉ R.filter (· != x) → b ∉ R.filter (· != x) := by
    intro a b hab ha
    rw [memR'] at ha ⊢
    rcases List.mem_append.mp hab with h' | h'
    · rcases h.live _ h' with hd | hr
      · -- a live directed edge: its source is in R, so the source is x — impossible
        have ha' := (h.dirIn _ hd).1
        have : a = x := Classical.byContradiction (fun hne => ha ⟨ha', hne⟩)
        exact absurd this (hout _ hd)
      · exact fun hb => hr hb.1
    · obtain ⟨_, h2, h3⟩ := hnew _ h'
      exact absurd ⟨h2, h3⟩ ha
  refine ⟨?_, ?_, ?_, ?_, ?_⟩
  · intro e he
    obtain ⟨hm, hc⟩ := List.mem_filter.mp he
    simp only [Bool.and_eq_true, bne_iff_ne, ne_eq] at hc
    exact ⟨(memR' _).mpr ⟨(h.dirIn e hm).1, hc.1⟩, (memR' _).mpr ⟨(h.dirIn e hm).2, hc.2⟩⟩
  · intro e he
    obtain ⟨hm, hc⟩ := List.mem_filter.mp he
    simp only [Bool.and_eq_true, bne_iff_ne, ne_eq] at hc
    obtain ⟨h1, h2, h3⟩ := h.undIn e hm
    exact ⟨(memR' _).mpr ⟨h1, hc.1⟩, (memR' _).mpr ⟨h2, hc.2⟩, h3⟩
  · intro e he
    rcases List.mem_append.mp he with h' | h'
    · rcases h.live e h' with hd | hr
      · by_cases e2 : e.2 = x
        · right; rw [memR']; exact fun hh => hh.2 e2
        · left
          refine List.mem_filter.mpr ⟨hd, ?_⟩
          simp only [Bool.and_eq_true, bne_iff_ne, ne_eq]
          exact ⟨hout e hd, e2⟩
      · right; rw [memR']; exact fun hh => hr hh.1
    · right
      rw [memR', (hnew e h').1]
      exact fun hh => hh.2 rfl
  · intro a b hab ha
    exact closed_step (S := fun w => w ∉ R.filter (· != x)) hstep a b hab ha
  · intro y hy hcyc
    -- the cycle only visits removed' nodes, and new edges start at remaining nodes: it is a cycle of the old edges
    have hold : TransGen (Rel acc) y y :=
      path_restrict (S := fun w => w ∉ R.filter (· != x)) hstep
        (fun e he => by
          obtain ⟨_, h2, h3⟩ := hnew e he
          exact fun hh => hh ((memR' _).mpr ⟨h2, h3⟩)) y y hcyc hy
    by_cases hyR : y ∈ R
    · -- then y = x: its first edge leaves to a removed node, which cannot come back to x ∈ R
      have hyx : y = x := Classical.byContradiction (fun hne => hy ((memR' _).mpr ⟨hyR, hne⟩))
      subst hyx
      obtain ⟨c, hyc, hcy⟩ := TransGen.head'_iff.mp hold
      have hc : c ∉ R := by
        rcases h.live _ hyc with hd | hr
        · exact absurd rfl (hout _ hd)
        · exact hr
      rcases Relation.reflTransGen_iff_eq_or_transGen.mp hcy with e | ht
      · exact hc (e ▸ hyR)
      · exact h.closed c y ht hc hyR
    · exact h.acyc y hyR hold


theorem go_acyclic : ∀ (fuel : Nat) (R : List Var) (dir und acc res : List (Var × Var)),
    GoInv R dir und acc → toDag.go fuel R dir und acc = some res → Acyclic res
  | 0, R, dir, und, acc, res, h, hgo => by
    unfold toDag.go at hgo
    split at hgo
    · next hemp =>
      cases hgo
      have hR : R = [] := by simpa using hemp
      intro x hx
      exact h.acyc x (by rw [hR]; exact List.not_mem_nil) hx
    · cases hgo
  | f+1, R, dir, und, acc, res, h, hgo => by
    unfold toDag.go at hgo
    split at hgo
    · next hemp =>
      cases hgo
      have hR : R = [] := by simpa using hemp
      intro x hx
      exact h.acyc x (by rw [hR]; exact List.not_mem_nil) hx
    · simp only at hgo
      split at hgo
      · cases hgo
      · next x hfind =>
        have hxR : x ∈ R := List.mem_of_find?_eq_some hfind
        have hpred := List.find?_some hfind
        simp only [Bool.and_eq_true, Bool.not_eq_true'] at hpred
        have hout : ∀ e ∈ dir, e.1 ≠ x := by
          intro e he hex
          have := List.any_eq_false.mp hpred.1 e he
          simp [hex] at this
        exact go_acyclic f _ _ _ _ res (goInv_step R dir und acc x hxR hout h) hgo

/-- **`PDAG.to_dag` never produces a directed cycle**: whenever the sink-removal loop succeeds, the edge set it
    returns is acyclic — for every partially directed graph whose edges join its own nodes -/
theorem toDag_acyclic (p : PD) (res : List (Var × Var))
    (hdir : ∀ e ∈ p.directed, e.1 ∈ p.nodes ∧ e.2 ∈ p.nodes)
    (hund : ∀ e ∈ p.undirected.map normPair, e.1 ∈ p.nodes ∧ e.2 ∈ p.nodes ∧ e.1 ≠ e.2)
    (h : p.toDag = some res) : Acyclic res := by
  unfold toDag at h
  refine go_acyclic _ _ _ _ _ res ⟨hdir, hund, fun e he => Or.inl he, ?_, ?_⟩ h
  · intro a b hab ha
    obtain ⟨c, hac, _⟩ := TransGen.head'_iff.mp hab
    exact absurd (hdir _ hac).1 ha
  · intro x hx hcyc
    obtain ⟨c, hxc, _⟩ := TransGen.head'_iff.mp hcyc
    exact hx (hdir _ hxc).1

/-- the accumulator of the sink-removal loop only grows -/
theorem go_keeps_acc : ∀ (fuel : Nat) (R : List Var) (dir und acc res : List (Var × Var)),
    toDag.go fuel R dir und acc = some res → ∀ e ∈ acc, e ∈ res
  | 0, R, dir, und, acc, res, hgo => by
    unfold toDag.go at hgo
    split at hgo
    · cases hgo; exact fun e he => he
    · cases hgo
  | f+1, R, dir, und, acc, res, hgo => by
    unfold toDag.go at hgo
    split at hgo
    · cases hgo; exact fun e he => he
    · simp only at hgo
      split at hgo
      · cases hgo
      · intro e he
        exact go_keeps_acc f _ _ _ _ res hgo e (List.mem_append.mpr (Or.inl he))

/-- **`PDAG.to_dag` keeps every directed edge of the PDAG** (it only adds orientations of undirected edges) -/
theorem toDag_keeps_directed (p : PD) (res : List (Var × Var)) (h : p.toDag = some res) :
    ∀ e ∈ p.directed, e ∈ res := by
  unfold toDag at h
  exact go_keeps_acc _ _ _ _ _ res h

/-- every edge the loop emits is a directed edge it started with or an orientation of an undirected edge -/
theorem go_only_orients (D0 U0 : List (Var × Var)) : ∀ (fuel : Nat) (R : List Var) (dir und acc res : List (Var × Var)),
    (∀ e ∈ und, e ∈ U0) → (∀ e ∈ acc, e ∈ D0 ∨ e ∈ U0 ∨ (e.2, e.1) ∈ U0) →
    toDag.go fuel R dir und acc = some res → ∀ e ∈ res, e ∈ D0 ∨ e ∈ U0 ∨ (e.2, e.1) ∈ U0
  | 0, R, dir, und, acc, res, _, hacc, hgo => by
    unfold toDag.go at hgo
    split at hgo
    · cases hgo; exact hacc
    · cases hgo
  | f+1, R, dir, und, acc, res, hund, hacc, hgo => by
    unfold toDag.go at hgo
    split at hgo
    · cases hgo; exact hacc
    · simp only at hgo
      split at hgo
      · cases hgo
      · next x _ =>
        refine go_only_orients D0 U0 f _ _ _ _ res (fun e he => hund e (List.mem_filter.mp he).1) ?_ hgo
        intro e' he'
        rcases List.mem_append.mp he' with h | h
        · exact hacc e' h
        · obtain ⟨e, he, rfl⟩ := List.mem_map.mp h
          obtain ⟨he1, he2⟩ := List.mem_filter.mp he
          have heU := hund e he1
          obtain ⟨e1, e2⟩ := e
          by_cases hx : (e1 == x) = true
          · have : e1 = x := by simpa using hx
            subst this
            right; right
            simpa using heU
          · have h2 : e2 = x := by
              have hx' : e1 ≠ x := by simpa using hx
              simpa [hx'] using he2
            subst h2
            right; left
            simpa [hx] using heU

/-- **`PDAG.to_dag` invents no adjacency**: every edge of the result is a directed edge of the PDAG or an
    orientation of one of its undirected edges -/
theorem toDag_only_orients (p : PD) (res : List (Var × Var)) (h : p.toDag = some res) :
    ∀ e ∈ res, e ∈ p.directed ∨ e ∈ p.undirected.map normPair ∨ (e.2, e.1) ∈ p.undirected.map normPair := by
  unfold toDag at h
  exact go_only_orients p.directed (p.undirected.map normPair) _ _ _ _ _ res (fun e he => he)
    (fun e he => Or.inl he) h

/-- no undirected edge is lost: each is still pending (with its first end point not yet removed) or already oriented -/
theorem go_orients_all (U0 : List (Var × Var)) : ∀ (fuel : Nat) (R : List Var) (dir und acc res : List (Var × Var)),
    (∀ e ∈ und, e.1 ∈ R) → (∀ e ∈ U0, e ∈ und ∨ e ∈ acc ∨ (e.2, e.1) ∈ acc) →
    toDag.go fuel R dir und acc = some res → ∀ e ∈ U0, e ∈ res ∨ (e.2, e.1) ∈ res
  | 0, R, dir, und, acc, res, hR, hI, hgo => by
    unfold toDag.go at hgo
    split at hgo
    · next hemp =>
      cases hgo
      have hRn : R = [] := by simpa using hemp
      intro e he
      rcases hI e he with h | h
      · have := hR e h; rw [hRn] at this; cases this
      · exact h
    · cases hgo
  | f+1, R, dir, und, acc, res, hR, hI, hgo => by
    unfold toDag.go at hgo
    split at hgo
    · next hemp =>
      cases hgo
      have hRn : R = [] := by simpa using hemp
      intro e he
      rcases hI e he with h | h
      · have := hR e h; rw [hRn] at this; cases this
      · exact h
    · simp only at hgo
      split at hgo
      · cases hgo
      · next x _ =>
        refine go_orients_all U0 f _ _ _ _ res ?_ ?_ hgo
        · intro e he
          obtain ⟨he1, he2⟩ := List.mem_filter.mp he
          have hne : e.1 ≠ x ∧ e.2 ≠ x := by simpa using he2
          exact List.mem_filter.mpr ⟨hR e he1, by simpa using hne.1⟩
        · intro e he
          rcases hI e he with h | h | h
          · obtain ⟨e1, e2⟩ := e
            by_cases h1 : e1 = x
            · right; right
              refine List.mem_append.mpr (Or.inr (List.mem_map.mpr ⟨(e1, e2), List.mem_filter.mpr ⟨h, by simp [h1]⟩, ?_⟩))
              simp [h1]
            · by_cases h2 : e2 = x
              · right; left
                refine List.mem_append.mpr (Or.inr (List.mem_map.mpr ⟨(e1, e2), List.mem_filter.mpr ⟨h, by simp [h2]⟩, ?_⟩))
                simp [h1, h2]
              · left
                exact List.mem_filter.mpr ⟨h, by simp [h1, h2]⟩
          · exact Or.inr (Or.inl (List.mem_append.mpr (Or.inl h)))
          · exact Or.inr (Or.inr (List.mem_append.mpr (Or.inl h)))

/-- **`PDAG.to_dag` loses no adjacency**: every undirected edge of the PDAG appears in the result in one of its two
    orientations -/
theorem toDag_orients_all (p : PD) (res : List (Var × Var))
    (hund : ∀ e ∈ p.undirected.map normPair, e.1 ∈ p.nodes) (h : p.toDag = some res) :
    ∀ e ∈ p.undirected.map normPair, e ∈ res ∨ (e.2, e.1) ∈ res := by
  unfold toDag at h
  exact go_orients_all (p.undirected.map normPair) _ _ _ _ _ res hund (fun e he => Or.inl he) h

end PD
end PgmVerif
