/-
  Proofs/ScoreEq.lean — BDeu is score equivalent across the reversal of a covered edge.
  X and Y have the same other parents Pa (q joint configurations); N j x y are the counts.
  G1 : X | Pa,  Y | Pa ∪ {X}      G2 : Y | Pa,  X | Pa ∪ {Y}
  The two local-score products are equal for every count table — the step Chickering's theorem
  chains to connect any two Markov-equivalent DAGs.
-/
import PgmVerif.Model.Score
import Mathlib.Algebra.BigOperators.Group.Finset.Basic
import Mathlib.Algebra.BigOperators.Ring.Finset
import Mathlib.Algebra.BigOperators.Group.Finset.Sigma
import Mathlib.Algebra.BigOperators.Group.List.Basic
import Mathlib.Algebra.Order.Field.Rat
import Mathlib.Tactic.FieldSimp
import Mathlib.Tactic.Ring
import Mathlib.Tactic.Positivity
namespace PgmVerif

theorem rising_pos (b : Rat) (hb : 0 < b) : ∀ n, 0 < rising b n
  | 0 => by simp [rising]
  | n+1 => by
    simp only [rising]
    have := rising_pos b hb n
    have h2 : (0 : Rat) < b + n := by positivity
    positivity

theorem list_range_prod (n : Nat) (f : Nat → Rat) :
    ((List.range n).map f).prod = ∏ i ∈ Finset.range n, f i := by
  induction n with
  | zero => simp
  | succ n ih => rw [List.range_succ, List.map_append, List.prod_append, ih, Finset.prod_range_succ]; simp

theorem list_range_sum_nat (n : Nat) (f : Nat → Nat) :
    ((List.range n).map f).sum = ∑ i ∈ Finset.range n, f i := by
  induction n with
  | zero => simp
  | succ n ih => rw [List.range_succ, List.map_append, List.sum_append, ih, Finset.sum_range_succ]; simp

theorem prod_flatMap_range (q r : Nat) (g : Nat → Nat → Rat) :
    (((List.range q).flatMap (fun j => (List.range r).map (fun x => g j x)))).prod
      = ∏ j ∈ Finset.range q, ∏ x ∈ Finset.range r, g j x := by
  induction q with
  | zero => simp
  | succ q ih =>
    rw [List.range_succ, List.flatMap_append, List.prod_append, ih, Finset.prod_range_succ]
    simp [list_range_prod]

theorem length_flatMap_range (q r : Nat) {α : Type} (g : Nat → Nat → α) :
    ((List.range q).flatMap (fun j => (List.range r).map (fun x => g j x))).length = q * r := by
  induction q with
  | zero => simp
  | succ q ih =>
    rw [List.range_succ, List.flatMap_append, List.length_append, ih]
    simp [Nat.succ_mul]

/-- count columns of X given Pa: one column per configuration j, one entry per state x -/
def colsX (q rx ry : Nat) (N : Nat → Nat → Nat → Nat) : List (List Nat) :=
  (List.range q).map (fun j => (List.range rx).map (fun x => ((List.range ry).map (fun y => N j x y)).sum))

/-- count columns of Y given Pa ∪ {X} (X the last, fastest parent axis) -/
def colsYgX (q rx ry : Nat) (N : Nat → Nat → Nat → Nat) : List (List Nat) :=
  (List.range q).flatMap (fun j => (List.range rx).map (fun x => (List.range ry).map (fun y => N j x y)))

/-- the common value: Π_j [ Π_{x,y} Γ(N_jxy + e/(q rx ry))/Γ(e/(q rx ry)) ] / [ Γ(N_j + e/q)/Γ(e/q) ] -/
def bdeuPair (ess : Rat) (q rx ry : Nat) (N : Nat → Nat → Nat → Nat) : Rat :=
  ∏ j ∈ Finset.range q,
    (∏ x ∈ Finset.range rx, ∏ y ∈ Finset.range ry, rising (ess / ((q * rx * ry : Nat) : Rat)) (N j x y))
      / rising (ess / (q : Rat)) (∑ x ∈ Finset.range rx, ∑ y ∈ Finset.range ry, N j x y)

theorem bdeu_chain (ess : Rat) (hess : 0 < ess) (q rx ry : Nat) (hq : 0 < q) (hrx : 0 < rx)
    (N : Nat → Nat → Nat → Nat) :
    bdeuExp ess rx (colsX q rx ry N) * bdeuExp ess ry (colsYgX q rx ry N) = bdeuPair ess q rx ry N := by
  unfold bdeuExp bdeuPair colsX colsYgX
  simp only [List.length_map, List.length_range, length_flatMap_range]
  rw [List.map_map, list_range_prod, List.map_flatMap]
  have hmm : ∀ j, List.map (bdCol (ess / ((q * rx : Nat) : Rat)) (ess / ((ry * (q * rx) : Nat) : Rat)))
      ((List.range rx).map (fun x => (List.range ry).map (fun y => N j x y)))
      = (List.range rx).map (fun x => bdCol (ess / ((q * rx : Nat) : Rat)) (ess / ((ry * (q * rx) : Nat) : Rat))
          ((List.range ry).map (fun y => N j x y))) := by
    intro j; rw [List.map_map]; rfl
  simp only [hmm]
  rw [prod_flatMap_range, ← Finset.prod_mul_distrib]
  apply Finset.prod_congr rfl
  intro j _
  simp only [Function.comp, bdCol, colTotal, List.map_map, list_range_prod, list_range_sum_nat]
  have hb1 : ((rx * q : Nat) : Rat) = ((q * rx : Nat) : Rat) := by rw [Nat.mul_comm]
  have hb2 : ((ry * (q * rx) : Nat) : Rat) = ((q * rx * ry : Nat) : Rat) := by rw [Nat.mul_comm]
  rw [hb1, hb2]
  have hpos : ∀ x, rising (ess / ((q * rx : Nat) : Rat)) (∑ y ∈ Finset.range ry, N j x y) ≠ 0 := by
    intro x
    apply ne_of_gt
    apply rising_pos
    have : (0 : Rat) < ((q * rx : Nat) : Rat) := by exact_mod_cast Nat.mul_pos hq hrx
    positivity
  rw [Finset.prod_div_distrib]
  have hne : (∏ x ∈ Finset.range rx, rising (ess / ((q * rx : Nat) : Rat)) (∑ y ∈ Finset.range ry, N j x y)) ≠ 0 :=
    Finset.prod_ne_zero_iff.mpr (fun x _ => hpos x)
  have hq0 : rising (ess / (q : Rat)) (∑ x ∈ Finset.range rx, ∑ y ∈ Finset.range ry, N j x y) ≠ 0 := by
    apply ne_of_gt
    apply rising_pos
    have : (0 : Rat) < (q : Rat) := by exact_mod_cast hq
    positivity
  field_simp

/-- **BDeu is invariant under the reversal of a covered edge**, for every table of counts, every
    equivalent sample size > 0 and all cardinalities ≥ 1 -/
theorem bdeu_covered_edge (ess : Rat) (hess : 0 < ess) (q rx ry : Nat) (hq : 0 < q) (hrx : 0 < rx) (hry : 0 < ry)
    (N : Nat → Nat → Nat → Nat) :
    bdeuExp ess rx (colsX q rx ry N) * bdeuExp ess ry (colsYgX q rx ry N)
      = bdeuExp ess ry (colsX q ry rx (fun j y x => N j x y)) * bdeuExp ess rx (colsYgX q ry rx (fun j y x => N j x y)) := by
  rw [bdeu_chain ess hess q rx ry hq hrx N, bdeu_chain ess hess q ry rx hq hry (fun j y x => N j x y)]
  unfold bdeuPair
  apply Finset.prod_congr rfl
  intro j _
  have e1 : ((q * ry * rx : Nat) : Rat) = ((q * rx * ry : Nat) : Rat) := by
    rw [Nat.mul_assoc, Nat.mul_comm ry rx, ← Nat.mul_assoc]
  rw [e1, Finset.prod_comm, Finset.sum_comm]



/-! ### BIC / AIC: the likelihood part and the number of parameters -/

theorem powR_add (a : Rat) (m n : Nat) : powR a (m + n) = powR a m * powR a n := by
  induction n with
  | zero => simp [powR]
  | succ n ih => rw [← Nat.add_assoc]; simp only [powR, ih]; ring

theorem powR_mul (a b : Rat) (n : Nat) : powR (a * b) n = powR a n * powR b n := by
  induction n with
  | zero => simp [powR]
  | succ n ih => simp only [powR, ih]; ring

theorem powR_sum (a : Rat) (r : Nat) (f : Nat → Nat) :
    powR a (∑ y ∈ Finset.range r, f y) = ∏ y ∈ Finset.range r, powR a (f y) := by
  induction r with
  | zero => simp [powR]
  | succ r ih => rw [Finset.sum_range_succ, Finset.prod_range_succ, powR_add, ih]

/-- likelihood term of one cell, relative to the total `t` -/
def llCell (n t : Nat) : Rat := if n = 0 then 1 else powR ((n : Rat) / (t : Rat)) n

/-- the common value of the two factorizations: Π_j Π_{x,y} (N_jxy / N_j)^N_jxy -/
def llPair (q rx ry : Nat) (N : Nat → Nat → Nat → Nat) : Rat :=
  ∏ j ∈ Finset.range q, ∏ x ∈ Finset.range rx, ∏ y ∈ Finset.range ry,
    llCell (N j x y) (∑ x' ∈ Finset.range rx, ∑ y' ∈ Finset.range ry, N j x' y')

theorem llCol_eq (r : Nat) (f : Nat → Nat) :
    llCol ((List.range r).map f) = ∏ y ∈ Finset.range r, llCell (f y) (∑ y' ∈ Finset.range r, f y') := by
  unfold llCol colTotal llCell
  dsimp only
  rw [List.map_map, list_range_prod, list_range_sum_nat]
  rfl

theorem ll_chain (q rx ry : Nat) (N : Nat → Nat → Nat → Nat) :
    llExp (colsX q rx ry N) * llExp (colsYgX q rx ry N) = llPair q rx ry N := by
  unfold llExp llPair colsX colsYgX
  rw [List.map_map, list_range_prod, List.map_flatMap]
  have hmm : ∀ j, List.map llCol ((List.range rx).map (fun x => (List.range ry).map (fun y => N j x y)))
      = (List.range rx).map (fun x => llCol ((List.range ry).map (fun y => N j x y))) := by
    intro j; rw [List.map_map]; rfl
  simp only [hmm]
  rw [prod_flatMap_range, ← Finset.prod_mul_distrib]
  apply Finset.prod_congr rfl
  intro j _
  simp only [Function.comp, llCol_eq, list_range_sum_nat]
  rw [← Finset.prod_mul_distrib]
  apply Finset.prod_congr rfl
  intro x _
  set Nx := ∑ y ∈ Finset.range ry, N j x y with hNx
  set Nj := ∑ x' ∈ Finset.range rx, ∑ y' ∈ Finset.range ry, N j x' y' with hNj
  by_cases h0 : Nx = 0
  · -- the whole row is empty
    have hz : ∀ y ∈ Finset.range ry, N j x y = 0 := by
      intro y hy
      have := Finset.sum_eq_zero_iff.mp (hNx ▸ h0) y hy
      exact this
    have p1 : ∏ y ∈ Finset.range ry, llCell (N j x y) Nx = 1 :=
      Finset.prod_eq_one (fun y hy => by rw [hz y hy]; simp [llCell])
    have p2 : ∏ y ∈ Finset.range ry, llCell (N j x y) Nj = 1 :=
      Finset.prod_eq_one (fun y hy => by rw [hz y hy]; simp [llCell])
    rw [p1, p2, h0]
    simp [llCell]
  · have hx : llCell Nx Nj = ∏ y ∈ Finset.range ry, powR ((Nx : Rat) / (Nj : Rat)) (N j x y) := by
      unfold llCell
      rw [if_neg h0]
      conv_lhs => rw [hNx]
      exact powR_sum _ _ _
    rw [hx, ← Finset.prod_mul_distrib]
    apply Finset.prod_congr rfl
    intro y _
    unfold llCell
    by_cases hn : N j x y = 0
    · simp [hn, powR]
    · rw [if_neg hn, if_neg hn, ← powR_mul]
      congr 1
      have : (Nx : Rat) ≠ 0 := by exact_mod_cast h0
      field_simp

/-- **the maximised likelihood is the same for both orientations of a covered edge** -/
theorem ll_covered_edge (q rx ry : Nat) (N : Nat → Nat → Nat → Nat) :
    llExp (colsX q rx ry N) * llExp (colsYgX q rx ry N)
      = llExp (colsX q ry rx (fun j y x => N j x y)) * llExp (colsYgX q ry rx (fun j y x => N j x y)) := by
  rw [ll_chain q rx ry N, ll_chain q ry rx (fun j y x => N j x y)]
  unfold llPair
  apply Finset.prod_congr rfl
  intro j _
  rw [Finset.prod_comm]
  apply Finset.prod_congr rfl
  intro x _
  apply Finset.prod_congr rfl
  intro y _
  rw [Finset.sum_comm]

/-- and so is the number of free parameters: q(rx−1) + q·rx(ry−1) = q(ry−1) + q·ry(rx−1) -/
theorem nParams_covered_edge (q rx ry : Nat) (hrx : 0 < rx) (hry : 0 < ry) (N : Nat → Nat → Nat → Nat) :
    nParams rx (colsX q rx ry N) + nParams ry (colsYgX q rx ry N)
      = nParams ry (colsX q ry rx (fun j y x => N j x y)) + nParams rx (colsYgX q ry rx (fun j y x => N j x y)) := by
  unfold nParams colsX colsYgX
  simp only [List.length_map, List.length_range, length_flatMap_range]
  obtain ⟨a, rfl⟩ : ∃ a, rx = a + 1 := ⟨rx - 1, by omega⟩
  obtain ⟨b, rfl⟩ : ∃ b, ry = b + 1 := ⟨ry - 1, by omega⟩
  simp only [Nat.add_sub_cancel]
  ring

end PgmVerif
