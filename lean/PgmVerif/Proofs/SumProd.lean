/-
  Proofs/SumProd.lean — sums over the states of one variable / a list of variables at the level
  of functions `Asg → Rat`, and their commutation.  Shared by C01, C02, C03, C13, C17.
-/
import PgmVerif.Proofs.Factor
import Mathlib.Algebra.BigOperators.Group.Finset.Basic
import Mathlib.Algebra.BigOperators.Ring.Finset
import Mathlib.Algebra.BigOperators.Group.Finset.Sigma
import Mathlib.Algebra.Order.Field.Rat
namespace PgmVerif
open Factor

/-- Σ_{x < K v} g(a[v := x]) -/
def sumVar (K : Var → Nat) (v : Var) (g : Asg → Rat) : Asg → Rat :=
  fun a => ((List.range (K v)).map (fun x => g (upd a v x))).sum

/-- sum out the variables of the list, first one innermost -/
def sumOut (K : Var → Nat) : List Var → (Asg → Rat) → (Asg → Rat)
  | [], g => g
  | v :: vs, g => sumOut K vs (sumVar K v g)

/-- agreement on genuine joint states -/
def EqB (K : Var → Nat) (g h : Asg → Rat) : Prop := ∀ a, Bounded K a → g a = h a

theorem upd_bounded {K : Var → Nat} {a : Asg} (ha : Bounded K a) (v : Var) (x : Nat) (hx : x < K v) :
    Bounded K (upd a v x) := by
  intro w
  unfold upd
  by_cases e : w = v
  · simp [e, hx]
  · simp [e, ha w]

theorem list_range_sum (n : Nat) (f : Nat → Rat) :
    ((List.range n).map f).sum = ∑ i ∈ Finset.range n, f i := by
  induction n with
  | zero => simp
  | succ n ih => rw [List.range_succ, List.map_append, List.sum_append, ih, Finset.sum_range_succ]; simp

theorem sumVar_eq (K : Var → Nat) (v : Var) (g : Asg → Rat) (a : Asg) :
    sumVar K v g a = ∑ x ∈ Finset.range (K v), g (upd a v x) := by
  unfold sumVar; exact list_range_sum _ _

theorem sumVar_congr {K : Var → Nat} {g h : Asg → Rat} (v : Var) (e : EqB K g h) :
    EqB K (sumVar K v g) (sumVar K v h) := by
  intro a ha
  rw [sumVar_eq, sumVar_eq]
  apply Finset.sum_congr rfl
  intro x hx
  exact e _ (upd_bounded ha v x (Finset.mem_range.mp hx))

theorem sumOut_congr {K : Var → Nat} : ∀ (vs : List Var) {g h : Asg → Rat}, EqB K g h →
    EqB K (sumOut K vs g) (sumOut K vs h)
  | [], _, _, e => e
  | v :: vs, _, _, e => sumOut_congr vs (sumVar_congr v e)

theorem upd_comm (a : Asg) (u v : Var) (x y : Nat) (h : u ≠ v) :
    upd (upd a u x) v y = upd (upd a v y) u x := by
  funext w
  unfold upd
  by_cases e1 : w = v <;> by_cases e2 : w = u <;> simp [e1, e2]
  · exact absurd (e2.symm.trans e1) h
  · intro e; exact absurd e.symm h
  · intro e; exact absurd e h

theorem upd_upd (a : Asg) (v : Var) (x y : Nat) : upd (upd a v x) v y = upd a v y := by
  funext w
  unfold upd
  by_cases e : w = v <;> simp [e]

theorem sumVar_comm (K : Var → Nat) (u v : Var) (g : Asg → Rat) :
    sumVar K u (sumVar K v g) = sumVar K v (sumVar K u g) := by
  funext a
  by_cases h : u = v
  · subst h; rfl
  · simp only [sumVar_eq]
    rw [Finset.sum_comm]
    apply Finset.sum_congr rfl
    intro y _
    apply Finset.sum_congr rfl
    intro x _
    rw [upd_comm a u v x y h]

theorem sumVar_sumOut (K : Var → Nat) (v : Var) : ∀ (vs : List Var) (g : Asg → Rat),
    sumVar K v (sumOut K vs g) = sumOut K vs (sumVar K v g)
  | [], _ => rfl
  | u :: us, g => by
    simp only [sumOut]
    rw [sumVar_sumOut K v us, sumVar_comm]

/-- the order in which variables are summed out is irrelevant -/
theorem sumOut_perm (K : Var → Nat) {l l' : List Var} (p : l.Perm l') :
    ∀ g : Asg → Rat, sumOut K l g = sumOut K l' g := by
  induction p with
  | nil => intro g; rfl
  | cons v _ ih => intro g; simp only [sumOut]; exact ih _
  | swap u v l => intro g; simp only [sumOut]; rw [sumVar_comm]
  | trans _ _ ih1 ih2 => intro g; rw [ih1, ih2]

theorem sumOut_append (K : Var → Nat) : ∀ (l l' : List Var) (g : Asg → Rat),
    sumOut K (l ++ l') g = sumOut K l' (sumOut K l g)
  | [], _, _ => rfl
  | v :: l, l', g => by simp only [List.cons_append, sumOut]; exact sumOut_append K l l' _

/-- a function that ignores `v` is multiplied through the sum over `v` -/
theorem sumVar_mul_const (K : Var → Nat) (v : Var) (c g : Asg → Rat)
    (hc : ∀ a x, c (upd a v x) = c a) (a : Asg) :
    sumVar K v (fun b => c b * g b) a = c a * sumVar K v g a := by
  simp only [sumVar_eq]
  rw [Finset.mul_sum]
  apply Finset.sum_congr rfl
  intro x _
  rw [hc]

end PgmVerif
