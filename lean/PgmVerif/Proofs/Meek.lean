/-
  Proofs/Meek.lean — soundness of the orientation rules that `PC.skeleton_to_pdag` applies after the
  v-structures (Meek's rules R1–R3), stated for ONE member of the Markov equivalence class: whenever the
  premises of a rule hold in an acyclic graph `E` that has no unshielded collider beyond those of the
  pattern, the edge the rule orients has that direction in `E`.  Since this holds for every member, an
  edge oriented by a rule is compelled.
-/
import PgmVerif.Proofs.Acyclic
namespace PgmVerif
open Relation

/-- adjacency in a directed edge list -/
def AdjD (E : List (Var × Var)) (a b : Var) : Prop := (a, b) ∈ E ∨ (b, a) ∈ E

/-- unshielded collider a → b ← c -/
def Collider (E : List (Var × Var)) (a b c : Var) : Prop :=
  (a, b) ∈ E ∧ (c, b) ∈ E ∧ a ≠ c ∧ ¬ AdjD E a c

/-- **R1**: a → b, b – c, a and c non-adjacent, and a → b ← c is not a v-structure of the class ⇒ b → c -/
theorem meek_rule1 (E : List (Var × Var)) (a b c : Var)
    (hab : (a, b) ∈ E) (hbc : AdjD E b c) (hne : a ≠ c) (hac : ¬ AdjD E a c)
    (hnov : ¬ Collider E a b c) : (b, c) ∈ E := by
  rcases hbc with h | h
  · exact h
  · exact absurd ⟨hab, h, hne, hac⟩ hnov

/-- **R2**: a → b → c and a – c ⇒ a → c (the other direction closes a directed cycle) -/
theorem meek_rule2 (E : List (Var × Var)) (hacyc : Acyclic E) (a b c : Var)
    (hab : (a, b) ∈ E) (hbc : (b, c) ∈ E) (hadj : AdjD E a c) : (a, c) ∈ E := by
  rcases hadj with h | h
  · exact h
  · exact absurd (TransGen.tail (TransGen.tail (TransGen.single hab) hbc) h) (hacyc a)

/-- **R3**: a – b, a – c, a – d, c → b, d → b, c and d non-adjacent, and c → a ← d is not a v-structure of the class ⇒ a → b -/
theorem meek_rule3 (E : List (Var × Var)) (hacyc : Acyclic E) (a b c d : Var)
    (hcb : (c, b) ∈ E) (hdb : (d, b) ∈ E) (hab : AdjD E a b) (hac : AdjD E a c) (had : AdjD E a d)
    (hne : c ≠ d) (hcd : ¬ AdjD E c d) (hnov : ¬ Collider E c a d) : (a, b) ∈ E := by
  rcases hab with h | hba
  · exact h
  · -- b → a: then a → c would close the cycle a → c → b → a, so c → a; likewise d → a; an unshielded collider at a
    have hca : (c, a) ∈ E := by
      rcases hac with h | h
      · exact absurd (TransGen.tail (TransGen.tail (TransGen.single h) hcb) hba) (hacyc a)
      · exact h
    have hda : (d, a) ∈ E := by
      rcases had with h | h
      · exact absurd (TransGen.tail (TransGen.tail (TransGen.single h) hdb) hba) (hacyc a)
      · exact h
    exact absurd ⟨hca, hda, hne, hcd⟩ hnov

/-- **R4** (needed only with background knowledge; `skeleton_to_pdag` does not apply it): d → c → b, a – b, a – d, b and d
    non-adjacent, and b → a ← d is not a v-structure of the class ⇒ a → b -/
theorem meek_rule4 (E : List (Var × Var)) (hacyc : Acyclic E) (a b c d : Var)
    (hdc : (d, c) ∈ E) (hcb : (c, b) ∈ E) (hab : AdjD E a b) (had : AdjD E a d)
    (hne : b ≠ d) (hbd : ¬ AdjD E b d) (hnov : ¬ Collider E b a d) : (a, b) ∈ E := by
  rcases hab with h | hba
  · exact h
  · have hda : (d, a) ∈ E := by
      rcases had with h | h
      · exact absurd (TransGen.tail (TransGen.tail (TransGen.tail (TransGen.single h) hdc) hcb) hba) (hacyc a)
      · exact h
    exact absurd ⟨hba, hda, hne, hbd⟩ hnov

end PgmVerif
